#!/usr/bin/env python3
"""Regenerates MANIFEST.json from harness/cXX/check.json files (claimed = has check.json with "claimed": true or absent flag)."""
import json, os, re, subprocess
V = os.path.dirname(os.path.abspath(__file__))
props = [json.loads(l) for l in open(os.path.join(V, "properties.jsonl"))]
checks, na = [], []
claimed = set(open(os.path.join(V, "claimed.txt")).read().split())
pending = json.load(open(os.path.join(V, "pending.json"))) if os.path.exists(os.path.join(V, "pending.json")) else {}
for p in props:
    pid = p["id"]
    cp = os.path.join(V, "harness", pid.lower(), "check.json")
    if os.path.exists(cp) and pid in claimed:
        c = json.load(open(cp))
        checks.append({
            "property_id": pid,
            "quick_cmd": f"./vcheck {pid} quick",
            "thorough_cmd": f"./vcheck {pid} thorough",
            "evidence_file": f"/verif/evidence/{pid}.json",
            "replay_cmd_template": f"./vcheck {pid} replay {{path}}",
            "engine": c.get("engine", "rapid+go-test"),
            "level_claimed": {"category": c["level"], "text": c.get("level_text", ""), "design_ref": f"DESIGN.md section 3, {pid}"},
            "level_note": c.get("level_note", "; ".join(c.get("assumptions", []))),
            "technique": c.get("technique", "property-based testing (pgregory.net/rapid) against an explicit oracle"),
        })
    else:
        na.append({"property_id": pid, "reason": pending.get(pid, "check not built yet in this session; no claim is made")})
hooks_commits = []
hp = os.path.join(V, "hooks.json")
hooks = json.load(open(hp)) if os.path.exists(hp) else {"source_commits": []}
m = {
    "version": 1,
    "setup_cmd": "./vcheck setup",
    "hooks": {
        "guard": "verif",
        "enable": "go test -tags verif (the harness module replaces github.com/anyproto/any-sync with /repo, so every run rebuilds /repo's working tree)",
        "baseline_off_cmd": "cd /repo && GOFLAGS=-mod=mod GOPROXY=off go test -json -vet=off -count=1 -timeout 25m ./...",
        "source_commits": hooks.get("source_commits", []),
        "add_only": True,
    },
    "engines": json.load(open(os.path.join(V, "engines.json"))) if os.path.exists(os.path.join(V, "engines.json")) else [],
    "checks": checks,
    "notes": "Every check is ./vcheck <ID> quick|thorough (see DESIGN.md 1.2). Exit 2 = inconclusive (build error / time budget), never a violation.",
    "not_applicable": na,
}
json.dump(m, open(os.path.join(V, "MANIFEST.json"), "w"), indent=1)
print("claimed:", [c["property_id"] for c in checks])
