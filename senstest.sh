#!/bin/bash
# usage: senstest.sh <ID> <tier> <patchfile|-> ; with '-' reads a python edit script on stdin: lines "FILE\nOLD\n===\nNEW\n"
# Creates /tmp/wt-sens-$ID (worktree of /repo HEAD), applies the patch, runs the check with VERIF_REPO, removes worktree.
ID=$1; TIER=$2; PATCH=$3
WT=/tmp/wt-sens-$ID-$$
git -C /repo worktree add -q --detach $WT HEAD || exit 3
if ! git -C $WT apply --whitespace=nowarn "$PATCH"; then echo "PATCH DID NOT APPLY"; git -C /repo worktree remove --force $WT; exit 3; fi
(cd $WT && GOFLAGS=-mod=mod GOPROXY=off go build ./... ) || { echo "DOES NOT COMPILE"; git -C /repo worktree remove --force $WT; exit 3; }
cd /verif && VERIF_REPO=$WT ./vcheck $ID $TIER | tail -4
rc=${PIPESTATUS[0]}
git -C /repo worktree remove --force $WT
rm -rf /verif/replays/$ID
echo "senstest rc=$rc"
exit $rc
