package c15

import (
	"encoding/json"
	"os"
	"testing"
)

// TestDbg replays $C15_CASE (a replay file or a bare case) with the engine log printed.
func TestDbg(t *testing.T) {
	outerT = t
	p := os.Getenv("C15_CASE")
	if p == "" {
		t.Skip("no C15_CASE")
	}
	b, err := os.ReadFile(p)
	if err != nil {
		t.Fatal(err)
	}
	var rf struct {
		Case Case `json:"case"`
	}
	if err := json.Unmarshal(b, &rf); err != nil || rf.Case.Ops == nil {
		if err := json.Unmarshal(b, &rf.Case); err != nil {
			t.Fatal(err)
		}
	}
	dbgLog = true
	if _, err := run(rf.Case); err != nil {
		t.Fatal(err)
	}
}
