// Package c15 decides property C15: deletion is permanent — once an object's deletion has
// been recorded in a space (settings log or locally) it is never resurrected or re-advertised,
// children bound to it are queued for deletion with it, all of it survives restart, and the
// deleted-id set derived from the settings log is grow-only and order-independent.
//
// Engine: harness/internal/delsim (one real local node + two real remote members).
// Everything that judges lives here. The reference is a model kept by the harness:
//
//	D        grow-only set of ids carried by ObjectDelete contents of the settings records
//	         STORED in the local settings log, decoded by the harness from the raw bytes
//	         (protobuf only; no settings-state code). A record is "recorded locally" exactly
//	         when the settings tree attached and stored it, which is also when the settings
//	         object's Update/Rebuild callback has seen it (checks run between operations).
//	status   highest DeletedStatus ever observed per id (must never decrease)
//	left     ids that were observed absent from the advertised index after being tombstoned
//	gone     ids that were observed tombstoned without any stored change
package c15

import (
	"context"
	"errors"
	"fmt"
	"os"
	"sort"
	"strings"
	"testing"

	"pgregory.net/rapid"

	"github.com/anyproto/any-sync/commonspace/headsync/headstorage"
	"github.com/anyproto/any-sync/commonspace/object/tree/objecttree"
	"github.com/anyproto/any-sync/commonspace/object/tree/treestorage"
	"github.com/anyproto/any-sync/commonspace/spacestorage"

	"verif/harness/internal/aclgen"
	"verif/harness/internal/delsim"
	"verif/harness/internal/vstat"
)

const prop = "C15"

// sigBoundChildWindow names a genuine defect found by this check (fixed in /repo by 1acf2ec =
// proposed_fix_2.diff; regression TestRegBoundChildWindow): deleter.deleteBoundChildren deletes a
// bound child's storage before the child has any tombstone, so in the window between
// TreeManager.DeleteTree(child) and state.Delete(child) a head update / put / fetch recreated it.
// Only while known_findings.json lists the signature with status "known" (it is "fixed" now, so
// the guard is inactive) interrupts placed AFTER a call-out on an id whose status is still
// NotDeleted are not performed (excluded by construction, counted in Outcome.Excluded).
const sigBoundChildWindow = "bound-child-deleted-before-tombstoned"

// noExclusion switches the by-construction exclusion off (TestRegBoundChildWindow only);
// windowExercised reports that the last run performed an interrupt in exactly that window.
var noExclusion, windowExercised bool

var outerT *testing.T

var dbgLog = os.Getenv("VERIF_DEBUG") != ""

func TestMain(m *testing.M) { vstat.Main(m, prop) }

type Op struct {
	K string `json:"k"`
	A int    `json:"a,omitempty"`
	B int    `json:"b,omitempty"`
	C int    `json:"c,omitempty"`
	P int    `json:"p,omitempty"` // async cases: index-queue entries processed right after the op
}

type Case struct {
	Seed  uint64 `json:"seed"`
	Async bool   `json:"async"` // head-storage updates reach the index through a FIFO pumped by ops
	Ops   []Op   `json:"ops"`
}

// interrupt kinds of a worker op (B)
const (
	intNone = iota
	intHeadUpdate
	intLateChild
	intPut
	intFetch
	intShutdown // the deletion manager is closed while the worker runs (its context is cancelled), restart follows
	intCrash    // the process dies right after DeleteTree removed the storage, before the status is written; restart follows
)

func genOp(rt *rapid.T, async bool) Op {
	sel := rapid.IntRange(0, 23)
	pref := rapid.SampledFrom([]int{0, 1, 1}) // prefer ids in a deletion stage
	switch k := rapid.IntRange(0, 40).Draw(rt, "kind"); {
	case k < 2:
		return Op{K: "create", A: rapid.IntRange(0, 1).Draw(rt, "where"), B: rapid.IntRange(0, 2).Draw(rt, "edits")}
	case k < 5:
		return Op{K: "child", A: sel.Draw(rt, "parent"), B: rapid.SampledFrom([]int{0, 0, 0, 1}).Draw(rt, "where") + 2*pref.Draw(rt, "pref"), C: rapid.IntRange(0, 1).Draw(rt, "edit")}
	case k < 8:
		return Op{K: "edit", A: sel.Draw(rt, "obj"), B: rapid.SampledFrom([]int{0, 1, 1}).Draw(rt, "who"), C: pref.Draw(rt, "pref")}
	case k < 12:
		return Op{K: "ldelete", A: sel.Draw(rt, "obj"), B: rapid.SampledFrom([]int{0, 0, 1}).Draw(rt, "snapshot")}
	case k < 18:
		return Op{K: "rdelete", A: rapid.IntRange(1, 2).Draw(rt, "member"), B: sel.Draw(rt, "obj"), C: rapid.IntRange(0, 7).Draw(rt, "flags")}
	case k < 20:
		return Op{K: "rsync", A: rapid.IntRange(1, 2).Draw(rt, "member")}
	case k < 27:
		return Op{K: "deliver", A: rapid.IntRange(0, 9).Draw(rt, "idx"), B: rapid.SampledFrom([]int{0, 0, 0, 0, 0, 1, 2, 3}).Draw(rt, "fate")}
	case k < 29:
		return Op{K: "put", A: sel.Draw(rt, "obj"), C: pref.Draw(rt, "pref")}
	case k < 32:
		return Op{K: "fetch", A: sel.Draw(rt, "obj"), C: pref.Draw(rt, "pref")}
	case k < 36:
		return Op{K: "worker", A: rapid.IntRange(0, 15).Draw(rt, "perm"), B: rapid.SampledFrom([]int{0, 0, 1, 1, 1, 2, 2, 2, 3, 4, 5, 6}).Draw(rt, "interrupt"), C: rapid.IntRange(0, 15).Draw(rt, "target")}
	case k < 39:
		return Op{K: "restart", A: rapid.SampledFrom([]int{0, 0, 1}).Draw(rt, "workerAtStart"), B: rapid.IntRange(0, 15).Draw(rt, "perm")}
	default:
		if async {
			return Op{K: "pump", A: rapid.IntRange(1, 3).Draw(rt, "n")}
		}
		return Op{K: "deliver", A: rapid.IntRange(0, 9).Draw(rt, "idx")}
	}
}

func genCase(rt *rapid.T) Case {
	c := Case{
		Seed:  rapid.Uint64Range(1, 1<<32).Draw(rt, "seed"),
		Async: rapid.IntRange(0, 2).Draw(rt, "async") == 0,
	}
	n := rapid.IntRange(6, vstat.Pick(32, 64)).Draw(rt, "nops")
	for i := 0; i < n; i++ {
		op := genOp(rt, c.Async)
		if c.Async && op.K != "pump" {
			op.P = rapid.SampledFrom([]int{0, 0, 0, 1, 1, 2, 4}).Draw(rt, "pumpAfter")
		}
		c.Ops = append(c.Ops, op)
	}
	return c
}

// ---- the checker ---------------------------------------------------------------------------

type checker struct {
	w          *delsim.World
	l          *delsim.Local
	classes    map[string]bool
	D          map[string]bool
	status     map[string]headstorage.DeletedStatus
	left       map[string]bool
	gone       map[string]bool
	sut        map[string]bool // DeletedIds of the settings object at the previous check
	logIds     map[string]bool // ids of the settings records stored locally at the previous check
	applied    []string        // order in which records entered the local log
	mustBeD    []string        // ids whose local deletion succeeded since the last check
	scratchAt  int
	nontrivial bool
	intErr     error // violation found inside a worker call-out
	excluded   string
	steps      int
}

func newChecker(w *delsim.World) *checker {
	return &checker{w: w, l: w.Local, classes: map[string]bool{}, D: map[string]bool{}, status: map[string]headstorage.DeletedStatus{},
		left: map[string]bool{}, gone: map[string]bool{}, sut: map[string]bool{}, logIds: map[string]bool{}, scratchAt: -1}
}

func (c *checker) name(id string) string {
	if o, ok := c.w.ById[id]; ok {
		k := "obj"
		if o.Derived {
			k = fmt.Sprintf("child-of-%d", o.Parent)
		}
		return fmt.Sprintf("%s#%d(%s)", k, o.Idx, delsim.Short(id))
	}
	return delsim.Short(id)
}

// knownIds: every object the harness ever made plus every id of the model set, sorted.
func (c *checker) knownIds() []string {
	seen := map[string]bool{}
	var ids []string
	for _, o := range c.w.Objs {
		seen[o.Id] = true
		ids = append(ids, o.Id)
	}
	for id := range c.D {
		if !seen[id] {
			ids = append(ids, id)
		}
	}
	sort.Strings(ids)
	return ids
}

func (c *checker) statusOf(id string) (headstorage.DeletedStatus, bool, error) {
	e, ok, err := c.l.Entry(id)
	return e.DeletedStatus, ok, err
}

// tomb: the deletion of id has been recorded (model) or its durable status says so.
func (c *checker) tomb(id string) (bool, error) {
	if c.D[id] {
		return true, nil
	}
	st, _, err := c.statusOf(id)
	return st >= headstorage.DeletedStatusQueued, err
}

func sortedKeys(m map[string]bool) []string {
	k := make([]string, 0, len(m))
	for id := range m {
		k = append(k, id)
	}
	sort.Strings(k)
	return k
}

func (c *checker) ancestors(id string) map[string]bool {
	out := map[string]bool{}
	var walk func(string)
	walk = func(x string) {
		r := c.w.RecById[x]
		if r == nil {
			return
		}
		for _, p := range r.Prev {
			if !out[p] {
				out[p] = true
				walk(p)
			}
		}
	}
	walk(id)
	return out
}

// check runs the always-invariants between two operations.
func (c *checker) check(step string) error {
	c.steps++
	l := c.l
	// ---- the settings log and the model set D ------------------------------------------------
	log, err := l.SettingsLog()
	if err != nil {
		return fmt.Errorf("%s: cannot read the stored settings log: %v", step, err)
	}
	for id := range c.logIds {
		if _, ok := log[id]; !ok {
			return fmt.Errorf("%s: settings record %s vanished from the stored settings log", step, delsim.Short(id))
		}
	}
	var fresh []string
	for id := range log {
		if !c.logIds[id] {
			fresh = append(fresh, id)
		}
	}
	sort.Slice(fresh, func(i, j int) bool { return c.seqOf(fresh[i]) < c.seqOf(fresh[j]) })
	for _, id := range fresh {
		r := log[id]
		c.logIds[id] = true
		for _, d := range r.Ids {
			c.D[d] = true
		}
		known := c.w.RecById[id]
		if known == nil {
			continue // settings root
		}
		if r.Snapshot {
			if known.Author == 0 {
				c.classes["snapshot-record-local"] = true
			} else {
				c.classes["snapshot-record-remote"] = true
			}
		}
		// concurrent branches: a record of another author that is neither ancestor nor descendant
		anc := c.ancestors(id)
		for _, prev := range c.applied {
			p := c.w.RecById[prev]
			if p == nil || p.Author == known.Author || anc[prev] || c.ancestors(prev)[id] {
				continue
			}
			if p.Seq < known.Seq {
				c.classes["concurrent-branches-in-production-order"] = true
			} else {
				c.classes["concurrent-branches-reversed"] = true
			}
		}
		c.applied = append(c.applied, id)
	}
	for _, id := range c.mustBeD {
		if !c.D[id] {
			return fmt.Errorf("%s: DeleteObject(%s) returned success but the stored settings log has no deletion record for it", step, c.name(id))
		}
	}
	c.mustBeD = nil
	// ---- settings state: equals the from-scratch derivation, only grows ---------------------------
	if l.LastState == nil {
		return fmt.Errorf("%s: the settings object never reported a state to the deletion manager in this lifetime", step)
	}
	sut := map[string]bool{}
	for id := range l.LastState.DeletedIds {
		sut[id] = true
	}
	if a, b := sortedKeys(sut), sortedKeys(c.D); strings.Join(a, ",") != strings.Join(b, ",") {
		return fmt.Errorf("%s: settings state DeletedIds = {%s} but the stored settings log deletes {%s} (derived from scratch by the harness)", step, c.names(a), c.names(b))
	}
	for id := range c.sut {
		if !sut[id] {
			return fmt.Errorf("%s: settings state DeletedIds lost %s (the set must only grow)", step, c.name(id))
		}
	}
	c.sut = sut
	if key := len(log)*1000 + l.Lifetimes; key != c.scratchAt {
		c.scratchAt = key
		scratch, err := l.ScratchDerivation()
		if err != nil {
			return fmt.Errorf("%s: from-scratch derivation (state builder over a history tree) failed: %v", step, err)
		}
		sc := map[string]bool{}
		for id := range scratch {
			sc[id] = true
		}
		if a, b := sortedKeys(sut), sortedKeys(sc); strings.Join(a, ",") != strings.Join(b, ",") {
			return fmt.Errorf("%s: incremental settings state {%s} differs from the state builder's from-scratch derivation {%s}", step, c.names(a), c.names(b))
		}
	}
	// ---- tombstones ------------------------------------------------------------------------------
	index := l.IndexIds()
	drained := len(l.IndexQ) == 0
	for _, id := range c.knownIds() {
		st, ok, err := c.statusOf(id)
		if err != nil {
			return fmt.Errorf("%s: head entry of %s: %v", step, c.name(id), err)
		}
		if c.D[id] && (!ok || st < headstorage.DeletedStatusQueued) {
			return fmt.Errorf("%s: deletion of %s is recorded in the settings log but its head entry status is %d (entry exists=%v), expected at least Queued", step, c.name(id), st, ok)
		}
		if st < c.status[id] {
			return fmt.Errorf("%s: DeletedStatus of %s decreased from %d to %d (entry exists=%v)", step, c.name(id), c.status[id], st, ok)
		}
		c.status[id] = st
		if st < headstorage.DeletedStatusQueued {
			continue
		}
		stored, err := l.StoredChanges(id)
		if err != nil {
			return err
		}
		if st == headstorage.DeletedStatusDeleted && stored != 0 {
			return fmt.Errorf("%s: %s has status Deleted but %d of its changes are in the changes collection", step, c.name(id), stored)
		}
		if c.gone[id] && stored != 0 {
			return fmt.Errorf("%s: %s was tombstoned without local storage and has been recreated (%d stored changes)", step, c.name(id), stored)
		}
		if stored == 0 {
			c.gone[id] = true
		}
		if index[id] {
			if drained {
				return fmt.Errorf("%s: %s has DeletedStatus %d but is in the advertised head index", step, c.name(id), st)
			}
			if c.left[id] {
				return fmt.Errorf("%s: %s returned to the advertised head index after it had left it (status %d)", step, c.name(id), st)
			}
		} else {
			c.left[id] = true
		}
	}
	// ---- children ----------------------------------------------------------------------------------
	for _, o := range c.w.Objs {
		if o.Parent < 0 {
			continue
		}
		cst, ok, _ := c.statusOf(o.Id)
		if !ok {
			continue
		}
		pst, _, _ := c.statusOf(c.w.Objs[o.Parent].Id)
		if pst == headstorage.DeletedStatusDeleted && cst < headstorage.DeletedStatusQueued {
			return fmt.Errorf("%s: parent %s is Deleted but its bound child %s still has status %d", step, c.name(c.w.Objs[o.Parent].Id), c.name(o.Id), cst)
		}
	}
	return nil
}

func (c *checker) seqOf(id string) int {
	if r := c.w.RecById[id]; r != nil {
		return r.Seq
	}
	return -1
}

func (c *checker) names(ids []string) string {
	out := make([]string, len(ids))
	for i, id := range ids {
		out[i] = c.name(id)
	}
	return strings.Join(out, " ")
}

// pick selects an object: pref=1 prefers tombstoned ones.
func (c *checker) pick(sel, pref int, filter func(*delsim.Obj) bool) *delsim.Obj {
	var all, tombs []*delsim.Obj
	for _, o := range c.w.Objs {
		if filter != nil && !filter(o) {
			continue
		}
		all = append(all, o)
		if t, _ := c.tomb(o.Id); t {
			tombs = append(tombs, o)
		}
	}
	if pref == 1 && len(tombs) > 0 {
		return tombs[sel%len(tombs)]
	}
	if len(all) == 0 {
		return nil
	}
	return all[sel%len(all)]
}

func plain(o *delsim.Obj) bool { return !o.Derived }

// ---- operations with their own verdicts ----------------------------------------------------------

func (c *checker) opCreate(where, edits int) error {
	w := c.w
	author := 0
	if where == 1 {
		author = 1
	}
	o, err := w.NewPlainRoot(author)
	if err != nil {
		return err
	}
	if err := w.Remotes[1].PutObject(o); err != nil {
		return fmt.Errorf("harness: remote put: %v", err)
	}
	if where == 0 {
		if _, err := c.l.TM.Put(context.Background(), o.Root); err != nil {
			return fmt.Errorf("creating a fresh object %s locally failed: %v", c.name(o.Id), err)
		}
	}
	for i := 0; i < edits; i++ {
		if where == 0 {
			err = c.l.EditLocal(o.Id)
		} else {
			err = w.Remotes[1].Edit(o.Id)
		}
		if err != nil {
			return fmt.Errorf("harness: initial edit: %v", err)
		}
	}
	return nil
}

// putChild creates a child bound to parent locally (and on member 1) and judges the late-child rule.
func (c *checker) putChild(parent *delsim.Obj, local bool, step string) (*delsim.Obj, error) {
	w := c.w
	o, err := w.NewChildRoot(parent.Idx)
	if err != nil {
		return nil, err
	}
	if err := w.Remotes[1].PutObject(o); err != nil {
		return nil, fmt.Errorf("harness: remote put of child: %v", err)
	}
	if !local {
		return o, nil
	}
	pst, pok, _ := c.statusOf(parent.Id)
	_, err = c.l.TM.Put(context.Background(), o.Root)
	if err != nil {
		if !pok && errors.Is(err, errParentNotFound) {
			return o, nil
		}
		w.Logf("  child put failed: %v", err)
		if pok {
			return nil, fmt.Errorf("%s: creating child %s of locally known parent %s failed: %v", step, c.name(o.Id), c.name(parent.Id), err)
		}
		return o, nil
	}
	if pst >= headstorage.DeletedStatusQueued {
		c.classes["late-child"] = true
		c.nontrivial = true
		cst, _, _ := c.statusOf(o.Id)
		if cst < headstorage.DeletedStatusQueued {
			return nil, fmt.Errorf("%s: child %s was created while its parent %s had DeletedStatus %d, but the child's status is %d (expected Queued at creation)", step, c.name(o.Id), c.name(parent.Id), pst, cst)
		}
	}
	return o, nil
}

func (c *checker) opPut(o *delsim.Obj, step string) error {
	pre, err := c.tomb(o.Id)
	if err != nil {
		return err
	}
	req := c.l.Requests
	_, perr := c.l.TM.Put(context.Background(), o.Root)
	c.w.Logf("  put %s (tomb=%v) -> %v", c.name(o.Id), pre, perr)
	if pre {
		c.classes["put-after-delete"] = true
		if !errors.Is(perr, spacestorage.ErrTreeStorageAlreadyDeleted) {
			return fmt.Errorf("%s: PutSyncTree of deleted %s returned %v, expected ErrTreeStorageAlreadyDeleted", step, c.name(o.Id), perr)
		}
	}
	if c.l.Requests != req {
		return fmt.Errorf("%s: PutSyncTree of %s issued %d tree request(s)", step, c.name(o.Id), c.l.Requests-req)
	}
	return nil
}

func (c *checker) opFetch(o *delsim.Obj, step string) error {
	pre, err := c.tomb(o.Id)
	if err != nil {
		return err
	}
	stored, err := c.l.StoredChanges(o.Id)
	if err != nil {
		return err
	}
	req := c.l.Requests
	_, ferr := c.l.Fetch(o.Id, 1)
	c.w.Logf("  fetch %s (tomb=%v stored=%d) -> %v", c.name(o.Id), pre, stored, ferr)
	if !pre {
		return nil
	}
	if c.l.Requests != req {
		return fmt.Errorf("%s: fetching deleted %s issued %d tree request(s) to the network", step, c.name(o.Id), c.l.Requests-req)
	}
	if stored == 0 {
		c.classes["fetch-after-delete"] = true
		if !errors.Is(ferr, spacestorage.ErrTreeStorageAlreadyDeleted) {
			return fmt.Errorf("%s: BuildSyncTreeOrGetRemote of deleted, locally absent %s returned %v, expected ErrTreeStorageAlreadyDeleted", step, c.name(o.Id), ferr)
		}
	}
	return nil
}

func (c *checker) opDeliver(m *delsim.Msg, step string) error {
	l := c.l
	if m.ObjectId == c.w.SettingsId {
		res, err := l.Deliver(m)
		if err != nil {
			return fmt.Errorf("harness: deliver: %v", err)
		}
		if res.Requested && l.DropRequests {
			c.classes["settings-record-left-unattached"] = true
		} else if res.Requested {
			c.classes["settings-full-sync-after-head-update"] = true
		}
		c.w.Logf("  settings head update from member %d recs=%s: requested=%v err=%v", m.From, delsim.ShortAll(m.RecIds), res.Requested, res.HandlerErr)
		return nil
	}
	pre, err := c.tomb(m.ObjectId)
	if err != nil {
		return err
	}
	stored, err := l.StoredChanges(m.ObjectId)
	if err != nil {
		return err
	}
	req := l.Requests
	res, err := l.Deliver(m)
	if err != nil {
		return fmt.Errorf("harness: deliver: %v", err)
	}
	c.w.Logf("  head update for %s (tomb=%v stored=%d): noObject=%v fetchErr=%v handlerErr=%v", c.name(m.ObjectId), pre, stored, res.NoObject, res.FetchErr, res.HandlerErr)
	if !pre {
		return nil
	}
	c.nontrivial = true
	if stored == 0 {
		c.classes["head-update-after-delete"] = true
		if l.Requests != req {
			return fmt.Errorf("%s: a head update for deleted, locally absent %s made the node send %d tree request(s)", step, c.name(m.ObjectId), l.Requests-req)
		}
		if !res.NoObject || !errors.Is(res.FetchErr, spacestorage.ErrTreeStorageAlreadyDeleted) {
			return fmt.Errorf("%s: a head update for deleted, locally absent %s was not refused as already deleted (object obtained=%v, error %v)", step, c.name(m.ObjectId), !res.NoObject, res.FetchErr)
		}
		after, _ := l.StoredChanges(m.ObjectId)
		if after != 0 {
			return fmt.Errorf("%s: a head update recreated deleted %s (%d stored changes)", step, c.name(m.ObjectId), after)
		}
	} else {
		c.classes["head-update-while-queued"] = true
	}
	return nil
}

// opWorker runs the deletion worker once, with an interrupting action at one of its call-outs.
func (c *checker) opWorker(op Op, step string) error {
	l := c.l
	queued := l.DelState.GetQueued()
	sort.Strings(queued)
	// candidates for the interrupt: queued ids and their locally known children
	cand := append([]string(nil), queued...)
	inQ := map[string]bool{}
	for _, id := range queued {
		inQ[id] = true
	}
	for _, o := range c.w.Objs {
		if o.Parent >= 0 && inQ[c.w.Objs[o.Parent].Id] && !inQ[o.Id] {
			if _, ok, _ := c.statusOf(o.Id); ok {
				cand = append(cand, o.Id)
			}
		}
	}
	// C: low three bits pick the target, bit 3 moves the interrupt from "before the tree
	// manager acts" to "right before the successful call returns to the worker"
	target := ""
	if op.B != intNone && len(cand) > 0 {
		target = cand[(op.C&7)%len(cand)]
	}
	after := op.C&8 != 0 && op.B != intShutdown && op.B != intCrash
	fired := false
	hook := func(call, id string) {
		if fired || id != target || c.intErr != nil {
			return
		}
		fired = true
		when := "before"
		if after {
			when = "after"
			if st, _, _ := c.statusOf(id); st < headstorage.DeletedStatusQueued {
				if !noExclusion && vstat.KnownSignature(prop, sigBoundChildWindow) {
					c.excluded = sigBoundChildWindow
					c.w.Logf("  worker call-out %s(%s): interrupt after the call-out skipped (known finding %s)", call, c.name(id), sigBoundChildWindow)
					return
				}
				windowExercised = true
			}
		}
		c.w.Logf("  worker call-out %s(%s): interrupt %d %s the tree manager acts", call, c.name(id), op.B, when)
		c.intErr = c.interrupt(op.B, call, id, step+" [interrupt "+when+" "+call+"]")
		if after && c.intErr == nil {
			c.classes["interrupt-after-"+call] = true
		}
	}
	if after {
		l.TM.AfterCallout = hook
	} else {
		l.TM.OnCallout = hook
	}
	if op.B == intCrash {
		l.TM.CrashAfterDelete = target
	}
	l.RunWorker(op.A)
	l.TM.OnCallout, l.TM.AfterCallout = nil, nil
	if c.intErr != nil {
		return c.intErr
	}
	if l.TM.Crashed {
		// the process is gone: whatever the worker left half-done must be repaired by the next start
		if op.B == intCrash {
			c.classes["crash-between-storage-deletion-and-status"] = true
		} else {
			c.classes["shutdown-during-worker-run"] = true
		}
		return c.opRestart(Op{K: "restart"}, step+" [restart after the worker was cut short]")
	}
	if len(queued) > 0 && op.K == "worker" {
		c.classes["worker-run-with-queue"] = true
	}
	still := map[string]bool{}
	for _, id := range l.DelState.GetQueued() {
		still[id] = true
	}
	for _, id := range queued {
		if ferr, failed := l.TM.Failed[id]; failed {
			c.w.Logf("  DeleteTree(%s) failed: %v", c.name(id), ferr)
			c.classes["worker-callout-failed"] = true
			continue
		}
		st, _, _ := c.statusOf(id)
		if st != headstorage.DeletedStatusDeleted {
			return fmt.Errorf("%s: %s was queued for deletion before the worker run and has status %d after it (expected Deleted)", step, c.name(id), st)
		}
		if still[id] {
			return fmt.Errorf("%s: %s is still in the deletion queue after the worker deleted it", step, c.name(id))
		}
		if n, _ := l.StoredChanges(id); n != 0 {
			return fmt.Errorf("%s: after the worker run %d changes of deleted %s remain in the changes collection", step, n, c.name(id))
		}
		if _, err := l.Space.TreeStorage(context.Background(), id); !errors.Is(err, treestorage.ErrUnknownTreeId) {
			return fmt.Errorf("%s: after the worker run TreeStorage(%s) returns %v, expected ErrUnknownTreeId", step, c.name(id), err)
		}
	}
	return nil
}

// interrupt is performed inside the worker's call-out for id, before the tree manager acts.
func (c *checker) interrupt(kind int, call, id, step string) error {
	o := c.w.ById[id]
	switch kind {
	case intHeadUpdate:
		if o == nil {
			return nil
		}
		r := c.w.Remotes[1]
		before := len(c.w.Pool)
		if err := r.Edit(id); err != nil {
			return fmt.Errorf("harness: remote edit: %v", err)
		}
		if len(c.w.Pool) != before+1 {
			return nil
		}
		m := c.w.Pool[before]
		c.w.Pool = c.w.Pool[:before]
		c.classes["late-head-update-at-"+call] = true
		return c.opDeliver(m, step)
	case intLateChild:
		if o == nil || o.Derived {
			return nil
		}
		_, err := c.putChild(o, true, step)
		if err == nil {
			c.classes["late-child-at-"+call] = true
		}
		return err
	case intPut:
		if o == nil {
			return nil
		}
		return c.opPut(o, step)
	case intFetch:
		if o == nil {
			return nil
		}
		return c.opFetch(o, step)
	case intShutdown:
		c.l.TM.Shutdown()
	}
	return nil
}

func (c *checker) opRestart(op Op, step string) error {
	l := c.l
	var queuedIds, deletedIds []string
	for _, id := range c.knownIds() {
		switch st, _, _ := c.statusOf(id); st {
		case headstorage.DeletedStatusQueued:
			queuedIds = append(queuedIds, id)
		case headstorage.DeletedStatusDeleted:
			deletedIds = append(deletedIds, id)
		}
	}
	if len(queuedIds) > 0 && op.K == "restart" {
		c.classes["restart-between-queued-and-deleted"] = true
		c.nontrivial = true
	}
	if len(l.IndexQ) > 0 {
		c.classes["restart-with-pending-index-updates"] = true
	}
	err := l.Restart(func() error {
		// right after deletionstate.Run: the in-memory mirror must hold what the durable statuses say
		inQ := map[string]bool{}
		for _, id := range l.DelState.GetQueued() {
			inQ[id] = true
		}
		for _, id := range queuedIds {
			if !inQ[id] {
				return fmt.Errorf("%s: %s had durable status Queued before the restart but is not in the deletion queue after deletionstate.Run", step, c.name(id))
			}
		}
		for _, id := range deletedIds {
			if !l.DelState.Exists(id) || inQ[id] {
				return fmt.Errorf("%s: %s had durable status Deleted before the restart; after deletionstate.Run exists=%v queued=%v", step, c.name(id), l.DelState.Exists(id), inQ[id])
			}
		}
		if op.A == 1 {
			c.classes["worker-before-settings-init"] = true
			return c.opWorker(Op{K: "worker", A: op.B}, step+" [worker at start]")
		}
		return nil
	})
	if err != nil {
		if strings.HasPrefix(err.Error(), step) {
			return err
		}
		return fmt.Errorf("%s: the node could not be restarted from its own database: %v", step, err)
	}
	return nil
}

var errParentNotFound = objecttree.ErrParentNotFound

// ---- run --------------------------------------------------------------------------------------------

func run(c Case) (out vstat.Outcome, err error) {
	berr := aclgen.Bubble(outerT, func() error {
		out, err = runInBubble(c)
		return nil
	})
	if berr != nil {
		return out, berr
	}
	return out, err
}

func runInBubble(cs Case) (out vstat.Outcome, err error) {
	windowExercised = false
	w, err := delsim.New(outerT, cs.Seed, cs.Async)
	if err != nil {
		return out, fmt.Errorf("setup: %w", err)
	}
	defer w.Close()
	c := newChecker(w)
	fail := func(e error) (vstat.Outcome, error) {
		return out, fmt.Errorf("%v\nlog tail:\n%s", e, tail(w.Log))
	}
	// prologue: one object created locally (edited, so it is advertised), one created by member 1
	if err := c.opCreate(0, 1); err != nil {
		return fail(err)
	}
	if err := c.opCreate(1, 1); err != nil {
		return fail(err)
	}
	c.l.Pump(-1)
	if err := c.check("prologue"); err != nil {
		return fail(err)
	}
	for i, op := range cs.Ops {
		step := fmt.Sprintf("op %d %+v", i, op)
		w.Logf("%s", step)
		var err error
		switch op.K {
		case "create":
			err = c.opCreate(op.A, op.B)
		case "child":
			if p := c.pick(op.A, op.B/2, plain); p != nil {
				var o *delsim.Obj
				o, err = c.putChild(p, op.B%2 == 0, step)
				if err == nil && o != nil && op.C == 1 {
					if e := w.Remotes[1].Edit(o.Id); e != nil {
						w.Logf("  remote edit of child failed: %v", e)
					}
				}
			}
		case "edit":
			if o := c.pick(op.A, op.C, nil); o != nil {
				if op.B == 0 {
					if e := c.l.EditLocal(o.Id); e != nil {
						w.Logf("  local edit of %s failed: %v", c.name(o.Id), e)
					}
				} else if e := w.Remotes[1].Edit(o.Id); e != nil {
					err = fmt.Errorf("harness: remote edit: %v", e)
				}
			}
		case "ldelete":
			if o := c.pick(op.A, 0, nil); o != nil {
				w.NextSnapshot = op.B == 1
				derr := c.l.Settings.DeleteObject(context.Background(), o.Id)
				w.NextSnapshot = false
				w.Logf("  DeleteObject(%s) snapshot=%v -> %v", c.name(o.Id), op.B == 1, derr)
				if derr == nil {
					c.mustBeD = append(c.mustBeD, o.Id)
					c.classes["local-delete"] = true
				}
			}
		case "rdelete":
			r := w.Remotes[1+(op.A+1)%2]
			o := c.pick(op.B, 0, nil)
			if o == nil {
				break
			}
			view := r.View()
			var ids []string
			add := func(id string) {
				if _, dup := view[id]; !dup {
					view[id] = struct{}{}
					ids = append(ids, id)
				}
			}
			add(o.Id)
			if op.C&2 != 0 && !o.Derived {
				for _, ch := range w.Children(o.Idx) {
					add(w.Objs[ch].Id)
				}
			}
			if op.C&4 != 0 {
				add(w.Objs[(o.Idx+1)%len(w.Objs)].Id)
			}
			if len(ids) == 0 {
				break
			}
			// the view passed to the change factory must not contain the ids being deleted
			rec, derr := r.Delete(ids, op.C&1 != 0)
			if derr != nil {
				err = fmt.Errorf("harness: remote delete: %v", derr)
				break
			}
			w.Logf("  member %d records deletion of %s snapshot=%v -> record %s prev=%s", r.Idx, c.names(ids), rec.Snapshot, delsim.Short(rec.Id), delsim.ShortAll(rec.Prev))
		case "rsync":
			// a member whose own replica rejects a record simply stays behind (not this property's business)
			if e := w.Remotes[1+(op.A+1)%2].CatchUp(); e != nil {
				w.Logf("  catch-up failed: %v", e)
				c.classes["remote-catch-up-rejected"] = true
			}
		case "deliver":
			if len(w.Pool) == 0 {
				break
			}
			i := op.A % len(w.Pool)
			m := w.Pool[i]
			if op.B != 1 {
				w.Pool = append(w.Pool[:i:i], w.Pool[i+1:]...)
			}
			if op.B == 2 {
				w.Logf("  drop message for %s", c.name(m.ObjectId))
				break
			}
			if i != 0 {
				c.classes["out-of-order-delivery"] = true
			}
			// fate 3: the update is handled but the full-sync request it triggers is lost
			c.l.DropRequests = op.B == 3
			err = c.opDeliver(m, step)
			c.l.DropRequests = false
		case "put":
			if o := c.pick(op.A, op.C, nil); o != nil {
				err = c.opPut(o, step)
			}
		case "fetch":
			if o := c.pick(op.A, op.C, nil); o != nil {
				err = c.opFetch(o, step)
			}
		case "worker":
			err = c.opWorker(op, step)
		case "restart":
			err = c.opRestart(op, step)
		case "pump":
			if n := c.l.Pump(op.A); n > 0 {
				c.classes["async-index-pump"] = true
			}
		}
		if err != nil {
			return fail(err)
		}
		if !cs.Async {
			c.l.Pump(-1)
		} else if op.P > 0 && c.l.Pump(op.P) > 0 {
			c.classes["async-index-pump"] = true
		}
		if err := c.check(step); err != nil {
			return fail(err)
		}
	}
	// ---- tail: drain the index queue, then restart + worker: everything queued ends Deleted --------
	c.l.Pump(-1)
	if err := c.check("tail: index queue drained"); err != nil {
		return fail(err)
	}
	if err := c.opRestart(Op{K: "tail-restart"}, "tail: restart"); err != nil {
		return fail(err)
	}
	c.l.Pump(-1)
	if err := c.check("tail: restart"); err != nil {
		return fail(err)
	}
	if err := c.opWorker(Op{K: "tail-worker"}, "tail: worker"); err != nil {
		return fail(err)
	}
	c.l.Pump(-1)
	if err := c.check("tail: worker"); err != nil {
		return fail(err)
	}
	for _, id := range c.knownIds() {
		if _, failed := c.l.TM.Failed[id]; failed {
			continue
		}
		if st, ok, _ := c.statusOf(id); ok && st == headstorage.DeletedStatusQueued {
			return fail(fmt.Errorf("tail: after restart and a worker run %s still has status Queued", c.name(id)))
		}
	}
	if dbgLog {
		fmt.Println(strings.Join(w.Log, "\n"))
	}
	out.Sig = vstat.HashJSON(cs)
	out.NonTrivial = c.nontrivial
	out.Excluded = c.excluded
	for k := range c.classes {
		out.Classes = append(out.Classes, k)
	}
	sort.Strings(out.Classes)
	vstat.Count("steps_checked", int64(c.steps))
	vstat.Count("settings_records", int64(len(c.applied)))
	vstat.Count("tree_requests", int64(c.l.Requests))
	return out, nil
}

func tail(log []string) string {
	if len(log) > 70 {
		log = log[len(log)-70:]
	}
	return strings.Join(log, "\n")
}

func TestRandom(t *testing.T) {
	outerT = t
	vstat.Check(t, prop, genCase, run)
}

func TestReplay(t *testing.T) {
	outerT = t
	t.Run("TestRandom", func(t *testing.T) { vstat.Replay(t, prop, "TestRandom", run) })
	t.Run("TestScenarios", func(t *testing.T) { vstat.Replay(t, prop, "TestScenarios", run) })
	t.Run("TestRegBoundChildWindow", func(t *testing.T) { vstat.Replay(t, prop, "TestRegBoundChildWindow", run) })
}
