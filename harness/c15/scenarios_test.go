package c15

import (
	"strings"
	"testing"

	"verif/harness/internal/vstat"
)

// Hand-picked corner cases, one per interesting shape of DESIGN.md C15. Every case starts
// from the prologue of run(): obj#0 exists locally and on member 1 (one edit, advertised),
// obj#1 exists on member 1 only (one edit; its head update is message 0 of the pool).
var scenarios = []struct {
	name string
	c    Case
}{
	{"late-child", Case{Seed: 101, Ops: []Op{
		{K: "ldelete", A: 0}, {K: "child", A: 0}, {K: "put", A: 0}, {K: "worker"},
		{K: "child", A: 0}, {K: "put", A: 3}, {K: "restart"}, {K: "worker"}, {K: "fetch", A: 3},
	}}},
	{"existing-child-of-remotely-deleted-parent", Case{Seed: 102, Ops: []Op{
		{K: "child", A: 0, C: 1}, {K: "deliver", A: 1}, {K: "rdelete", A: 2, B: 0}, {K: "deliver", A: 1},
		{K: "worker", A: 1}, {K: "put", A: 2}, {K: "restart"}, {K: "child", A: 0},
	}}},
	{"concurrent-branches-in-production-order", Case{Seed: 103, Ops: []Op{
		{K: "rdelete", A: 1, B: 0}, {K: "rdelete", A: 2, B: 1}, {K: "deliver", A: 1}, {K: "deliver", A: 1},
		{K: "worker"}, {K: "restart"},
	}}},
	{"concurrent-branches-reversed", Case{Seed: 103, Ops: []Op{
		{K: "rdelete", A: 1, B: 0}, {K: "rdelete", A: 2, B: 1}, {K: "deliver", A: 2}, {K: "deliver", A: 1},
		{K: "worker"}, {K: "restart"},
	}}},
	{"snapshot-record-then-late-concurrent-branch", Case{Seed: 104, Ops: []Op{
		{K: "create", A: 0, B: 1}, {K: "rdelete", A: 2, B: 1}, {K: "ldelete", A: 0}, {K: "ldelete", A: 2, B: 1},
		{K: "restart"}, {K: "deliver", A: 1}, {K: "worker"}, {K: "restart", A: 1},
	}}},
	{"remote-snapshot-record", Case{Seed: 105, Ops: []Op{
		{K: "rdelete", A: 1, B: 0}, {K: "rsync", A: 2}, {K: "rdelete", A: 2, B: 1, C: 1}, {K: "deliver", A: 2},
		{K: "restart"}, {K: "rdelete", A: 1, B: 1}, {K: "deliver", A: 2}, {K: "deliver", A: 1}, {K: "worker"},
	}}},
	{"restart-between-queued-and-deleted", Case{Seed: 106, Ops: []Op{
		{K: "rdelete", A: 1, B: 0, C: 2}, {K: "deliver", A: 1}, {K: "restart"}, {K: "put", A: 0}, {K: "edit", A: 0, B: 1},
		{K: "deliver", A: 1}, {K: "restart", A: 1}, {K: "deliver", A: 0},
	}}},
	{"fetch-and-head-update-for-absent-deleted-id", Case{Seed: 107, Ops: []Op{
		{K: "rdelete", A: 2, B: 1}, {K: "deliver", A: 1}, {K: "fetch", A: 1}, {K: "deliver", A: 0}, {K: "put", A: 1},
		{K: "worker"}, {K: "edit", A: 1, B: 1}, {K: "deliver", A: 0}, {K: "fetch", A: 1}, {K: "restart"}, {K: "fetch", A: 1},
	}}},
	{"late-head-update-at-the-worker-call-out", Case{Seed: 108, Ops: []Op{
		{K: "ldelete", A: 0}, {K: "edit", A: 0, B: 1}, {K: "deliver", A: 1}, {K: "worker", B: 1},
		{K: "edit", A: 0, B: 1}, {K: "deliver", A: 1}, {K: "fetch", A: 0},
	}}},
	{"late-child-at-the-worker-call-out", Case{Seed: 109, Ops: []Op{
		{K: "ldelete", A: 0}, {K: "worker", B: 2}, {K: "rdelete", A: 1, B: 1}, {K: "deliver", A: 1}, {K: "worker", B: 2},
	}}},
	{"shutdown-during-the-worker-run-leaves-children-to-the-orphan-scan", Case{Seed: 111, Ops: []Op{
		{K: "child", A: 0, C: 1}, {K: "child", A: 0}, {K: "rdelete", A: 2, B: 0}, {K: "deliver", A: 2},
		{K: "worker", B: 5}, {K: "put", A: 2}, {K: "worker"},
	}}},
	{"crash-between-storage-deletion-and-status", Case{Seed: 112, Ops: []Op{
		{K: "ldelete", A: 0}, {K: "edit", A: 0, B: 1}, {K: "worker", B: 6}, {K: "deliver", A: 1}, {K: "fetch", A: 0}, {K: "worker"},
	}}},
	{"interrupts-after-the-tree-manager-acted", Case{Seed: 113, Ops: []Op{
		{K: "create", A: 0, B: 1}, {K: "ldelete", A: 0}, {K: "worker", B: 1, C: 8}, {K: "ldelete", A: 2}, {K: "worker", B: 2, C: 8},
		{K: "rdelete", A: 1, B: 1}, {K: "deliver", A: 1}, {K: "worker", B: 4, C: 8},
	}}},
	// minimal input of the defect sigBoundChildWindow: a child its parent's deletion record does not
	// list, and a head update / put / fetch for it right after the worker's DeleteTree(child) returned
	{"bound-child-window-head-update", Case{Seed: 201, Ops: []Op{
		{K: "child", A: 0}, {K: "rdelete", A: 2, B: 0}, {K: "deliver", A: 1}, {K: "worker", B: 1, C: 9},
	}}},
	{"bound-child-window-put-and-fetch", Case{Seed: 202, Ops: []Op{
		{K: "child", A: 0}, {K: "child", A: 0, C: 1}, {K: "rdelete", A: 2, B: 0}, {K: "deliver", A: 2}, {K: "worker", B: 3, C: 9},
		{K: "create", A: 0, B: 1}, {K: "child", A: 2}, {K: "rdelete", A: 1, B: 4}, {K: "deliver", A: 2}, {K: "worker", B: 4, C: 9},
	}}},
	{"index-update-queued-before-the-deletion", Case{Seed: 110, Async: true, Ops: []Op{
		{K: "create", A: 0}, {K: "edit", A: 2}, {K: "ldelete", A: 2}, {K: "pump", A: 1}, {K: "pump", A: 1}, {K: "pump", A: 1},
		{K: "pump", A: 1}, {K: "edit", A: 0}, {K: "rdelete", A: 1, B: 0}, {K: "deliver", A: 1}, {K: "pump", A: 1}, {K: "pump", A: 3},
	}}},
}

func TestScenarios(t *testing.T) {
	outerT = t
	for _, sc := range scenarios {
		t.Run(sc.name, func(t *testing.T) { vstat.One(t, prop, sc.c, run) })
	}
}

// TestRegBoundChildWindow: minimal inputs of the defect this check found (fixed in /repo by
// 1acf2ec, proposed_fix_2.diff): deleter.deleteBoundChildren removes a bound child's storage
// before the child has a deleted status; a head update / put / fetch for the child right after
// TreeManager.DeleteTree(child) returned recreated it and it ended up Deleted with its changes
// stored. Runs with the by-construction exclusion of the former known finding switched off.
func TestRegBoundChildWindow(t *testing.T) {
	outerT = t
	noExclusion = true
	defer func() { noExclusion = false }()
	n := 0
	for _, sc := range scenarios {
		if !strings.HasPrefix(sc.name, "bound-child-window") {
			continue
		}
		n++
		t.Run(sc.name, func(t *testing.T) {
			vstat.One(t, prop, sc.c, run)
			if !windowExercised {
				t.Errorf("%s did not reach the window between DeleteTree(child) and state.Delete(child)", sc.name)
			}
		})
	}
	if n == 0 {
		t.Fatal("no bound-child-window scenario")
	}
}
