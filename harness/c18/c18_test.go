// Package c18 decides property C18 (all participants agree on which nodes are responsible
// for a space): for enumerated and generated network configurations it stands up one real
// nodeconf.New() service per participant (every configured node and a client) over a stub
// app, asks each of them NodeIds / IsResponsible / Partition for a family of space ids and
// compares the answers with each other and with the statement.
package c18

import (
	"context"
	"crypto/ed25519"
	"errors"
	"fmt"
	"os"
	"sort"
	"strconv"
	"strings"
	"sync"
	"testing"
	"time"

	"github.com/anyproto/any-sync/app"
	"github.com/anyproto/any-sync/app/logger"
	"github.com/anyproto/any-sync/commonspace/object/accountdata"
	"github.com/anyproto/any-sync/nodeconf"
	"github.com/anyproto/any-sync/testutil/accounttest"
	"github.com/anyproto/any-sync/util/crypto"
	"pgregory.net/rapid"

	"verif/harness/internal/vstat"
)

const prop = "C18"

func TestMain(m *testing.M) {
	logger.Config{Production: true, DefaultLevel: "fatal", DisableStdErr: true}.ApplyGlobal()
	vstat.Main(m, prop)
}

// ---- case (plain data) -------------------------------------------------------------

// NodeSpec is one entry of the network configuration.
type NodeSpec struct {
	Id    int      `json:"id"`    // index into the peer-id pool
	Types []string `json:"types"` // node types, verbatim (may repeat, may be unknown)
	Addrs []string `json:"addrs"`
}

// IdGroup is a family of space ids that share one replication key: Key is the key
// (contains no dot, may be empty), Prefixes are the parts before the last dot; the special
// prefix "<none>" stands for the id that has no dot at all (the id is the key itself).
type IdGroup struct {
	Key      string   `json:"key"`
	Prefixes []string `json:"prefixes"`
}

// Split adds a second configuration entry for a peer that is already listed (the
// one-entry-per-role shape of real network configurations, cf. TestNewNodeConfFromYaml).
type Split struct {
	Node     int      `json:"node"`      // index into Nodes (mod len)
	Types    []string `json:"types"`     // types of the additional entry ("tree" is stripped unless TakeTree/KeepTree)
	Addrs    []string `json:"addrs"`     // addresses of the additional entry
	TakeTree bool     `json:"take_tree"` // the tree role moves from the primary entry to this one
	KeepTree bool     `json:"keep_tree"` // the tree role is listed in both entries
	Before   bool     `json:"before"`    // entry is placed directly before the primary one (else at the end of the list)
}

type Case struct {
	IdStyle int        `json:"id_style"` // 0: real peer ids derived from keys, 1: short strings
	Nodes   []NodeSpec `json:"nodes"`    // distinct peers (participants); primary entries
	Splits  []Split    `json:"splits"`   // additional entries for some of the peers
	// Routes[i] says how participant i (nodes in order, then the client) learns the
	// configuration (see "Routes" below): 0 app config, 1 last stored configuration, 2 update
	// pulled from the source after starting on an older configuration, 3..11 stored
	// configuration vs. a bootstrap app config that differs in coordinator entries, combined
	// with a source that answers not-changed / fails / delivers. Missing = 0.
	Routes []int `json:"routes"`
	// metamorphic variants, all asked from the client's viewpoint
	Perm     []int      `json:"perm"`      // order of configuration entries in the permuted variant (indices; missing ones appended)
	Extra    []NodeSpec `json:"extra"`     // non-tree nodes added in the "more non-tree" variant (tree types are stripped)
	AddrSalt string     `json:"addr_salt"` // addresses of the "other addresses" variant are derived from this
	Groups   []IdGroup  `json:"groups"`
	// Epoch of the final configuration and of the version live-update participants start on
	// (equal, including 0 = network without epoch support, or bumped by the update)
	Epoch   uint64 `json:"epoch"`
	EpochV1 uint64 `json:"epoch_v1"`
}

const noDot = "<none>"

// ---- peer id pool ------------------------------------------------------------------

const poolSize = 24

var (
	poolOnce sync.Once
	realIds  [poolSize]string
)

func peerId(style, i int) string {
	i = ((i % poolSize) + poolSize) % poolSize
	if style == 1 {
		return "n" + strconv.Itoa(i)
	}
	poolOnce.Do(func() {
		for k := range realIds {
			seed := make([]byte, ed25519.SeedSize)
			copy(seed, fmt.Sprintf("c18-peer-%02d", k))
			realIds[k] = crypto.NewEd25519PrivKey(ed25519.NewKeyFromSeed(seed)).GetPublic().PeerId()
		}
	})
	return realIds[i]
}

const clientPoolIdx = poolSize - 1 // never used for a configured node

// ---- stub app ----------------------------------------------------------------------

type stubConf struct{ c nodeconf.Configuration }

func (s *stubConf) Init(*app.App) error                 { return nil }
func (s *stubConf) Name() string                        { return "config" }
func (s *stubConf) GetNodeConf() nodeconf.Configuration { return s.c }
func (s *stubConf) GetNodeConfUpdateInterval() int      { return 3600 }

type stubSource struct {
	next *nodeconf.Configuration // delivered once, then "not changed"
	err  error                   // != nil: the source is unreachable
	gate chan struct{}           // != nil: answers only after the gate is closed (live update under harness control)
	mu   sync.Mutex
}

func (s *stubSource) Init(*app.App) error { return nil }
func (s *stubSource) Name() string        { return nodeconf.CNameSource }
func (s *stubSource) GetLast(ctx context.Context, currentId string) (nodeconf.Configuration, error) {
	if s.gate != nil {
		select {
		case <-s.gate:
		case <-ctx.Done():
			return nodeconf.Configuration{}, ctx.Err()
		}
	}
	s.mu.Lock()
	defer s.mu.Unlock()
	if s.err != nil {
		return nodeconf.Configuration{}, s.err
	}
	if s.next != nil && s.next.Id != currentId {
		return *s.next, nil
	}
	return nodeconf.Configuration{}, nodeconf.ErrConfigurationNotChanged
}

type stubStore struct {
	mu   sync.Mutex
	last *nodeconf.Configuration
}

func (s *stubStore) Init(*app.App) error { return nil }
func (s *stubStore) Name() string        { return nodeconf.CNameStore }
func (s *stubStore) GetLast(context.Context, string) (nodeconf.Configuration, error) {
	s.mu.Lock()
	defer s.mu.Unlock()
	if s.last == nil {
		return nodeconf.Configuration{}, nodeconf.ErrConfigurationNotFound
	}
	return *s.last, nil
}
func (s *stubStore) SaveLast(_ context.Context, c nodeconf.Configuration) error {
	s.mu.Lock()
	defer s.mu.Unlock()
	s.last = &c
	return nil
}

type stubChecker struct{}

func (stubChecker) Init(*app.App) error                                { return nil }
func (stubChecker) Name() string                                       { return "c18.versionchecker" }
func (stubChecker) IsNetworkNeedsUpdate(context.Context) (bool, error) { return false, nil }

type participant struct {
	mergedKept bool // the active configuration is the merged one Init marked "-1"

	id  string
	svc nodeconf.Service
	a   *app.App
}

func (p *participant) close() { _ = p.a.Close(context.Background()) }

func cloneConf(c nodeconf.Configuration) nodeconf.Configuration {
	out := c
	out.Nodes = make([]nodeconf.Node, len(c.Nodes))
	for i, n := range c.Nodes {
		out.Nodes[i] = nodeconf.Node{
			PeerId:    n.PeerId,
			Addresses: append([]string(nil), n.Addresses...),
			Types:     append([]nodeconf.NodeType(nil), n.Types...),
		}
	}
	return out
}

// Routes by which a participant learns the configuration.
//
//	0  app config, nothing stored
//	1  last stored configuration, app config identical
//	2  starts on an older app config, the source then delivers the current configuration
//	3+ a configuration is stored AND the app (bootstrap) config differs from it in its
//	   coordinator entries: route = 3 + 3*diff + src with
//	   diff 0: app config has a coordinator node the stored one lacks (Init merges it in and
//	           marks the merged configuration "-1" = to be re-pulled)
//	   diff 1: app config has an extra address on a coordinator both know (same branch)
//	   diff 2: app config lacks the coordinators of the stored one (nothing to merge)
//	   src  0: the source answers "not changed", 1: the source fails, 2: the source delivers
//	           the current configuration (the stored one is then a stale older one)
//	12 live update with role change: starts on an app config v1 that lists the same peer
//	   ids in the same order but with other roles (every second peer gains / loses "tree")
//	   and other addresses; the source then delivers the current configuration
//	13 same, v1 additionally being the last stored configuration
//	14 live update that only changes addresses (v1 has the final roles)
const nRoutes = 15

const bootCoordinator = "c18-bootstrap-coordinator"

func routeParts(route int) (merge bool, diff, src int) {
	if route < 3 || route > 11 {
		return false, 0, 0
	}
	return true, (route - 3) / 3, (route - 3) % 3
}

func staleConf(conf nodeconf.Configuration, self string) nodeconf.Configuration {
	return nodeconf.Configuration{
		Id:        conf.Id + "-old",
		NetworkId: conf.NetworkId,
		Nodes: []nodeconf.Node{
			{PeerId: self, Addresses: []string{"old:1"}, Types: []nodeconf.NodeType{nodeconf.NodeTypeTree}},
			{PeerId: "old-coordinator", Addresses: []string{"old:2"}, Types: []nodeconf.NodeType{nodeconf.NodeTypeCoordinator}},
		},
	}
}

// previousVersion is a configuration with the same peer ids in the same order as conf, other
// addresses and - if roles is set - other roles: every second peer (by first appearance)
// loses the tree role if it has it, gains it otherwise.
func previousVersion(conf nodeconf.Configuration, roles bool, epoch uint64) nodeconf.Configuration {
	v1 := cloneConf(conf)
	v1.Id = conf.Id + "-v1"
	v1.Epoch = epoch
	order := map[string]int{}
	isTreePeer := map[string]bool{}
	for _, n := range conf.Nodes {
		if _, ok := order[n.PeerId]; !ok {
			order[n.PeerId] = len(order)
		}
		if n.HasType(nodeconf.NodeTypeTree) {
			isTreePeer[n.PeerId] = true
		}
	}
	gained := map[string]bool{}
	for i := range v1.Nodes {
		n := &v1.Nodes[i]
		n.Addresses = append(n.Addresses, "v1.example:1")
		if !roles || order[n.PeerId]%2 != 0 {
			continue
		}
		if isTreePeer[n.PeerId] {
			kept := n.Types[:0]
			for _, t := range n.Types {
				if t != nodeconf.NodeTypeTree {
					kept = append(kept, t)
				}
			}
			n.Types = kept
		} else if !gained[n.PeerId] {
			gained[n.PeerId] = true
			n.Types = append(n.Types, nodeconf.NodeTypeTree)
		}
	}
	return v1
}

// newParticipant starts a real nodeconf service for account `self` that ends up with
// configuration conf (possibly enriched with bootstrap coordinator entries, which are not
// sync nodes), delivered by the given route.
// liveOpts controls the live-update routes: the epoch of the version the participant starts
// on, and a hook that questions the participant while it still runs that version (before the
// source is allowed to deliver the final configuration).
type liveOpts struct {
	epochV1 uint64
	pre     func(p *participant, v1 nodeconf.Configuration) error
}

func newParticipant(self string, conf nodeconf.Configuration, route int, live *liveOpts) (*participant, error) {
	if live == nil {
		live = &liveOpts{}
	}
	var v1 nodeconf.Configuration
	p := &participant{id: self, svc: nodeconf.New(), a: new(app.App)}
	cfg := &stubConf{c: cloneConf(conf)}
	src := &stubSource{}
	store := &stubStore{}
	applied := make(chan string, 4)
	wantId, waitUpdate := conf.Id, false
	merge, diff, srcMode := routeParts(route)
	switch {
	case route == 1: // the configuration was stored by an earlier run; the app config is the same network
		c := cloneConf(conf)
		store.last = &c
	case route == 2: // start with an older configuration, then the source delivers the current one
		cfg.c = staleConf(conf, self)
		c := cloneConf(conf)
		src.next = &c
		waitUpdate = true
	case route >= 12: // live update from a version with the same peer ids and order
		v1 = previousVersion(conf, route != 14, live.epochV1)
		cfg.c = v1
		src.gate = make(chan struct{})
		if route == 13 {
			st := cloneConf(v1)
			store.last = &st
		}
		c := cloneConf(conf)
		src.next = &c
		waitUpdate = true
	case merge:
		stored := cloneConf(conf)
		if srcMode == 2 {
			stored = staleConf(conf, self)
			c := cloneConf(conf)
			src.next = &c
			waitUpdate = true
		} else if srcMode == 1 {
			src.err = errors.New("c18: configuration source unreachable")
		}
		appConf := cloneConf(stored)
		rewritten := false
		switch diff {
		case 1: // extra address on a coordinator both configurations know
			for i := range appConf.Nodes {
				if appConf.Nodes[i].HasType(nodeconf.NodeTypeCoordinator) {
					appConf.Nodes[i].Addresses = append(appConf.Nodes[i].Addresses, "bootstrap.example:443")
					rewritten = true
					break
				}
			}
			if rewritten {
				break
			}
			fallthrough // no coordinator in the stored configuration: add one
		case 0:
			appConf.Nodes = append([]nodeconf.Node{{PeerId: bootCoordinator, Addresses: []string{"bootstrap.example:443"},
				Types: []nodeconf.NodeType{nodeconf.NodeTypeCoordinator}}}, appConf.Nodes...)
			rewritten = true
		default: // the app config knows none of the stored coordinators
			kept := appConf.Nodes[:0]
			for _, n := range appConf.Nodes {
				if !n.HasType(nodeconf.NodeTypeCoordinator) {
					kept = append(kept, n)
				}
			}
			appConf.Nodes = kept
		}
		cfg.c = appConf
		store.last = &stored
		if rewritten && srcMode != 2 {
			wantId = "-1" // Init marks the merged configuration for re-pulling; the re-pull brings nothing
		}
	}
	if waitUpdate {
		p.svc.ObserveChanges(func(_, cur nodeconf.NodeConf) { applied <- cur.Id() })
	}
	acc := accounttest.NewWithAcc(&accountdata.AccountKeys{PeerId: self})
	p.a.Register(cfg).Register(acc).Register(src).Register(store).Register(stubChecker{}).Register(p.svc)
	if err := p.a.Start(context.Background()); err != nil {
		return nil, fmt.Errorf("start nodeconf for %s: %w", self, err)
	}
	if src.gate != nil {
		if got := p.svc.Id(); got != v1.Id {
			p.close()
			return nil, fmt.Errorf("participant %s (route %d) runs configuration %q before the update, want %q", self, route, got, v1.Id)
		}
		if live.pre != nil {
			if err := live.pre(p, v1); err != nil {
				p.close()
				return nil, err
			}
		}
		close(src.gate)
	}
	if waitUpdate {
		select {
		case id := <-applied:
			if id != conf.Id {
				p.close()
				return nil, fmt.Errorf("participant %s applied configuration %q, want %q", self, id, conf.Id)
			}
		case <-time.After(20 * time.Second):
			p.close()
			return nil, fmt.Errorf("participant %s (route %d) never applied the configuration delivered by the source", self, route)
		}
	}
	// which id the merge branch ends up with ("-1" or the stored one) is a detail of
	// mergeCoordinatorAddrs (it keys entries by peer id); the harness only records it
	if got := p.svc.Id(); got != wantId && !(merge && !waitUpdate && (got == "-1" || got == conf.Id)) {
		p.close()
		return nil, fmt.Errorf("participant %s (route %d) runs configuration %q, want %q", self, route, got, wantId)
	}
	p.mergedKept = p.svc.Id() == "-1"
	return p, nil
}

// ---- reference helpers (from the statement, not from the code) ----------------------

func isTree(types []string) bool {
	for _, t := range types {
		if t == string(nodeconf.NodeTypeTree) {
			return true
		}
	}
	return false
}

// replKey: the replication-key suffix is what follows the last dot; an id without a dot
// is its own key.
func replKey(id string) string {
	for i := len(id) - 1; i >= 0; i-- {
		if id[i] == '.' {
			return id[i+1:]
		}
	}
	return id
}

func sortedCopy(s []string) []string {
	out := append([]string(nil), s...)
	sort.Strings(out)
	return out
}

func hasDup(sorted []string) bool {
	for i := 1; i < len(sorted); i++ {
		if sorted[i] == sorted[i-1] {
			return true
		}
	}
	return false
}

func without(sorted []string, x string) []string {
	out := make([]string, 0, len(sorted))
	for _, s := range sorted {
		if s != x {
			out = append(out, s)
		}
	}
	return out
}

func contains(sorted []string, x string) bool {
	i := sort.SearchStrings(sorted, x)
	return i < len(sorted) && sorted[i] == x
}

func eq(a, b []string) bool {
	if len(a) != len(b) {
		return false
	}
	for i := range a {
		if a[i] != b[i] {
			return false
		}
	}
	return true
}

func groupIds(g IdGroup) []string {
	var ids []string
	for _, p := range g.Prefixes {
		if p == noDot {
			ids = append(ids, g.Key)
		} else {
			ids = append(ids, p+"."+g.Key)
		}
	}
	return ids
}

// ---- normalisation -------------------------------------------------------------------

func normalise(c Case) Case {
	if c.IdStyle != 1 {
		c.IdStyle = 0
	}
	seen := map[int]bool{}
	var nodes []NodeSpec
	for _, n := range c.Nodes {
		n.Id = ((n.Id % clientPoolIdx) + clientPoolIdx) % clientPoolIdx
		if seen[n.Id] || len(nodes) >= 8 {
			continue
		}
		seen[n.Id] = true
		nodes = append(nodes, n)
	}
	c.Nodes = nodes
	var extra []NodeSpec
	for _, n := range c.Extra {
		n.Id = ((n.Id % clientPoolIdx) + clientPoolIdx) % clientPoolIdx
		if seen[n.Id] {
			continue
		}
		seen[n.Id] = true
		var ts []string
		for _, t := range n.Types {
			if t != string(nodeconf.NodeTypeTree) {
				ts = append(ts, t)
			}
		}
		n.Types = ts
		extra = append(extra, n)
	}
	c.Extra = extra
	var splits []Split
	for _, sp := range c.Splits {
		if len(c.Nodes) == 0 || len(splits) >= 4 {
			break
		}
		sp.Node = ((sp.Node % len(c.Nodes)) + len(c.Nodes)) % len(c.Nodes)
		splits = append(splits, sp)
	}
	c.Splits = splits
	var groups []IdGroup
	for _, g := range c.Groups {
		g.Key = strings.ReplaceAll(g.Key, ".", "")
		if len(g.Prefixes) == 0 {
			g.Prefixes = []string{"bafyreib"}
		}
		groups = append(groups, g)
	}
	c.Groups = groups
	return c
}

func stripTree(ts []string) []string {
	out := []string{}
	for _, t := range ts {
		if t != string(nodeconf.NodeTypeTree) {
			out = append(out, t)
		}
	}
	return out
}

// entries expands Nodes and Splits into the list of configuration entries.
func entries(c Case) []NodeSpec {
	var out, tail []NodeSpec
	for i, n := range c.Nodes {
		primary := n
		var before []NodeSpec
		taken := false
		for _, sp := range c.Splits {
			if sp.Node != i {
				continue
			}
			e := NodeSpec{Id: n.Id, Types: stripTree(sp.Types), Addrs: sp.Addrs}
			switch {
			case sp.TakeTree && !taken && isTree(primary.Types):
				taken = true
				primary.Types = stripTree(primary.Types)
				e.Types = append(e.Types, string(nodeconf.NodeTypeTree))
			case sp.KeepTree && isTree(n.Types) && !taken:
				e.Types = append(e.Types, string(nodeconf.NodeTypeTree))
			}
			if sp.Before {
				before = append(before, e)
			} else {
				tail = append(tail, e)
			}
		}
		out = append(append(out, before...), primary)
	}
	return append(out, tail...)
}

// normPerm keeps valid distinct indices and appends the missing ones (default: reversed).
func normPerm(in []int, n int) []int {
	used := make([]bool, n)
	var perm []int
	for _, i := range in {
		if i >= 0 && i < n && !used[i] {
			used[i] = true
			perm = append(perm, i)
		}
	}
	for i := n - 1; i >= 0; i-- {
		if !used[i] {
			perm = append(perm, i)
		}
	}
	return perm
}

func buildConf(id string, style int, nodes []NodeSpec) nodeconf.Configuration {
	conf := nodeconf.Configuration{Id: id, NetworkId: "c18-net"}
	for _, n := range nodes {
		nd := nodeconf.Node{PeerId: peerId(style, n.Id), Addresses: append([]string(nil), n.Addrs...)}
		for _, t := range n.Types {
			nd.Types = append(nd.Types, nodeconf.NodeType(t))
		}
		conf.Nodes = append(conf.Nodes, nd)
	}
	return conf
}

// ---- the property --------------------------------------------------------------------

type answer struct {
	ids  []string // sorted NodeIds
	raw  []string
	resp bool
	part int
}

func ask(p *participant, id string) answer {
	raw := p.svc.NodeIds(id)
	return answer{ids: sortedCopy(raw), raw: raw, resp: p.svc.IsResponsible(id), part: p.svc.Partition(id)}
}

func run(c Case) (vstat.Outcome, error) {
	var out vstat.Outcome
	c = normalise(c)
	if len(c.Nodes) == 0 || len(c.Groups) == 0 {
		return out, nil
	}
	ents := entries(c)
	conf := buildConf("c18-conf", c.IdStyle, ents)
	conf.Epoch = c.Epoch
	rf := nodeconf.ReplicationFactor

	// a peer is a sync node if ANY of its entries carries the tree role
	treeSet := map[string]bool{}
	firstEntryTree := map[string]bool{}
	entriesOf := map[string]int{}
	treeEntriesOf := map[string]int{}
	for _, e := range ents {
		id := peerId(c.IdStyle, e.Id)
		if entriesOf[id] == 0 {
			firstEntryTree[id] = isTree(e.Types)
		}
		entriesOf[id]++
		if isTree(e.Types) {
			treeSet[id] = true
			treeEntriesOf[id]++
		}
	}
	nTree, nNonTree := 0, 0
	typesOf := map[string][]string{}
	for _, e := range ents {
		typesOf[peerId(c.IdStyle, e.Id)] = append(typesOf[peerId(c.IdStyle, e.Id)], e.Types...)
	}
	for _, n := range c.Nodes {
		if treeSet[peerId(c.IdStyle, n.Id)] {
			nTree++
		} else {
			nNonTree++
		}
	}
	wantSize := min(rf, nTree)

	// participants: every configured node, then a client
	var parts []*participant
	defer func() {
		for _, p := range parts {
			p.close()
		}
	}()
	routeOf := func(i int) int {
		if i < len(c.Routes) && c.Routes[i] >= 0 && c.Routes[i] < nRoutes {
			return c.Routes[i]
		}
		return 0
	}
	routesUsed := map[int]bool{}
	// live-update participants are questioned while they still run v1: the ids asked are the
	// first id of every group (so that after the update the same keys are asked again and the
	// remaining ids are asked for the first time); answers are judged against a participant
	// started fresh on v1.
	v1Refs := map[string]*participant{}
	preAsked := 0
	live := &liveOpts{epochV1: c.EpochV1}
	defer func() {
		for _, r := range v1Refs {
			r.close()
		}
	}()
	live.pre = func(p *participant, v1 nodeconf.Configuration) error {
		kind := fmt.Sprint(v1.Nodes) // role-changed and address-only v1 differ here
		ref := v1Refs[kind]
		if ref == nil {
			var err error
			if ref, err = newParticipant(peerId(c.IdStyle, clientPoolIdx), v1, 0, nil); err != nil {
				return fmt.Errorf("v1 reference: %w", err)
			}
			v1Refs[kind] = ref // closed at the end of the case (not in parts: parts[i] is node i)
		}
		for _, g := range c.Groups {
			id := groupIds(g)[0]
			ra, a := ask(ref, id), ask(p, id)
			if want := without(ra.ids, p.id); !eq(a.ids, want) || len(a.raw) != len(want) {
				return fmt.Errorf("before the update, id %q: participant %s NodeIds = %v, a participant started on the same version has responsible set %v", id, p.id, a.raw, ra.ids)
			}
			if a.resp != contains(ra.ids, p.id) || a.part != ra.part {
				return fmt.Errorf("before the update, id %q: participant %s IsResponsible=%v Partition=%d, responsible set %v partition %d", id, p.id, a.resp, a.part, ra.ids, ra.part)
			}
			preAsked++
		}
		return nil
	}
	for i, n := range c.Nodes {
		p, err := newParticipant(peerId(c.IdStyle, n.Id), conf, routeOf(i), live)
		if err != nil {
			return out, err
		}
		routesUsed[routeOf(i)] = true
		parts = append(parts, p)
	}
	client, err := newParticipant(peerId(c.IdStyle, clientPoolIdx), conf, routeOf(len(c.Nodes)), live)
	if err != nil {
		return out, err
	}
	routesUsed[routeOf(len(c.Nodes))] = true
	parts = append(parts, client)

	// variants, asked from a client
	type variant struct {
		name string
		p    *participant
	}
	var variants []variant
	addVariant := func(name string, nodes []NodeSpec) error {
		p, err := newParticipant(peerId(c.IdStyle, clientPoolIdx), buildConf("c18-"+name, c.IdStyle, nodes), 0, nil)
		if err != nil {
			return fmt.Errorf("variant %s: %w", name, err)
		}
		parts = append(parts, p)
		variants = append(variants, variant{name, p})
		return nil
	}
	if len(ents) > 1 {
		permuted := make([]NodeSpec, 0, len(ents))
		for _, i := range normPerm(c.Perm, len(ents)) {
			permuted = append(permuted, ents[i])
		}
		if err := addVariant("permuted", permuted); err != nil {
			return out, err
		}
	}
	if len(c.Extra) > 0 {
		// interleave the extra non-tree nodes: first half in front, the rest at the back
		h := len(c.Extra) / 2
		more := append(append(append([]NodeSpec(nil), c.Extra[:h]...), ents...), c.Extra[h:]...)
		if err := addVariant("more-non-tree", more); err != nil {
			return out, err
		}
	}
	var only []NodeSpec
	for _, n := range ents {
		if isTree(n.Types) {
			only = append(only, n)
		}
	}
	if len(only) > 0 && len(only) < len(ents) {
		if err := addVariant("tree-only", only); err != nil {
			return out, err
		}
	}
	{
		readdr := make([]NodeSpec, len(ents))
		for i, n := range ents {
			readdr[i] = n
			switch i % 3 {
			case 0:
				readdr[i].Addrs = []string{fmt.Sprintf("%s-%d.example:443", c.AddrSalt, i), "quic://" + c.AddrSalt}
			case 1:
				readdr[i].Addrs = nil
			default:
				readdr[i].Addrs = []string{c.AddrSalt} // the same address on several nodes
			}
		}
		if err := addVariant("other-addresses", readdr); err != nil {
			return out, err
		}
	}

	classes := map[string]bool{}
	distinctS := map[string]bool{}
	for _, g := range c.Groups {
		ids := groupIds(g)
		var groupS []string
		groupPart := -1
		for k, id := range ids {
			if got := nodeconf.ReplKey(id); got != g.Key || replKey(id) != g.Key {
				return out, fmt.Errorf("ReplKey(%q) = %q, the suffix after the last dot is %q", id, got, g.Key)
			}
			ca := ask(client, id)
			S := ca.ids
			// shape of S
			if len(ca.raw) != wantSize {
				return out, fmt.Errorf("id %q: client NodeIds = %v, want %d = min(rf %d, tree nodes %d) nodes", id, ca.raw, wantSize, rf, nTree)
			}
			if hasDup(S) {
				return out, fmt.Errorf("id %q: client NodeIds %v contains a duplicate", id, ca.raw)
			}
			for _, s := range S {
				if !treeSet[s] {
					return out, fmt.Errorf("id %q: client NodeIds %v contains %s which is not a tree node of the configuration", id, ca.raw, s)
				}
			}
			if ca.resp {
				return out, fmt.Errorf("id %q: the client reports itself responsible", id)
			}
			// every node's view
			for i := range c.Nodes {
				p := parts[i]
				a := ask(p, id)
				inS := contains(S, p.id)
				if a.resp != inS {
					return out, fmt.Errorf("id %q: node %s (types %v) IsResponsible = %v but membership in the client's responsible set %v is %v", id, p.id, typesOf[p.id], a.resp, S, inS)
				}
				if want := without(S, p.id); !eq(a.ids, want) || len(a.raw) != len(want) {
					return out, fmt.Errorf("id %q: node %s NodeIds = %v, want responsible set %v minus itself = %v", id, p.id, a.raw, S, want)
				}
				if a.part != ca.part {
					return out, fmt.Errorf("id %q: node %s Partition = %d, client Partition = %d", id, p.id, a.part, ca.part)
				}
			}
			// invariance under configuration changes that keep the tree-node set
			for _, v := range variants {
				va := ask(v.p, id)
				if !eq(va.ids, S) || len(va.raw) != len(S) {
					return out, fmt.Errorf("id %q: responsible set changes under variant %q: %v vs %v", id, v.name, va.raw, S)
				}
				if va.part != ca.part {
					return out, fmt.Errorf("id %q: partition changes under variant %q: %d vs %d", id, v.name, va.part, ca.part)
				}
			}
			// dependence on the id only through the replication key
			if k == 0 {
				groupS, groupPart = S, ca.part
			} else {
				if !eq(S, groupS) {
					return out, fmt.Errorf("ids %q and %q share replication key %q but have responsible sets %v and %v", ids[0], id, g.Key, groupS, S)
				}
				if ca.part != groupPart {
					return out, fmt.Errorf("ids %q and %q share replication key %q but partitions %d and %d", ids[0], id, g.Key, groupPart, ca.part)
				}
			}
			switch {
			case !strings.Contains(id, "."):
				classes["id-no-dot"] = true
			case strings.Count(id, ".") > 1:
				classes["id-several-dots"] = true
			default:
				classes["id-one-dot"] = true
			}
			if strings.HasSuffix(id, ".") {
				classes["id-empty-suffix"] = true
			}
		}
		distinctS[strings.Join(groupS, ",")] = true
	}

	// classification
	switch {
	case nTree == 0:
		classes["tree-nodes-0"] = true
	case nTree < rf:
		classes["tree-nodes-lt-rf"] = true
	case nTree == rf:
		classes["tree-nodes-eq-rf"] = true
	default:
		classes["tree-nodes-gt-rf"] = true
	}
	if nNonTree > 0 {
		classes["has-non-tree-node"] = true
	}
	if routesUsed[1] {
		classes["route-stored-configuration"] = true
	}
	if routesUsed[2] {
		classes["route-source-update"] = true
	}
	for _, p := range parts {
		if p.mergedKept {
			classes["route-merged-configuration-kept"] = true // active configuration is the merged "-1" one
		}
	}
	if routesUsed[12] || routesUsed[13] {
		classes["route-live-update-role-change"] = true
		if preAsked > 0 && c.Epoch == c.EpochV1 {
			classes["live-update-same-epoch-key-asked-before"] = true
		}
		if preAsked > 0 && c.Epoch != c.EpochV1 {
			classes["live-update-epoch-bumped-key-asked-before"] = true
		}
	}
	if routesUsed[14] {
		classes["route-live-update-address-change"] = true
	}
	for id, n := range entriesOf {
		if n > 1 {
			classes["config-split-peer-entries"] = true
			if treeSet[id] && !firstEntryTree[id] {
				classes["split-tree-not-in-first-entry"] = true
			}
			if treeEntriesOf[id] > 1 {
				classes["split-tree-in-several-entries"] = true
			}
		}
	}
	for r := range routesUsed {
		if merge, diff, src := routeParts(r); merge {
			classes["route-stored-vs-bootstrap-config"] = true
			_ = diff
			classes[[]string{"route-merge-source-unchanged", "route-merge-source-error", "route-merge-source-new"}[src]] = true
		}
	}
	if len(distinctS) > 1 {
		classes["responsible-set-varies-with-key"] = true
	}
	for _, v := range variants {
		classes["variant-"+v.name] = true
	}
	for k := range classes {
		out.Classes = append(out.Classes, k)
	}
	sort.Strings(out.Classes)
	out.Sig = vstat.HashJSON(c)
	out.NonTrivial = nTree >= 2 && nNonTree >= 1 // viewpoints: always >= 2 (at least one node and the client)
	vstat.Count("viewpoints", int64(len(c.Nodes)+1))
	vstat.Count("variant_configurations", int64(len(variants)))
	return out, nil
}

// ---- generators ------------------------------------------------------------------------

var allTypes = []string{
	string(nodeconf.NodeTypeTree), string(nodeconf.NodeTypeConsensus), string(nodeconf.NodeTypeFile),
	string(nodeconf.NodeTypeFileV2), string(nodeconf.NodeTypeCoordinator), string(nodeconf.NodeTypeNamingNode),
	string(nodeconf.NodeTypePaymentProcessingNode),
}

var fixedGroups = []IdGroup{
	{Key: "1x3f9k", Prefixes: []string{"bafyreigd5xk", noDot, "a.b", ""}},
	{Key: "", Prefixes: []string{"bafyreigd5xk", noDot, "a.b", ""}},
	{Key: "0", Prefixes: []string{"bafyreiabc", "x.y.z"}},
	{Key: "zz9", Prefixes: []string{noDot, "bafyreiabc.1x3f9k"}},
	{Key: "3w5e11264sgsf", Prefixes: []string{"bafyreiabc"}},
}

// enumerate: every multiset of <=4 nodes over every subset of {tree, consensus, file}
// (the remaining node types behave like consensus/file for this property and are drawn
// by TestRandom). Ordered by size. Sharded by VERIF_SHARD / VERIF_SHARDS.
func enumerate(yield func(Case) bool) {
	shard, _ := strconv.Atoi(os.Getenv("VERIF_SHARD"))
	shards, _ := strconv.Atoi(os.Getenv("VERIF_SHARDS"))
	if shards < 1 {
		shards = 1
	}
	base := []string{string(nodeconf.NodeTypeTree), string(nodeconf.NodeTypeConsensus), string(nodeconf.NodeTypeFile)}
	subset := func(m int) []string {
		ts := []string{}
		for b, t := range base {
			if m&(1<<b) != 0 {
				ts = append(ts, t)
			}
		}
		return ts
	}
	idx := 0
	var rec func(n int, from int, cur []int) bool
	rec = func(n, from int, cur []int) bool {
		if len(cur) == n {
			idx++
			if idx%shards != shard%shards {
				return true
			}
			c := Case{IdStyle: idx % 2, AddrSalt: "alt", Groups: fixedGroups}
			for i, m := range cur {
				c.Nodes = append(c.Nodes, NodeSpec{Id: i, Types: subset(m), Addrs: []string{fmt.Sprintf("10.0.0.%d:4430", i)}})
				c.Routes = append(c.Routes, (idx+5*i)%nRoutes)
			}
			c.Routes = append(c.Routes, (idx+7)%nRoutes)
			c.Epoch, c.EpochV1 = [][2]uint64{{0, 0}, {4, 4}, {2, 1}, {3, 0}}[idx%4][0], [][2]uint64{{0, 0}, {4, 4}, {2, 1}, {3, 0}}[idx%4][1]
			switch idx % 4 {
			case 1: // the tree role (if any) sits in a second entry at the end of the list
				c.Splits = []Split{{Node: idx % len(cur), Types: []string{"coordinator"}, Addrs: []string{"split:1"}, TakeTree: true}}
			case 2: // a non-tree role entry precedes the primary entry
				c.Splits = []Split{{Node: (idx / 4) % len(cur), Types: []string{"file"}, Before: true}}
			case 3: // both
				c.Splits = []Split{{Node: 0, Types: []string{"consensus"}, Before: true}, {Node: len(cur) - 1, Types: []string{"namingNode"}, TakeTree: true}}
			}
			c.Extra = []NodeSpec{{Id: 10, Types: []string{"coordinator"}, Addrs: []string{"c:1"}}, {Id: 11, Types: []string{"file", "consensus"}}}
			return yield(c)
		}
		for m := from; m < 1<<len(base); m++ {
			if !rec(n, m, append(cur, m)) {
				return false
			}
		}
		return true
	}
	for n := 1; n <= 4; n++ {
		if !rec(n, 0, nil) {
			return
		}
	}
}

func genTypes(rt *rapid.T) []string {
	// bias: about half of the nodes are tree nodes
	var ts []string
	if rapid.IntRange(0, 9).Draw(rt, "tree") < 6 {
		ts = append(ts, string(nodeconf.NodeTypeTree))
	}
	others := rapid.SliceOfN(rapid.SampledFrom(append([]string{"unknownType", "Tree", "tree "}, allTypes[1:]...)), 0, 3).Draw(rt, "otherTypes")
	ts = append(ts, others...)
	if len(ts) > 1 && rapid.Bool().Draw(rt, "shuffleTypes") {
		ts[0], ts[len(ts)-1] = ts[len(ts)-1], ts[0]
	}
	if len(ts) > 0 && rapid.IntRange(0, 7).Draw(rt, "dupType") == 0 {
		ts = append(ts, ts[0])
	}
	return ts
}

var addrPool = []string{"127.0.0.1:4430", "127.0.0.1:4431", "quic://10.1.1.1:5430", "yamux://node.example:443", "", "127.0.0.1:4430"}

func genNode(rt *rapid.T) NodeSpec {
	return NodeSpec{
		Id:    rapid.IntRange(0, clientPoolIdx-1).Draw(rt, "id"),
		Types: genTypes(rt),
		Addrs: rapid.SliceOfN(rapid.SampledFrom(addrPool), 0, 3).Draw(rt, "addrs"),
	}
}

var keyAlphabet = []rune("0123456789abcdefghijklmnopqrstuvwxyz")

func genGroup(rt *rapid.T) IdGroup {
	var key string
	switch rapid.IntRange(0, 5).Draw(rt, "keyKind") {
	case 0:
		key = ""
	case 1:
		key = strconv.FormatUint(rapid.Uint64().Draw(rt, "repKey"), 36)
	default:
		key = string(rapid.SliceOfN(rapid.SampledFrom(keyAlphabet), 1, 13).Draw(rt, "key"))
	}
	prefixes := rapid.SliceOfN(rapid.SampledFrom([]string{noDot, "", "bafyreigd5xk", "a.b", "x.y.z", ".", "bafyreiabc.1x3f9k", "q"}), 1, 4).Draw(rt, "prefixes")
	return IdGroup{Key: key, Prefixes: prefixes}
}

func genCase(rt *rapid.T) Case {
	n := rapid.IntRange(1, 8).Draw(rt, "n")
	c := Case{IdStyle: rapid.IntRange(0, 1).Draw(rt, "idStyle")}
	for i := 0; i < n; i++ {
		c.Nodes = append(c.Nodes, genNode(rt))
	}
	c.Routes = rapid.SliceOfN(rapid.IntRange(0, nRoutes-1), n+1, n+1).Draw(rt, "routes")
	c.Perm = rapid.SliceOfN(rapid.IntRange(0, n+2), 0, n+3).Draw(rt, "perm")
	ne := rapid.IntRange(0, 3).Draw(rt, "nExtra")
	for i := 0; i < ne; i++ {
		c.Extra = append(c.Extra, genNode(rt))
	}
	ep := rapid.SampledFrom([][2]uint64{{0, 0}, {0, 0}, {7, 7}, {2, 1}, {5, 0}}).Draw(rt, "epochs")
	c.Epoch, c.EpochV1 = ep[0], ep[1]
	ns := rapid.SampledFrom([]int{0, 0, 1, 1, 2, 3}).Draw(rt, "nSplits")
	for i := 0; i < ns; i++ {
		c.Splits = append(c.Splits, Split{
			Node:     rapid.IntRange(0, n-1).Draw(rt, "splitNode"),
			Types:    rapid.SliceOfN(rapid.SampledFrom(allTypes), 0, 2).Draw(rt, "splitTypes"),
			Addrs:    rapid.SliceOfN(rapid.SampledFrom(addrPool), 0, 2).Draw(rt, "splitAddrs"),
			TakeTree: rapid.Bool().Draw(rt, "takeTree"),
			KeepTree: rapid.IntRange(0, 3).Draw(rt, "keepTree") == 0,
			Before:   rapid.Bool().Draw(rt, "before"),
		})
	}
	c.AddrSalt = rapid.SampledFrom([]string{"alt", "127.0.0.1:4430", ""}).Draw(rt, "addrSalt")
	ng := rapid.IntRange(1, 4).Draw(rt, "nGroups")
	for i := 0; i < ng; i++ {
		c.Groups = append(c.Groups, genGroup(rt))
	}
	return c
}

func TestExhaustive(t *testing.T) { vstat.Enumerate(t, prop, enumerate, run) }
func TestRandom(t *testing.T)     { vstat.Check(t, prop, genCase, run) }
func TestReplay(t *testing.T) {
	t.Run("TestExhaustive", func(t *testing.T) { vstat.Replay(t, prop, "TestExhaustive", run) })
	t.Run("TestRandom", func(t *testing.T) { vstat.Replay(t, prop, "TestRandom", run) })
	t.Run("TestRegCorners", func(t *testing.T) { vstat.Replay(t, prop, "TestRegCorners", run) })
}

// hand-picked corners: no tree node at all; exactly rf tree nodes; a node that is tree
// and everything else; eight tree nodes.
func TestRegCorners(t *testing.T) {
	mk := func(types ...[]string) Case {
		c := Case{Groups: fixedGroups, AddrSalt: "alt"}
		for i, ts := range types {
			c.Nodes = append(c.Nodes, NodeSpec{Id: i, Types: ts, Addrs: []string{fmt.Sprintf("h%d:1", i)}})
			c.Routes = append(c.Routes, (3+4*i)%nRoutes)
		}
		c.Extra = []NodeSpec{{Id: 20, Types: []string{"coordinator"}}}
		return c
	}
	tr := []string{"tree"}
	for _, c := range []Case{
		mk([]string{"coordinator"}, []string{"file"}),
		mk(tr, tr, tr, []string{"consensus"}),
		mk(allTypes, tr, []string{"fileV2"}, []string{"fileV2"}, []string{"fileV2"}),
		mk(tr, tr, tr, tr, tr, tr, tr, tr),
	} {
		vstat.One(t, prop, c, run)
	}
	// one entry per role (the shape of the repository's own yaml fixture): peer 0 is listed
	// as coordinator first and as tree node at the end; asked from every identity
	split := mk([]string{"tree", "coordinator"}, tr, tr, tr, append([]string{"file"}, tr...))
	split.Splits = []Split{{Node: 0, Types: []string{"coordinator"}, Addrs: []string{"h0:1"}, TakeTree: true}}
	split.Nodes[0].Types = tr
	vstat.One(t, prop, split, run)
	// every participant arrives by a live update that swaps roles between known peers
	live := mk(tr, tr, tr, tr, []string{"file"}, []string{"file"})
	for i := range live.Routes {
		live.Routes[i] = 12 + i%2
	}
	live.Routes = append(live.Routes, 0) // the client starts fresh on the final configuration
	vstat.One(t, prop, live, run)
}
