// Package c20 decides property C20 (component container ordering) by enumerating and
// generating component lists / failure points / container nestings and comparing the
// call log of harness components with a reference interpreter of the statement.
package c20

import (
	"context"
	"errors"
	"fmt"
	"strings"
	"testing"

	"github.com/anyproto/any-sync/app"
	"pgregory.net/rapid"

	"verif/harness/internal/vstat"
)

const prop = "C20"

func TestMain(m *testing.M) { vstat.Main(m, prop) }

// ---- case (plain data) -------------------------------------------------------------

type Comp struct {
	Name     string `json:"name"`
	Runnable bool   `json:"runnable"`
	Tag      int    `json:"tag"`       // 0: implements tagA, 1: implements tagB
	CloseErr bool   `json:"close_err"` // Close returns an error
	LookupAt int    `json:"lookup_at"` // 0 none, 1 during Init, 2 during Run: resolve Lookup by name
	Lookup   string `json:"lookup"`
}

type Case struct {
	// Levels[0] is the root container; Levels[k+1] is a child of Levels[k].
	Levels     [][]Comp `json:"levels"`
	StartLevel int      `json:"start_level"`
	FailPhase  int      `json:"fail_phase"` // 0 none, 1 init, 2 run
	FailIdx    int      `json:"fail_idx"`   // index in Levels[StartLevel]
	Close      bool     `json:"close"`      // call Close after a successful Start
	Lookups    []string `json:"lookups"`    // names resolved from the deepest level after start
	// EarlyLookups: resolve every name from every container after each single Register call
	EarlyLookups bool `json:"early_lookups"`
	// RegOrder: order in which the containers register their components (indices into Levels)
	RegOrder []int `json:"reg_order,omitempty"`
}

// ---- harness components ------------------------------------------------------------

type logT struct{ ev []string }

func (l *logT) add(f string, a ...any) { l.ev = append(l.ev, fmt.Sprintf(f, a...)) }

type tagA interface{ isA() }
type tagB interface{ isB() }

type base struct {
	c     Comp
	id    string // level:name — unique identity
	log   *logT
	fail  int // 1 init fails, 2 run fails
	a     *app.App
	found map[string]string
}

func (b *base) Name() string { return b.c.Name }
func (b *base) Init(a *app.App) error {
	b.a = a
	b.log.add("init %s", b.id)
	if b.c.LookupAt == 1 {
		b.lookup()
	}
	if b.fail == 1 {
		return errors.New("boom-init")
	}
	return nil
}
func (b *base) lookup() {
	got := b.a.Component(b.c.Lookup)
	b.log.add("lookup %s %s -> %s", b.id, b.c.Lookup, ident(got))
}
func (b *base) run() error {
	b.log.add("run %s", b.id)
	if b.c.LookupAt == 2 {
		b.lookup()
	}
	if b.fail == 2 {
		return errors.New("boom-run")
	}
	return nil
}
func (b *base) close() error {
	b.log.add("close %s", b.id)
	if b.c.CloseErr {
		return errors.New("boom-close")
	}
	return nil
}

type identer interface{ ident() string }

func (b *base) ident() string { return b.id }
func ident(c app.Component) string {
	if c == nil {
		return "<nil>"
	}
	return c.(identer).ident()
}

type plainA struct{ base }
type plainB struct{ base }
type runA struct{ base }
type runB struct{ base }

func (*plainA) isA() {}
func (*plainB) isB() {}
func (*runA) isA()   {}
func (*runB) isB()   {}

func (r *runA) Run(context.Context) error   { return r.run() }
func (r *runA) Close(context.Context) error { return r.close() }
func (r *runB) Run(context.Context) error   { return r.run() }
func (r *runB) Close(context.Context) error { return r.close() }

func mk(c Comp, level int, l *logT, fail int) app.Component {
	b := base{c: c, id: fmt.Sprintf("%d:%s", level, c.Name), log: l, fail: fail}
	switch {
	case c.Runnable && c.Tag == 0:
		return &runA{b}
	case c.Runnable:
		return &runB{b}
	case c.Tag == 0:
		return &plainA{b}
	default:
		return &plainB{b}
	}
}

// ---- reference interpreter of the statement ------------------------------------------

// resolve: child first, then parents; within a container, registration order.
func refResolve(c Case, from int, name string) string {
	for lv := from; lv >= 0; lv-- {
		for _, cm := range c.Levels[lv] {
			if cm.Name == name {
				return fmt.Sprintf("%d:%s", lv, cm.Name)
			}
		}
	}
	return "<nil>"
}

func refResolveTag(c Case, from int, tag int) string {
	for lv := from; lv >= 0; lv-- {
		for _, cm := range c.Levels[lv] {
			if cm.Tag == tag {
				return fmt.Sprintf("%d:%s", lv, cm.Name)
			}
		}
	}
	return "<none>"
}

func reference(c Case) (log []string, startErr bool, failName string, closeErrs []string) {
	comps := c.Levels[c.StartLevel]
	id := func(i int) string { return fmt.Sprintf("%d:%s", c.StartLevel, comps[i].Name) }
	closeFrom := func(i int) {
		for j := i; j >= 0; j-- {
			if comps[j].Runnable {
				log = append(log, "close "+id(j))
			}
		}
	}
	for i, cm := range comps {
		log = append(log, "init "+id(i))
		if cm.LookupAt == 1 {
			log = append(log, fmt.Sprintf("lookup %s %s -> %s", id(i), cm.Lookup, refResolve(c, c.StartLevel, cm.Lookup)))
		}
		if c.FailPhase == 1 && c.FailIdx == i {
			closeFrom(i)
			return log, true, cm.Name, nil
		}
	}
	for i, cm := range comps {
		if !cm.Runnable {
			continue
		}
		log = append(log, "run "+id(i))
		if cm.LookupAt == 2 {
			log = append(log, fmt.Sprintf("lookup %s %s -> %s", id(i), cm.Lookup, refResolve(c, c.StartLevel, cm.Lookup)))
		}
		if c.FailPhase == 2 && c.FailIdx == i {
			closeFrom(i)
			return log, true, cm.Name, nil
		}
	}
	if c.Close {
		for j := len(comps) - 1; j >= 0; j-- {
			if comps[j].Runnable {
				log = append(log, "close "+id(j))
				if comps[j].CloseErr {
					closeErrs = append(closeErrs, comps[j].Name)
				}
			}
		}
	}
	return log, false, "", closeErrs
}

// ---- the property --------------------------------------------------------------------

func run(c Case) (vstat.Outcome, error) {
	var out vstat.Outcome
	if len(c.Levels) == 0 || c.StartLevel >= len(c.Levels) {
		return out, nil
	}
	l := &logT{}
	apps := make([]*app.App, len(c.Levels))
	// all containers exist from the start (a child may be asked for a name before it, or a
	// nearer parent, registers its own component of that name)
	for lv := range c.Levels {
		if lv == 0 {
			apps[lv] = new(app.App)
		} else {
			apps[lv] = apps[lv-1].ChildApp()
		}
	}
	// registered-so-far view used by the interleaved lookups
	partial := Case{Levels: make([][]Comp, len(c.Levels))}
	lookupNames := append(append([]string(nil), c.Lookups...), names...)
	checkLookups := func(when string) error {
		for lv := range apps {
			for _, n := range lookupNames {
				if got, want := ident(apps[lv].Component(n)), refResolve(partial, lv, n); got != want {
					return fmt.Errorf("%s: level %d Component(%q) = %s, want %s (child first, then parents, over what is registered so far)", when, lv, n, got, want)
				}
			}
		}
		return nil
	}
	order := c.RegOrder
	for lv := range c.Levels {
		if len(order) > 0 {
			// generated registration order of the levels: deepest first, root first, ...
			lv = order[lv%len(order)] % len(c.Levels)
		}
		if len(partial.Levels[lv]) > 0 {
			continue
		}
		for i, cm := range c.Levels[lv] {
			fail := 0
			if lv == c.StartLevel && c.FailIdx == i {
				fail = c.FailPhase
				if fail == 2 && !cm.Runnable {
					fail = 0
				}
			}
			apps[lv].Register(mk(cm, lv, l, fail))
			partial.Levels[lv] = append(partial.Levels[lv], cm)
			if c.EarlyLookups {
				if err := checkLookups(fmt.Sprintf("after registering %d:%s", lv, cm.Name)); err != nil {
					return out, err
				}
			}
		}
	}
	for lv := range c.Levels { // levels skipped by a repeating order
		if len(partial.Levels[lv]) == 0 && len(c.Levels[lv]) > 0 {
			for i, cm := range c.Levels[lv] {
				fail := 0
				if lv == c.StartLevel && c.FailIdx == i {
					fail = c.FailPhase
					if fail == 2 && !cm.Runnable {
						fail = 0
					}
				}
				apps[lv].Register(mk(cm, lv, l, fail))
				partial.Levels[lv] = append(partial.Levels[lv], cm)
			}
		}
	}
	// normalise: a run failure on a plain component cannot happen
	if c.FailPhase == 2 && (c.FailIdx >= len(c.Levels[c.StartLevel]) || !c.Levels[c.StartLevel][c.FailIdx].Runnable) {
		c.FailPhase = 0
	}
	if c.FailPhase == 1 && c.FailIdx >= len(c.Levels[c.StartLevel]) {
		c.FailPhase = 0
	}
	wantLog, wantErr, failName, wantCloseErrs := reference(c)

	a := apps[c.StartLevel]
	err := a.Start(context.Background())
	if (err != nil) != wantErr {
		return out, fmt.Errorf("Start error = %v, reference expects failure=%v", err, wantErr)
	}
	if err != nil {
		if !strings.Contains(err.Error(), "'"+failName+"'") {
			return out, fmt.Errorf("Start error %q does not name the failing component %q", err, failName)
		}
	}
	if err == nil && c.Close {
		cerr := a.Close(context.Background())
		if (cerr != nil) != (len(wantCloseErrs) > 0) {
			return out, fmt.Errorf("Close error = %v, reference expects errors from %v", cerr, wantCloseErrs)
		}
		for _, n := range wantCloseErrs {
			if !strings.Contains(cerr.Error(), "'"+n+"'") {
				return out, fmt.Errorf("Close error %q does not report component %q", cerr, n)
			}
		}
	}
	if strings.Join(l.ev, "\n") != strings.Join(wantLog, "\n") {
		return out, fmt.Errorf("call log differs from the reference interpreter\n got: %v\nwant: %v", l.ev, wantLog)
	}
	// name / type resolution from every level: child first, then parents
	for lv := range apps {
		for _, n := range c.Lookups {
			got := ident(apps[lv].Component(n))
			want := refResolve(c, lv, n)
			if got != want {
				return out, fmt.Errorf("level %d Component(%q) = %s, want %s", lv, n, got, want)
			}
			if want == "<nil>" {
				p := didPanic(func() { apps[lv].MustComponent(n) })
				if !p {
					return out, fmt.Errorf("level %d MustComponent(%q) did not panic for a missing name", lv, n)
				}
			} else if g := ident(apps[lv].MustComponent(n)); g != want {
				return out, fmt.Errorf("level %d MustComponent(%q) = %s, want %s", lv, n, g, want)
			}
		}
		ga, ea := app.GetComponent[tagA](apps[lv])
		if w := refResolveTag(c, lv, 0); (ea != nil) != (w == "<none>") || (ea == nil && ga.(identer).ident() != w) {
			return out, fmt.Errorf("level %d GetComponent[tagA] = %v,%v want %s", lv, ga, ea, w)
		}
		gb, eb := app.GetComponent[tagB](apps[lv])
		if w := refResolveTag(c, lv, 1); (eb != nil) != (w == "<none>") || (eb == nil && gb.(identer).ident() != w) {
			return out, fmt.Errorf("level %d GetComponent[tagB] = %v,%v want %s", lv, gb, eb, w)
		}
	}

	// classification
	comps := c.Levels[c.StartLevel]
	nPlain, nRun := 0, 0
	for _, cm := range comps {
		if cm.Runnable {
			nRun++
		} else {
			nPlain++
		}
	}
	out.Sig = vstat.HashJSON(c)
	mid := c.FailPhase != 0 && c.FailIdx > 0 && c.FailIdx < len(comps)-1
	out.NonTrivial = nPlain >= 1 && nRun >= 1 && mid
	switch c.FailPhase {
	case 0:
		out.Classes = append(out.Classes, "no-failure")
	case 1:
		out.Classes = append(out.Classes, "init-failure")
	case 2:
		out.Classes = append(out.Classes, "run-failure")
	}
	if len(c.Levels) > 1 {
		out.Classes = append(out.Classes, fmt.Sprintf("nesting-depth-%d", len(c.Levels)))
		shadow := false
		seen := map[string]bool{}
		for _, lvl := range c.Levels {
			for _, cm := range lvl {
				if seen[cm.Name] {
					shadow = true
				}
			}
			for _, cm := range lvl {
				seen[cm.Name] = true
			}
		}
		if shadow {
			out.Classes = append(out.Classes, "shadowed-name")
			if nPlain >= 1 && nRun >= 1 {
				out.NonTrivial = true
			}
		}
	}
	if len(wantCloseErrs) > 0 {
		out.Classes = append(out.Classes, "close-error")
	}
	if c.EarlyLookups && len(c.Levels) > 1 {
		out.Classes = append(out.Classes, "lookup-before-shadowing-registration")
	}
	return out, nil
}

func didPanic(f func()) (p bool) {
	defer func() {
		if recover() != nil {
			p = true
		}
	}()
	f()
	return false
}

// ---- generators ------------------------------------------------------------------------

var names = []string{"a", "b", "c", "d", "e", "f", "g"}

// exhaustive: every list of length <=5 over {plain, runnable}, every single failure
// point (none / init of i / run of runnable i), with and without Close, tags alternating.
func enumerate(yield func(Case) bool) {
	for n := 0; n <= 5; n++ {
		for mask := 0; mask < 1<<n; mask++ {
			comps := make([]Comp, n)
			for i := range comps {
				comps[i] = Comp{Name: names[i], Runnable: mask&(1<<i) != 0, Tag: i % 2}
				if i > 0 {
					comps[i].LookupAt = 1 + i%2
					comps[i].Lookup = names[(i+1)%n]
				}
			}
			for phase := 0; phase <= 2; phase++ {
				for idx := 0; idx < max(n, 1); idx++ {
					if phase == 0 && idx > 0 {
						break
					}
					if phase == 2 && (idx >= n || !comps[idx].Runnable) {
						continue
					}
					if phase == 1 && idx >= n {
						continue
					}
					for ce := -1; ce < n; ce++ { // which runnable component's Close fails (or none)
						if ce >= 0 && (!comps[ce].Runnable || phase != 0) {
							continue
						}
						cs := append([]Comp(nil), comps...)
						if ce >= 0 {
							cs[ce].CloseErr = true
						}
						c := Case{Levels: [][]Comp{cs}, FailPhase: phase, FailIdx: idx, Close: true, Lookups: []string{"a", "e", "zz"}}
						if !yield(c) {
							return
						}
					}
				}
			}
		}
	}
}

func genCase(rt *rapid.T) Case {
	depth := rapid.IntRange(1, 3).Draw(rt, "depth")
	var c Case
	for lv := 0; lv < depth; lv++ {
		n := rapid.IntRange(0, 7).Draw(rt, "n")
		perm := rapid.Permutation(names).Draw(rt, "names")
		lvl := make([]Comp, n)
		for i := range lvl {
			lvl[i] = Comp{
				Name:     perm[i],
				Runnable: rapid.Bool().Draw(rt, "runnable"),
				Tag:      rapid.IntRange(0, 1).Draw(rt, "tag"),
				CloseErr: rapid.IntRange(0, 5).Draw(rt, "closeErr") == 0,
				LookupAt: rapid.IntRange(0, 2).Draw(rt, "lookupAt"),
				Lookup:   rapid.SampledFrom(names).Draw(rt, "lookup"),
			}
		}
		c.Levels = append(c.Levels, lvl)
	}
	c.StartLevel = rapid.IntRange(0, depth-1).Draw(rt, "startLevel")
	c.FailPhase = rapid.IntRange(0, 2).Draw(rt, "failPhase")
	c.FailIdx = rapid.IntRange(0, 6).Draw(rt, "failIdx")
	c.Close = rapid.Bool().Draw(rt, "close")
	c.Lookups = rapid.SliceOfN(rapid.SampledFrom(append([]string{"zz"}, names...)), 0, 4).Draw(rt, "lookups")
	c.EarlyLookups = rapid.Bool().Draw(rt, "early")
	c.RegOrder = rapid.Permutation([]int{0, 1, 2}).Draw(rt, "regOrder")
	return c
}

func TestExhaustive(t *testing.T) { vstat.Enumerate(t, prop, enumerate, run) }
func TestRandom(t *testing.T)     { vstat.Check(t, prop, genCase, run) }
func TestReplay(t *testing.T) {
	t.Run("TestExhaustive", func(t *testing.T) { vstat.Replay(t, prop, "TestExhaustive", run) })
	t.Run("TestRandom", func(t *testing.T) { vstat.Replay(t, prop, "TestRandom", run) })
}
