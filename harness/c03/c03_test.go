// Package c03 decides property C03: the ACL log is a tamper-evident chain whose state
// is a pure function of the accepted record sequence and is updated atomically.
package c03

import (
	"bytes"
	"context"
	"crypto/ed25519"
	"crypto/sha256"
	"encoding/base32"
	"fmt"
	"strings"
	"testing"

	"github.com/anyproto/any-sync/commonspace/headsync/headstorage"
	"github.com/anyproto/any-sync/commonspace/object/acl/aclrecordproto"
	"github.com/anyproto/any-sync/commonspace/object/acl/list"
	"github.com/anyproto/any-sync/commonspace/object/acl/recordverifier"
	"github.com/anyproto/any-sync/consensus/consensusproto"
	"github.com/anyproto/any-sync/util/crypto"
	"pgregory.net/rapid"

	"verif/harness/internal/accounts"
	"verif/harness/internal/aclgen"
	"verif/harness/internal/dbutil"
	"verif/harness/internal/vstat"
)

const prop = "C03"

var outerT *testing.T

func TestMain(m *testing.M) { vstat.Main(m, prop) }

type Tamper struct {
	Kind string `json:"k"`
	A    int    `json:"a"`
	B    int    `json:"b"`
}

type Case struct {
	Seed     uint64      `json:"seed"`
	N        int         `json:"n"`
	Ops      []aclgen.Op `json:"ops"`
	Observer int         `json:"observer"`
	Cut      int         `json:"cut"`
	Batches  []int       `json:"batches"`
	Tampers  []Tamper    `json:"tampers"`
}

var tamperKinds = []string{"flip", "flip_rehash", "id", "sig", "accsig", "accid", "accid", "accraw", "noacc", "prev", "stale", "ooo", "second_invalid", "author_swap", "trunc"}

func genCase(rt *rapid.T) Case {
	n := rapid.IntRange(3, 6).Draw(rt, "n")
	c := Case{
		Seed:     rapid.Uint64Range(1, 1<<40).Draw(rt, "seed"),
		N:        n,
		Ops:      aclgen.GenOps(rt, n, 8, vstat.Pick(24, 40)),
		Observer: rapid.IntRange(0, n-1).Draw(rt, "observer"),
		Cut:      rapid.IntRange(0, 60).Draw(rt, "cut"),
		Batches:  rapid.SliceOfN(rapid.IntRange(1, 5), 1, 6).Draw(rt, "batches"),
	}
	nt := rapid.IntRange(2, 6).Draw(rt, "ntampers")
	for i := 0; i < nt; i++ {
		c.Tampers = append(c.Tampers, Tamper{
			Kind: rapid.SampledFrom(tamperKinds).Draw(rt, "tk"),
			A:    rapid.IntRange(0, 4000).Draw(rt, "ta"),
			B:    rapid.IntRange(0, 7).Draw(rt, "tb"),
		})
	}
	return c
}

type verifierKind int

const (
	vFull   verifierKind = iota // consensus-side: full content validation, no acceptor check
	vClient                     // client-side: acceptor signature required, keep-only-ours partial decode
)

func mkVerifier(k verifierKind, w *aclgen.World) recordverifier.AcceptorVerifier {
	if k == vFull {
		return recordverifier.NewValidateFull()
	}
	return recordverifier.New(w.NetKey.GetPublic())
}

// independent validity predicate of the statement: extends head, id = hash of bytes,
// author signature verifies, acceptor (network key) signature verifies where required.
func statementValid(rec *consensusproto.RawRecordWithId, head string, k verifierKind, w *aclgen.World) (bool, string) {
	if !cidOK(rec.Payload, rec.Id) {
		return false, "id is not the hash of the bytes"
	}
	raw := &consensusproto.RawRecord{}
	if err := raw.UnmarshalVT(rec.Payload); err != nil {
		return false, "raw record does not decode"
	}
	r := &consensusproto.Record{}
	if err := r.UnmarshalVT(raw.Payload); err != nil {
		return false, "record does not decode"
	}
	if r.PrevId != head {
		return false, "does not extend the head"
	}
	if !edVerify(r.Identity, raw.Payload, raw.Signature) {
		return false, "author signature does not verify"
	}
	if k == vClient {
		netPub, _ := w.NetKey.GetPublic().Raw()
		accPub := rawPub(raw.AcceptorIdentity)
		if accPub == nil || !bytes.Equal(accPub, netPub) {
			return false, "acceptor is not the network key"
		}
		if len(raw.AcceptorSignature) != ed25519.SignatureSize || !ed25519.Verify(netPub, raw.Payload, raw.AcceptorSignature) {
			return false, "acceptor signature does not verify"
		}
	}
	return true, ""
}

func rawPub(identityProto []byte) []byte {
	pk, err := crypto.UnmarshalEd25519PublicKeyProto(identityProto)
	if err != nil {
		pk, err = crypto.UnmarshalEd25519PublicKey(identityProto)
		if err != nil {
			return nil
		}
	}
	raw, err := pk.Raw()
	if err != nil || len(raw) != ed25519.PublicKeySize {
		return nil
	}
	return raw
}

func edVerify(identityProto, msg, sig []byte) bool {
	raw := rawPub(identityProto)
	if raw == nil || len(sig) != ed25519.SignatureSize {
		return false
	}
	return ed25519.Verify(raw, msg, sig)
}

type fed struct {
	l  list.AclList
	st list.Storage
}

func snapshot(f fed) (string, error) {
	scan, err := aclgen.StorageScan(f.st)
	if err != nil {
		return "", err
	}
	return aclgen.Digest(f.l) + "--storage--\n" + scan, nil
}

func run(c Case) (vstat.Outcome, error) {
	var out vstat.Outcome
	var w *aclgen.World
	err := aclgen.Bubble(outerT, func() error {
		var err error
		w, err = aclgen.NewWorld(c.N, c.Seed, true)
		if err != nil {
			return err
		}
		for _, op := range c.Ops {
			if _, err := w.Apply(op); err != nil {
				return err
			}
		}
		return nil
	})
	if err != nil {
		return out, err
	}
	recs := w.Records
	nrec := len(recs)
	obs := c.Observer % c.N
	keys := w.Keys[obs]
	cut := c.Cut % nrec // list at prefix cut holds records[0..cut]
	classes := map[string]bool{}

	newMem := func(k verifierKind, upto int) (fed, error) {
		st, err := list.NewInMemoryStorage(recs[0].Id, cloneAll(recs[:upto+1]))
		if err != nil {
			return fed{}, err
		}
		l, err := list.BuildAclListWithIdentity(keys, st, mkVerifier(k, w))
		return fed{l, st}, err
	}

	// ---- path 1 (reference run): full validation, one record at a time, in memory ----
	a, err := newMem(vFull, 0)
	if err != nil {
		return out, fmt.Errorf("build list on root: %w", err)
	}
	dig := make([]string, nrec)
	dig[0] = aclgen.Digest(a.l)
	for i := 1; i < nrec; i++ {
		if err := a.l.AddRawRecord(aclgen.CloneRec(recs[i])); err != nil {
			return out, fmt.Errorf("observer %d (full validation) rejects record %d that every account's own list accepted: %v", obs, i, err)
		}
		dig[i] = aclgen.Digest(a.l)
	}
	// the observer's view in the world (built while the history was produced) must agree
	if d := aclgen.Digest(w.Lists[obs]); d != dig[nrec-1] {
		return out, diffErr("list grown while the history was produced vs list fed afterwards", d, dig[nrec-1])
	}

	// the state is a function of the record sequence, not of who looks: every account's own
	// list (grown while the history was produced) shows the same members, permissions, invites,
	// pending requests and key ids as the observer's
	pub := aclgen.PublicDigest(a.l)
	for i, l := range w.Lists {
		if w.Stuck[i] {
			continue
		}
		if d := aclgen.PublicDigest(l); d != pub {
			return out, diffErr(fmt.Sprintf("observer-independent state differs between account %d's list and observer %d's list", i, obs), d, pub)
		}
	}

	// ---- path 3: client verifier with keep-only-ours partial decode ----
	cl, err := newMem(vClient, 0)
	if err != nil {
		return out, fmt.Errorf("client list on root: %w", err)
	}
	for i := 1; i < nrec; i++ {
		if err := cl.l.AddRawRecord(aclgen.CloneRec(recs[i])); err != nil {
			return out, fmt.Errorf("client (partial decode) rejects valid record %d: %v", i, err)
		}
		if d := aclgen.Digest(cl.l); d != dig[i] {
			return out, diffErr(fmt.Sprintf("partial decode vs full decode after record %d", i), d, dig[i])
		}
	}

	// ---- path 2: batches with duplicates ----
	for _, k := range []verifierKind{vFull, vClient} {
		b, err := newMem(k, 0)
		if err != nil {
			return out, err
		}
		pos, bi := 1, 0
		for pos < nrec {
			sz := c.Batches[bi%len(c.Batches)]
			bi++
			end := min(pos+sz, nrec)
			start := pos
			if bi%2 == 0 && start > 1 {
				start-- // re-deliver the previous record
				classes["batch-duplicate"] = true
			}
			if err := b.l.AddRawRecords(cloneAll(recs[start:end])); err != nil {
				return out, fmt.Errorf("AddRawRecords(%d..%d) failed: %v", start, end-1, err)
			}
			if d := aclgen.Digest(b.l); d != dig[end-1] {
				return out, diffErr(fmt.Sprintf("batched add up to %d vs one-by-one", end-1), d, dig[end-1])
			}
			pos = end
		}
	}

	// ---- build from a prefix in one go (start-up path) for both verifiers ----
	for _, k := range []verifierKind{vFull, vClient} {
		p, err := newMem(k, cut)
		if err != nil {
			return out, fmt.Errorf("build from %d stored records (verifier %d): %v", cut+1, k, err)
		}
		if d := aclgen.Digest(p.l); d != dig[cut] {
			return out, diffErr(fmt.Sprintf("built from storage at prefix %d (verifier %d) vs incremental", cut, k), d, dig[cut])
		}
	}

	// ---- path 4+5: anystore storage, close at the cut, rebuild, continue; path 6: catch-up ----
	sc, err := dbutil.New("c03-")
	if err != nil {
		return out, err
	}
	defer sc.Remove()
	ctx := context.Background()
	db, err := sc.Open("acl.db")
	if err != nil {
		return out, err
	}
	defer db.Close()
	hs, err := headstorage.New(ctx, db)
	if err != nil {
		return out, err
	}
	dst, err := list.CreateStorage(ctx, aclgen.CloneRec(recs[0]), hs, db)
	if err != nil {
		return out, err
	}
	restartKind := verifierKind(c.Cut % 2)
	dl, err := list.BuildAclListWithIdentity(keys, dst, mkVerifier(vFull, w))
	if err != nil {
		return out, err
	}
	for i := 1; i <= cut; i++ {
		if err := dl.AddRawRecord(aclgen.CloneRec(recs[i])); err != nil {
			return out, fmt.Errorf("anystore-backed list rejects record %d: %v", i, err)
		}
	}
	if d := aclgen.Digest(dl); d != dig[cut] {
		return out, diffErr("anystore-backed vs in-memory at the cut", d, dig[cut])
	}
	dl.Close(ctx)
	// restart: new storage object over the same database, new list
	dst2, err := list.NewStorage(ctx, recs[0].Id, hs, db)
	if err != nil {
		return out, err
	}
	dl2, err := list.BuildAclListWithIdentity(keys, dst2, mkVerifier(restartKind, w))
	if err != nil {
		return out, fmt.Errorf("rebuild from anystore storage at prefix %d: %v", cut, err)
	}
	if d := aclgen.Digest(dl2); d != dig[cut] {
		return out, diffErr(fmt.Sprintf("rebuilt from anystore storage at prefix %d (verifier %d) vs incremental", cut, restartKind), d, dig[cut])
	}
	classes["restart"] = true
	for i := cut + 1; i < nrec; i++ {
		if err := dl2.AddRawRecord(aclgen.CloneRec(recs[i])); err != nil {
			return out, fmt.Errorf("restarted list rejects record %d: %v", i, err)
		}
	}
	if d := aclgen.Digest(dl2); d != dig[nrec-1] {
		return out, diffErr("restarted-and-continued vs incremental at the end", d, dig[nrec-1])
	}
	// catch-up: a replica at the cut is fed what the full replicas serve after its head
	for si, server := range []list.AclList{dl2, a.l} {
		served, err := server.RecordsAfter(ctx, recs[cut].Id)
		if err != nil {
			return out, fmt.Errorf("RecordsAfter: %v", err)
		}
		byId := map[string][]byte{}
		for _, r := range recs {
			byId[r.Id] = r.Payload
		}
		seen := map[string]bool{}
		for _, r := range served {
			orig, ok := byId[r.Id]
			if !ok || !bytes.Equal(orig, r.Payload) {
				return out, fmt.Errorf("server %d serves record %s with bytes that differ from what was submitted (re-marshalled?)", si, r.Id)
			}
			seen[r.Id] = true
		}
		for i := cut + 1; i < nrec; i++ {
			if !seen[recs[i].Id] {
				return out, fmt.Errorf("server %d: RecordsAfter(head at %d) does not contain record %d", si, cut, i)
			}
		}
		for _, k := range []verifierKind{vFull, vClient} {
			cu, err := newMem(k, cut)
			if err != nil {
				return out, err
			}
			if err := cu.l.AddRawRecords(served); err != nil {
				return out, fmt.Errorf("catch-up from server %d (verifier %d) failed: %v", si, k, err)
			}
			if d := aclgen.Digest(cu.l); d != dig[nrec-1] {
				return out, diffErr("caught-up replica vs incremental", d, dig[nrec-1])
			}
		}
		classes["catch-up"] = true
	}

	// ---- tampering at position cut+1, against lists at prefix cut ----
	nTamperReached := 0
	if cut+1 < nrec {
		for _, k := range []verifierKind{vFull, vClient} {
			var victims []fed
			m, err := newMem(k, cut)
			if err != nil {
				return out, err
			}
			victims = append(victims, m)
			if k == restartKind {
				// a second anystore-backed victim at the cut
				db2, err := sc.Open(fmt.Sprintf("victim-%d.db", k))
				if err != nil {
					return out, err
				}
				defer db2.Close()
				hs2, err := headstorage.New(ctx, db2)
				if err != nil {
					return out, err
				}
				s2, err := list.CreateStorage(ctx, aclgen.CloneRec(recs[0]), hs2, db2)
				if err != nil {
					return out, err
				}
				l2, err := list.BuildAclListWithIdentity(keys, s2, mkVerifier(k, w))
				if err != nil {
					return out, err
				}
				if err := l2.AddRawRecords(cloneAll(recs[1 : cut+1])); err != nil {
					return out, err
				}
				victims = append(victims, fed{l2, s2})
			}
			for vi, v := range victims {
				for _, tm := range c.Tampers {
					mut, desc, err := mutate(w, recs, cut, tm)
					if err != nil {
						return out, err
					}
					if mut == nil {
						continue
					}
					before, err := snapshot(v)
					if err != nil {
						return out, err
					}
					valid, why := statementValid(mut, recs[cut].Id, k, w)
					if tm.Kind == "second_invalid" && k != vFull {
						continue // content validation is only promised by the validating configuration
					}
					// ValidateRawRecord (preflight used by the consensus side) has no id to check; chain,
					// signature and content are its business
					if rm := rawOf(mut); rm == nil {
						// does not decode: the caller of ValidateRawRecord could not even build its argument
					} else if verr := v.l.ValidateRawRecord(rm, nil); verr == nil {
						if ok2, why2 := statementValidNoId(mut, recs[cut].Id); !ok2 {
							return out, fmt.Errorf("ValidateRawRecord accepts tampered record: %s: %s", desc, why2)
						}
					}
					addErr := v.l.AddRawRecord(aclgen.CloneRec(mut))
					if addErr == nil {
						if !valid {
							return out, fmt.Errorf("tampered record ACCEPTED (verifier %d, victim %d): %s: %s", k, vi, desc, why)
						}
						if tm.Kind == "second_invalid" {
							return out, fmt.Errorf("fully validating list ACCEPTED a record whose second content is invalid: %s", desc)
						}
						// accepted a different-but-valid record: rebuild the victim at the cut
						classes["valid-variant-accepted"] = true
						nv, err := newMem(k, cut)
						if err != nil {
							return out, err
						}
						victims[vi] = nv
						v = nv
						continue
					}
					after, err := snapshot(v)
					if err != nil {
						return out, err
					}
					if before != after {
						return out, diffErr(fmt.Sprintf("rejected record (%s, err=%v) changed state or storage (verifier %d, victim %d)", desc, addErr, k, vi), after, before)
					}
					// a rejected record is not part of the log for any of the id-resolving calls either
					inLog := false
					for _, r := range recs[:cut+1] {
						if r.Id == mut.Id {
							inLog = true
						}
					}
					if !inLog {
						if v.l.HasHead(mut.Id) {
							return out, fmt.Errorf("HasHead reports the rejected record (%s, err=%v) as known (verifier %d, victim %d)", desc, addErr, k, vi)
						}
						if _, gerr := v.l.Get(mut.Id); gerr == nil {
							return out, fmt.Errorf("Get resolves the rejected record (%s, err=%v) (verifier %d, victim %d)", desc, addErr, k, vi)
						}
						if after, aerr := v.l.IsAfter(mut.Id, recs[0].Id); aerr == nil {
							return out, fmt.Errorf("IsAfter resolves the rejected record (%s, err=%v) -> %v (verifier %d, victim %d)", desc, addErr, after, k, vi)
						}
					}
					classes["tamper-"+tm.Kind] = true
					nTamperReached++
				}
				// the next valid record still applies
				if err := v.l.AddRawRecord(aclgen.CloneRec(recs[cut+1])); err != nil {
					return out, fmt.Errorf("valid record %d rejected after rejected tampered ones (verifier %d): %v", cut+1, k, err)
				}
				if d := aclgen.Digest(v.l); d != dig[cut+1] {
					return out, diffErr("state after rejected tampers + valid record vs reference", d, dig[cut+1])
				}
				// ... and so does the rest of the log, delivered as one catch-up batch: a record that was
				// offered too early (or any other rejected delivery) must not keep the replica from
				// taking it when its turn comes
				if cut+2 < nrec {
					if err := v.l.AddRawRecords(cloneAll(recs[cut+1:])); err != nil {
						return out, fmt.Errorf("catch-up batch after rejected deliveries failed (verifier %d, victim %d): %v", k, vi, err)
					}
					if d := aclgen.Digest(v.l); d != dig[nrec-1] {
						return out, diffErr("state after rejected deliveries + catch-up batch vs reference", d, dig[nrec-1])
					}
					if v.l.Head().Id != recs[nrec-1].Id {
						return out, fmt.Errorf("after rejected deliveries + catch-up batch the head is %s, want %s", v.l.Head().Id, recs[nrec-1].Id)
					}
					classes["catch-up-after-rejections"] = true
				}
			}
		}
	}

	// ---- classification ----
	rot, multi := 0, 0
	for _, s := range w.Steps {
		switch s.Op.Kind {
		case "remove", "remove2", "read_key_change", "read_key_change_altenc", "invite_revoke_rotate":
			rot++
		case "batch":
			multi++
			for _, sub := range s.Op.Sub {
				if sub.Kind == "remove" {
					rot++
				}
			}
		case "add2", "perm_changes":
			multi++
		}
		classes["kind-"+s.Op.Kind] = true
	}
	if rot > 0 {
		classes["rotation"] = true
	}
	if multi > 0 {
		classes["multi-content"] = true
	}
	switch {
	case obs == 0:
		classes["observer-owner"] = true
	case w.M.Perm[obs] != aclgen.None:
		classes["observer-member"] = true
	default:
		was := false
		for _, p := range w.M.PermAt[obs] {
			if p != aclgen.None {
				was = true
			}
		}
		if was {
			classes["observer-removed"] = true
			if cutPerm := w.M.PermAt[obs][cut]; cutPerm == aclgen.None {
				classes["observer-removed-before-cut"] = true
			}
		} else {
			classes["observer-never-member"] = true
		}
	}
	out.Sig = vstat.Hash(recs[nrec-1].Id, obs, cut)
	out.NonTrivial = rot >= 1 && multi >= 1 && nrec >= 5 && cut > 0 && cut < nrec-1
	for k := range classes {
		out.Classes = append(out.Classes, k)
	}
	vstat.Count("records", int64(nrec))
	vstat.Count("tampers_rejected", int64(nTamperReached))
	return out, nil
}

func statementValidNoId(rec *consensusproto.RawRecordWithId, head string) (bool, string) {
	raw := &consensusproto.RawRecord{}
	if err := raw.UnmarshalVT(rec.Payload); err != nil {
		return false, "raw record does not decode"
	}
	r := &consensusproto.Record{}
	if err := r.UnmarshalVT(raw.Payload); err != nil {
		return false, "record does not decode"
	}
	if r.PrevId != head {
		return false, "does not extend the head"
	}
	if !edVerify(r.Identity, raw.Payload, raw.Signature) {
		return false, "author signature does not verify"
	}
	return true, ""
}

// independent CIDv1 (dag-cbor, sha2-256, base32 lower, no padding) computation
func cidOf(data []byte) (string, error) {
	sum := sha256.Sum256(data)
	raw := append([]byte{0x01, 0x71, 0x12, 0x20}, sum[:]...)
	return "b" + strings.ToLower(base32.StdEncoding.WithPadding(base32.NoPadding).EncodeToString(raw)), nil
}

func cidOK(data []byte, id string) bool {
	c, _ := cidOf(data)
	return c == id
}

func cloneRaw(r *consensusproto.RawRecord) *consensusproto.RawRecord {
	return &consensusproto.RawRecord{
		Payload:           append([]byte(nil), r.Payload...),
		Signature:         append([]byte(nil), r.Signature...),
		AcceptorIdentity:  append([]byte(nil), r.AcceptorIdentity...),
		AcceptorSignature: append([]byte(nil), r.AcceptorSignature...),
		AcceptorTimestamp: r.AcceptorTimestamp,
	}
}

func rawOf(rec *consensusproto.RawRecordWithId) *consensusproto.RawRecord {
	raw := &consensusproto.RawRecord{}
	if err := raw.UnmarshalVT(rec.Payload); err != nil {
		return nil
	}
	return raw
}

func cloneAll(rs []*consensusproto.RawRecordWithId) []*consensusproto.RawRecordWithId {
	out := make([]*consensusproto.RawRecordWithId, len(rs))
	for i, r := range rs {
		out[i] = aclgen.CloneRec(r)
	}
	return out
}

func diffErr(what, got, want string) error {
	return fmt.Errorf("%s:\n--- got ---\n%s--- want ---\n%s", what, got, want)
}

// mutate derives a tampered variant of record cut+1 (or a record that should not be
// accepted at this point). A nil result means the tamper does not apply here.
func mutate(w *aclgen.World, recs []*consensusproto.RawRecordWithId, cut int, tm Tamper) (*consensusproto.RawRecordWithId, string, error) {
	next := recs[cut+1]
	raw := &consensusproto.RawRecord{}
	if err := raw.UnmarshalVT(next.Payload); err != nil {
		return nil, "", err
	}
	rehash := func(r *consensusproto.RawRecord) (*consensusproto.RawRecordWithId, error) { return aclgen.WrapRaw(r) }
	switch tm.Kind {
	case "flip":
		p := append([]byte(nil), next.Payload...)
		off := tm.A % len(p)
		p[off] ^= 1 << uint(tm.B)
		return &consensusproto.RawRecordWithId{Payload: p, Id: next.Id}, fmt.Sprintf("bit %d of byte %d flipped, id kept", tm.B, off), nil
	case "flip_rehash":
		p := append([]byte(nil), next.Payload...)
		off := tm.A % len(p)
		p[off] ^= 1 << uint(tm.B)
		id, err := cidOf(p)
		if err != nil {
			return nil, "", err
		}
		return &consensusproto.RawRecordWithId{Payload: p, Id: id}, fmt.Sprintf("bit %d of byte %d flipped, id recomputed", tm.B, off), nil
	case "trunc":
		n := tm.A % len(next.Payload)
		p := append([]byte(nil), next.Payload[:n]...)
		id, err := cidOf(p)
		if err != nil {
			return nil, "", err
		}
		return &consensusproto.RawRecordWithId{Payload: p, Id: id}, fmt.Sprintf("truncated to %d bytes, id recomputed", n), nil
	case "id":
		other := recs[tm.A%len(recs)].Id
		if tm.B%2 == 0 || other == next.Id {
			other = next.Id[:len(next.Id)-2] + "aa"
			if other == next.Id {
				other = next.Id[:len(next.Id)-2] + "bb"
			}
		}
		return &consensusproto.RawRecordWithId{Payload: append([]byte(nil), next.Payload...), Id: other}, "id replaced by " + other, nil
	case "sig":
		r := cloneRaw(raw)
		if len(r.Signature) == 0 {
			return nil, "", nil
		}
		r.Signature[tm.A%len(r.Signature)] ^= 1 << uint(tm.B)
		m, err := rehash(r)
		return m, "author signature bit flipped, id recomputed", err
	case "accsig":
		r := cloneRaw(raw)
		if len(r.AcceptorSignature) == 0 {
			return nil, "", nil
		}
		r.AcceptorSignature[tm.A%len(r.AcceptorSignature)] ^= 1 << uint(tm.B)
		m, err := rehash(r)
		return m, "acceptor signature bit flipped, id recomputed", err
	case "accid":
		r := cloneRaw(raw)
		other := accounts.Key("rogue-network", tm.A%3)
		id, err := other.GetPublic().Marshall()
		if err != nil {
			return nil, "", err
		}
		sig, err := other.Sign(r.Payload)
		if err != nil {
			return nil, "", err
		}
		r.AcceptorIdentity, r.AcceptorSignature = id, sig
		m, err := rehash(r)
		return m, "acceptor replaced by a key that is not the network key (validly signed by it)", err
	case "accraw":
		// the acceptor identity in the raw (non-proto) 32-byte encoding the verifier also accepts:
		// B even -> the genuine network key (still valid), B odd -> a rogue key signing validly
		r := cloneRaw(raw)
		key := w.NetKey
		what := "network key"
		if tm.B%2 == 1 {
			key = accounts.Key("rogue-network", tm.A%3)
			what = "a key that is not the network key"
		}
		rawId, err := key.GetPublic().Raw()
		if err != nil {
			return nil, "", err
		}
		sig, err := key.Sign(r.Payload)
		if err != nil {
			return nil, "", err
		}
		r.AcceptorIdentity, r.AcceptorSignature = rawId, sig
		m, err := rehash(r)
		return m, "acceptor identity in raw encoding, signed by " + what, err
	case "noacc":
		r := cloneRaw(raw)
		r.AcceptorIdentity, r.AcceptorSignature = nil, nil
		m, err := rehash(r)
		return m, "acceptor identity and signature removed", err
	case "prev":
		// validly re-signed by the original author, but not extending the head
		rec := &consensusproto.Record{}
		if err := rec.UnmarshalVT(raw.Payload); err != nil {
			return nil, "", err
		}
		author := accounts.Index(mustPub(rec.Identity), w.N)
		if author < 0 {
			return nil, "", nil
		}
		var prev, what string
		switch tm.A % 4 {
		case 0:
			if cut == 0 {
				return nil, "", nil
			}
			prev, what = recs[cut-1].Id, "the record before the head (fork)"
		case 1:
			prev, what = next.Id, "itself"
		case 2:
			prev, what = "", "empty"
		default:
			prev, what = recs[0].Id[:len(recs[0].Id)-3]+"xyz", "an unknown id"
			if cut == 0 {
				prev = "bafyunknown"
			}
		}
		if prev == recs[cut].Id {
			return nil, "", nil
		}
		rec.PrevId = prev
		payload, err := rec.MarshalVT()
		if err != nil {
			return nil, "", err
		}
		sig, err := w.Keys[author].SignKey.Sign(payload)
		if err != nil {
			return nil, "", err
		}
		m, err := w.Wrap(&consensusproto.RawRecord{Payload: payload, Signature: sig})
		return m, "prev id re-pointed to " + what + " and validly re-signed", err
	case "stale":
		return aclgen.CloneRec(recs[tm.A%(cut+1)]), fmt.Sprintf("stale record %d re-sent", tm.A%(cut+1)), nil
	case "ooo":
		if cut+2 >= len(recs) {
			return nil, "", nil
		}
		return aclgen.CloneRec(recs[cut+2]), "record after the next one delivered first", nil
	case "author_swap":
		rec := &consensusproto.Record{}
		if err := rec.UnmarshalVT(raw.Payload); err != nil {
			return nil, "", err
		}
		other := w.Keys[tm.A%w.N].SignKey.GetPublic()
		ob, err := other.Marshall()
		if err != nil {
			return nil, "", err
		}
		if bytes.Equal(ob, rec.Identity) {
			return nil, "", nil
		}
		rec.Identity = ob
		payload, err := rec.MarshalVT()
		if err != nil {
			return nil, "", err
		}
		r := cloneRaw(raw)
		r.Payload = payload
		if tm.B%2 == 0 { // acceptor re-signs the new payload, author signature stays stale
			sig, err := w.NetKey.Sign(payload)
			if err != nil {
				return nil, "", err
			}
			r.AcceptorSignature = sig
		}
		m, err := rehash(r)
		return m, "claimed author replaced by another account, author signature kept", err
	case "second_invalid":
		// a multi-content record by the owner-at-the-cut whose second content must fail
		ownerIdx := -1
		for i := 0; i < w.N; i++ {
			if w.M.PermAt[i][cut] == aclgen.Owner {
				ownerIdx = i
			}
		}
		fresh := -1
		for i := 0; i < w.N; i++ {
			never := true
			for _, p := range w.M.PermAt[i][:cut+1] {
				if p != aclgen.None {
					never = false
				}
			}
			if never && w.M.PendingJoin[i] == "" {
				fresh = i
			}
		}
		if ownerIdx < 0 || fresh < 0 {
			return nil, "", nil
		}
		idb, err := w.Keys[fresh].SignKey.GetPublic().Marshall()
		if err != nil {
			return nil, "", err
		}
		enc, err := w.Keys[fresh].SignKey.GetPublic().Encrypt([]byte("not-a-key-but-irrelevant"))
		if err != nil {
			return nil, "", err
		}
		good := &aclrecordproto.AclContentValue{Value: &aclrecordproto.AclContentValue_AccountsAdd{AccountsAdd: &aclrecordproto.AclAccountsAdd{
			Additions: []*aclrecordproto.AclAccountAdd{{Identity: idb, Permissions: aclrecordproto.AclUserPermissions_Reader, Metadata: []byte("m"), EncryptedReadKey: enc}},
		}}}
		var bad *aclrecordproto.AclContentValue
		switch tm.A % 3 {
		case 0:
			bad = &aclrecordproto.AclContentValue{Value: &aclrecordproto.AclContentValue_RequestDecline{RequestDecline: &aclrecordproto.AclAccountRequestDecline{RequestRecordId: "no-such-request"}}}
		case 1:
			bad = &aclrecordproto.AclContentValue{Value: &aclrecordproto.AclContentValue_InviteRevoke{InviteRevoke: &aclrecordproto.AclAccountInviteRevoke{InviteRecordId: "no-such-invite"}}}
		default:
			bad = &aclrecordproto.AclContentValue{Value: &aclrecordproto.AclContentValue_RequestCancel{RequestCancel: &aclrecordproto.AclAccountRequestCancel{RecordId: "no-such-request"}}}
		}
		m, err := w.Forge(ownerIdx, recs[cut].Id, []*aclrecordproto.AclContentValue{good, bad})
		return m, "owner-signed two-content record whose second content refers to something that does not exist", err
	}
	return nil, "", fmt.Errorf("unknown tamper %q", tm.Kind)
}

func mustPub(identityProto []byte) crypto.PubKey {
	pk, err := crypto.UnmarshalEd25519PublicKeyProto(identityProto)
	if err != nil {
		return nil
	}
	return pk
}

func TestRandom(t *testing.T) {
	outerT = t
	vstat.Check(t, prop, genCase, run)
}

func TestReplay(t *testing.T) {
	outerT = t
	t.Run("TestRandom", func(t *testing.T) { vstat.Replay(t, prop, "TestRandom", run) })
	t.Run("TestOneToOne", func(t *testing.T) { vstat.Replay(t, prop, "TestOneToOne", runO2O) })
	t.Run("TestSyncHandler", func(t *testing.T) { vstat.Replay(t, prop, "TestSyncHandler", runSH) })
}

// TestRegRecordsAfterRoot: minimised failure found by TestRandom on the pinned tree —
// a replica at prefix 0 (root only) catching up from an in-memory-backed replica
// (fixed by "fix: AclList.RecordsAfter(rootId) served nothing on in-memory storage").
func TestRegRecordsAfterRoot(t *testing.T) {
	outerT = t
	vstat.One(t, prop, Case{Seed: 1, N: 3, Ops: []aclgen.Op{{Kind: "add", Actor: 0, Target: 1, Perm: aclgen.Writer}, {Kind: "read_key_change", Actor: 0}},
		Observer: 1, Cut: 0, Batches: []int{1}, Tampers: []Tamper{{Kind: "prev", A: 1}}}, run)
}
