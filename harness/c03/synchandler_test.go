package c03

// Catching up through the real sync handler (syncacl.SyncAcl): a producer replica adds the
// records of a generated history one at a time and broadcasts a head update for each; a
// lagging replica receives a generated subset of them (the others are lost), answers with the
// requests its handler returns, the producer's handler serves them, and the responses go back.
// Once the update for the last record has been delivered and its round trip is done, the
// lagging replica must hold the producer's head and the reference state.

import (
	"context"
	"fmt"
	"testing"

	"github.com/anyproto/any-sync/accountservice"
	"github.com/anyproto/any-sync/app"
	"github.com/anyproto/any-sync/commonspace/object/accountdata"
	"github.com/anyproto/any-sync/commonspace/object/acl/list"
	"github.com/anyproto/any-sync/commonspace/object/acl/syncacl"
	"github.com/anyproto/any-sync/commonspace/object/acl/syncacl/response"
	"github.com/anyproto/any-sync/commonspace/spacestorage"
	commonsync "github.com/anyproto/any-sync/commonspace/sync"
	"github.com/anyproto/any-sync/commonspace/sync/objectsync/objectmessages"
	"github.com/anyproto/any-sync/commonspace/sync/syncdeps"
	"github.com/anyproto/any-sync/consensus/consensusproto"
	"github.com/anyproto/any-sync/net/peer"
	"github.com/anyproto/any-sync/protobuf"
	"google.golang.org/protobuf/proto"
	"pgregory.net/rapid"
	"storj.io/drpc"

	"verif/harness/internal/aclgen"
	"verif/harness/internal/vstat"
)

type SHCase struct {
	Seed     uint64      `json:"seed"`
	N        int         `json:"n"`
	Ops      []aclgen.Op `json:"ops"`
	Observer int         `json:"observer"`
	Start    int         `json:"start"`   // the lagging replica starts with this many records after the root (mod)
	Deliver  []bool      `json:"deliver"` // fate of the head update for record i (cyclic); the last one is always delivered
	Client   bool        `json:"client"`  // lagging replica uses the non-validating (client) verifier
}

func genSH(rt *rapid.T) SHCase {
	n := rapid.IntRange(3, 5).Draw(rt, "n")
	return SHCase{
		Seed:     rapid.Uint64Range(1, 1<<40).Draw(rt, "seed"),
		N:        n,
		Ops:      aclgen.GenOps(rt, n, 4, vstat.Pick(14, 24)),
		Observer: rapid.IntRange(0, n-1).Draw(rt, "observer"),
		Start:    rapid.IntRange(0, 6).Draw(rt, "start"),
		Deliver:  rapid.SliceOfN(rapid.Bool(), 1, 12).Draw(rt, "deliver"),
		Client:   rapid.Bool().Draw(rt, "client"),
	}
}

// ---- a minimal application around syncacl.SyncAcl ----

type shStorage struct {
	spacestorage.SpaceStorage // only the methods below are used by SyncAcl.Init
	id  string
	acl list.Storage
}

func (s *shStorage) Init(*app.App) error               { return nil }
func (s *shStorage) Name() string                      { return spacestorage.CName }
func (s *shStorage) Run(context.Context) error         { return nil }
func (s *shStorage) Close(context.Context) error       { return nil }
func (s *shStorage) Id() string                        { return s.id }
func (s *shStorage) AclStorage() (list.Storage, error) { return s.acl, nil }

type shAccount struct{ keys *accountdata.AccountKeys }

func (a *shAccount) Init(*app.App) error                { return nil }
func (a *shAccount) Name() string                       { return accountservice.CName }
func (a *shAccount) Account() *accountdata.AccountKeys { return a.keys }

type shSync struct {
	broadcasts []*objectmessages.HeadUpdate
	queued     []syncdeps.Request
}

func (s *shSync) Init(*app.App) error { return nil }
func (s *shSync) Name() string        { return commonsync.CName }
func (s *shSync) BroadcastMessage(ctx context.Context, msg drpc.Message) error {
	if hu, ok := msg.(*objectmessages.HeadUpdate); ok {
		s.broadcasts = append(s.broadcasts, hu)
	}
	return nil
}
func (s *shSync) HandleStreamRequest(context.Context, syncdeps.Request, drpc.Stream) error {
	return nil
}
func (s *shSync) HandleMessage(context.Context, drpc.Message) error { return nil }
func (s *shSync) SendRequest(context.Context, syncdeps.Request, syncdeps.ResponseCollector) error {
	return nil
}
func (s *shSync) QueueRequest(ctx context.Context, rq syncdeps.Request) error {
	s.queued = append(s.queued, rq)
	return nil
}
func (s *shSync) CloseReceiveQueue(string) error { return nil }

type shStatus struct{}

func (shStatus) Init(*app.App) error                     { return nil }
func (shStatus) Name() string                            { return "verif.status" }
func (shStatus) HeadsChange(string, []string)            {}
func (shStatus) HeadsReceive(string, string, []string)   {}
func (shStatus) ObjectReceive(string, string, []string)  {}
func (shStatus) HeadsApply(string, string, []string, bool) {}

type shQueue struct{}

func (shQueue) UpdateQueueSize(uint64, int, bool) {}

type shNode struct {
	acl  syncacl.SyncAcl
	sync *shSync
}

func newSHNode(spaceId string, keys *accountdata.AccountKeys, recs []*consensusproto.RawRecordWithId, k verifierKind, w *aclgen.World) (*shNode, error) {
	st, err := list.NewInMemoryStorage(recs[0].Id, cloneAll(recs))
	if err != nil {
		return nil, err
	}
	var v = mkVerifier(k, w)
	n := &shNode{sync: &shSync{}}
	a := new(app.App)
	a.Register(&shStorage{id: spaceId, acl: st}).Register(&shAccount{keys: keys}).Register(n.sync)
	n.acl = syncacl.New(v)
	if err := n.acl.Init(a); err != nil {
		return nil, err
	}
	return n, nil
}

func runSH(c SHCase) (out vstat.Outcome, err error) {
	var w *aclgen.World
	err = aclgen.Bubble(outerT, func() error {
		var err error
		w, err = aclgen.NewWorld(c.N, c.Seed, true)
		if err != nil {
			return err
		}
		for _, op := range c.Ops {
			if _, err := w.Apply(op); err != nil {
				return err
			}
		}
		return nil
	})
	if err != nil {
		return out, err
	}
	recs := w.Records
	nrec := len(recs)
	if nrec < 3 {
		return out, nil
	}
	obs := c.Observer % c.N
	start := c.Start % (nrec - 1) // 0 .. nrec-2 records after the root
	kind := vFull
	if c.Client {
		kind = vClient
	}
	const spaceId = "space.verif"
	// the producer is the owner's device holding the root only, fed one record at a time
	prod, err := newSHNode(spaceId, w.Keys[0], recs[:1], vFull, w)
	if err != nil {
		return out, err
	}
	lag, err := newSHNode(spaceId, w.Keys[obs], recs[:1+start], kind, w)
	if err != nil {
		return out, err
	}
	// reference: a list fed everything directly
	ref, err := aclgen.NewList(w.Keys[obs], cloneAll(recs), mkVerifier(kind, w))
	if err != nil {
		return out, err
	}
	want := aclgen.Digest(ref)
	ctxFromProd := peer.CtxWithPeerId(context.Background(), "producer")
	ctxFromLag := peer.CtxWithPeerId(context.Background(), "lagging")
	classes := map[string]bool{}
	nReq, nLost := 0, 0

	// roundTrip serves a request of the lagging replica at the producer and feeds the answer back
	var roundTrip func(req syncdeps.Request, depth int) error
	roundTrip = func(req syncdeps.Request, depth int) error {
		if req == nil || depth > 3 {
			return nil
		}
		nReq++
		or, ok := req.(*objectmessages.Request)
		if !ok {
			return fmt.Errorf("unexpected request type %T", req)
		}
		b, err := or.Inner.Marshall()
		if err != nil {
			return err
		}
		var resps []*response.Response
		counter, herr := prod.acl.HandleStreamRequest(ctxFromLag, objectmessages.NewByteRequest("lagging", spaceId, recs[0].Id, b), shQueue{}, func(msg proto.Message) error {
			r := &response.Response{}
			if err := r.SetProtoMessage(msg.(protobuf.Message)); err != nil {
				return err
			}
			resps = append(resps, r)
			return nil
		})
		if herr != nil {
			classes["producer-does-not-know-requester-head"] = true
		}
		_ = counter // the producer is never behind in this scenario
		for _, r := range resps {
			if err := lag.acl.HandleResponse(ctxFromProd, "producer", recs[0].Id, r); err != nil {
				return fmt.Errorf("lagging replica rejects the producer's full-sync response: %v", err)
			}
			classes["response-applied"] = true
		}
		return nil
	}

	for i := 1; i < nrec; i++ {
		prod.sync.broadcasts = nil
		prod.acl.Lock()
		err := prod.acl.AddRawRecord(aclgen.CloneRec(recs[i]))
		prod.acl.Unlock()
		if err != nil {
			return out, fmt.Errorf("producer rejects record %d of the reference log: %v", i, err)
		}
		if len(prod.sync.broadcasts) != 1 {
			return out, fmt.Errorf("producer broadcast %d head updates for record %d, want 1", len(prod.sync.broadcasts), i)
		}
		last := i == nrec-1
		if !last && !c.Deliver[(i-1)%len(c.Deliver)] {
			nLost++
			continue
		}
		hu := prod.sync.broadcasts[0]
		meta := objectmessages.ObjectMeta{PeerId: "producer", ObjectId: recs[0].Id, SpaceId: spaceId}
		wire, err := hu.Update.Marshall(meta)
		if err != nil {
			return out, err
		}
		headBefore := lag.acl.Head().Id
		req, herr := lag.acl.HandleHeadUpdate(ctxFromProd, shStatus{}, &objectmessages.HeadUpdate{Meta: meta, Bytes: wire})
		if herr != nil && req == nil {
			// an update that cannot be applied is either already known or must start a catch-up
			if !lag.acl.HasHead(recs[i].Id) {
				return out, fmt.Errorf("head update for record %d (lagging replica at %s, %d updates lost so far): handler returned error %v and no request; the replica stays behind", i, short(headBefore), nLost, herr)
			}
		}
		if req != nil {
			classes["catch-up-request"] = true
			if err := roundTrip(req, 0); err != nil {
				return out, err
			}
		} else if lag.acl.Head().Id == recs[i].Id && headBefore != recs[i].Id {
			classes["update-applied-directly"] = true
		}
		// the update for record i was delivered and its round trip is complete
		if i <= start {
			// an update for a record the replica already holds changes nothing
			if !lag.acl.HasHead(recs[i].Id) || lag.acl.Head().Id != recs[start].Id {
				return out, fmt.Errorf("head update for the already held record %d moved the lagging replica to %s", i, short(lag.acl.Head().Id))
			}
			classes["duplicate-update"] = true
			continue
		}
		if lag.acl.Head().Id != recs[i].Id {
			return out, fmt.Errorf("after the head update for record %d and its round trip the lagging replica is at %s, the producer at %s (started with %d records, %d updates lost)", i, short(lag.acl.Head().Id), short(recs[i].Id), start, nLost)
		}
	}
	if d := aclgen.Digest(lag.acl); d != want {
		return out, diffErr("lagging replica after catching up through the sync handler vs reference", d, want)
	}
	if nLost > 0 {
		classes["updates-lost"] = true
	}
	if c.Client {
		classes["client-verifier"] = true
	}
	for k := range classes {
		out.Classes = append(out.Classes, "sh-"+k)
	}
	out.NonTrivial = classes["catch-up-request"] && classes["response-applied"]
	out.Sig = vstat.Hash("sh", recs[nrec-1].Id, obs, start, fmt.Sprint(c.Deliver), c.Client)
	vstat.Count("sh_requests", int64(nReq))
	vstat.Count("sh_updates_lost", int64(nLost))
	return out, nil
}

func short(id string) string {
	if len(id) > 8 {
		return id[len(id)-8:]
	}
	return id
}

// TestSyncHandler: catch-up through syncacl's handler under lost head updates.
func TestSyncHandler(t *testing.T) {
	outerT = t
	vstat.Check(t, prop, genSH, runSH)
}
