package c03

// One-to-one ACLs: the root names a derived shared key as owner and the two parties as
// writers. The same statement applies: whatever a live list does with a record offered to it,
// a list rebuilt from its storage and a fresh replica fed the same log must agree with it.

import (
	"context"
	"fmt"
	"testing"

	"github.com/anyproto/any-sync/commonspace/headsync/headstorage"
	"github.com/anyproto/any-sync/commonspace/object/acl/aclrecordproto"
	"github.com/anyproto/any-sync/commonspace/object/acl/list"
	"github.com/anyproto/any-sync/commonspace/object/acl/recordverifier"
	"github.com/anyproto/any-sync/commonspace/object/accountdata"
	"github.com/anyproto/any-sync/consensus/consensusproto"
	"github.com/anyproto/any-sync/util/crypto"
	"pgregory.net/rapid"

	"verif/harness/internal/accounts"
	"verif/harness/internal/aclgen"
	"verif/harness/internal/dbutil"
	"verif/harness/internal/vstat"
)

type O2ORec struct {
	Author int    `json:"author"` // 0 shared owner key, 1 party A, 2 party B, 3 outsider
	Kind   string `json:"kind"`
	Target int    `json:"target"` // 1 A, 2 B, 3 outsider
	Perm   int    `json:"perm"`
	Stale  bool   `json:"stale,omitempty"` // cite the root instead of the current head
}

type O2OCase struct {
	Pair     int      `json:"pair"`
	Observer int      `json:"observer"` // 1 A, 2 B, 3 outsider (a node's view)
	Client   bool     `json:"client"`   // the observer's verifier does not validate content
	Recs     []O2ORec `json:"recs"`
}

var o2oKinds = []string{"options", "ownership", "perm_change", "accounts_add", "account_remove", "request_remove", "read_key_change", "invite", "request_join"}

func genO2O(rt *rapid.T) O2OCase {
	c := O2OCase{Pair: rapid.IntRange(0, 5).Draw(rt, "pair"), Observer: rapid.IntRange(1, 3).Draw(rt, "observer"), Client: rapid.Bool().Draw(rt, "client")}
	n := rapid.IntRange(1, 3).Draw(rt, "n")
	for i := 0; i < n; i++ {
		c.Recs = append(c.Recs, O2ORec{
			Author: rapid.SampledFrom([]int{0, 0, 0, 1, 2, 3}).Draw(rt, "author"),
			Kind:   rapid.SampledFrom(o2oKinds).Draw(rt, "kind"),
			Target: rapid.IntRange(1, 3).Draw(rt, "target"),
			Perm:   rapid.IntRange(1, 4).Draw(rt, "perm"),
			Stale:  rapid.IntRange(0, 7).Draw(rt, "stale") == 0,
		})
	}
	return c
}

func o2oParties(pair int) (a, b, out *accountdata.AccountKeys, shared crypto.PrivKey, err error) {
	a, b, out = accounts.Named("o2o", 3*pair), accounts.Named("o2o", 3*pair+1), accounts.Named("o2o", 3*pair+2)
	shared, err = crypto.GenerateSharedKey(a.SignKey, b.SignKey.GetPublic(), crypto.AnysyncOneToOneSpacePath)
	return
}

func o2oRoot(a, b *accountdata.AccountKeys, shared crypto.PrivKey) (*consensusproto.RawRecordWithId, error) {
	pa, err := a.SignKey.GetPublic().Marshall()
	if err != nil {
		return nil, err
	}
	pb, err := b.SignKey.GetPublic().Marshall()
	if err != nil {
		return nil, err
	}
	ps, err := shared.GetPublic().Marshall()
	if err != nil {
		return nil, err
	}
	info := &aclrecordproto.AclOneToOneInfo{Owner: ps, Writers: [][]byte{pa, pb}}
	builder := list.NewAclRecordBuilder("", crypto.NewKeyStorage(), nil, recordverifier.NewValidateFull())
	return builder.BuildOneToOneRoot(list.RootContent{PrivKey: shared, MasterKey: shared}, info)
}

func o2oContent(r O2ORec, keys []crypto.PrivKey) *aclrecordproto.AclContentValue {
	pub := func(i int) []byte {
		b, err := keys[i].GetPublic().Marshall()
		if err != nil {
			panic(err)
		}
		return b
	}
	perm := aclrecordproto.AclUserPermissions(r.Perm)
	switch r.Kind {
	case "options":
		return &aclrecordproto.AclContentValue{Value: &aclrecordproto.AclContentValue_SpaceOptionsChange{SpaceOptionsChange: &aclrecordproto.AclSpaceOptionsChange{Options: &aclrecordproto.AclSpaceOptions{DeleteRestricted: r.Perm%2 == 0}}}}
	case "ownership":
		return &aclrecordproto.AclContentValue{Value: &aclrecordproto.AclContentValue_OwnershipChange{OwnershipChange: &aclrecordproto.AclOwnershipChange{NewOwnerIdentity: pub(r.Target), OldOwnerPermissions: perm}}}
	case "perm_change":
		return &aclrecordproto.AclContentValue{Value: &aclrecordproto.AclContentValue_PermissionChange{PermissionChange: &aclrecordproto.AclAccountPermissionChange{Identity: pub(r.Target), Permissions: perm}}}
	case "accounts_add":
		enc, err := keys[r.Target].GetPublic().Encrypt([]byte("not a key"))
		if err != nil {
			panic(err)
		}
		return &aclrecordproto.AclContentValue{Value: &aclrecordproto.AclContentValue_AccountsAdd{AccountsAdd: &aclrecordproto.AclAccountsAdd{Additions: []*aclrecordproto.AclAccountAdd{{Identity: pub(r.Target), Permissions: perm, Metadata: []byte("m"), EncryptedReadKey: enc}}}}}
	case "account_remove":
		return &aclrecordproto.AclContentValue{Value: &aclrecordproto.AclContentValue_AccountRemove{AccountRemove: &aclrecordproto.AclAccountRemove{Identities: [][]byte{pub(r.Target)}, ReadKeyChange: &aclrecordproto.AclReadKeyChange{}}}}
	case "request_remove":
		return &aclrecordproto.AclContentValue{Value: &aclrecordproto.AclContentValue_AccountRequestRemove{AccountRequestRemove: &aclrecordproto.AclAccountRequestRemove{}}}
	case "read_key_change":
		return &aclrecordproto.AclContentValue{Value: &aclrecordproto.AclContentValue_ReadKeyChange{ReadKeyChange: &aclrecordproto.AclReadKeyChange{}}}
	case "invite":
		return &aclrecordproto.AclContentValue{Value: &aclrecordproto.AclContentValue_Invite{Invite: &aclrecordproto.AclAccountInvite{InviteKey: pub(3), InviteType: aclrecordproto.AclInviteType_RequestToJoin}}}
	default: // request_join
		return &aclrecordproto.AclContentValue{Value: &aclrecordproto.AclContentValue_RequestJoin{RequestJoin: &aclrecordproto.AclAccountRequestJoin{InviteIdentity: pub(r.Target), InviteRecordId: "none", Metadata: []byte("m")}}}
	}
}

func o2oForge(key crypto.PrivKey, prev string, content *aclrecordproto.AclContentValue) (*consensusproto.RawRecordWithId, error) {
	data, err := (&aclrecordproto.AclData{AclContent: []*aclrecordproto.AclContentValue{content}}).MarshalVT()
	if err != nil {
		return nil, err
	}
	identity, err := key.GetPublic().Marshall()
	if err != nil {
		return nil, err
	}
	payload, err := (&consensusproto.Record{PrevId: prev, Identity: identity, Data: data, Timestamp: 946684800}).MarshalVT()
	if err != nil {
		return nil, err
	}
	sig, err := key.Sign(payload)
	if err != nil {
		return nil, err
	}
	// accepted by the network's acceptor, as a record that reached a client would be
	net := accounts.Key("o2o-net", 0)
	accId, err := net.GetPublic().Marshall()
	if err != nil {
		return nil, err
	}
	accSig, err := net.Sign(payload)
	if err != nil {
		return nil, err
	}
	return aclgen.WrapRaw(&consensusproto.RawRecord{Payload: payload, Signature: sig, AcceptorIdentity: accId, AcceptorSignature: accSig, AcceptorTimestamp: 946684800})
}

func runO2O(c O2OCase) (out vstat.Outcome, err error) {
	defer func() {
		if r := recover(); r != nil {
			err = fmt.Errorf("panic: %v", r)
		}
	}()
	a, b, outsider, shared, err := o2oParties(c.Pair)
	if err != nil {
		return out, err
	}
	root, err := o2oRoot(a, b, shared)
	if err != nil {
		return out, err
	}
	keys := []crypto.PrivKey{shared, a.SignKey, b.SignKey, outsider.SignKey}
	obs := []*accountdata.AccountKeys{nil, a, b, outsider}[c.Observer]
	verifier := func() recordverifier.AcceptorVerifier {
		if c.Client {
			return recordverifier.New(accounts.Key("o2o-net", 0).GetPublic()) // does not validate content, like a client of a real network
		}
		return recordverifier.NewValidateFull()
	}
	ctx := context.Background()
	sc, err := dbutil.New("c03-o2o-")
	if err != nil {
		return out, err
	}
	defer sc.Remove()
	db, err := sc.Open("acl.db")
	if err != nil {
		return out, err
	}
	defer db.Close()
	hs, err := headstorage.New(ctx, db)
	if err != nil {
		return out, err
	}
	dst, err := list.CreateStorage(ctx, aclgen.CloneRec(root), hs, db)
	if err != nil {
		return out, err
	}
	live, err := list.BuildAclListWithIdentity(obs, dst, verifier())
	if err != nil {
		return out, fmt.Errorf("one-to-one list does not build on its root: %v", err)
	}
	mst, err := list.NewInMemoryStorage(root.Id, []*consensusproto.RawRecordWithId{aclgen.CloneRec(root)})
	if err != nil {
		return out, err
	}
	mem, err := list.BuildAclListWithIdentity(obs, mst, verifier())
	if err != nil {
		return out, err
	}
	classes := map[string]bool{}
	log := []*consensusproto.RawRecordWithId{root}
	accepted := 0
	for i, r := range c.Recs {
		prev := live.Head().Id
		if r.Stale {
			prev = root.Id
		}
		rec, err := o2oForge(keys[r.Author], prev, o2oContent(r, keys))
		if err != nil {
			return out, err
		}
		before := aclgen.Digest(live)
		e1 := live.AddRawRecord(aclgen.CloneRec(rec))
		e2 := mem.AddRawRecord(aclgen.CloneRec(rec))
		if (e1 == nil) != (e2 == nil) {
			return out, fmt.Errorf("record %d %+v: any-store backed list says %v, in-memory backed list says %v", i, r, e1, e2)
		}
		if e1 == nil {
			accepted++
			log = append(log, rec)
			classes["accepted-on-one-to-one"] = true
		} else {
			classes["rejected"] = true
			if d := aclgen.Digest(live); d != before {
				return out, diffErr(fmt.Sprintf("rejected record %d %+v (err=%v) changed the state", i, r, e1), d, before)
			}
		}
		if d1, d2 := aclgen.Digest(live), aclgen.Digest(mem); d1 != d2 {
			return out, diffErr(fmt.Sprintf("after record %d %+v the two storage flavours disagree", i, r), d1, d2)
		}
		// restart: the list rebuilt from what the live one stored
		st2, err := list.NewStorage(ctx, root.Id, hs, db)
		if err != nil {
			return out, fmt.Errorf("after record %d %+v (live verdict %v): storage does not reopen: %v", i, r, e1, err)
		}
		re, err := list.BuildAclListWithIdentity(obs, st2, verifier())
		if err != nil {
			return out, fmt.Errorf("after record %d %+v (live verdict: %v) the list no longer builds from its own storage: %v", i, r, e1, err)
		}
		if d1, d2 := aclgen.Digest(live), aclgen.Digest(re); d1 != d2 {
			return out, diffErr(fmt.Sprintf("after record %d %+v: live list vs list rebuilt from storage", i, r), d2, d1)
		}
		// a fresh replica catching up from the log
		fst, err := list.NewInMemoryStorage(root.Id, []*consensusproto.RawRecordWithId{aclgen.CloneRec(root)})
		if err != nil {
			return out, err
		}
		fresh, err := list.BuildAclListWithIdentity(obs, fst, verifier())
		if err != nil {
			return out, err
		}
		if len(log) > 1 {
			if err := fresh.AddRawRecords(cloneAll(log[1:])); err != nil {
				return out, fmt.Errorf("after record %d %+v: a fresh replica cannot take the log the live list accepted: %v", i, r, err)
			}
		}
		if d1, d2 := aclgen.Digest(live), aclgen.Digest(fresh); d1 != d2 {
			return out, diffErr(fmt.Sprintf("after record %d %+v: live list vs fresh replica fed the log", i, r), d2, d1)
		}
		classes["author-"+[]string{"shared-owner", "party", "party", "outsider"}[r.Author]] = true
		classes["kind-"+r.Kind] = true
	}
	classes[fmt.Sprintf("observer-%d", c.Observer)] = true
	if c.Client {
		classes["non-validating-observer"] = true
	}
	for k := range classes {
		out.Classes = append(out.Classes, "o2o-"+k)
	}
	out.NonTrivial = true
	out.Sig = vstat.HashJSON(c)
	vstat.Count("o2o_records_offered", int64(len(c.Recs)))
	vstat.Count("o2o_records_accepted", int64(accepted))
	return out, nil
}

// TestOneToOne: records offered to a one-to-one ACL by the shared owner key, either party or
// an outsider; live list, rebuilt list and fresh replica must agree after every one.
func TestOneToOne(t *testing.T) {
	outerT = t
	vstat.Check(t, prop, genO2O, runO2O)
}

// TestRegOneToOneOptionsByOwner: the shared owner key signs a space-options change.
func TestRegOneToOneOptionsByOwner(t *testing.T) {
	outerT = t
	vstat.One(t, prop, O2OCase{Pair: 0, Observer: 1, Recs: []O2ORec{{Author: 0, Kind: "options", Target: 1, Perm: 2}}}, runO2O)
}
