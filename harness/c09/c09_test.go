// Package c09 decides property C09: the batches a replica streams in answer to a
// full-sync request are complete, causally ordered, size-bounded, announce heads
// consistent with what has been sent, and apply batch by batch on the requester.
//
// Domain: ordered pairs (responder R, requester Q) of replica states taken at generated
// moments of an honest treesim history (edits, snapshots, forks, concurrent snapshots,
// lossy deliveries, restarts), x batch limit class. Probes:
//
//	loader  R.Tree.ChangesAfterCommonSnapshotLoader(Q.path, Q.heads).NextBatch(limit)...
//	e2e     the real request Q would queue, served by R's real HandleStreamRequest with the
//	        production batch size, the marshalled stream re-parsed
//	new     the same two with an empty-heads (new tree) request
//
// Oracle (independent of the implementation): stored sets H (responder), Rq (requester),
// parents decoded from the raw change bytes, clauses (a)-(f) of DESIGN.md C09; the
// application clause (e) runs on a CLONE of the requester (database backup, rebuilt with
// the verifying BuildObjectTree) or, for new-tree requests, on a fresh participant through
// ValidateRawTreeDefault + AddRawChanges exactly as the full response collector does.
//
// Reading of the size clause: the iterator counts sum(len(RawChange)) of a batch (ids and
// framing are not counted); a batch is closed before the change that would make the sum
// reach the limit, so the sum stays <= limit unless the batch is a single change.
package c09

import (
	"context"
	"fmt"
	"os"
	"sort"
	"strings"
	"testing"
	"time"

	"pgregory.net/rapid"

	"github.com/anyproto/any-sync/app/logger"
	"github.com/anyproto/any-sync/commonspace/object/tree/objecttree"
	"github.com/anyproto/any-sync/commonspace/object/tree/synctree/response"
	"github.com/anyproto/any-sync/commonspace/object/tree/treechangeproto"
	"github.com/anyproto/any-sync/commonspace/object/tree/treestorage"
	"github.com/anyproto/any-sync/commonspace/spacesyncproto"

	"verif/harness/internal/treesim"
	"verif/harness/internal/vstat"
)

const prop = "C09"

const prodBatchSize = 1024 * 1024 // synctree.batchSize (unexported); e2e streams are checked against it

var outerT *testing.T

func TestMain(m *testing.M) {
	// the library logs every add / request at debug level to stderr; silence it (cost, not signal)
	logger.SetNamedLevels([]logger.NamedLevel{{Name: "*", Level: "fatal"}})
	vstat.Main(m, prop)
}

// ---- case (plain data) -------------------------------------------------------------------

type Op struct {
	K string `json:"k"`
	A int    `json:"a,omitempty"`
	B int    `json:"b,omitempty"`
	C int    `json:"c,omitempty"`
	D int    `json:"d,omitempty"`
}

type Case struct {
	Seed    uint64 `json:"seed"`
	N       int    `json:"n"`
	Holders int    `json:"holders"`
	Big     bool   `json:"big"` // 200-410 KB payloads: the production 1 MiB batch size yields multi-batch streams
	Ops     []Op   `json:"ops"`
}

// limit classes
const (
	limOne      = iota // 1 byte
	lim64              // 64 bytes
	limChange          // ~ one change
	limThree           // ~ three changes
	limMiB             // 1 MiB (production)
	limOverTree        // larger than the whole tree
	nLimits
)

var limitName = [...]string{"limit-1", "limit-64", "limit-one-change", "limit-three-changes", "limit-1MiB", "limit-over-tree"}

func genProbe(rt *rapid.T, n int) Op {
	kind := rapid.SampledFrom([]string{"probe", "probe", "probe", "probe", "probe", "probe-e2e", "probe-e2e", "probe-new", "probe-fetch"}).Draw(rt, "pk")
	return Op{K: kind,
		A: rapid.IntRange(0, n-1).Draw(rt, "R"),
		B: rapid.IntRange(0, n-1).Draw(rt, "Q"),
		C: rapid.IntRange(0, nLimits-1).Draw(rt, "limit"),
		D: rapid.IntRange(0, 9).Draw(rt, "variant"), // jitter around the limit (D%5-2), request built from live/reopened requester (D/5)
	}
}

func genCase(rt *rapid.T) Case {
	n := rapid.IntRange(2, 3).Draw(rt, "n")
	c := Case{
		Seed:    rapid.Uint64Range(1, 1<<40).Draw(rt, "seed"),
		N:       n,
		Holders: rapid.SampledFrom([]int{n, n, n, n - 1}).Draw(rt, "holders"),
		Big:     rapid.IntRange(0, 7).Draw(rt, "big") == 0,
	}
	if c.Holders < 1 {
		c.Holders = 1
	}
	maxOps := vstat.Pick(40, 110)
	if c.Big {
		maxOps = vstat.Pick(16, 36)
	}
	nops := rapid.IntRange(6, maxOps).Draw(rt, "nops")
	for i := 0; i < nops; i++ {
		var op Op
		switch rapid.IntRange(0, 22).Draw(rt, "kind") {
		case 0, 1, 2, 3, 4, 5:
			op = Op{K: "edit", A: rapid.IntRange(0, n-1).Draw(rt, "r"), B: rapid.IntRange(0, 6).Draw(rt, "snap"), C: rapid.IntRange(0, 3).Draw(rt, "size")}
		case 6, 7, 8, 9, 10, 11:
			op = Op{K: "deliver", A: rapid.IntRange(0, 12).Draw(rt, "idx"), B: rapid.SampledFrom([]int{0, 0, 0, 0, 1, 1, 2}).Draw(rt, "fate")}
		case 12:
			op = Op{K: rapid.SampledFrom([]string{"blackout", "blackout", "request", "join", "sync"}).Draw(rt, "k12"), A: rapid.IntRange(0, n-1+4).Draw(rt, "r"), B: rapid.IntRange(0, n-1).Draw(rt, "p")}
		case 13:
			op = Op{K: "reopen", A: rapid.IntRange(0, n-1).Draw(rt, "r")}
		case 14, 15:
			// a burst: one replica edits twice, another edits concurrently (fork), then maybe a snapshot
			op = Op{K: "fork", A: rapid.IntRange(0, n-1).Draw(rt, "r"), B: rapid.IntRange(0, n-1).Draw(rt, "r2"), C: rapid.IntRange(0, 2).Draw(rt, "snapAfter")}
		case 16:
			// concurrent snapshots on two replicas, each followed by an ordinary change
			op = Op{K: "csnap", A: rapid.IntRange(0, n-1).Draw(rt, "r"), B: rapid.IntRange(0, n-1).Draw(rt, "r2"), C: rapid.IntRange(0, 3).Draw(rt, "after")}
		case 17:
			// late branch: the responder's root moves back, then it is probed (see lateBranch)
			op = Op{K: "lateb", A: rapid.IntRange(0, n-1).Draw(rt, "r"), B: rapid.IntRange(0, n-1).Draw(rt, "r2"), C: rapid.IntRange(0, nLimits-1).Draw(rt, "limit"), D: rapid.IntRange(0, 9).Draw(rt, "variant")}
		default:
			op = genProbe(rt, n)
		}
		c.Ops = append(c.Ops, op)
	}
	// closing probes: the states at the end of the history are the most diverged ones
	for i := 0; i < 3; i++ {
		c.Ops = append(c.Ops, genProbe(rt, n))
	}
	return c
}

// ---- reference model helpers ---------------------------------------------------------------

type node struct {
	parents []string
	snap    bool
	base    string
	size    int
}

// decode reads the parents of a change from its signed bytes (not from what the storage
// of the implementation recorded about it).
func decode(rootId, id string, raw []byte) (node, error) {
	if id == rootId {
		return node{size: len(raw), snap: true}, nil
	}
	rc := &treechangeproto.RawTreeChange{}
	if err := rc.UnmarshalVT(raw); err != nil {
		return node{}, fmt.Errorf("change %s: raw bytes do not decode: %v", id, err)
	}
	tc := &treechangeproto.TreeChange{}
	if err := tc.UnmarshalVT(rc.Payload); err != nil {
		return node{}, fmt.Errorf("change %s: payload does not decode: %v", id, err)
	}
	return node{parents: append([]string(nil), tc.TreeHeadIds...), snap: tc.IsSnapshot, base: tc.SnapshotBaseId, size: len(raw)}, nil
}

type dag map[string]node

func (d dag) add(rootId string, stored map[string]objecttree.StorageChange) error {
	for id, ch := range stored {
		if _, ok := d[id]; ok {
			continue
		}
		n, err := decode(rootId, id, ch.RawChange)
		if err != nil {
			return err
		}
		d[id] = n
	}
	return nil
}

// strictAncestors of the given ids within the dag.
func (d dag) strictAncestors(ids []string) map[string]bool {
	seen := map[string]bool{}
	var stack []string
	for _, id := range ids {
		stack = append(stack, d[id].parents...)
	}
	for len(stack) > 0 {
		id := stack[len(stack)-1]
		stack = stack[:len(stack)-1]
		if seen[id] {
			continue
		}
		seen[id] = true
		stack = append(stack, d[id].parents...)
	}
	return seen
}

// headsOf returns the ids of set that have no child in set.
func (d dag) headsOf(set map[string]bool) []string {
	hasChild := map[string]bool{}
	for id := range set {
		for _, p := range d[id].parents {
			hasChild[p] = true
		}
	}
	var out []string
	for id := range set {
		if !hasChild[id] {
			out = append(out, id)
		}
	}
	sort.Strings(out)
	return out
}

func keys(m map[string]objecttree.StorageChange) map[string]bool {
	out := make(map[string]bool, len(m))
	for id := range m {
		out[id] = true
	}
	return out
}

func sameSet(a, b []string) bool {
	if len(a) != len(b) {
		return false
	}
	x := append([]string(nil), a...)
	y := append([]string(nil), b...)
	sort.Strings(x)
	sort.Strings(y)
	for i := range x {
		if x[i] != y[i] {
			return false
		}
	}
	return true
}

func sh(ids []string) string { return "[" + treesim.Short(ids) + "]" }

func sh1(id string) string { return treesim.Short([]string{id}) }

// ---- a response stream as observed ---------------------------------------------------------

type batch struct {
	changes []*treechangeproto.RawTreeChangeWithId
	heads   []string
	path    []string
	root    *treechangeproto.RawTreeChangeWithId
}

func (b batch) ids() []string {
	out := make([]string, len(b.changes))
	for i, c := range b.changes {
		out[i] = c.Id
	}
	return out
}

type probeInfo struct {
	label      string
	limit      int
	emptyHeads bool
	reqHeads   []string
	reqPath    []string
	H, Rq      map[string]objecttree.StorageChange
	d          dag
	batches    []batch
}

type checker struct {
	s       *treesim.Sim
	c       Case
	classes map[string]bool
	// per-case accounting
	excluded string
	// rootsSeen[r]: in-memory roots replica r's current tree object has had (reset on reopen)
	rootsSeen                                      map[int][]string
	probes, nontrivialProbes, batchesSeen, applied int
	sigParts                                       []string
}

// checkStream is clauses (a)-(d) and the first half of (f).
func (ck *checker) checkStream(p *probeInfo) error {
	H, Rq, d := p.H, p.Rq, p.d
	rootId := ck.s.Root.Id
	sent := map[string]int{} // id -> position in the concatenated stream
	pos := 0
	for k, b := range p.batches {
		for _, ch := range b.changes {
			hc, ok := H[ch.Id]
			if !ok {
				return fmt.Errorf("(a) batch %d carries change %s which the responder does not store", k, sh1(ch.Id))
			}
			if string(hc.RawChange) != string(ch.RawChange) {
				return fmt.Errorf("(a) batch %d carries change %s with bytes different from the stored ones", k, sh1(ch.Id))
			}
			if prev, dup := sent[ch.Id]; dup {
				return fmt.Errorf("(a) change %s is sent twice (stream positions %d and %d, batch %d)", sh1(ch.Id), prev, pos, k)
			}
			sent[ch.Id] = pos
			pos++
		}
	}
	// (a) completeness
	var missing []string
	for id := range H {
		if _, has := Rq[id]; has {
			continue
		}
		if _, ok := sent[id]; !ok {
			if p.emptyHeads && id == rootId && len(p.batches) > 0 && p.batches[0].root != nil && p.batches[0].root.Id == rootId {
				continue // the root travels in the Root field
			}
			missing = append(missing, id)
		}
	}
	if len(missing) > 0 {
		sort.Strings(missing)
		return fmt.Errorf("(a) incomplete answer: responder stores %d change(s) the requester lacks that are never sent: %s", len(missing), sh(missing))
	}
	// (f) an empty-heads request returns the whole tree including the root
	if p.emptyHeads {
		if len(p.batches) == 0 {
			return fmt.Errorf("(f) empty-heads request answered with no batch at all")
		}
		for k, b := range p.batches {
			if b.root == nil || b.root.Id != rootId || string(b.root.RawChange) != string(ck.s.Root.RawChange) {
				return fmt.Errorf("(f) batch %d of a new-tree answer does not carry the tree root", k)
			}
		}
		for id := range H {
			if _, ok := sent[id]; !ok && id != rootId {
				return fmt.Errorf("(f) empty-heads request: change %s of the responder is not returned", sh1(id))
			}
		}
	}
	// (b) causal order: every parent the requester lacks comes earlier in the stream
	for id, at := range sent {
		for _, par := range d[id].parents {
			if _, has := Rq[par]; has {
				continue
			}
			pa, ok := sent[par]
			if !ok {
				return fmt.Errorf("(b) change %s is sent but its parent %s, which the requester lacks, is never sent", sh1(id), sh1(par))
			}
			if pa > at {
				return fmt.Errorf("(b) change %s (stream position %d) is sent before its parent %s (position %d) which the requester lacks", sh1(id), at, sh1(par), pa)
			}
		}
	}
	// (c) size bound
	for k, b := range p.batches {
		sum := 0
		for _, ch := range b.changes {
			sum += len(ch.RawChange)
		}
		if sum > p.limit && len(b.changes) > 1 {
			return fmt.Errorf("(c) batch %d holds %d changes of %d bytes in total, limit %d", k, len(b.changes), sum, p.limit)
		}
		if len(b.changes) == 1 && sum > p.limit {
			ck.classes["oversized-single-change"] = true
		}
		if len(b.changes) == 0 && len(p.batches) > 1 {
			return fmt.Errorf("(c) batch %d of a %d batch stream is empty", k, len(p.batches))
		}
	}
	// (d) announced heads
	sentSoFar := map[string]bool{}
	var sentIds []string
	announced := map[string]bool{}
	headsH := d.headsOf(keys(H))
	isHeadH := map[string]bool{}
	for _, h := range headsH {
		isHeadH[h] = true
	}
	for k, b := range p.batches {
		for _, ch := range b.changes {
			sentSoFar[ch.Id] = true
			sentIds = append(sentIds, ch.Id)
		}
		if len(b.changes) > 0 && len(b.heads) == 0 {
			return fmt.Errorf("(d) batch %d announces no heads", k)
		}
		seen := map[string]bool{}
		for _, h := range b.heads {
			if seen[h] {
				return fmt.Errorf("(d) batch %d announces head %s twice", k, sh1(h))
			}
			seen[h] = true
			announced[h] = true
			_, inRq := Rq[h]
			if !inRq && !sentSoFar[h] && !(p.emptyHeads && h == rootId) {
				return fmt.Errorf("(d) batch %d announces head %s which the requester neither has nor has been sent so far", k, sh1(h))
			}
		}
		// antichain
		anc := d.strictAncestors(b.heads)
		for _, h := range b.heads {
			if anc[h] {
				return fmt.Errorf("(d) batch %d announces heads %s of which %s is an ancestor of another", k, sh(b.heads), sh1(h))
			}
		}
		// not stale: no announced head has a descendant that has already been sent
		ancSent := d.strictAncestors(sentIds)
		for _, h := range b.heads {
			if ancSent[h] {
				return fmt.Errorf("(d) batch %d announces head %s although a descendant of it has already been sent", k, sh1(h))
			}
		}
		// covering: every change of the batch is at or below an announced head
		for _, ch := range b.changes {
			if !seen[ch.Id] && !anc[ch.Id] {
				return fmt.Errorf("(d) batch %d sends change %s which is not at or below any head it announces %s", k, sh1(ch.Id), sh(b.heads))
			}
		}
		if k == len(p.batches)-1 {
			for _, h := range b.heads {
				if !isHeadH[h] {
					return fmt.Errorf("(d) the last batch announces %s which is not a head of the responder %s", sh1(h), sh(headsH))
				}
			}
			if !sameSet(b.heads, headsH) {
				ck.classes["last-batch-heads-partial"] = true
			}
		}
	}
	if len(p.batches) > 0 {
		for _, h := range headsH {
			if !announced[h] {
				return fmt.Errorf("(d) responder head %s is announced by no batch of the stream (responder heads %s)", sh1(h), sh(headsH))
			}
		}
	}
	return nil
}

// dump renders the stream for failure messages.
func (p *probeInfo) dump() string {
	var sb strings.Builder
	for k, b := range p.batches {
		fmt.Fprintf(&sb, "  batch %d heads=%s path=%s:", k, sh(b.heads), sh(b.path))
		for _, ch := range b.changes {
			n := p.d[ch.Id]
			kind := ""
			if n.snap {
				kind = "S"
			}
			fmt.Fprintf(&sb, " %s%s(prev=%s base=%s %dB)", sh1(ch.Id), kind, sh(n.parents), sh1(n.base), len(ch.RawChange))
		}
		sb.WriteString("\n")
	}
	return sb.String()
}

// ---- finding commonsnapshot-sibling-dedupe (fixed in /repo 40e6583) ---------------------------
//
// The exclusion below is inert unless known_findings.json lists the signature with status
// "known" (it is listed as fixed: nothing is excluded, TestRegFetchSiblingSnapshots* must pass).
//
// Signature "commonsnapshot-sibling-dedupe": a batch applied WITHOUT a snapshot path (the
// full response collector's way) needs a rebuild from storage, and the snapshots the
// rebuild has to reconcile - the requester's current root and the lowest snapshot bases of
// the announced heads carried by the batch - are, once brought to equal depth in the
// snapshot tree, two or more different snapshots. treeBuilder.commonSnapshot then returns
// one of them instead of their common ancestor (it dedupes by parent id but returns the
// child id), and changes of the batch are dropped without an error.
const knownSibling = "commonsnapshot-sibling-dedupe"

var errKnownFinding = fmt.Errorf("known finding %s", knownSibling)

func (ck *checker) siblingSignature(p *probeInfo, tree objecttree.ObjectTree, b batch) bool {
	d := p.d
	tree.Lock()
	defer tree.Unlock()
	T := tree.Root().Id
	inBatch := map[string]bool{}
	for _, ch := range b.changes {
		inBatch[ch.Id] = true
	}
	needRebuild := false
	for _, ch := range b.changes {
		if tree.HasChanges(ch.Id) {
			continue
		}
		base := d[ch.Id].base
		if base == T || tree.HasChanges(base) || (inBatch[base] && d[base].snap) {
			continue
		}
		needRebuild = true
	}
	if !needRebuild {
		return false
	}
	lowest := map[string]bool{T: true}
	for _, h := range b.heads {
		if !inBatch[h] {
			continue
		}
		s := d[h].base
		for inBatch[s] && d[s].base != "" {
			s = d[s].base
		}
		lowest[s] = true
	}
	depth := func(s string) int {
		n := 0
		for d[s].base != "" {
			s = d[s].base
			n++
		}
		return n
	}
	min := -1
	for s := range lowest {
		if dp := depth(s); min < 0 || dp < min {
			min = dp
		}
	}
	level := map[string]bool{}
	for s := range lowest {
		for depth(s) > min {
			s = d[s].base
		}
		level[s] = true
	}
	return len(level) >= 2
}

// checkApply is clause (e): feed the batches in order with the announced heads and path.
func (ck *checker) checkApply(p *probeInfo, tree objecttree.ObjectTree, withPath bool) error {
	ctx := context.Background()
	for k, b := range p.batches {
		if len(b.changes) == 0 {
			continue // HandleResponse ignores a response without changes
		}
		payload := objecttree.RawChangesPayload{NewHeads: b.heads, RawChanges: b.changes}
		if withPath {
			payload.SnapshotPath = b.path
		} else if vstat.KnownSignature(prop, knownSibling) && ck.siblingSignature(p, tree, b) {
			ck.excluded = knownSibling
			return errKnownFinding
		}
		tree.Lock()
		_, err := tree.AddRawChanges(ctx, payload)
		tree.Unlock()
		if err != nil {
			return fmt.Errorf("(e) applying batch %d/%d (%d changes, heads %s) on the requester fails: %v", k, len(p.batches), len(b.changes), sh(b.heads), err)
		}
		for _, ch := range b.changes {
			ok, err := tree.Storage().Has(ctx, ch.Id)
			if err != nil {
				return fmt.Errorf("storage.Has: %v", err)
			}
			if !ok {
				tree.Lock()
				hs, rt := sh(tree.Heads()), sh1(tree.Root().Id)
				tree.Unlock()
				return fmt.Errorf("(e) change %s of batch %d/%d is not attached (not stored) on the requester by the end of that batch (requester tree now: root %s heads %s)", sh1(ch.Id), k, len(p.batches), rt, hs)
			}
		}
		ck.applied++
	}
	return ck.checkFinal(p, tree)
}

func (ck *checker) checkFinal(p *probeInfo, tree objecttree.ObjectTree) error {
	union := keys(p.H)
	for id := range p.Rq {
		union[id] = true
	}
	want := p.d.headsOf(union)
	tree.Lock()
	got := append([]string(nil), tree.Heads()...)
	tree.Unlock()
	if !sameSet(got, want) {
		return fmt.Errorf("(e) after the whole stream the requester has heads %s, heads of (responder ∪ requester) are %s", sh(got), sh(want))
	}
	n := 0
	var extra []string
	err := tree.Storage().GetAfterOrder(context.Background(), "", func(ctx context.Context, c objecttree.StorageChange) (bool, error) {
		n++
		if !union[c.Id] {
			extra = append(extra, c.Id)
		}
		return true, nil
	})
	if err != nil {
		return err
	}
	if len(extra) > 0 || n != len(union) {
		return fmt.Errorf("(e) after the whole stream the requester stores %d changes (%d unexpected), responder ∪ requester is %d", n, len(extra), len(union))
	}
	return nil
}

// observeRoots records every replica's current in-memory root (after every op).
func (ck *checker) observeRoots() {
	if ck.rootsSeen == nil {
		ck.rootsSeen = map[int][]string{}
	}
	for _, r := range ck.s.Replicas {
		if r.Tree == nil {
			continue
		}
		r.Tree.Lock()
		id := r.Tree.Root().Id
		r.Tree.Unlock()
		seen := ck.rootsSeen[r.Idx]
		if len(seen) == 0 || seen[len(seen)-1] != id {
			ck.rootsSeen[r.Idx] = append(seen, id)
		}
	}
}

// movedBack returns the later snapshots the replica's tree object was rooted at before
// its root moved back to the current, older one (older = on their snapshot-base chain).
func (ck *checker) movedBack(r int, cur string, d dag) []string {
	var out []string
	for _, prev := range ck.rootsSeen[r] {
		if prev == cur {
			continue
		}
		for s := d[prev].base; s != ""; s = d[s].base {
			if s == cur {
				out = append(out, prev)
				break
			}
		}
	}
	return out
}

// classify records the shape of the pair.
func (ck *checker) classify(p *probeInfo, R *treesim.Replica, rPath []string) (diverged bool) {
	onlyH, onlyQ := 0, 0
	snapH, snapQ := false, false
	for id := range p.H {
		if _, ok := p.Rq[id]; !ok {
			onlyH++
			if p.d[id].snap {
				snapH = true
			}
		}
	}
	for id := range p.Rq {
		if _, ok := p.H[id]; !ok {
			onlyQ++
			if p.d[id].snap {
				snapQ = true
			}
		}
	}
	cl := ck.classes
	switch {
	case p.emptyHeads:
		cl["empty-heads"] = true
	case onlyH > 0 && onlyQ > 0:
		cl["diverged"] = true
		diverged = true
	case onlyH > 0:
		cl["responder-ahead"] = true
	case onlyQ > 0:
		cl["requester-ahead"] = true
	default:
		cl["equal"] = true
	}
	if snapH && snapQ {
		cl["concurrent-snapshots"] = true
	}
	if len(rPath) > 0 && rPath[0] != ck.s.Root.Id {
		cl["responder-reduced"] = true
		// the common snapshot by the statement's words: the latest snapshot both paths share
		inQ := map[string]bool{}
		for _, s := range p.reqPath {
			inQ[s] = true
		}
		if !p.emptyHeads && !inQ[rPath[0]] {
			cl["responder-reduced-beyond-common-snapshot"] = true
		}
	}
	if len(p.reqPath) > 0 && p.reqPath[0] != ck.s.Root.Id {
		cl["requester-reduced"] = true
	}
	if len(rPath) > 0 {
		// the responder had reduced to a later snapshot (and announced its path from there:
		// every broadcast does) before an older concurrent branch moved its root back
		if later := ck.movedBack(R.Idx, rPath[0], p.d); len(later) > 0 {
			cl["responder-root-moved-back"] = true
			for _, l := range later {
				for _, s := range p.reqPath {
					if s == l {
						cl["responder-root-moved-back-requester-on-later-snapshot"] = true
					}
				}
			}
		}
	}
	if !p.emptyHeads {
		known := 0
		for _, h := range p.reqHeads {
			if _, ok := p.H[h]; ok {
				known++
			}
		}
		switch {
		case known == len(p.reqHeads):
			cl["requester-heads-known"] = true
		case known == 0:
			cl["requester-heads-unknown"] = true
		default:
			cl["requester-heads-partly-known"] = true
		}
		if len(p.reqHeads) > 1 {
			cl["requester-multi-head"] = true
		}
	}
	if len(p.d.headsOf(keys(p.H))) > 1 {
		cl["responder-multi-head"] = true
	}
	if len(p.batches) >= 2 {
		cl["multi-batch"] = true
	}
	return diverged
}

func (ck *checker) limitFor(class, jitter int, H, Rq map[string]objecttree.StorageChange) int {
	var sizes []int
	total := 0
	for id, ch := range H {
		total += len(ch.RawChange)
		if _, ok := Rq[id]; !ok {
			sizes = append(sizes, len(ch.RawChange))
		}
	}
	if len(sizes) == 0 {
		for _, ch := range H {
			sizes = append(sizes, len(ch.RawChange))
		}
	}
	sort.Ints(sizes)
	med := sizes[len(sizes)/2]
	switch class {
	case limOne:
		return 1
	case lim64:
		return 64
	case limChange:
		return med + jitter
	case limThree:
		// around the sum of three typical changes (the boundary itself for jitter 0)
		a, b := sizes[len(sizes)/3], sizes[(2*len(sizes))/3]
		return med + a + b + jitter
	case limMiB:
		return prodBatchSize
	default:
		return total + 1 + 1000*(jitter+2)
	}
}

func (ck *checker) treeHolders() []int {
	var out []int
	for _, r := range ck.s.Replicas {
		if r.Tree != nil {
			out = append(out, r.Idx)
		}
	}
	return out
}

// pickPair interprets the generated picks modulo the replicas that hold the tree.
func (ck *checker) pickPair(a, b int, needQ bool) (R, Q *treesim.Replica) {
	hs := ck.treeHolders()
	if len(hs) == 0 {
		return nil, nil
	}
	R = ck.s.Replicas[hs[a%len(hs)]]
	if !needQ {
		return R, nil
	}
	if len(hs) < 2 {
		return nil, nil
	}
	rest := make([]int, 0, len(hs)-1)
	for _, h := range hs {
		if h != R.Idx {
			rest = append(rest, h)
		}
	}
	Q = ck.s.Replicas[rest[b%len(rest)]]
	return R, Q
}

func treePathHeads(t objecttree.ObjectTree) (path, heads []string, err error) {
	t.Lock()
	defer t.Unlock()
	p, err := t.SnapshotPath()
	if err != nil {
		return nil, nil, err
	}
	return append([]string(nil), p...), append([]string(nil), t.Heads()...), nil
}

func (ck *checker) gather(p *probeInfo, R, Q *treesim.Replica) error {
	var err error
	if p.H, _, err = R.Stored(); err != nil {
		return err
	}
	p.Rq = map[string]objecttree.StorageChange{}
	if Q != nil {
		if p.Rq, _, err = Q.Stored(); err != nil {
			return err
		}
	}
	p.d = dag{}
	if err = p.d.add(ck.s.Root.Id, p.H); err != nil {
		return err
	}
	return p.d.add(ck.s.Root.Id, p.Rq)
}

// runLoader is probe A: the loader and its iterator, called the way the response producer does.
func (ck *checker) runLoader(p *probeInfo, R *treesim.Replica) error {
	R.Tree.Lock()
	defer R.Tree.Unlock()
	it, err := R.Tree.ChangesAfterCommonSnapshotLoader(p.reqPath, p.reqHeads)
	if err != nil {
		return fmt.Errorf("ChangesAfterCommonSnapshotLoader(path %s, heads %s) fails between two honest states of one tree: %v", sh(p.reqPath), sh(p.reqHeads), err)
	}
	maxCalls := len(p.H) + 4
	for n := 0; ; n++ {
		if n > maxCalls {
			return fmt.Errorf("NextBatch(%d) still returns changes after %d calls for a responder of %d changes", p.limit, n, len(p.H))
		}
		b, err := it.NextBatch(p.limit)
		if err != nil {
			return fmt.Errorf("NextBatch(%d) call %d fails: %v", p.limit, n, err)
		}
		if len(b.Batch) == 0 {
			break
		}
		p.batches = append(p.batches, batch{changes: b.Batch, heads: append([]string(nil), b.Heads...), path: append([]string(nil), b.SnapshotPath...), root: b.Root})
	}
	return nil
}

func parseStream(stream [][]byte) ([]batch, error) {
	var out []batch
	for i, raw := range stream {
		msg := &spacesyncproto.ObjectSyncMessage{}
		if err := msg.UnmarshalVT(raw); err != nil {
			return nil, fmt.Errorf("stream message %d does not parse: %v", i, err)
		}
		resp := &response.Response{}
		if err := resp.SetProtoMessage(msg); err != nil {
			return nil, fmt.Errorf("stream message %d is not a full-sync response: %v", i, err)
		}
		out = append(out, batch{changes: resp.Changes, heads: resp.Heads, path: resp.SnapshotPath, root: resp.Root})
	}
	return out, nil
}

func (ck *checker) finish(p *probeInfo, diverged bool) {
	if os.Getenv("VERIF_DEBUG") == "2" {
		fmt.Printf("%s\n%s", p.label, p.dump())
	}
	ck.probes++
	ck.batchesSeen += len(p.batches)
	if diverged && len(p.batches) >= 2 {
		ck.nontrivialProbes++
	}
	ck.sigParts = append(ck.sigParts, fmt.Sprintf("%s:%d:%d:%d:%d", p.label, len(p.H), len(p.Rq), len(p.batches), p.limit))
}

// probe: loader level, existing requester.
func (ck *checker) probe(op Op) error {
	R, Q := ck.pickPair(op.A, op.B, true)
	if R == nil {
		return nil
	}
	return ck.probePair(R, Q, op)
}

func (ck *checker) probePair(R, Q *treesim.Replica, op Op) error {
	p := &probeInfo{label: fmt.Sprintf("loader R=%d Q=%d", R.Idx, Q.Idx)}
	if err := ck.gather(p, R, Q); err != nil {
		return err
	}
	p.limit = ck.limitFor(op.C, op.D%5-2, p.H, p.Rq)
	ck.classes[limitName[op.C]] = true
	clone, err := Q.Clone()
	if err != nil {
		return fmt.Errorf("harness: clone of requester %d: %v", Q.Idx, err)
	}
	defer clone.Close()
	// the request (heads + snapshot path) as the live requester, or the requester after a restart, would build it
	src := objecttree.ObjectTree(Q.Tree)
	if op.D/5 == 1 {
		src = clone.Tree
		ck.classes["request-from-reopened-requester"] = true
	} else {
		ck.classes["request-from-live-requester"] = true
	}
	if p.reqPath, p.reqHeads, err = treePathHeads(src); err != nil {
		return fmt.Errorf("requester %d: SnapshotPath: %v", Q.Idx, err)
	}
	p.label += fmt.Sprintf(" limit=%d reqHeads=%s reqPath=%s", p.limit, sh(p.reqHeads), sh(p.reqPath))
	rPath, _, err := treePathHeads(R.Tree)
	if err != nil {
		return fmt.Errorf("responder %d: SnapshotPath: %v", R.Idx, err)
	}
	if err := ck.runLoader(p, R); err != nil {
		return fmt.Errorf("%s: %v", p.label, err)
	}
	diverged := ck.classify(p, R, rPath)
	if err := ck.checkStream(p); err != nil {
		return fmt.Errorf("%s: %d batches: %v", p.label, len(p.batches), err)
	}
	if err := ck.checkApply(p, clone.Tree, true); err != nil {
		return fmt.Errorf("%s: %d batches: %v", p.label, len(p.batches), err)
	}
	ck.finish(p, diverged)
	return nil
}

// probeE2E: the request Q really builds, R's real HandleStreamRequest (production batch size).
func (ck *checker) probeE2E(op Op) error {
	R, Q := ck.pickPair(op.A, op.B, true)
	if R == nil {
		return nil
	}
	return ck.probeE2EPair(R, Q, op)
}

func (ck *checker) probeE2EPair(R, Q *treesim.Replica, op Op) error {
	s := ck.s
	p := &probeInfo{label: fmt.Sprintf("e2e R=%d Q=%d", R.Idx, Q.Idx), limit: prodBatchSize}
	if err := ck.gather(p, R, Q); err != nil {
		return err
	}
	var err error
	if p.reqPath, p.reqHeads, err = treePathHeads(Q.Tree); err != nil {
		return err
	}
	rPath, _, err := treePathHeads(R.Tree)
	if err != nil {
		return err
	}
	p.label += fmt.Sprintf(" reqHeads=%s reqPath=%s", sh(p.reqHeads), sh(p.reqPath))
	m, err := s.FullSyncRequest(Q.Idx, R.Idx)
	if err != nil {
		return fmt.Errorf("harness: building the request: %v", err)
	}
	stream, err := s.ServeDetached(m)
	if err != nil {
		return fmt.Errorf("%s: HandleStreamRequest fails between two honest states of one tree: %v", p.label, err)
	}
	if p.batches, err = parseStream(stream); err != nil {
		return fmt.Errorf("%s: %v", p.label, err)
	}
	ck.classes["e2e"] = true
	if len(p.batches) == 1 && len(p.batches[0].changes) == 0 {
		ck.classes["e2e-empty-response"] = true
	}
	if len(p.batches) == 0 {
		ck.classes["e2e-no-message"] = true
	}
	if len(p.batches) >= 2 {
		ck.classes["e2e-multi-batch"] = true
	}
	diverged := ck.classify(p, R, rPath)
	if err := ck.checkStream(p); err != nil {
		return fmt.Errorf("%s: %d batches: %v", p.label, len(p.batches), err)
	}
	if op.D%2 == 0 {
		clone, err := Q.Clone()
		if err != nil {
			return fmt.Errorf("harness: clone of requester %d: %v", Q.Idx, err)
		}
		defer clone.Close()
		if err := ck.checkApply(p, clone.Tree, true); err != nil {
			return fmt.Errorf("%s: %d batches: %v", p.label, len(p.batches), err)
		}
	} else if len(stream) > 0 {
		// the live requester, through its real response collector (a reliable exchange of the history)
		ck.classes["e2e-applied-on-live-requester"] = true
		errsBefore := s.Counters["handler-error"]
		s.InFlight = append(s.InFlight, &treesim.Msg{Kind: treesim.ResponseStream, From: R.Idx, To: Q.Idx, ObjectId: s.Root.Id, Stream: stream})
		if err := s.Step(len(s.InFlight)-1, treesim.Deliver, 0); err != nil {
			return err
		}
		if s.Counters["handler-error"] != errsBefore {
			return fmt.Errorf("%s: (e) the live requester's response collector rejects a batch: %s", p.label, s.HandlerErrs[len(s.HandlerErrs)-1])
		}
		for _, b := range p.batches {
			ck.applied++
			_ = b
		}
		if err := ck.checkFinal(p, Q.Tree); err != nil {
			return fmt.Errorf("%s: %d batches (live requester): %v", p.label, len(p.batches), err)
		}
	}
	ck.finish(p, diverged)
	return nil
}

// probeNew: loader level, empty-heads request (nil heads, nil path), applied on a fresh
// participant the way the full response collector does.
func (ck *checker) probeNew(op Op) error {
	R, _ := ck.pickPair(op.A, 0, false)
	if R == nil {
		return nil
	}
	p := &probeInfo{label: fmt.Sprintf("loader-new R=%d", R.Idx), emptyHeads: true}
	if err := ck.gather(p, R, nil); err != nil {
		return err
	}
	p.limit = ck.limitFor(op.C, op.D%5-2, p.H, p.Rq)
	ck.classes[limitName[op.C]] = true
	p.label += fmt.Sprintf(" limit=%d", p.limit)
	rPath, _, err := treePathHeads(R.Tree)
	if err != nil {
		return err
	}
	if err := ck.runLoader(p, R); err != nil {
		return fmt.Errorf("%s: %v", p.label, err)
	}
	ck.classify(p, R, rPath)
	if err := ck.checkStream(p); err != nil {
		return fmt.Errorf("%s: %d batches: %v", p.label, len(p.batches), err)
	}
	if known, err := ck.applyFresh(p); err != nil || known {
		return err
	}
	ck.finish(p, false)
	return nil
}

// applyFresh feeds the answer to an empty-heads request to a fresh participant batch by
// batch the way the full response collector does: ValidateRawTreeDefault on the first
// batch, AddRawChanges with the announced heads and no snapshot path afterwards.
func (ck *checker) applyFresh(p *probeInfo) (known bool, err error) {
	fresh, err := ck.s.NewDetached()
	if err != nil {
		return false, fmt.Errorf("harness: fresh participant: %v", err)
	}
	defer fresh.Close()
	first := p.batches[0]
	tree, err := objecttree.ValidateRawTreeDefault(treestorage.TreeStorageCreatePayload{RootRawChange: first.root, Changes: first.changes, Heads: first.heads}, fresh.Space, fresh.Acl)
	if err != nil {
		return false, fmt.Errorf("%s: (e) a fresh participant cannot build the tree from batch 0/%d (%d changes, heads %s): %v", p.label, len(p.batches), len(first.changes), sh(first.heads), err)
	}
	defer tree.Close()
	for _, ch := range first.changes {
		if ok, _ := tree.Storage().Has(context.Background(), ch.Id); !ok {
			return false, fmt.Errorf("%s: (e) change %s of batch 0 is not attached on the fresh participant", p.label, sh1(ch.Id))
		}
	}
	ck.applied++
	rest := *p
	rest.batches = p.batches[1:]
	if err := ck.checkApply(&rest, tree, false); err != nil {
		if err == errKnownFinding {
			return true, nil
		}
		return false, fmt.Errorf("%s: %d batches (after the first): %v\nstream:\n%s", p.label, len(p.batches), err, p.dump())
	}
	return false, nil
}

// probeFetch: a fresh participant fetches the tree from R through the real tree getter.
func (ck *checker) probeFetch(op Op) error {
	R, _ := ck.pickPair(op.A, 0, false)
	if R == nil {
		return nil
	}
	p := &probeInfo{label: fmt.Sprintf("e2e-new R=%d", R.Idx), emptyHeads: true, limit: prodBatchSize}
	if err := ck.gather(p, R, nil); err != nil {
		return err
	}
	rPath, _, err := treePathHeads(R.Tree)
	if err != nil {
		return err
	}
	// the answer as the real HandleStreamRequest streams it (production batch size) ...
	m, err := ck.s.NewTreeRequest(len(ck.s.Replicas), R.Idx)
	if err != nil {
		return fmt.Errorf("harness: new-tree request: %v", err)
	}
	served, err := ck.s.ServeDetached(m)
	if err != nil {
		return fmt.Errorf("%s: HandleStreamRequest fails on an empty-heads request: %v", p.label, err)
	}
	if p.batches, err = parseStream(served); err != nil {
		return fmt.Errorf("%s: %v", p.label, err)
	}
	if err := ck.checkStream(p); err != nil {
		return fmt.Errorf("%s: %d batches: %v", p.label, len(p.batches), err)
	}
	// ... applied batch by batch the collector's way (also decides whether the known finding is hit) ...
	if known, err := ck.applyFresh(p); err != nil || known {
		return err
	}
	// ... and fetched for real by a fresh participant through the tree getter and the full response collector
	fresh, err := ck.s.NewDetached()
	if err != nil {
		return fmt.Errorf("harness: fresh participant: %v", err)
	}
	defer fresh.Close()
	stream, ferr := fresh.Fetch(R.Idx)
	if len(stream) != len(served) {
		return fmt.Errorf("%s: the same empty-heads request is answered with %d and then %d batches", p.label, len(served), len(stream))
	}
	var perr error
	if p.batches, perr = parseStream(stream); perr != nil {
		return fmt.Errorf("%s: %v", p.label, perr)
	}
	ck.classes["e2e-new-tree"] = true
	if len(p.batches) >= 2 {
		ck.classes["e2e-new-tree-multi-batch"] = true
	}
	ck.classify(p, R, rPath)
	if err := ck.checkStream(p); err != nil {
		return fmt.Errorf("%s: %d batches: %v", p.label, len(p.batches), err)
	}
	if ferr != nil {
		return fmt.Errorf("%s: (e) a fresh participant cannot build the tree from the %d batch answer to its empty-heads request: %v", p.label, len(p.batches), ferr)
	}
	ck.applied += len(p.batches)
	if err := ck.checkFinal(p, fresh.Tree); err != nil {
		return fmt.Errorf("%s: %d batches: %v", p.label, len(p.batches), err)
	}
	ck.finish(p, false)
	return nil
}

// lateBranch is the history shape "root moves back": replica b edits from what it has (x),
// replica a - without having seen x - edits and snapshots (S: its tree is reduced to S and the
// broadcast caches its snapshot path there); a third replica c, if any, receives a's changes and
// sits on S; then x reaches a, whose tree must be rebuilt from the older snapshot x is based on.
// Immediately afterwards a is probed as responder by c (on S, lacks x) or by b (has x, behind S).
func (ck *checker) lateBranch(op Op, doEdit func(r int, snap bool, sz int) error, size func(int) int) error {
	s := ck.s
	n := len(s.Replicas)
	a, b := op.A%n, op.B%n
	if a == b {
		b = (a + 1) % n
	}
	if s.Replicas[a].Tree == nil || s.Replicas[b].Tree == nil {
		return nil
	}
	step := func(m *treesim.Msg, fate treesim.Fate) error {
		for i, x := range s.InFlight {
			if x == m {
				return s.Step(i, fate, 0)
			}
		}
		return nil
	}
	if op.D < 6 {
		// most of the time the replicas first converge (reliable delivery + one anti-entropy
		// round), so that b's late change attaches on a and the third replica ends up on S
		if err := s.Drain(5000); err != nil {
			return err
		}
		for x := 0; x < n; x++ {
			for y := 0; y < n; y++ {
				if x != y && s.Replicas[x].Tree != nil && s.Replicas[y].Tree != nil {
					if err := s.SyncWithPeer(x, y); err != nil {
						return err
					}
					if err := s.Drain(5000); err != nil {
						return err
					}
				}
			}
		}
		ck.observeRoots()
	}
	mark := len(s.InFlight)
	if err := doEdit(b, false, size(1)); err != nil {
		return err
	}
	fromB := append([]*treesim.Msg(nil), s.InFlight[mark:]...)
	mark = len(s.InFlight)
	if err := doEdit(a, false, size(2)); err != nil {
		return err
	}
	if err := doEdit(a, true, size(0)); err != nil {
		return err
	}
	if op.D%3 == 0 { // something after the snapshot too
		if err := doEdit(a, false, size(1)); err != nil {
			return err
		}
	}
	ck.observeRoots() // a is rooted at S now
	fromA := append([]*treesim.Msg(nil), s.InFlight[mark:]...)
	for _, m := range fromA { // a's changes reach everybody but b
		fate := treesim.Deliver
		if m.To == b {
			fate = treesim.Drop
		}
		if err := step(m, fate); err != nil {
			return err
		}
	}
	// a third replica that could not attach a's changes directly catches up with a reliable
	// exchange (request, stream, counter-request), so that it sits on S without x
	for c := 0; c < n; c++ {
		if c == a || c == b || s.Replicas[c].Tree == nil {
			continue
		}
		m0 := len(s.InFlight)
		if err := s.SyncWithPeer(c, a); err != nil {
			return err
		}
		for k := 0; k < 8 && len(s.InFlight) > m0; k++ {
			fate := treesim.Deliver
			if m := s.InFlight[m0]; m.To == b || m.From == b {
				fate = treesim.Drop
			}
			if err := s.Step(m0, fate, 0); err != nil {
				return err
			}
		}
		for len(s.InFlight) > m0 {
			if err := s.Step(len(s.InFlight)-1, treesim.Drop, 0); err != nil {
				return err
			}
		}
	}
	mark = len(s.InFlight)
	for _, m := range fromB { // x reaches a only
		fate := treesim.Drop
		if m.To == a {
			fate = treesim.Deliver
		}
		if err := step(m, fate); err != nil {
			return err
		}
	}
	// what a and the others sent in reaction (requests, a's re-broadcast of x) is lost
	for len(s.InFlight) > mark {
		if err := s.Step(len(s.InFlight)-1, treesim.Drop, 0); err != nil {
			return err
		}
	}
	ck.observeRoots()
	ck.classes["late-branch"] = true
	R := s.Replicas[a]
	q := b
	for i := 0; i < n; i++ {
		if i != a && i != b && s.Replicas[i].Tree != nil {
			q = i
		}
	}
	if op.D >= 8 {
		q = b
	}
	Q := s.Replicas[q]
	if os.Getenv("VERIF_DEBUG") == "3" {
		rp, rh, _ := treePathHeads(R.Tree)
		qp, qh, _ := treePathHeads(Q.Tree)
		fmt.Printf("lateb n=%d a=%d b=%d q=%d D=%d rootsSeen=%v Rpath=%s Rheads=%s Qpath=%s Qheads=%s\n", n, a, b, q, op.D, sh(ck.rootsSeen[a]), sh(rp), sh(rh), sh(qp), sh(qh))
	}
	if op.D%2 == 1 {
		return ck.probeE2EPair(R, Q, Op{K: "probe-e2e", D: 0})
	}
	return ck.probePair(R, Q, op)
}

// ---- the run -----------------------------------------------------------------------------------

func run(c Case) (out vstat.Outcome, err error) {
	s, err := treesim.New(outerT, treesim.Options{N: c.N, Seed: c.Seed, Holders: c.Holders})
	if err != nil {
		return out, fmt.Errorf("setup: %w", err)
	}
	defer s.Close()
	ck := &checker{s: s, c: c, classes: map[string]bool{}}
	t0 := time.Now() // debug output only
	size := func(k int) int {
		if c.Big {
			return 200_000 + 70_000*k
		}
		return 8 + 20*k
	}
	edits := 0
	doEdit := func(r int, snap bool, sz int) error {
		if s.Replicas[r].Tree == nil {
			return nil
		}
		if _, err := s.Edit(r, snap, sz); err != nil {
			return fmt.Errorf("local edit on replica %d failed: %v", r, err)
		}
		edits++
		return nil
	}
	ck.observeRoots()
	for i, op := range c.Ops {
		step := fmt.Sprintf("op %d %+v", i, op)
		var err error
		switch op.K {
		case "edit":
			err = doEdit(op.A%c.N, op.B == 0, size(op.C))
		case "fork":
			a, b := op.A%c.N, op.B%c.N
			if err = doEdit(a, false, size(0)); err == nil {
				if err = doEdit(b, false, size(1)); err == nil && op.C == 0 {
					err = doEdit(a, true, size(0))
				}
			}
		case "csnap":
			a, b := op.A%c.N, op.B%c.N
			if a == b {
				b = (a + 1) % c.N
			}
			if err = doEdit(a, true, size(0)); err == nil {
				if err = doEdit(b, true, size(1)); err == nil && op.C > 0 {
					if err = doEdit(a, false, size(2)); err == nil && op.C > 1 {
						err = doEdit(b, false, size(0))
					}
				}
			}
		case "deliver":
			err = s.Step(op.A, treesim.Fate(op.B), 0)
		case "blackout":
			for k := 0; k <= op.A && len(s.InFlight) > 0 && err == nil; k++ {
				err = s.Step(0, treesim.Drop, 0)
			}
		case "request":
			for j, m := range s.InFlight {
				if m.Kind != treesim.HeadUpdate {
					err = s.Step(j, treesim.Deliver, 0)
					break
				}
			}
		case "join":
			if s.Replicas[op.A%c.N].Tree == nil && s.Replicas[op.B%c.N].Tree != nil {
				err = s.Fetch(op.A%c.N, op.B%c.N, 0)
			}
		case "sync":
			err = s.SyncWithPeer(op.A%c.N, op.B%c.N)
		case "reopen":
			if s.Replicas[op.A%c.N].Tree == nil {
				break
			}
			if err = s.Replicas[op.A%c.N].Reopen(); err != nil {
				err = fmt.Errorf("harness: replica %d could not be reopened from its own storage: %v", op.A%c.N, err)
			} else {
				ck.classes["reopen"] = true
				delete(ck.rootsSeen, op.A%c.N)
			}
		case "lateb":
			err = ck.lateBranch(op, doEdit, size)
		case "probe":
			err = ck.probe(op)
		case "probe-e2e":
			err = ck.probeE2E(op)
		case "probe-new":
			err = ck.probeNew(op)
		case "probe-fetch":
			err = ck.probeFetch(op)
		}
		if err != nil {
			return out, fmt.Errorf("%s: %v\nlog tail:\n%s", step, err, tail(s.Log))
		}
		ck.observeRoots()
	}
	out.Sig = vstat.Hash(c.Seed, c.N, c.Big, strings.Join(ck.sigParts, "|"))
	out.NonTrivial = ck.nontrivialProbes > 0
	out.Excluded = ck.excluded
	for k := range ck.classes {
		out.Classes = append(out.Classes, k)
	}
	sort.Strings(out.Classes)
	vstat.Count("edits", int64(edits))
	vstat.Count("probes", int64(ck.probes))
	vstat.Count("probes_diverged_multi_batch", int64(ck.nontrivialProbes))
	vstat.Count("batches", int64(ck.batchesSeen))
	vstat.Count("batches_applied", int64(ck.applied))
	if os.Getenv("VERIF_DEBUG") != "" {
		fmt.Printf("case %v n=%d big=%v ops=%d probes=%d nontrivial=%d batches=%d classes=%v\n", time.Since(t0).Round(time.Millisecond), c.N, c.Big, len(c.Ops), ck.probes, ck.nontrivialProbes, ck.batchesSeen, out.Classes)
	}
	return out, nil
}

func tail(log []string) string {
	if len(log) > 40 {
		log = log[len(log)-40:]
	}
	return strings.Join(log, "\n")
}

func TestRandom(t *testing.T) {
	outerT = t
	vstat.Check(t, prop, genCase, run)
}

// scenarios are hand-written histories that reach the required shapes deterministically
// (the random generator reaches them too, but the rare ones - 1 MiB streams of 300 KB
// changes - not in every quick run).
func scenarios() []Case {
	ed := func(r, size int) Op { return Op{K: "edit", A: r, B: 1, C: size} }
	snap := func(r int) Op { return Op{K: "edit", A: r, B: 0, C: 1} }
	dropAll := Op{K: "blackout", A: 1000}
	allLimits := func(kind string, r, q, d int) []Op {
		var out []Op
		for l := 0; l < nLimits; l++ {
			out = append(out, Op{K: kind, A: r, B: q, C: l, D: (d + l) % 10})
		}
		return out
	}
	var cs []Case
	// 1: two replicas diverge with 200-410 KB changes; production batch size gives multi-batch streams
	big := Case{Seed: 11, N: 2, Holders: 2, Big: true}
	for i := 0; i < 4; i++ {
		big.Ops = append(big.Ops, ed(0, (i+1)%4), ed(1, (i+2)%4))
	}
	big.Ops = append(big.Ops, dropAll,
		Op{K: "probe-e2e", A: 0, B: 0, D: 0}, Op{K: "probe-fetch", A: 0},
		Op{K: "probe", A: 1, B: 0, C: limThree, D: 2},
		snap(0), ed(0, 2), ed(0, 3), ed(0, 1), dropAll,
		Op{K: "probe-new", A: 0, C: limMiB, D: 2}, Op{K: "probe-e2e", A: 0, B: 0, D: 1})
	cs = append(cs, big)
	// 2: concurrent snapshots on both sides, both reduced, every limit class in both directions
	s2 := Case{Seed: 12, N: 2, Holders: 2}
	s2.Ops = append(s2.Ops, ed(0, 1), ed(1, 2), Op{K: "deliver", A: 0}, Op{K: "deliver", A: 0},
		ed(0, 0), ed(0, 3), Op{K: "deliver", A: 0}, Op{K: "deliver", A: 0},
		Op{K: "csnap", A: 0, B: 1, C: 3}, ed(0, 2), ed(1, 3), ed(0, 1), dropAll, Op{K: "reopen", A: 0})
	s2.Ops = append(s2.Ops, allLimits("probe", 0, 0, 0)...)
	s2.Ops = append(s2.Ops, allLimits("probe", 1, 0, 5)...)
	s2.Ops = append(s2.Ops, allLimits("probe-new", 0, 0, 0)...)
	s2.Ops = append(s2.Ops, Op{K: "probe-e2e", A: 0, B: 0}, Op{K: "probe-fetch", A: 1}, Op{K: "probe-e2e", A: 1, B: 0, D: 1})
	cs = append(cs, s2)
	// 3: three replicas; replica 2 holds two heads of which replica 0 knows one (partly known);
	// then one ahead / one behind pairs, and a snapshot the requester has not seen
	s3 := Case{Seed: 13, N: 3, Holders: 3}
	s3.Ops = append(s3.Ops, ed(0, 1), ed(1, 1), Op{K: "deliver", A: 1}, Op{K: "deliver", A: 2}, dropAll)
	s3.Ops = append(s3.Ops, allLimits("probe", 0, 1, 0)...) // R=0, Q=2
	s3.Ops = append(s3.Ops, allLimits("probe", 2, 0, 5)...) // R=2, Q=0: requester behind, heads known
	s3.Ops = append(s3.Ops, Op{K: "probe-e2e", A: 0, B: 1}, Op{K: "probe-e2e", A: 2, B: 0}, Op{K: "probe-e2e", A: 1, B: 1, D: 1})
	s3.Ops = append(s3.Ops, ed(2, 2), snap(2), ed(2, 0), ed(2, 1), ed(0, 3), ed(0, 0), dropAll)
	s3.Ops = append(s3.Ops, allLimits("probe", 2, 0, 2)...) // responder reduced beyond the common snapshot
	s3.Ops = append(s3.Ops, allLimits("probe", 0, 1, 7)...)
	s3.Ops = append(s3.Ops, Op{K: "probe-e2e", A: 2, B: 1}, Op{K: "probe-e2e", A: 1, B: 1, D: 1}, Op{K: "probe-fetch", A: 2})
	cs = append(cs, s3)
	// 4: the responder (0) reduces to snapshot S and announces its path from there, then a late
	// change of replica 1, based on the older snapshot, moves its root back; replica 2 sits on S
	// and lacks the late branch, replica 1 has it and is behind S. Every limit, both requesters,
	// then the same after the responder merged the two branches.
	s4 := Case{Seed: 14, N: 3, Holders: 3}
	s4.Ops = append(s4.Ops, ed(0, 1), Op{K: "deliver", A: 0}, Op{K: "deliver", A: 0})
	for l := 0; l < nLimits; l++ {
		s4.Ops = append(s4.Ops, Op{K: "lateb", A: 0, B: 1, C: l, D: 2 * (l % 3)}) // loader probes, Q = 2
	}
	s4.Ops = append(s4.Ops, Op{K: "lateb", A: 0, B: 1, C: limOne, D: 1}, Op{K: "lateb", A: 0, B: 1, C: limOne, D: 8}, Op{K: "lateb", A: 0, B: 1, C: lim64, D: 9})
	s4.Ops = append(s4.Ops, ed(0, 2), dropAll)
	s4.Ops = append(s4.Ops, allLimits("probe", 0, 1, 0)...)
	s4.Ops = append(s4.Ops, Op{K: "probe-e2e", A: 0, B: 1}, Op{K: "probe-e2e", A: 0, B: 0, D: 1}, Op{K: "probe-fetch", A: 0})
	cs = append(cs, s4)
	return cs
}

func TestScenario(t *testing.T) {
	outerT = t
	vstat.Enumerate(t, prop, func(yield func(Case) bool) {
		for _, c := range scenarios() {
			if !yield(c) {
				return
			}
		}
	}, run)
}

// Regressions for the fixed finding commonsnapshot-sibling-dedupe (treeBuilder.commonSnapshot
// deduped snapshots by their parent id and returned one of two sibling snapshots instead of
// their common parent). History: A: S2=snapshot(root); B: b=change(root); B receives S2;
// B: m=change([S2,b]); B: S1=snapshot(m) (base root); A: x=change(S2) (base S2); B receives x.
// A fresh participant that is fed B's answer to an empty-heads request batch by batch without a
// snapshot path is reduced to S1 by the batch ending in S1 and must still attach x afterwards.
func regSiblingHistory(seed uint64, big bool, sizes [5]int, probe Op) Case {
	return Case{Seed: seed, N: 2, Holders: 2, Big: big, Ops: []Op{
		{K: "edit", A: 0, B: 0, C: sizes[0]},
		{K: "edit", A: 1, B: 1, C: sizes[1]},
		{K: "deliver", A: 0},
		{K: "blackout", A: 100},
		{K: "edit", A: 1, B: 1, C: sizes[2]},
		{K: "edit", A: 1, B: 0, C: sizes[3]},
		{K: "blackout", A: 100},
		{K: "edit", A: 0, B: 1, C: sizes[4]},
		{K: "deliver", A: 0},
		{K: "blackout", A: 100},
		probe,
	}}
}

// loader level, one change per batch (limit 64), the collector's application on a fresh participant
func TestRegFetchSiblingSnapshots(t *testing.T) {
	outerT = t
	vstat.One(t, prop, regSiblingHistory(21, false, [5]int{1, 1, 1, 1, 1}, Op{K: "probe-new", A: 1, C: lim64, D: 2}), run)
}

// end to end: 200-410 KB changes, production batch size, real tree getter + full response collector
func TestRegFetchSiblingSnapshotsE2E(t *testing.T) {
	outerT = t
	vstat.One(t, prop, regSiblingHistory(35, true, [5]int{0, 0, 1, 2, 3}, Op{K: "probe-fetch", A: 1}), run)
}

func TestReplay(t *testing.T) {
	outerT = t
	t.Run("TestRandom", func(t *testing.T) { vstat.Replay(t, prop, "TestRandom", run) })
	t.Run("TestScenario", func(t *testing.T) { vstat.Replay(t, prop, "TestScenario", run) })
	t.Run("TestRegFetchSiblingSnapshots", func(t *testing.T) { vstat.Replay(t, prop, "TestRegFetchSiblingSnapshots", run) })
	t.Run("TestRegFetchSiblingSnapshotsE2E", func(t *testing.T) { vstat.Replay(t, prop, "TestRegFetchSiblingSnapshotsE2E", run) })
}
