package c12

import (
	"math"
	"testing"

	"verif/harness/internal/vstat"
)

// tieCase: two stores receive the same two values of one slot in different orders (one of
// them with a repetition), then run one exchange: they must hold the same contents, and
// each must hold what an order-independent store holds (all refused, or the exact winner).
func tieCase(t1, t2 int64) Case {
	c := baseCase()
	c.Vals = []Val{{Key: 0, Dev: 2, Acct: 0, Head: 0, Exact: t1}, {Key: 0, Dev: 2, Acct: 0, Head: 0, Exact: t2}, {Key: 0, Dev: 2, Acct: 0, TS: 1, Head: 0}}
	c.Ops = []Op{
		{K: "raw", S: 0, Items: []Item{{V: 2}}},
		{K: "raw", S: 0, Items: []Item{{V: 0}}},
		{K: "raw", S: 0, Items: []Item{{V: 1}}},
		{K: "raw", S: 0, Items: []Item{{V: 0}}},
		{K: "raw", S: 1, Via: 1, Items: []Item{{V: 1}, {V: 0}}},
		{K: "raw", S: 1, Items: []Item{{V: 2}}},
	}
	return c
}

// TestRegHugeTimestampTies: distinct timestamps of one slot that collapse under the
// store's float64 number, or wrap around at 2^63, or are negative (found by probing on
// 857f96c: the winner depended on arrival order and repetition, and a timestamp within 512
// of MaxInt64 was stored as MinInt64; fixed in /repo 70d68a5 by refusing timestamps outside
// [0, 2^53]).
func TestRegHugeTimestampTies(t *testing.T) {
	outerT = t
	t.Run("both-rounded-down", func(t *testing.T) { vstat.One(t, prop, tieCase(1<<60+1, 1<<60+2), run) })
	t.Run("both-rounded-up", func(t *testing.T) { vstat.One(t, prop, tieCase(1<<60+200, 1<<60+201), run) })
	t.Run("just-above-2^53", func(t *testing.T) { vstat.One(t, prop, tieCase(1<<53+1, 1<<53+2), run) })
	t.Run("rounds-to-2^63", func(t *testing.T) { vstat.One(t, prop, tieCase(math.MaxInt64-2, math.MaxInt64-1), run) })
	t.Run("negative", func(t *testing.T) { vstat.One(t, prop, tieCase(-5, -4), run) })
}
