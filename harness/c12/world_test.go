package c12

// The simulated world of C12: one ACL history (engine B, owner-driven), 2-3 key-value
// stores, each a REAL keyvalue service (keyvalue.New + Init on a stub app.App + Run) on
// its own any-store database (wrapped by engine C, faultstore), its own real head storage
// on that database, its own ACL list on its own storage (knowing a prefix of the history),
// its own account + device keys, its own rpctest DRPC server. The only fakes are the
// components the service asks the app for: a sync service that records the marshalled
// broadcasts, an account service, a no-op indexer.

import (
	"context"
	"fmt"
	"net"
	gosync "sync"
	"testing"

	anystore "github.com/anyproto/any-store"
	"storj.io/drpc"

	"github.com/anyproto/any-sync/accountservice"
	"github.com/anyproto/any-sync/app"
	"github.com/anyproto/any-sync/commonspace/headsync/headstorage"
	"github.com/anyproto/any-sync/commonspace/object/accountdata"
	"github.com/anyproto/any-sync/commonspace/object/acl/list"
	"github.com/anyproto/any-sync/commonspace/object/acl/recordverifier"
	"github.com/anyproto/any-sync/commonspace/object/acl/syncacl"
	"github.com/anyproto/any-sync/commonspace/object/keyvalue"
	"github.com/anyproto/any-sync/commonspace/object/keyvalue/keyvaluestorage"
	"github.com/anyproto/any-sync/commonspace/object/keyvalue/keyvaluestorage/innerstorage"
	"github.com/anyproto/any-sync/commonspace/object/keyvalue/kvinterfaces"
	"github.com/anyproto/any-sync/commonspace/spacestate"
	"github.com/anyproto/any-sync/commonspace/spacestorage"
	"github.com/anyproto/any-sync/commonspace/spacesyncproto"
	"github.com/anyproto/any-sync/commonspace/sync"
	"github.com/anyproto/any-sync/commonspace/sync/objectsync/objectmessages"
	"github.com/anyproto/any-sync/commonspace/sync/syncdeps"
	"github.com/anyproto/any-sync/consensus/consensusproto"
	"github.com/anyproto/any-sync/net/peer"
	"github.com/anyproto/any-sync/net/rpc/rpctest"
	"github.com/anyproto/any-sync/net/secureservice"
	"github.com/anyproto/any-sync/net/transport"
	"github.com/anyproto/any-sync/util/crypto"

	"verif/harness/internal/accounts"
	"verif/harness/internal/aclgen"
	"verif/harness/internal/dbutil"
	"verif/harness/internal/faultstore"
)

const (
	nAccounts = 6
	// the bubble's fake clock starts at 2000-01-01T00:00:00Z
	epochMicro = int64(946684800) * 1_000_000
)

var bg = context.Background()

type world struct {
	t         *testing.T
	acl       *aclgen.World
	recIdx    map[string]int // ACL record id -> index in acl.Records
	scratch   *dbutil.Scratch
	spaceId   string
	kvId      string // id of the default key-value storage
	devs      []*accountdata.AccountKeys
	devId     []string
	devByRaw  map[string]int // raw ed25519 public key -> device index
	acctByRaw map[string]int
	stores    []*store
}

type store struct {
	w           *world
	idx         int
	acct        int
	dev         int
	keys        *accountdata.AccountKeys
	raw         anystore.DB
	db          *faultstore.DB
	space       spacestorage.SpaceStorage
	acl         list.AclList
	aclLen      int // number of ACL records this store knows
	svc         kvinterfaces.KeyValueService
	rpc         *rpctest.TestServer
	outbox      [][]byte // marshalled ObjectSyncMessages the service broadcast
	handlerErrs []string
}

// ---- stub components -------------------------------------------------------------------

type stubAccount struct{ keys *accountdata.AccountKeys }

func (s stubAccount) Init(*app.App) error               { return nil }
func (s stubAccount) Name() string                      { return accountservice.CName }
func (s stubAccount) Account() *accountdata.AccountKeys { return s.keys }

type stubAcl struct{ list.AclList }

func (s stubAcl) Init(*app.App) error { return nil }
func (s stubAcl) Name() string        { return syncacl.CName }

type stubIndexer struct{}

func (stubIndexer) Init(*app.App) error { return nil }
func (stubIndexer) Name() string        { return keyvaluestorage.IndexerCName }
func (stubIndexer) Index(keyvaluestorage.Decryptor, ...innerstorage.KeyValue) error {
	return nil
}

// stubSync is the sync.SyncService of a store: it keeps what the store broadcasts as the
// marshalled wire message.
type stubSync struct{ st *store }

func (s *stubSync) Init(*app.App) error { return nil }
func (s *stubSync) Name() string        { return sync.CName }
func (s *stubSync) BroadcastMessage(ctx context.Context, msg drpc.Message) error {
	hu, ok := msg.(*objectmessages.HeadUpdate)
	if !ok {
		return fmt.Errorf("unexpected broadcast type %T", msg)
	}
	pm, err := hu.ProtoMessage()
	if err != nil {
		return err
	}
	b, err := pm.(*spacesyncproto.ObjectSyncMessage).MarshalVT()
	if err != nil {
		return err
	}
	s.st.outbox = append(s.st.outbox, b)
	return nil
}
func (s *stubSync) HandleStreamRequest(context.Context, syncdeps.Request, drpc.Stream) error {
	return fmt.Errorf("not used")
}
func (s *stubSync) HandleMessage(context.Context, drpc.Message) error { return fmt.Errorf("not used") }
func (s *stubSync) SendRequest(context.Context, syncdeps.Request, syncdeps.ResponseCollector) error {
	return fmt.Errorf("not used")
}
func (s *stubSync) QueueRequest(context.Context, syncdeps.Request) error {
	return fmt.Errorf("not used")
}
func (s *stubSync) CloseReceiveQueue(string) error { return nil }

// kvRPC is the space-sync RPC server of a store: the two key-value methods are routed to
// the real service the way a node / client does.
type kvRPC struct {
	spacesyncproto.DRPCSpaceSyncUnimplementedServer
	st *store
}

func (r *kvRPC) StoreDiff(ctx context.Context, req *spacesyncproto.StoreDiffRequest) (*spacesyncproto.StoreDiffResponse, error) {
	return r.st.svc.HandleStoreDiffRequest(ctx, req)
}

func (r *kvRPC) StoreElements(stream spacesyncproto.DRPCSpaceSync_StoreElementsStream) error {
	msg, err := stream.Recv() // the space-id preamble
	if err != nil {
		return err
	}
	if msg.SpaceId != r.st.w.spaceId {
		return fmt.Errorf("unexpected space id %q", msg.SpaceId)
	}
	err = r.st.svc.HandleStoreElementsRequest(stream.Context(), stream)
	if err != nil {
		r.st.handlerErrs = append(r.st.handlerErrs, err.Error())
	}
	return err
}

// kvSpaceStorage is the part of a space storage the key-value service uses.
type kvSpaceStorage struct {
	spacestorage.SpaceStorage // nil: anything else is not used by the code under test
	db                        anystore.DB
	hs                        headstorage.HeadStorage
	id                        string
}

func (k *kvSpaceStorage) Init(*app.App) error                  { return nil }
func (k *kvSpaceStorage) Name() string                         { return spacestorage.CName }
func (k *kvSpaceStorage) Run(context.Context) error            { return nil }
func (k *kvSpaceStorage) Close(context.Context) error          { return nil }
func (k *kvSpaceStorage) Id() string                           { return k.id }
func (k *kvSpaceStorage) AnyStore() anystore.DB                { return k.db }
func (k *kvSpaceStorage) HeadStorage() headstorage.HeadStorage { return k.hs }

// ---- construction ----------------------------------------------------------------------

// newWorld must be called inside a synctest bubble.
func newWorld(t *testing.T, seed uint64, aclOps []aclgen.Op, nDev int) (*world, error) {
	w := &world{t: t, recIdx: map[string]int{}, devByRaw: map[string]int{}, acctByRaw: map[string]int{}}
	var err error
	w.acl, err = aclgen.NewWorld(nAccounts, seed, false)
	if err != nil {
		return nil, err
	}
	for _, op := range aclOps {
		if (op.Kind == "perm_change" || op.Kind == "remove") && w.acl.M.Perm[((op.Target%nAccounts)+nAccounts)%nAccounts] == aclgen.None {
			// out of domain: the ACL accepts a permission change naming a REMOVED account, which
			// then "can write" without ever receiving the current read key (an ACL-level matter,
			// reported to the lead; Set would dereference a nil read key). Not a C12 input.
			continue
		}
		if _, err := w.acl.Apply(op); err != nil {
			return nil, fmt.Errorf("acl op %+v: %w", op, err)
		}
	}
	for i, r := range w.acl.Records {
		w.recIdx[r.Id] = i
	}
	w.spaceId = w.acl.SpaceId
	for d := 0; d < nDev; d++ {
		k := accounts.Named("device", d)
		w.devs = append(w.devs, k)
		w.devId = append(w.devId, k.PeerKey.GetPublic().PeerId())
		raw, err := k.PeerKey.GetPublic().Raw()
		if err != nil {
			return nil, err
		}
		w.devByRaw[string(raw)] = d
	}
	for a := 0; a < nAccounts; a++ {
		raw, err := w.acl.Keys[a].SignKey.GetPublic().Raw()
		if err != nil {
			return nil, err
		}
		w.acctByRaw[string(raw)] = a
	}
	w.scratch, err = dbutil.New("c12-")
	if err != nil {
		return nil, err
	}
	return w, nil
}

func (w *world) close() {
	for _, s := range w.stores {
		if s.svc != nil {
			s.svc.Close(bg)
		}
		if s.raw != nil {
			s.raw.Close()
		}
	}
	if w.scratch != nil {
		w.scratch.Remove()
	}
}

func (w *world) addStore(acct, dev, aclLen int) (*store, error) {
	s := &store{w: w, idx: len(w.stores), acct: acct, dev: dev}
	s.keys = accountdata.New(w.devs[dev].PeerKey, w.acl.Keys[acct].SignKey)
	name := fmt.Sprintf("store-%d.db", s.idx)
	raw, err := w.scratch.Open(name)
	if err != nil {
		return nil, err
	}
	s.raw = raw
	w.stores = append(w.stores, s) // from here on close() releases it
	s.db = faultstore.Wrap(raw, w.scratch.Path(name))
	// The key-value service takes two things from the space storage: the database and the
	// head storage. Both are the real ones; the rest of a space storage (tree / settings /
	// state collections, ACL collection) is never touched by the code under test and is
	// left out: creating it costs more than the whole case.
	hs, err := headstorage.New(bg, s.db)
	if err != nil {
		return nil, err
	}
	s.space = &kvSpaceStorage{db: s.db, hs: hs, id: w.spaceId}
	// own ACL view: own list on own (in-memory) storage, knowing a prefix of the history
	s.acl, err = aclgen.NewList(s.keys, []*consensusproto.RawRecordWithId{aclgen.CloneRec(w.acl.Records[0])}, recordverifier.NewValidateFull())
	if err != nil {
		return nil, err
	}
	s.aclLen = 1
	if err := s.advanceAcl(aclLen - 1); err != nil {
		return nil, err
	}
	a := new(app.App)
	s.rpc = rpctest.NewTestServer()
	a.Register(&spacestate.SpaceState{SpaceId: w.spaceId}).
		Register(stubAccount{keys: s.keys}).
		Register(stubAcl{AclList: s.acl}).
		Register(s.space).
		Register(&stubSync{st: s}).
		Register(stubIndexer{})
	s.svc = keyvalue.New()
	if err := s.svc.Init(a); err != nil {
		return nil, fmt.Errorf("keyvalue service Init: %w", err)
	}
	if err := s.svc.Run(bg); err != nil {
		return nil, fmt.Errorf("keyvalue service Run: %w", err)
	}
	if err := spacesyncproto.DRPCRegisterSpaceSync(s.rpc, &kvRPC{st: s}); err != nil {
		return nil, err
	}
	if w.kvId == "" {
		w.kvId = s.svc.DefaultStore().Id()
	} else if w.kvId != s.svc.DefaultStore().Id() {
		return nil, fmt.Errorf("stores of one space derive different storage ids: %s / %s", w.kvId, s.svc.DefaultStore().Id())
	}
	return s, nil
}

// advanceAcl teaches the store the next n records of the history (as far as there are).
func (s *store) advanceAcl(n int) error {
	for ; n > 0 && s.aclLen < len(s.w.acl.Records); n-- {
		s.acl.Lock()
		err := s.acl.AddRawRecord(aclgen.CloneRec(s.w.acl.Records[s.aclLen]))
		s.acl.Unlock()
		if err != nil {
			return fmt.Errorf("store %d: ACL record %d rejected: %w", s.idx, s.aclLen, err)
		}
		s.aclLen++
	}
	return nil
}

func (s *store) peerId() string { return s.w.devId[s.dev] }

// pair returns the peer object a holds for b (and starts b's side of the connection).
func (w *world) pair(a, b *store) (ab peer.Peer, closeFn func(), err error) {
	// toA's context names a: it is the connection b holds towards a, and vice versa
	toA, toB := pipeMultiConnPair(a.peerId(), b.peerId())
	bSide, err := peer.NewPeer(toA, b.rpc)
	if err != nil {
		return nil, nil, err
	}
	aSide, err := peer.NewPeer(toB, a.rpc)
	if err != nil {
		bSide.Close()
		return nil, nil, err
	}
	return aSide, func() { aSide.Close(); bSide.Close() }, nil
}

// pipeMultiConn is an in-memory transport.MultiConn: every Open makes a net.Pipe and
// hands the other end to the remote side's Accept. It replaces rpctest.MultiConnPair,
// whose yamux sessions share a process-global pool of timers — a timer created in one
// synctest bubble and reused in the next is fatal ("select on synctest channel from
// outside bubble"). Everything above it (peer.Peer, the proto handshake, DRPC client and
// server, rpctest.TestServer) is the real code.
type pipeMultiConn struct {
	ctx      context.Context
	remote   *pipeMultiConn
	incoming chan net.Conn
	closed   chan struct{}
	once     gosync.Once
	mu       gosync.Mutex
	subs     []net.Conn // both ends of every sub connection opened from this side
}

func pipeMultiConnPair(idA, idB string) (toA, toB transport.MultiConn) {
	mk := func(id string) *pipeMultiConn {
		return &pipeMultiConn{
			ctx:      peer.CtxWithProtoVersion(peer.CtxWithPeerId(context.Background(), id), secureservice.ProtoVersion),
			incoming: make(chan net.Conn),
			closed:   make(chan struct{}),
		}
	}
	x, y := mk(idA), mk(idB)
	x.remote, y.remote = y, x
	return x, y
}

func (m *pipeMultiConn) Context() context.Context   { return m.ctx }
func (m *pipeMultiConn) Addr() string               { return "pipe://verif" }
func (m *pipeMultiConn) BytesRead() int64           { return 0 }
func (m *pipeMultiConn) BytesWritten() int64        { return 0 }
func (m *pipeMultiConn) CloseChan() <-chan struct{} { return m.closed }
func (m *pipeMultiConn) IsClosed() bool {
	select {
	case <-m.closed:
		return true
	default:
		return false
	}
}
func (m *pipeMultiConn) Close() error {
	for _, x := range []*pipeMultiConn{m, m.remote} {
		x.once.Do(func() { close(x.closed) })
		x.mu.Lock()
		for _, c := range x.subs {
			c.Close()
		}
		x.subs = nil
		x.mu.Unlock()
	}
	return nil
}
func (m *pipeMultiConn) Accept() (net.Conn, error) {
	select {
	case c := <-m.incoming:
		return c, nil
	case <-m.closed:
		return nil, transport.ErrConnClosed
	}
}
func (m *pipeMultiConn) Open(ctx context.Context) (net.Conn, error) {
	mine, theirs := net.Pipe()
	select {
	case m.remote.incoming <- theirs:
		m.mu.Lock()
		m.subs = append(m.subs, mine, theirs)
		m.mu.Unlock()
		return mine, nil
	case <-m.closed:
	case <-ctx.Done():
	}
	mine.Close()
	theirs.Close()
	return nil, transport.ErrConnClosed
}

// kvReadKey is the key-value encryption key in force at ACL record index i, derived like
// keyvaluestorage does (only used to forge realistic payloads and to read local Sets).
func (w *world) kvReadKey(i int) (crypto.SymKey, error) {
	st := w.acl.Lists[0].AclState()
	id, err := st.ReadKeyForAclId(w.acl.Records[i].Id)
	if err != nil {
		return nil, err
	}
	k := st.Keys()[id].ReadKey
	if k == nil {
		return nil, fmt.Errorf("owner does not hold read key %s", id)
	}
	raw, err := k.Raw()
	if err != nil {
		return nil, err
	}
	return crypto.DeriveSymmetricKey(raw, fmt.Sprintf(crypto.AnysyncKeyValuePath, w.kvId))
}
