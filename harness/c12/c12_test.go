// Package c12 decides property C12: the space key-value store keeps, per (key, device)
// slot, the validly signed value with the greatest timestamp it received — whatever the
// order, grouping and repetition of arrival (local Set, pushed batch, pulled stream) —
// advertises an index that is a function of those contents only, equalises two stores in
// one sync exchange, survives failed writes with index == storage, and stores ONLY values
// whose two signatures verify over the stored bytes, that are filed under the slot named
// inside those bytes, and whose signing account could write at the cited, known ACL record.
package c12

import (
	"crypto/ed25519"
	"encoding/binary"
	"errors"
	"fmt"
	"math"
	"os"
	"runtime"
	"sort"
	"strings"
	"testing"
	"testing/synctest"
	"time"

	"pgregory.net/rapid"

	"github.com/anyproto/any-sync/app/ldiff"
	"github.com/anyproto/any-sync/app/logger"
	"github.com/anyproto/any-sync/commonspace/object/keyvalue/keyvaluestorage"
	"github.com/anyproto/any-sync/commonspace/object/keyvalue/keyvaluestorage/innerstorage"
	"github.com/anyproto/any-sync/commonspace/spacesyncproto"
	"github.com/anyproto/any-sync/commonspace/sync/objectsync/objectmessages"
	"github.com/anyproto/any-sync/util/crypto/cryptoproto"

	"verif/harness/internal/aclgen"
	"verif/harness/internal/faultstore"
	"verif/harness/internal/setmodel"
	"verif/harness/internal/vstat"
)

const prop = "C12"

// parameters of the index the store builds (innerstorage.New: ldiff.New(32, 256))
const (
	kvDivideFactor = 32
	kvThreshold    = 256
)

var outerT *testing.T

func TestMain(m *testing.M) {
	if os.Getenv("VERIF_DEBUG") == "" {
		logger.Config{Production: true, DefaultLevel: "fatal", DisableStdErr: true}.ApplyGlobal()
	}
	vstat.Main(m, prop)
}

// ---- case --------------------------------------------------------------------------------

// keys with dashes and prefix relations (ids are key + "-" + peer id; GetAll is a prefix scan)
var keyNames = []string{"k", "k-1", "k1", "other", "a-b"}

const (
	tsSlots   = 64                             // timestamp = epoch + 2*(TS*tsSlots + index) + 1 microseconds: distinct by construction, odd
	sleepUnit = 2 * tsSlots * time.Microsecond // one timestamp rank; local Sets happen at even microseconds
)

// Val is one candidate value: who signs what, when, citing which ACL record.
type Val struct {
	Key  int `json:"k"`
	Dev  int `json:"d"`
	Acct int `json:"a"`
	TS   int `json:"ts"`
	Head int `json:"h"` // index of the cited ACL record (mod history length); <0: an id nobody knows
	// Huge != 0: a remote author's timestamp outside what the store can keep exactly, or right
	// at that border: 1 = consecutive values around 2^53 (2^53-4 ...: the border itself and
	// pairs above it that collapse under float64 rounding), 2 = consecutive UnixNano-sized
	// values (collapse), 3 = MaxInt64 downwards (rounds to 2^63), 4 = negative, 5 = huge but
	// spaced so that they stay distinct after rounding. Always distinct per case.
	Huge int `json:"huge,omitempty"`
	// Exact != 0: this very timestamp (hand-written probes only).
	Exact int64 `json:"exact,omitempty"`
}

// Item is one delivery of a candidate, possibly mutated on the way.
type Item struct {
	V int    `json:"v"`
	M string `json:"m,omitempty"`
	A int    `json:"a,omitempty"`
	B int    `json:"b,omitempty"`
}

var mutations = []string{
	"relabel-key", "relabel-dev", "relabel-slot",
	"flip-value", "flip-idsig", "flip-peersig", "swap-sigs",
	"resign-dev", "resign-acct", "recite", "short-sig", "no-sig",
}

// Op kinds:
//
//	raw    deliver Items to store S: Via 0 = SetRaw, 1 = a pushed head update (HandleMessage) carrying the marshalled batch
//	set    store S: sleep Sleep ranks, then Set(key, plaintext) through the API
//	bcast  deliver broadcast N (mod) of store S's outbox to store T through HandleMessage
//	acl    store S learns N more ACL records
//	sync   store S runs the real sync exchange with store T (rpctest); with Fault the exchange is first
//	       run with a storage error at every write boundary of the initiator (N even) or responder (N odd)
//
// Fault: the write is first attempted with an injected storage error at boundary 1, 2, ...
// (every boundary of the call), each failure followed by a retry of the same input.
type Op struct {
	K     string `json:"k"`
	S     int    `json:"s"`
	T     int    `json:"t,omitempty"`
	Items []Item `json:"items,omitempty"`
	Via   int    `json:"via,omitempty"`
	Key   int    `json:"key,omitempty"`
	Sleep int    `json:"sleep,omitempty"`
	N     int    `json:"n,omitempty"`
	Fault bool   `json:"fault,omitempty"`
}

type StoreSpec struct {
	Acct   int `json:"acct"`
	AclLen int `json:"acl_len"` // ACL records known at start (mod history length, at least the root)
}

type Case struct {
	Seed   uint64      `json:"seed"`
	Acl    []aclgen.Op `json:"acl"`
	NDev   int         `json:"ndev"`
	Stores []StoreSpec `json:"stores"`
	Vals   []Val       `json:"vals"`
	Ops    []Op        `json:"ops"`
	Tail   []int       `json:"tail"` // order / initiator choices of the final pairwise exchanges
}

// aclPrelude: 1 writer, 2 reader, 3 writer then removed (key rotation), 4 never a member, 5 free.
func aclPrelude() []aclgen.Op {
	return []aclgen.Op{
		{Kind: "add", Actor: 0, Target: 1, Perm: aclgen.Writer},
		{Kind: "add", Actor: 0, Target: 2, Perm: aclgen.Reader},
		{Kind: "add", Actor: 0, Target: 3, Perm: aclgen.Writer},
		{Kind: "remove", Actor: 0, Target: 3},
	}
}

func genAcl(rt *rapid.T) []aclgen.Op {
	ops := aclPrelude()
	n := rapid.IntRange(0, 5).Draw(rt, "aclExtra")
	for i := 0; i < n; i++ {
		t := rapid.SampledFrom([]int{1, 2, 3, 5}).Draw(rt, "aclT")
		switch rapid.IntRange(0, 5).Draw(rt, "aclK") {
		case 0, 1:
			ops = append(ops, aclgen.Op{Kind: "perm_change", Actor: 0, Target: t, Perm: rapid.SampledFrom([]int{aclgen.Writer, aclgen.Reader, aclgen.Admin}).Draw(rt, "aclP")})
		case 2:
			ops = append(ops, aclgen.Op{Kind: "add", Actor: 0, Target: t, Perm: rapid.SampledFrom([]int{aclgen.Writer, aclgen.Reader, aclgen.Admin}).Draw(rt, "aclP")})
		case 3:
			ops = append(ops, aclgen.Op{Kind: "remove", Actor: 0, Target: t})
		case 4:
			ops = append(ops, aclgen.Op{Kind: "read_key_change", Actor: 0})
		default:
			ops = append(ops, aclgen.Op{Kind: "options", Actor: 0, Flag: true})
		}
	}
	return ops
}

func genItem(rt *rapid.T, nVals int) Item {
	it := Item{V: rapid.IntRange(0, nVals-1).Draw(rt, "v")}
	if rapid.IntRange(0, 9).Draw(rt, "mutate") < 3 {
		it.M = rapid.SampledFrom(mutations).Draw(rt, "m")
		it.A = rapid.IntRange(0, 200).Draw(rt, "ma")
		it.B = rapid.IntRange(0, 7).Draw(rt, "mb")
	}
	return it
}

func genCaseWith(rt *rapid.T, allFaults bool) Case {
	c := Case{Seed: rapid.Uint64Range(1, 1<<40).Draw(rt, "seed"), Acl: genAcl(rt)}
	nStores := rapid.SampledFrom([]int{2, 2, 3}).Draw(rt, "stores")
	c.NDev = nStores + rapid.IntRange(1, 2).Draw(rt, "extraDevs")
	for s := 0; s < nStores; s++ {
		c.Stores = append(c.Stores, StoreSpec{
			Acct:   rapid.SampledFrom([]int{0, 0, 1, 1, 1, 2, 3, 5, 4}).Draw(rt, "storeAcct"),
			AclLen: rapid.SampledFrom([]int{-1, -1, -1, 1, 3, 5, 6, 8}).Draw(rt, "storeAcl"),
		})
	}
	// a small pool of slots so that values collide
	nSlots := rapid.IntRange(1, 4).Draw(rt, "slots")
	type slot struct{ k, d int }
	var slots []slot
	for i := 0; i < nSlots; i++ {
		// devices 0..nStores-1 are the stores' own devices: their slots also receive local Sets
		slots = append(slots, slot{rapid.IntRange(0, len(keyNames)-1).Draw(rt, "slotKey"), rapid.SampledFrom([]int{0, 0, 1, 1, 2, 3, 4}).Draw(rt, "slotDev") % c.NDev})
	}
	nVals := rapid.IntRange(3, vstat.Pick(12, 24)).Draw(rt, "vals")
	for i := 0; i < nVals; i++ {
		sl := slots[rapid.IntRange(0, nSlots-1).Draw(rt, "slot")]
		c.Vals = append(c.Vals, Val{
			Key: sl.k, Dev: sl.d,
			Acct: rapid.SampledFrom([]int{0, 0, 1, 1, 1, 2, 3, 4, 5}).Draw(rt, "acct"),
			TS:   rapid.SampledFrom([]int{0, 1, 2, 3, 4, 5, 6, 8, 10, 12, 15, 20, 30, 1000}).Draw(rt, "ts"),
			Head: rapid.SampledFrom([]int{-1, 0, 1, 2, 3, 3, 4, 5, 6, 7, 8, 9}).Draw(rt, "head"),
			Huge: rapid.SampledFrom([]int{0, 0, 0, 0, 0, 0, 0, 0, 0, 1, 1, 2, 3, 4, 5}).Draw(rt, "huge"),
		})
	}
	nOps := rapid.IntRange(3, vstat.Pick(14, 30)).Draw(rt, "nops")
	st := rapid.IntRange(0, nStores-1)
	for i := 0; i < nOps; i++ {
		var op Op
		switch k := rapid.IntRange(0, 22).Draw(rt, "kind"); {
		case k >= 20:
			// a burst: 2-3 fresh valid values of ONE slot (owner-signed, citing the root, so every
			// store accepts them) in one fault-enumerated batch, ascending / descending / mixed,
			// mostly on top of an older value of that slot stored just before
			if len(c.Vals)+4 > tsSlots/2 {
				continue
			}
			sl := slots[rapid.IntRange(0, nSlots-1).Draw(rt, "burstSlot")]
			base := rapid.IntRange(0, 24).Draw(rt, "burstTS")
			first := len(c.Vals)
			nb := rapid.IntRange(3, 4).Draw(rt, "burstVals")
			// a third of the bursts carries timestamps float64 cannot represent (one class per burst:
			// LWW among them; index order = candidate order, so the burst stays ascending)
			hugeBurst := rapid.SampledFrom([]int{0, 0, 0, 0, 0, 0, 1, 1, 2, 3, 4, 5}).Draw(rt, "burstHuge")
			for j := 0; j < nb; j++ {
				ts := base + j
				if hugeBurst != 0 {
					ts = base // within a class the candidate index orders the timestamps
				}
				c.Vals = append(c.Vals, Val{Key: sl.k, Dev: sl.d, Acct: rapid.SampledFrom([]int{0, 0, 0, 1}).Draw(rt, "burstAcct"), TS: ts, Head: rapid.SampledFrom([]int{0, 0, 0, 1}).Draw(rt, "burstHead"), Huge: hugeBurst})
			}
			s := st.Draw(rt, "s")
			if rapid.IntRange(0, 3).Draw(rt, "burstPre") != 0 {
				c.Ops = append(c.Ops, Op{K: "raw", S: s, Items: []Item{{V: first}}})
			}
			var items []Item
			switch rapid.IntRange(0, 3).Draw(rt, "burstOrder") {
			case 0, 1: // ascending
				for j := 1; j < nb; j++ {
					items = append(items, Item{V: first + j})
				}
			case 2: // descending
				for j := nb - 1; j >= 1; j-- {
					items = append(items, Item{V: first + j})
				}
			default: // mixed
				items = append(items, Item{V: first + 2}, Item{V: first + 1})
				if nb > 3 {
					items = append(items, Item{V: first + 3})
				}
			}
			if rapid.IntRange(0, 2).Draw(rt, "burstMix") == 0 {
				items = append(items, genItem(rt, nVals))
			}
			op = Op{K: "raw", S: s, Via: rapid.SampledFrom([]int{0, 1}).Draw(rt, "via"), Items: items, Fault: allFaults || rapid.IntRange(0, 3).Draw(rt, "fault") != 0}
		case k < 11:
			op = Op{K: "raw", S: st.Draw(rt, "s"), Via: rapid.SampledFrom([]int{0, 0, 1}).Draw(rt, "via")}
			n := rapid.IntRange(1, 6).Draw(rt, "batch")
			for j := 0; j < n; j++ {
				op.Items = append(op.Items, genItem(rt, nVals))
			}
			op.Fault = allFaults || rapid.IntRange(0, 7).Draw(rt, "fault") == 0
		case k < 14:
			op = Op{K: "set", S: st.Draw(rt, "s"), Key: rapid.IntRange(0, len(keyNames)-1).Draw(rt, "key"), Sleep: rapid.IntRange(1, 6).Draw(rt, "sleep")}
			if rapid.IntRange(0, 3).Draw(rt, "setOnSlot") != 0 {
				// a slot of the pool, preferably one of the store's own device
				sl := slots[rapid.IntRange(0, nSlots-1).Draw(rt, "setSlot")]
				for _, cand := range slots {
					if cand.d == op.S {
						sl = cand
					}
				}
				op.Key = sl.k
			}
			op.Fault = allFaults || rapid.IntRange(0, 5).Draw(rt, "fault") == 0
		case k < 16:
			op = Op{K: "bcast", S: st.Draw(rt, "s"), T: st.Draw(rt, "t"), N: rapid.IntRange(0, 9).Draw(rt, "n")}
			op.Fault = allFaults
		case k < 18:
			op = Op{K: "acl", S: st.Draw(rt, "s"), N: rapid.IntRange(1, 4).Draw(rt, "n")}
		default:
			op = Op{K: "sync", S: st.Draw(rt, "s"), T: st.Draw(rt, "t"), N: rapid.IntRange(0, 1).Draw(rt, "responderFirst")}
			op.Fault = allFaults || rapid.IntRange(0, 3).Draw(rt, "fault") == 0
		}
		c.Ops = append(c.Ops, op)
	}
	c.Tail = rapid.SliceOfN(rapid.IntRange(0, 1000), 6, 6).Draw(rt, "tail")
	return c
}

func genCase(rt *rapid.T) Case      { return genCaseWith(rt, false) }
func genFaultCase(rt *rapid.T) Case { return genCaseWith(rt, true) }

// ---- forging and mutation ------------------------------------------------------------------

func (v Val) micro(i int) int64 {
	if v.Exact != 0 {
		return v.Exact
	}
	n := int64((v.TS%8)*tsSlots + i) // distinct per candidate of a case
	switch v.Huge {
	case 1:
		return exactBound - 4 + n
	case 2:
		return 1_700_000_000_000_000_001 + n
	case 3:
		return math.MaxInt64 - n
	case 4:
		return -1 - n
	case 5:
		return 1_800_000_000_000_000_001 + 4096*n
	}
	return epochMicro + 2*int64(v.TS*tsSlots+i) + 1
}

const exactBound = int64(1) << 53 // timestamps in [0, 2^53] survive the store's float64 number exactly

func outOfRange(ts int64) bool { return ts < 0 || ts > exactBound }

// sameTS: inside the exact range the stored number must be the signed one; outside, the
// statement only speaks about WHICH value is kept, so only the value bytes are compared.
func sameTS(stored, signed int64) bool {
	return stored == signed || outOfRange(signed)
}

func (w *world) headId(h int) string {
	if h < 0 {
		return "bafyreiunknownaclrecordnobodyhas" + fmt.Sprint(-h)
	}
	return w.acl.Records[h%len(w.acl.Records)].Id
}

func plaintext(i int) []byte { return []byte(fmt.Sprintf("plain-%d", i)) }

// forge builds the wire value of candidate i exactly as keyvaluestorage.Set lays it out.
func (w *world) forge(i int, v Val) (*spacesyncproto.StoreKeyValue, error) {
	dev := w.devs[v.Dev%len(w.devs)]
	acct := w.acl.Keys[v.Acct%nAccounts]
	peerProto, err := dev.PeerKey.GetPublic().Marshall()
	if err != nil {
		return nil, err
	}
	idProto, err := acct.SignKey.GetPublic().Marshall()
	if err != nil {
		return nil, err
	}
	keyIdx := len(w.acl.Records) - 1
	if v.Head >= 0 {
		keyIdx = v.Head % len(w.acl.Records)
	}
	rk, err := w.kvReadKey(keyIdx)
	if err != nil {
		return nil, err
	}
	enc, err := rk.Encrypt(plaintext(i))
	if err != nil {
		return nil, err
	}
	key := keyNames[v.Key%len(keyNames)]
	inner := &spacesyncproto.StoreKeyInner{
		Peer: peerProto, Identity: idProto, Value: enc,
		TimestampMicro: v.micro(i), AclHeadId: w.headId(v.Head), Key: key,
	}
	ib, err := inner.MarshalVT()
	if err != nil {
		return nil, err
	}
	ps, err := dev.PeerKey.Sign(ib)
	if err != nil {
		return nil, err
	}
	is, err := acct.SignKey.Sign(ib)
	if err != nil {
		return nil, err
	}
	return &spacesyncproto.StoreKeyValue{
		KeyPeerId: key + "-" + w.devId[v.Dev%len(w.devs)], Value: ib, IdentitySignature: is, PeerSignature: ps,
	}, nil
}

func cloneKV(p *spacesyncproto.StoreKeyValue) *spacesyncproto.StoreKeyValue {
	return &spacesyncproto.StoreKeyValue{
		KeyPeerId:         p.KeyPeerId,
		Value:             append([]byte(nil), p.Value...),
		IdentitySignature: append([]byte(nil), p.IdentitySignature...),
		PeerSignature:     append([]byte(nil), p.PeerSignature...),
	}
}

func flip(b []byte, a, bit int) {
	if len(b) > 0 {
		b[a%len(b)] ^= 1 << (bit % 8)
	}
}

// mutate applies one mutation to a copy of the pristine wire value of candidate v.
func (w *world) mutate(p *spacesyncproto.StoreKeyValue, v Val, it Item) (*spacesyncproto.StoreKeyValue, error) {
	p = cloneKV(p)
	nDev := len(w.devs)
	key := keyNames[v.Key%len(keyNames)]
	otherKey := keyNames[(v.Key+1+it.A%(len(keyNames)-1))%len(keyNames)]
	otherDev := (v.Dev + 1 + it.B%(nDev-1)) % nDev
	var err error
	switch it.M {
	case "":
	case "relabel-key":
		p.KeyPeerId = otherKey + "-" + w.devId[v.Dev%nDev]
	case "relabel-dev":
		p.KeyPeerId = key + "-" + w.devId[otherDev]
	case "relabel-slot":
		p.KeyPeerId = otherKey + "-" + w.devId[otherDev]
	case "flip-value":
		flip(p.Value, it.A, it.B)
	case "flip-idsig":
		flip(p.IdentitySignature, it.A, it.B)
	case "flip-peersig":
		flip(p.PeerSignature, it.A, it.B)
	case "swap-sigs":
		p.IdentitySignature, p.PeerSignature = p.PeerSignature, p.IdentitySignature
	case "resign-dev":
		p.PeerSignature, err = w.devs[otherDev].PeerKey.Sign(p.Value)
	case "resign-acct":
		p.IdentitySignature, err = w.acl.Keys[(v.Acct+1+it.A%(nAccounts-1))%nAccounts].SignKey.Sign(p.Value)
	case "recite":
		inner := &spacesyncproto.StoreKeyInner{}
		if err = inner.UnmarshalVT(p.Value); err == nil {
			cur := w.recIdx[inner.AclHeadId] // 0 for an unknown id
			inner.AclHeadId = w.acl.Records[(cur+1+it.A%max(1, len(w.acl.Records)-1))%len(w.acl.Records)].Id
			p.Value, err = inner.MarshalVT()
		}
	case "short-sig":
		if it.B%2 == 0 {
			p.IdentitySignature = p.IdentitySignature[:len(p.IdentitySignature)-1]
		} else {
			p.PeerSignature = p.PeerSignature[:len(p.PeerSignature)-1]
		}
	case "no-sig":
		if it.B%2 == 0 {
			p.IdentitySignature = nil
		} else {
			p.PeerSignature = nil
		}
	default:
		return nil, fmt.Errorf("unknown mutation %q", it.M)
	}
	return p, err
}

// ---- reference validity (independent of innerstorage.KeyValueFromProto) ----------------------

type refInfo struct {
	ok      bool
	why     string // reject class when !ok
	key     string
	dev     int // index of the device named inside the signed bytes
	acct    int // index of the account named inside the signed bytes
	ts      int64
	head    string
	trueId  string // key + "-" + device id, from the signed bytes
	relabel bool   // the wire label differs from trueId
}

func rawEd25519(keyProto []byte) ([]byte, bool) {
	k := &cryptoproto.Key{}
	if err := k.UnmarshalVT(keyProto); err != nil || k.Type != cryptoproto.KeyType_Ed25519Public || len(k.Data) != ed25519.PublicKeySize {
		return nil, false
	}
	return k.Data, true
}

// authentic checks what can be said from the bytes alone: both signatures verify under
// the raw keys named INSIDE the signed bytes (crypto/ed25519), and those keys are a known
// device / account of the world.
func (w *world) authentic(value, idSig, peerSig []byte) (ri refInfo) {
	inner := &spacesyncproto.StoreKeyInner{}
	if err := inner.UnmarshalVT(value); err != nil {
		ri.why = "rej-decode"
		return
	}
	peerRaw, ok1 := rawEd25519(inner.Peer)
	idRaw, ok2 := rawEd25519(inner.Identity)
	if !ok1 || !ok2 {
		ri.why = "rej-decode"
		return
	}
	if !ed25519.Verify(ed25519.PublicKey(idRaw), value, idSig) || !ed25519.Verify(ed25519.PublicKey(peerRaw), value, peerSig) {
		ri.why = "rej-signature"
		return
	}
	dev, okd := w.devByRaw[string(peerRaw)]
	acct, oka := w.acctByRaw[string(idRaw)]
	if !okd || !oka {
		ri.why = "rej-unknown-key" // cannot happen: every forged value names world keys
		return
	}
	ri.ok = true
	ri.key, ri.dev, ri.acct, ri.ts, ri.head = inner.Key, dev, acct, inner.TimestampMicro, inner.AclHeadId
	ri.trueId = inner.Key + "-" + w.devId[dev]
	return
}

func canWrite(perm int) bool {
	return perm == aclgen.Owner || perm == aclgen.Admin || perm == aclgen.Writer
}

// authorised: the reference ACL model says the account could write at the cited record,
// and the record is among the first aclLen records (those the store knows).
func (w *world) authorised(ri refInfo, aclLen int) (bool, string) {
	idx, ok := w.recIdx[ri.head]
	if !ok || idx >= aclLen {
		return false, "rej-head-unknown"
	}
	p := w.acl.M.PermAt[ri.acct][idx]
	if canWrite(p) {
		return true, ""
	}
	if p == aclgen.None {
		everMember := false
		for _, q := range w.acl.M.PermAt[ri.acct][:idx] {
			if q != aclgen.None {
				everMember = true
			}
		}
		if everMember {
			return false, "rej-perm-removed"
		}
		return false, "rej-perm-not-member"
	}
	return false, "rej-perm-" + aclgen.PermNames[p]
}

// judge is the full reference verdict on a wire value for a store knowing aclLen records.
func (w *world) judge(p *spacesyncproto.StoreKeyValue, aclLen int) refInfo {
	ri := w.authentic(p.Value, p.IdentitySignature, p.PeerSignature)
	if !ri.ok {
		return ri
	}
	if ok, why := w.authorised(ri, aclLen); !ok {
		ri.ok, ri.why = false, why
		return ri
	}
	ri.relabel = p.KeyPeerId != ri.trueId
	return ri
}

// ---- model ---------------------------------------------------------------------------------

type entry struct {
	id      string // slot
	value   []byte
	idSig   []byte
	peerSig []byte
	ts      int64
}

func (e entry) proto() *spacesyncproto.StoreKeyValue {
	return cloneKV(&spacesyncproto.StoreKeyValue{KeyPeerId: e.id, Value: e.value, IdentitySignature: e.idSig, PeerSignature: e.peerSig})
}

type model map[string]entry

// alt is one admissible reading of the statement for a relabelled but otherwise valid
// value: "reject" (it is not a valid value at all) or "refile" (it is the value of the
// slot named inside the signed bytes). Filing it under the wire label is neither.
type alt struct {
	name   string
	refile bool
	// how a value whose timestamp the store cannot keep exactly is treated — the statement
	// fixes only that the outcome does not depend on arrival order: 0 = refused above 2^53
	// and below 0, 1 = refused from 2^53 on and below 0, 2 = kept, ordered by the exact value
	rangeMode int
	m         []model // per store
}

func (a *alt) refusesTS(ts int64) bool {
	switch a.rangeMode {
	case 0:
		return ts < 0 || ts > exactBound
	case 1:
		return ts < 0 || ts >= exactBound
	}
	return false
}

type applyResult struct {
	valid, stored, older bool
	why                  string
	prev                 int64 // timestamp the slot held before (0: nothing)
}

func (a *alt) apply(w *world, s *store, p *spacesyncproto.StoreKeyValue) (res applyResult) {
	ri := w.judge(p, s.aclLen)
	if !ri.ok {
		res.why = ri.why
		return
	}
	if ri.relabel && !a.refile {
		res.why = "rej-relabel"
		return
	}
	if a.refusesTS(ri.ts) {
		res.why = "rej-timestamp-range"
		return
	}
	res.valid = true
	cur, ok := a.m[s.idx][ri.trueId]
	if ok {
		res.prev = cur.ts
	}
	if ok && cur.ts >= ri.ts {
		res.older = cur.ts > ri.ts
		return
	}
	a.m[s.idx][ri.trueId] = entry{id: ri.trueId, value: append([]byte(nil), p.Value...), idSig: append([]byte(nil), p.IdentitySignature...), peerSig: append([]byte(nil), p.PeerSignature...), ts: ri.ts}
	res.stored = true
	return
}

func (m model) sortedIds() []string {
	ids := make([]string, 0, len(m))
	for id := range m {
		ids = append(ids, id)
	}
	sort.Strings(ids)
	return ids
}

func head64(ts int64) string {
	b := make([]byte, 8)
	binary.BigEndian.PutUint64(b, uint64(ts))
	return string(b)
}

// ---- observation -----------------------------------------------------------------------------

type observed struct {
	docs     map[string]innerstorage.KeyValue // stored documents by id (collection scan)
	elements map[string]string                // advertised index: id -> head
	hash     string
	heads    []string                         // head-storage entry of the store id
	iterate  map[string][]string              // Storage.Iterate: key -> ids, in callback order
	iterDup  string                           // a key reported by more than one callback
	getAll   map[string][]string              // Storage.GetAll(key) -> ids
	byId     map[string]innerstorage.KeyValue // every value seen through Iterate / GetAll
}

func (s *store) observe() (o observed, err error) {
	o.docs, o.elements, o.iterate, o.getAll, o.byId = map[string]innerstorage.KeyValue{}, map[string]string{}, map[string][]string{}, map[string][]string{}, map[string]innerstorage.KeyValue{}
	st := s.svc.DefaultStore()
	inner := st.InnerStorage()
	err = inner.IterateValues(bg, func(kv innerstorage.KeyValue) (bool, error) {
		if _, dup := o.docs[kv.KeyPeerId]; dup {
			return false, fmt.Errorf("collection scan returned id %q twice", kv.KeyPeerId)
		}
		o.docs[kv.KeyPeerId] = kv
		return true, nil
	})
	if err != nil {
		return o, fmt.Errorf("IterateValues: %w", err)
	}
	for _, el := range inner.Diff().Elements() {
		if _, dup := o.elements[el.Id]; dup {
			return o, fmt.Errorf("index lists id %q twice", el.Id)
		}
		o.elements[el.Id] = el.Head
	}
	o.hash = inner.Diff().Hash()
	e, err := s.space.HeadStorage().GetEntry(bg, st.Id())
	if err != nil {
		return o, fmt.Errorf("head storage entry of %s: %w", st.Id(), err)
	}
	o.heads = e.Heads
	err = st.Iterate(bg, func(_ keyvaluestorage.Decryptor, key string, values []innerstorage.KeyValue) (bool, error) {
		if _, dup := o.iterate[key]; dup {
			o.iterDup = key
		}
		for _, kv := range values {
			o.iterate[key] = append(o.iterate[key], kv.KeyPeerId)
			o.byId["iterate/"+kv.KeyPeerId] = kv
		}
		return true, nil
	})
	if err != nil {
		return o, fmt.Errorf("Iterate: %w", err)
	}
	for _, key := range keyNames {
		err = st.GetAll(bg, key, func(_ keyvaluestorage.Decryptor, values []innerstorage.KeyValue) error {
			for _, kv := range values {
				o.getAll[key] = append(o.getAll[key], kv.KeyPeerId)
				o.byId["getall/"+kv.KeyPeerId] = kv
			}
			return nil
		})
		if err != nil {
			return o, fmt.Errorf("GetAll(%q): %w", key, err)
		}
	}
	return o, nil
}

func short(id string) string {
	if i := strings.LastIndex(id, "-"); i >= 0 && len(id)-i > 8 {
		return id[:i+1] + ".." + id[len(id)-5:]
	}
	return id
}

// consistent: the advertised index equals what is stored (ids and heads), its hash is
// the hash of a fresh index of those contents, the head-storage entry is that hash, and
// every stored document is authentic and authorised (the ONLY-IF half of the statement).
func (r *runner) consistent(s *store, o observed) error {
	if len(o.elements) != len(o.docs) {
		return fmt.Errorf("index advertises %d ids, collection holds %d documents (index %v, stored %v)", len(o.elements), len(o.docs), shortKeys(o.elements), shortKeys(o.docs))
	}
	set := setmodel.Set{}
	for id, kv := range o.docs {
		h, ok := o.elements[id]
		if !ok {
			return fmt.Errorf("stored document %s is not in the advertised index", short(id))
		}
		if h != head64(kv.TimestampMicro) {
			return fmt.Errorf("index advertises head %x for %s, the stored document has timestamp %d (%x)", h, short(id), kv.TimestampMicro, head64(kv.TimestampMicro))
		}
		set[id] = h
	}
	if fresh := freshHash(set); o.hash != fresh {
		return fmt.Errorf("advertised Hash() %s differs from the hash %s of a fresh index holding the same %d elements (history dependence)", o.hash, fresh, len(set))
	}
	if len(o.heads) != 1 || o.heads[0] != o.hash {
		return fmt.Errorf("head-storage entry of the store is %v, the index hash is %s", o.heads, o.hash)
	}
	for id, kv := range o.docs {
		ri := r.w.authentic(kv.Value.Value, kv.Value.IdentitySignature, kv.Value.PeerSignature)
		if !ri.ok {
			return fmt.Errorf("AUTHENTICITY: stored document %s does not verify under the keys named inside its signed bytes (%s)", short(id), ri.why)
		}
		if id != ri.trueId {
			return fmt.Errorf("AUTHENTICITY: a value signed for slot %s (key %q, device %d) is filed under slot %s", short(ri.trueId), ri.key, ri.dev, short(id))
		}
		if !sameTS(kv.TimestampMicro, ri.ts) {
			return fmt.Errorf("stored document %s carries timestamp %d, its signed bytes say %d", short(id), kv.TimestampMicro, ri.ts)
		}
		if ok, why := r.w.authorised(ri, s.aclLen); !ok {
			return fmt.Errorf("AUTHORISATION: stored document %s is signed by account %d citing ACL record %s: %s (store knows %d records; permission there: %s)", short(id), ri.acct, short(ri.head), why, s.aclLen, r.permAtHead(ri))
		}
	}
	return nil
}

func (r *runner) permAtHead(ri refInfo) string {
	idx, ok := r.w.recIdx[ri.head]
	if !ok {
		return "record unknown"
	}
	return aclgen.PermNames[r.w.acl.M.PermAt[ri.acct][idx]]
}

func shortKeys[V any](m map[string]V) []string {
	var out []string
	for k := range m {
		out = append(out, short(k))
	}
	sort.Strings(out)
	return out
}

func freshHash(set setmodel.Set) string {
	if len(set) == 0 {
		return ldiff.New(kvDivideFactor, kvThreshold).Hash()
	}
	return setmodel.Fresh(kvDivideFactor, kvThreshold, set).Hash()
}

// matches compares everything observable with one model; "" = equal.
func (r *runner) matches(o observed, m model) string {
	for id, e := range m {
		kv, ok := o.docs[id]
		if !ok {
			return fmt.Sprintf("slot %s: the model holds the value with timestamp %+d, the store holds nothing", short(id), e.ts-epochMicro)
		}
		if !sameTS(kv.TimestampMicro, e.ts) {
			return fmt.Sprintf("slot %s: the greatest valid timestamp received is %+d, the store holds %+d", short(id), e.ts-epochMicro, kv.TimestampMicro-epochMicro)
		}
		if string(kv.Value.Value) != string(e.value) || string(kv.Value.IdentitySignature) != string(e.idSig) || string(kv.Value.PeerSignature) != string(e.peerSig) {
			return fmt.Sprintf("slot %s: stored bytes differ from the winning value's bytes", short(id))
		}
	}
	for id, kv := range o.docs {
		if _, ok := m[id]; !ok {
			return fmt.Sprintf("slot %s: the store holds a value (timestamp %+d) although no valid value for that slot was received", short(id), kv.TimestampMicro-epochMicro)
		}
	}
	// the read API shows the same contents
	seen := map[string]bool{}
	for key, ids := range o.iterate {
		for _, id := range ids {
			e, ok := m[id]
			if !ok {
				return fmt.Sprintf("Iterate reports %s which is not in the model", short(id))
			}
			kv := o.byId["iterate/"+id]
			if kv.Key != key || string(kv.Value.Value) != string(e.value) || !sameTS(kv.TimestampMicro, e.ts) {
				return fmt.Sprintf("Iterate reports %s under key %q with other contents than the winning value", short(id), key)
			}
			if seen[id] {
				return fmt.Sprintf("Iterate reports %s twice", short(id))
			}
			seen[id] = true
		}
	}
	if len(seen) != len(m) {
		return fmt.Sprintf("Iterate reports %d values, the model holds %d", len(seen), len(m))
	}
	if o.iterDup != "" {
		return fmt.Sprintf("Iterate reports key %q in more than one group", o.iterDup)
	}
	for _, key := range keyNames {
		want := map[string]bool{}
		for id := range m {
			if r.keyOf[id] == key {
				want[id] = true
			}
		}
		got := 0
		for _, id := range o.getAll[key] {
			e, ok := m[id]
			if !ok {
				return fmt.Sprintf("GetAll(%q) reports %s which is not in the model", key, short(id))
			}
			kv := o.byId["getall/"+id]
			if string(kv.Value.Value) != string(e.value) || !sameTS(kv.TimestampMicro, e.ts) {
				return fmt.Sprintf("GetAll(%q) reports %s with other contents than the winning value", key, short(id))
			}
			if kv.Key == key {
				if !want[id] {
					return fmt.Sprintf("GetAll(%q) reports %s whose signed key is %q", key, short(id), r.keyOf[id])
				}
				got++
			}
		}
		if got != len(want) {
			return fmt.Sprintf("GetAll(%q) reports %d values of that key, the model holds %d", key, got, len(want))
		}
	}
	return ""
}

// ---- runner ----------------------------------------------------------------------------------

type runner struct {
	c       Case
	w       *world
	protos  []*spacesyncproto.StoreKeyValue
	alts    []*alt
	keyOf   map[string]string // slot id -> key (from the ids the harness can form)
	classes map[string]bool

	newestFirst, skipThenStore bool
	evalWrites, faultAttempts  int
}

func (r *runner) class(c string) { r.classes[c] = true }

// check observes store s and compares it with the surviving readings of the statement.
func (r *runner) check(s *store, step string) error {
	o, err := s.observe()
	if err != nil {
		return fmt.Errorf("%s: store %d: %v", step, s.idx, err)
	}
	if err := r.consistent(s, o); err != nil {
		return fmt.Errorf("%s: store %d: %v", step, s.idx, err)
	}
	var keep []*alt
	var why []string
	for _, a := range r.alts {
		if d := r.matches(o, a.m[s.idx]); d == "" {
			keep = append(keep, a)
		} else {
			why = append(why, fmt.Sprintf("[reading %q] %s", a.name, d))
		}
	}
	if len(keep) == 0 {
		return fmt.Errorf("%s: store %d: contents differ from the last-writer-wins model: %s", step, s.idx, strings.Join(why, "; "))
	}
	r.alts = keep
	return nil
}

// materialise turns items into wire values.
func (r *runner) materialise(items []Item) ([]*spacesyncproto.StoreKeyValue, error) {
	var out []*spacesyncproto.StoreKeyValue
	for _, it := range items {
		vi := it.V % len(r.c.Vals)
		p, err := r.w.mutate(r.protos[vi], r.c.Vals[vi], it)
		if err != nil {
			return nil, err
		}
		if it.M != "" {
			r.class("mut-" + it.M)
		}
		out = append(out, p)
	}
	return out, nil
}

// applyBatch feeds one delivered batch to every surviving model of store s.
func (r *runner) applyBatch(s *store, batch []*spacesyncproto.StoreKeyValue, classify bool) {
	r.applyBatchTo(r.alts, s, batch, classify)
}

func (r *runner) applyBatchTo(alts []*alt, s *store, batch []*spacesyncproto.StoreKeyValue, classify bool) {
	for ai, a := range alts {
		rejectedBefore := false
		slots := map[string]int{}
		for _, p := range batch {
			res := a.apply(r.w, s, p)
			if ai != 0 || !classify {
				continue
			}
			if ri := r.w.judge(p, s.aclLen); ri.ok && (!ri.relabel || a.refile) && outOfRange(ri.ts) {
				r.class("ts-out-of-range-offered")
			} else if ri.ok && ri.ts >= exactBound-4 && ri.ts <= exactBound {
				r.class("ts-at-the-2^53-border")
			}
			if !res.valid {
				r.class(res.why)
				rejectedBefore = true
				continue
			}
			ri := r.w.judge(p, s.aclLen)
			slots[ri.trueId]++
			if slots[ri.trueId] == 2 {
				r.class("same-slot-twice-in-batch")
			}
			if res.older {
				r.newestFirst = true
				r.class("newest-first")
			}
			if !res.stored && !res.older {
				r.class("repetition")
			}
			if ri.ts >= exactBound {
				r.class("ts-beyond-2^53")
				if res.stored {
					r.class("ts-beyond-2^53-stored")
				}
				if res.prev >= exactBound && res.prev != ri.ts {
					r.class("lww-among-huge-timestamps")
				}
			}
			if res.stored {
				r.class("stored")
				if rejectedBefore {
					r.skipThenStore = true
					r.class("skip-then-store")
				}
			}
		}
	}
}

// classifyFaultedBatch labels the shapes of a fault-enumerated batch that matter for the
// undo of the in-memory index: several values of one slot in one inner Set call (which
// does not dedupe), in which order, and whether the slot already holds an older value.
func (r *runner) classifyFaultedBatch(s *store, batch []*spacesyncproto.StoreKeyValue) {
	m := r.alts[0].m[s.idx]
	type seen struct {
		n        int
		last     int64
		asc, dsc bool
		first    int64
	}
	slots := map[string]*seen{}
	for _, p := range batch {
		ri := r.w.judge(p, s.aclLen)
		if !ri.ok || ri.relabel {
			continue
		}
		if cur, ok := m[ri.trueId]; ok && cur.ts >= ri.ts {
			continue // filtered against the index before the inner Set
		}
		sl := slots[ri.trueId]
		if sl == nil {
			sl = &seen{first: ri.ts}
			slots[ri.trueId] = sl
		} else if ri.ts > sl.last {
			sl.asc = true
		} else {
			sl.dsc = true
		}
		sl.n++
		sl.last = ri.ts
	}
	for id, sl := range slots {
		if sl.n < 2 {
			continue
		}
		_, stored := m[id]
		where := "new-slot"
		if stored {
			where = "over-stored-older"
		}
		if sl.asc {
			r.class("fault-same-slot-ascending-" + where)
		}
		if sl.dsc {
			r.class("fault-same-slot-descending-" + where)
		}
		if sl.asc && sl.dsc {
			r.class("fault-same-slot-mixed-" + where)
		}
	}
}

func marshalPush(w *world, batch []*spacesyncproto.StoreKeyValue) ([]byte, error) {
	payload, err := (&spacesyncproto.StoreKeyValues{KeyValues: batch}).MarshalVT()
	if err != nil {
		return nil, err
	}
	return (&spacesyncproto.ObjectSyncMessage{SpaceId: w.spaceId, ObjectId: w.kvId, Payload: payload, ObjectType: spacesyncproto.ObjectType_KeyValue}).MarshalVT()
}

// deliverPush hands a marshalled head update to the store's real HandleMessage.
func (s *store) deliverPush(wire []byte) error {
	msg := &spacesyncproto.ObjectSyncMessage{}
	if err := msg.UnmarshalVT(wire); err != nil {
		return err
	}
	hu := &objectmessages.HeadUpdate{}
	if err := hu.SetProtoMessage(msg); err != nil {
		return err
	}
	return s.svc.HandleMessage(bg, hu)
}

func parsePush(wire []byte) ([]*spacesyncproto.StoreKeyValue, error) {
	msg := &spacesyncproto.ObjectSyncMessage{}
	if err := msg.UnmarshalVT(wire); err != nil {
		return nil, err
	}
	kvs := &spacesyncproto.StoreKeyValues{}
	if err := kvs.UnmarshalVT(msg.Payload); err != nil {
		return nil, err
	}
	return kvs.KeyValues, nil
}

// write runs one write attempt function, with fault enumeration if asked: boundary 1, 2,
// ... of the call fails, the index must equal the storage after each failure, and the
// same input is retried until it runs through.
func (r *runner) write(s *store, step string, fault bool, attempt func() error) (callErr, violation error) {
	r.evalWrites++
	if !fault {
		s.db.Reset()
		return attempt(), nil
	}
	for k := 1; k <= 64; k++ {
		s.db.Reset()
		s.db.FailAt(k)
		err := attempt()
		log := s.db.Log()
		s.db.Reset()
		fired := len(log) >= k && log[k-1].Kind != "rollback"
		if !fired {
			return err, nil // ran through without reaching boundary k: this was the clean retry
		}
		r.faultAttempts++
		b := log[k-1]
		kind := b.Kind
		if b.Coll != "" && b.Coll != r.w.kvId {
			kind += "-" + b.Coll
		}
		r.class("fault-" + kind)
		if err == nil {
			// the call reported success although a storage call failed
			return nil, fmt.Errorf("storage error injected at boundary %d (%s %s) was swallowed: the call returned nil", k, b.Kind, b.Coll)
		}
		if !errors.Is(err, faultstore.ErrInjected) {
			return nil, fmt.Errorf("storage error injected at boundary %d (%s): the call failed with an unrelated error: %v", k, b.Kind, err)
		}
		o, oerr := s.observe()
		if oerr != nil {
			return nil, fmt.Errorf("after the storage error injected at boundary %d (%s): %v", k, b.Kind, oerr)
		}
		if cerr := r.consistent(s, o); cerr != nil {
			return nil, fmt.Errorf("after the storage error injected at boundary %d (%s %s): %v", k, b.Kind, b.Coll, cerr)
		}
	}
	return nil, fmt.Errorf("write still hits new storage boundaries after 64 injected faults")
}

func (r *runner) opRaw(op Op, step string) error {
	s := r.w.stores[op.S%len(r.w.stores)]
	batch, err := r.materialise(op.Items)
	if err != nil {
		return err
	}
	attempt := func() error {
		// fresh copies: the store must not be handed memory the harness mutates later
		cp := make([]*spacesyncproto.StoreKeyValue, len(batch))
		for i, p := range batch {
			cp[i] = cloneKV(p)
		}
		if op.Via%2 == 0 {
			return s.svc.DefaultStore().SetRaw(bg, cp...)
		}
		wire, err := marshalPush(r.w, cp)
		if err != nil {
			return err
		}
		return s.deliverPush(wire)
	}
	if op.Via%2 == 0 {
		r.class("via-setraw")
	} else {
		r.class("via-pushed-head-update")
	}
	if op.Fault {
		r.classifyFaultedBatch(s, batch)
	}
	callErr, viol := r.write(s, step, op.Fault, attempt)
	if viol != nil {
		return viol
	}
	r.applyBatch(s, batch, true)
	if err := r.check(s, step); err != nil {
		if callErr != nil {
			return fmt.Errorf("%w\n(the call returned an error for the whole batch: %v — invalid elements must be skipped, valid ones stored)", err, callErr)
		}
		return err
	}
	if callErr != nil {
		r.class("write-error-but-state-as-modelled")
	}
	return nil
}

func (r *runner) opBcast(op Op, step string) error {
	from := r.w.stores[op.S%len(r.w.stores)]
	to := r.w.stores[op.T%len(r.w.stores)]
	if len(from.outbox) == 0 || from == to {
		return nil
	}
	wire := from.outbox[op.N%len(from.outbox)]
	batch, err := parsePush(wire)
	if err != nil {
		return fmt.Errorf("store %d broadcast an undecodable message: %v", from.idx, err)
	}
	r.class("broadcast-delivered")
	callErr, viol := r.write(to, step, op.Fault, func() error { return to.deliverPush(wire) })
	if viol != nil {
		return viol
	}
	r.applyBatch(to, batch, true)
	if err := r.check(to, step); err != nil {
		if callErr != nil {
			return fmt.Errorf("%w\n(store %d returned an error on store %d's broadcast: %v)", err, to.idx, from.idx, callErr)
		}
		return err
	}
	if callErr != nil {
		r.class("write-error-but-state-as-modelled")
	}
	return nil
}

func (r *runner) opSet(op Op, step string) error {
	s := r.w.stores[op.S%len(r.w.stores)]
	key := keyNames[op.Key%len(keyNames)]
	plain := []byte(fmt.Sprintf("local-%s", step))
	mayWrite := canWrite(r.w.acl.M.PermAt[s.acct][s.aclLen-1])
	var produced *spacesyncproto.StoreKeyValue
	var at int64
	var harnessErr error
	attempt := func() error {
		time.Sleep(time.Duration(max(1, op.Sleep)) * sleepUnit) // fake clock: distinct, even timestamps
		n := len(s.outbox)
		err := s.svc.DefaultStore().Set(bg, key, plain)
		if err == nil {
			if len(s.outbox) != n+1 {
				harnessErr = fmt.Errorf("Set succeeded without broadcasting exactly one message (%d)", len(s.outbox)-n)
				return nil
			}
			kvs, perr := parsePush(s.outbox[n])
			if perr != nil || len(kvs) != 1 {
				harnessErr = fmt.Errorf("broadcast of a local Set is not one value: %v", perr)
				return nil
			}
			produced = kvs[0]
		}
		return err
	}
	err, viol := r.write(s, step, op.Fault, attempt)
	if viol != nil {
		return viol
	}
	if harnessErr != nil {
		return harnessErr
	}
	if err != nil {
		if mayWrite {
			return fmt.Errorf("local Set by store %d (account %d, %s at its ACL head) failed: %v", s.idx, s.acct, aclgen.PermNames[r.w.acl.M.PermAt[s.acct][s.aclLen-1]], err)
		}
		r.class("local-set-denied")
		return r.check(s, step)
	}
	// what Set produced enters the model like any other received value (judged by the same
	// reference); it has to be a value of this store's own slot to be "the value Set wrote"
	ri := r.w.judge(produced, s.aclLen)
	wantId := key + "-" + r.w.devId[s.dev]
	if !ri.ok {
		r.class("local-set-product-invalid")
		r.applyBatch(s, []*spacesyncproto.StoreKeyValue{produced}, false)
		return r.check(s, step)
	}
	if ri.relabel || ri.trueId != wantId || ri.acct != s.acct {
		return fmt.Errorf("local Set(%q) by store %d (account %d) produced a value for slot %s signed by account %d (label %s)", key, s.idx, s.acct, short(ri.trueId), ri.acct, short(produced.KeyPeerId))
	}
	at = ri.ts
	r.class("local-set")
	before, had := r.alts[0].m[s.idx][wantId]
	r.applyBatch(s, []*spacesyncproto.StoreKeyValue{produced}, false)
	if had && before.ts > at {
		r.class("local-set-older-than-stored")
		r.newestFirst = true
	}
	if err := r.check(s, step); err != nil {
		return err
	}
	// read it back through the API when it is the slot's winner
	if cur := r.alts[0].m[s.idx][wantId]; cur.ts == at {
		var got []byte
		var derr error
		found := false
		err := s.svc.DefaultStore().GetAll(bg, key, func(dec keyvaluestorage.Decryptor, values []innerstorage.KeyValue) error {
			for _, kv := range values {
				if kv.KeyPeerId == wantId {
					found = true
					got, derr = dec(kv)
				}
			}
			return nil
		})
		if err != nil || !found || derr != nil || string(got) != string(plain) {
			return fmt.Errorf("value written by Set(%q) does not read back through GetAll: found=%v err=%v decrypt err=%v got %q", key, found, err, derr, got)
		}
		r.class("local-set-read-back")
	}
	return nil
}

// opSync: one real sync exchange a -> b. Reference: each side is offered everything the
// other side stored (LWW makes the not-newer ones no-ops), judged with its own ACL view.
// reopened compares the live index of store s with the index a restart would build from
// the same database (innerstorage.New: the start-up path of keyvaluestorage.New): same
// elements, same hash, the hash advertised in head storage is the rebuilt one, and a diff
// between the live replica and the restarted one reports nothing in either direction.
func (r *runner) reopened(s *store, step string) error {
	live := s.svc.DefaultStore().InnerStorage().Diff()
	liveHash := live.Hash()
	liveEls := map[string]string{}
	for _, el := range live.Elements() {
		liveEls[el.Id] = el.Head
	}
	before, err := s.space.HeadStorage().GetEntry(bg, r.w.kvId)
	if err != nil {
		return err
	}
	s.db.Reset()
	restarted, err := innerstorage.New(bg, r.w.kvId, s.space.HeadStorage(), s.db)
	if err != nil {
		return fmt.Errorf("%s: store %d: rebuilding the index from its database: %v", step, s.idx, err)
	}
	rd := restarted.Diff()
	for _, el := range rd.Elements() {
		h, ok := liveEls[el.Id]
		if !ok {
			return fmt.Errorf("%s: store %d: after a restart the index would hold %s, the live index does not", step, s.idx, short(el.Id))
		}
		if h != el.Head {
			return fmt.Errorf("%s: store %d: live index advertises head %x for %s, the index rebuilt from the same database has %x", step, s.idx, h, short(el.Id), el.Head)
		}
		delete(liveEls, el.Id)
	}
	if len(liveEls) != 0 {
		return fmt.Errorf("%s: store %d: live index holds %v which an index rebuilt from the database lacks", step, s.idx, shortKeys(liveEls))
	}
	if rd.Hash() != liveHash {
		return fmt.Errorf("%s: store %d: live Hash() %s, hash after a restart %s (same database)", step, s.idx, liveHash, rd.Hash())
	}
	if len(before.Heads) != 1 || before.Heads[0] != rd.Hash() {
		return fmt.Errorf("%s: store %d: head storage advertises %v, an index rebuilt from the database hashes to %s", step, s.idx, before.Heads, rd.Hash())
	}
	for dir, pair := range [][2]ldiff.Diff{{live, rd}, {rd, live}} {
		n, c, rm, err := pair[0].Diff(bg, pair[1])
		if err != nil {
			return err
		}
		if len(n)+len(c)+len(rm) != 0 {
			return fmt.Errorf("%s: store %d: diff between the live replica and the same replica restarted (direction %d) reports new=%v changed=%v removed=%v", step, s.idx, dir, n, c, rm)
		}
	}
	r.class("reopen-compared")
	return nil
}

// exchange runs one real sync exchange a -> b to quiescence.
func (r *runner) exchange(a, b *store) error {
	p, closeFn, err := r.w.pair(a, b)
	if err != nil {
		return err
	}
	if err := a.svc.SyncWithPeer(p); err != nil {
		closeFn()
		return fmt.Errorf("SyncWithPeer: %v", err)
	}
	synctest.Wait()
	closeFn()
	synctest.Wait()
	return nil
}

// faultedExchanges: before the clean exchange, the exchange is run with a storage error at
// boundary 1, 2, ... of the initiator's writes (the pulled stream batch) and then of the
// responder's writes (the pushed values); after each failed exchange both indexes must equal
// their storage. Whatever a failed exchange did store is a subset of what the clean one
// stores (LWW is idempotent), so the model is only compared after the clean exchange.
func (r *runner) faultedExchanges(a, b *store, step string, responderFirst bool) error {
	// the first failed exchange already completes the OTHER side's transfer, so the side
	// that goes first is the one whose boundaries are all exercised
	sides := []*store{a, b}
	if responderFirst {
		sides = []*store{b, a}
	}
	for _, side := range sides {
		role := "initiator"
		if side == b {
			role = "responder"
		}
		for k := 1; k <= 24; k++ {
			a.db.Reset()
			b.db.Reset()
			side.db.FailAt(k)
			nErr := len(b.handlerErrs)
			if err := r.exchange(a, b); err != nil {
				return err
			}
			log := side.db.Log()
			a.db.Reset()
			b.db.Reset()
			b.handlerErrs = b.handlerErrs[:nErr] // a failing responder write is expected to fail its handler
			if !(len(log) >= k && log[k-1].Kind != "rollback") {
				break
			}
			r.faultAttempts++
			r.class("fault-sync-" + role)
			for _, x := range []*store{a, b} {
				o, err := x.observe()
				if err != nil {
					return err
				}
				if err := r.consistent(x, o); err != nil {
					return fmt.Errorf("%s: store %d after an exchange whose %s hit a storage error at boundary %d (%s %s): %v", step, x.idx, role, k, log[k-1].Kind, log[k-1].Coll, err)
				}
			}
		}
	}
	return nil
}

func (r *runner) opSync(a, b *store, step string, mustEqual, fault, responderFirst bool) error {
	if a == b {
		return nil
	}
	type offer struct {
		toA, toB []*spacesyncproto.StoreKeyValue
	}
	offers := make([]offer, len(r.alts))
	for i, al := range r.alts {
		for _, id := range al.m[b.idx].sortedIds() {
			offers[i].toA = append(offers[i].toA, al.m[b.idx][id].proto())
		}
		for _, id := range al.m[a.idx].sortedIds() {
			offers[i].toB = append(offers[i].toB, al.m[a.idx][id].proto())
		}
	}
	pull, push := 0, 0
	for id, e := range r.alts[0].m[b.idx] {
		if c, ok := r.alts[0].m[a.idx][id]; !ok || c.ts < e.ts {
			pull++
		}
	}
	for id, e := range r.alts[0].m[a.idx] {
		if c, ok := r.alts[0].m[b.idx][id]; !ok || c.ts < e.ts {
			push++
		}
	}
	if fault {
		if err := r.faultedExchanges(a, b, step, responderFirst); err != nil {
			return err
		}
	}
	a.db.Reset()
	b.db.Reset()
	nErr := len(b.handlerErrs)
	if err := r.exchange(a, b); err != nil {
		return err
	}
	if len(b.handlerErrs) != nErr {
		return fmt.Errorf("%s: responder's StoreElements handler failed: %v", step, b.handlerErrs[nErr:])
	}
	for i, al := range r.alts {
		r.applyBatchTo([]*alt{al}, a, offers[i].toA, false)
		r.applyBatchTo([]*alt{al}, b, offers[i].toB, false)
	}
	if pull > 0 {
		r.class("sync-pulled")
	}
	if push > 0 {
		r.class("sync-pushed")
	}
	if pull > 0 && push > 0 {
		r.class("sync-both-directions")
	}
	if a.aclLen != b.aclLen {
		r.class("sync-differing-acl-views")
	}
	if err := r.check(a, step+" (initiator)"); err != nil {
		return err
	}
	if err := r.check(b, step+" (responder)"); err != nil {
		return err
	}
	for _, x := range []*store{a, b} {
		if err := r.reopened(x, step); err != nil {
			return err
		}
	}
	if mustEqual {
		oa, err := a.observe()
		if err != nil {
			return err
		}
		ob, err := b.observe()
		if err != nil {
			return err
		}
		if oa.hash != ob.hash || len(oa.docs) != len(ob.docs) {
			return fmt.Errorf("%s: after one exchange store %d holds %d values (hash %s), store %d holds %d (hash %s)", step, a.idx, len(oa.docs), oa.hash, b.idx, len(ob.docs), ob.hash)
		}
		for id, x := range oa.docs {
			y, ok := ob.docs[id]
			if !ok || string(x.Value.Value) != string(y.Value.Value) {
				return fmt.Errorf("%s: after one exchange slot %s differs between store %d and store %d", step, short(id), a.idx, b.idx)
			}
		}
	}
	return nil
}

func run(c Case) (out vstat.Outcome, err error) {
	var r *runner
	berr := aclgen.Bubble(outerT, func() error {
		r = &runner{c: c, classes: map[string]bool{}, keyOf: map[string]string{}}
		defer func() {
			if r.w != nil {
				r.w.close() // inside the bubble: the service and any-store own bubbled goroutines
				synctest.Wait()
				if os.Getenv("VERIF_DEBUG") == "stacks" {
					buf := make([]byte, 1<<20)
					fmt.Printf("---- goroutines at bubble end ----\n%s\n", buf[:runtime.Stack(buf, true)])
				}
			}
		}()
		return r.run()
	})
	if berr != nil {
		return out, berr
	}
	out.Sig = vstat.HashJSON(c)
	out.NonTrivial = r.newestFirst && r.skipThenStore
	for k := range r.classes {
		out.Classes = append(out.Classes, k)
	}
	sort.Strings(out.Classes)
	if os.Getenv("VERIF_DEBUG") != "" {
		fmt.Printf("DEBUG classes=%v nontrivial=%v writes=%d faultAttempts=%d alts=%d\n", out.Classes, out.NonTrivial, r.evalWrites, r.faultAttempts, len(r.alts))
	}
	vstat.Count("writes", int64(r.evalWrites))
	vstat.Count("fault_attempts", int64(r.faultAttempts))
	return out, nil
}

func (r *runner) run() error {
	c := r.c
	if len(c.Stores) == 0 || len(c.Vals) == 0 {
		return nil
	}
	nDev := max(c.NDev, len(c.Stores)+1)
	w, err := newWorld(outerT, c.Seed, c.Acl, nDev)
	r.w = w
	if err != nil {
		return fmt.Errorf("setup: %w", err)
	}
	nRec := len(w.acl.Records)
	for i, sp := range c.Stores {
		l := nRec
		if sp.AclLen >= 0 {
			l = 1 + sp.AclLen%nRec
		}
		if _, err := w.addStore(sp.Acct%nAccounts, i, l); err != nil {
			return fmt.Errorf("setup store %d: %w", i, err)
		}
	}
	if len(c.Stores) == 3 {
		r.class("three-stores")
	}
	for i, v := range c.Vals {
		p, err := w.forge(i, v)
		if err != nil {
			return fmt.Errorf("setup: forge %d: %w", i, err)
		}
		r.protos = append(r.protos, p)
	}
	for _, k := range keyNames {
		for _, d := range w.devId {
			r.keyOf[k+"-"+d] = k
		}
	}
	for mode, rname := range []string{"range(0..2^53]", "range(0..2^53)", "any-timestamp"} {
		for _, name := range []string{"reject", "refile"} {
			a := &alt{name: name + "/" + rname, refile: name == "refile", rangeMode: mode}
			for range w.stores {
				a.m = append(a.m, model{})
			}
			r.alts = append(r.alts, a)
		}
	}
	for _, s := range w.stores {
		if err := r.check(s, "initially"); err != nil {
			return err
		}
	}
	for i, op := range c.Ops {
		step := fmt.Sprintf("op %d %s", i, op.K)
		var err error
		switch op.K {
		case "raw":
			err = r.opRaw(op, step)
		case "set":
			err = r.opSet(op, step)
		case "bcast":
			err = r.opBcast(op, step)
		case "acl":
			s := w.stores[op.S%len(w.stores)]
			before := s.aclLen
			if err = s.advanceAcl(op.N); err == nil {
				if s.aclLen > before {
					r.class("acl-advance")
				}
				err = r.check(s, step)
			}
		case "sync":
			a, b := w.stores[op.S%len(w.stores)], w.stores[op.T%len(w.stores)]
			if a != b {
				r.class("sync-midrun")
			}
			err = r.opSync(a, b, step, a.aclLen == b.aclLen && a.aclLen == nRec, op.Fault, op.N%2 == 1)
		default:
			err = fmt.Errorf("unknown op %q", op.K)
		}
		if err != nil {
			if !strings.HasPrefix(err.Error(), step) {
				err = fmt.Errorf("%s: %w", step, err)
			}
			return err
		}
	}
	for _, s := range w.stores {
		if err := r.check(s, "after all arrivals"); err != nil {
			return err
		}
		if err := r.reopened(s, "after all arrivals"); err != nil {
			return err
		}
	}
	// ---- tail: everybody learns the whole ACL, then one exchange per pair ----
	for _, s := range w.stores {
		if err := s.advanceAcl(nRec); err != nil {
			return err
		}
	}
	var pairs [][2]int
	for a := 0; a < len(w.stores); a++ {
		for b := a + 1; b < len(w.stores); b++ {
			pairs = append(pairs, [2]int{a, b})
		}
	}
	tail := c.Tail
	if len(tail) == 0 {
		tail = []int{0}
	}
	for i := range pairs {
		j := i + tail[i%len(tail)]%(len(pairs)-i)
		pairs[i], pairs[j] = pairs[j], pairs[i]
	}
	for i, p := range pairs {
		a, b := p[0], p[1]
		if tail[(i+3)%len(tail)]%2 == 1 {
			a, b = b, a
		}
		if err := r.opSync(w.stores[a], w.stores[b], fmt.Sprintf("final exchange %d->%d", a, b), true, i == 0 && tail[(i+1)%len(tail)]%3 == 0, tail[(i+2)%len(tail)]%2 == 1); err != nil {
			return err
		}
	}
	return nil
}

// ---- tests -------------------------------------------------------------------------------------

func TestRandom(t *testing.T) {
	outerT = t
	vstat.Check(t, prop, genCase, run)
}

// TestFaults: every write of the generated workload is fault-enumerated.
func TestFaults(t *testing.T) {
	outerT = t
	vstat.Check(t, prop, genFaultCase, run)
}

func TestReplay(t *testing.T) {
	outerT = t
	t.Run("TestRandom", func(t *testing.T) { vstat.Replay(t, prop, "TestRandom", run) })
	t.Run("TestFaults", func(t *testing.T) { vstat.Replay(t, prop, "TestFaults", run) })
	t.Run("TestExhaustive", func(t *testing.T) { vstat.Replay(t, prop, "TestExhaustive", run) })
}
