package c12

import (
	"testing"

	"verif/harness/internal/vstat"
)

// TestRegManyOverwrites: more local overwrites than the index's split threshold (256):
// the advertised hash must still be the hash of a fresh index (shares ldiff with C08).
func TestRegManyOverwrites(t *testing.T) {
	outerT = t
	c := baseCase()
	c.Stores = c.Stores[:1]
	c.Vals = []Val{{Key: 0, Dev: 2, Acct: 1, TS: 5, Head: 1}}
	for i := 0; i < 300; i++ {
		c.Ops = append(c.Ops, Op{K: "set", S: 0, Key: i % 3, Sleep: 1})
	}
	vstat.One(t, prop, c, run)
}

// TestRegFaultedSameSlotBatch: a slot already holds an older value; one batch carries two
// (ascending / descending / mixed) newer values of that slot — the inner Set does not
// dedupe — and every storage boundary of that write fails once. After each failure the
// index must advertise exactly what is stored (the undo has to put a repeated id back to
// its genuine pre-call head); a seeded change that restored the saved heads in forward
// order was not caught before bursts like this were generated.
func TestRegFaultedSameSlotBatch(t *testing.T) {
	outerT = t
	c := baseCase()
	c.Vals = []Val{
		{Key: 1, Dev: 2, Acct: 0, TS: 1, Head: 0},
		{Key: 1, Dev: 2, Acct: 0, TS: 2, Head: 0},
		{Key: 1, Dev: 2, Acct: 0, TS: 3, Head: 0},
		{Key: 1, Dev: 2, Acct: 1, TS: 4, Head: 1},
		{Key: 1, Dev: 2, Acct: 0, TS: 5, Head: 0},
		{Key: 1, Dev: 2, Acct: 0, TS: 6, Head: 0},
	}
	c.Ops = []Op{
		{K: "raw", S: 0, Items: []Item{{V: 0}}},
		{K: "raw", S: 0, Items: []Item{{V: 1}, {V: 2}}, Fault: true},
		{K: "raw", S: 0, Via: 1, Items: []Item{{V: 5}, {V: 3}, {V: 4}}, Fault: true},
		{K: "raw", S: 1, Via: 1, Items: []Item{{V: 2}, {V: 1}, {V: 3}}, Fault: true},
		{K: "sync", S: 1, T: 0, N: 1, Fault: true},
		{K: "sync", S: 0, T: 1, N: 0, Fault: true},
	}
	vstat.One(t, prop, c, run)
}

// TestRegHugeTimestamps: remote authors may sign any timestamp; beyond 2^53 the store's
// float64 number cannot hold it exactly. Values whose timestamps stay distinct after that
// rounding must still converge (LWW), the live index must equal the index a restart
// rebuilds from the database, and a live replica and a restarted one must not differ
// (a seeded change that built the live index element from the exact int64 while storage
// and the rebuild use the rounded number was not caught before this class existed).
func TestRegHugeTimestamps(t *testing.T) {
	outerT = t
	c := baseCase()
	c.Vals = []Val{
		{Key: 1, Dev: 2, Acct: 0, TS: 1, Head: 0},
		{Key: 1, Dev: 2, Acct: 0, Head: 0, Huge: 1},
		{Key: 1, Dev: 2, Acct: 0, Head: 0, Huge: 1},
		{Key: 1, Dev: 2, Acct: 1, Head: 1, Huge: 2},
		{Key: 1, Dev: 2, Acct: 0, Head: 0, Huge: 3},
		{Key: 0, Dev: 3, Acct: 0, Head: 0, Huge: 3},
	}
	c.Ops = []Op{
		{K: "raw", S: 0, Items: []Item{{V: 0}, {V: 2}, {V: 1}}},
		{K: "raw", S: 1, Via: 1, Items: []Item{{V: 1}, {V: 2}, {V: 1}}, Fault: true},
		{K: "sync", S: 0, T: 1},
		{K: "raw", S: 0, Items: []Item{{V: 4}, {V: 3}, {V: 5}}, Fault: true},
		{K: "set", S: 0, Key: 1, Sleep: 1},
		{K: "raw", S: 1, Items: []Item{{V: 3}}},
		{K: "sync", S: 1, T: 0, N: 1, Fault: true},
	}
	vstat.One(t, prop, c, run)
}
