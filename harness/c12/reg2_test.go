package c12

import (
	"testing"

	"verif/harness/internal/vstat"
)

// TestRegManyOverwrites: more local overwrites than the index's split threshold (256):
// the advertised hash must still be the hash of a fresh index (shares ldiff with C08).
func TestRegManyOverwrites(t *testing.T) {
	outerT = t
	c := baseCase()
	c.Stores = c.Stores[:1]
	c.Vals = []Val{{Key: 0, Dev: 2, Acct: 1, TS: 5, Head: 1}}
	for i := 0; i < 300; i++ {
		c.Ops = append(c.Ops, Op{K: "set", S: 0, Key: i % 3, Sleep: 1})
	}
	vstat.One(t, prop, c, run)
}
