package c12

import (
	"testing"

	"verif/harness/internal/aclgen"
	"verif/harness/internal/vstat"
)

func aclgenOp(kind string, target, perm int) aclgen.Op {
	return aclgen.Op{Kind: kind, Actor: 0, Target: target, Perm: perm}
}

// baseCase: store 0 = owner, store 1 = writer account 1, everybody knows the whole ACL.
// records: 0 root, 1 add 1 writer, 2 add 2 reader, 3 add 3 writer, 4 remove 3.
func baseCase() Case {
	return Case{
		Seed: 7, Acl: aclPrelude(), NDev: 4,
		Stores: []StoreSpec{{Acct: 0, AclLen: -1}, {Acct: 1, AclLen: -1}},
		Tail:   []int{0, 1, 0, 1, 0, 1},
	}
}

// TestRegBasics: newest-first arrival, an invalid element in the middle of a batch, a
// local Set, a pushed broadcast, a sync exchange.
func TestRegBasics(t *testing.T) {
	outerT = t
	c := baseCase()
	c.Vals = []Val{
		{Key: 0, Dev: 2, Acct: 1, TS: 5, Head: 4},
		{Key: 0, Dev: 2, Acct: 1, TS: 2, Head: 4},
		{Key: 1, Dev: 3, Acct: 0, TS: 3, Head: 1},
	}
	c.Ops = []Op{
		{K: "raw", S: 0, Items: []Item{{V: 0}, {V: 2, M: "flip-idsig", A: 3}, {V: 1}, {V: 2}}},
		{K: "set", S: 1, Key: 0, Sleep: 2},
		{K: "bcast", S: 1, T: 0, N: 0},
		{K: "raw", S: 1, Via: 1, Items: []Item{{V: 1}, {V: 0}}, Fault: true},
		{K: "set", S: 0, Key: 3, Sleep: 1, Fault: true},
		{K: "sync", S: 0, T: 1},
	}
	vstat.One(t, prop, c, run)
}

// TestRegRelabelledValue: a valid value of (key "k", device 2) whose wire label names
// another key / another device's slot must not be filed there (found by this check,
// fixed in /repo e2adb8a: KeyValueFromProto never compared KeyPeerId with the signed key and peer; with a
// greater timestamp the relabelled value even replaced another device's value).
func TestRegRelabelledValue(t *testing.T) {
	outerT = t
	c := baseCase()
	c.Vals = []Val{
		{Key: 0, Dev: 2, Acct: 1, TS: 5, Head: 1},
		{Key: 0, Dev: 3, Acct: 0, TS: 2, Head: 1},
	}
	c.Ops = []Op{
		{K: "raw", S: 0, Items: []Item{{V: 0, M: "relabel-key"}}},
		{K: "raw", S: 0, Items: []Item{{V: 1}}},
		{K: "raw", S: 0, Via: 1, Items: []Item{{V: 0, M: "relabel-dev", B: 0}}},
		{K: "raw", S: 1, Items: []Item{{V: 0, M: "relabel-slot", A: 1, B: 1}, {V: 0}}},
	}
	vstat.One(t, prop, c, run)
}

// TestRegUnauthorisedSigner: correctly signed values by a reader (2), a removed member
// (3, citing a record after its removal) and a never-member (4) must not be stored by
// SetRaw (found by this check, fixed in /repo bd7e831: the remote path resolved the read
// key of the cited record but never looked at the signer's permission there).
func TestRegUnauthorisedSigner(t *testing.T) {
	outerT = t
	c := baseCase()
	c.Vals = []Val{
		{Key: 0, Dev: 2, Acct: 2, TS: 1, Head: 4},
		{Key: 0, Dev: 2, Acct: 3, TS: 2, Head: 4},
		{Key: 0, Dev: 2, Acct: 4, TS: 3, Head: 4},
		{Key: 0, Dev: 2, Acct: 3, TS: 4, Head: 3}, // the removed member citing the record at which it still was a writer: allowed
		{Key: 0, Dev: 2, Acct: 1, TS: 0, Head: 4},
	}
	c.Ops = []Op{
		{K: "raw", S: 0, Items: []Item{{V: 0}}},
		{K: "raw", S: 0, Via: 1, Items: []Item{{V: 1}, {V: 4}, {V: 2}}},
		{K: "raw", S: 1, Items: []Item{{V: 3}, {V: 2}, {V: 1}, {V: 0}}},
	}
	vstat.One(t, prop, c, run)
}

// TestRegUnknownHeadThenLearnt: a value citing an ACL record the store does not know yet
// is skipped; once the store learnt the record the same value is accepted.
func TestRegUnknownHeadThenLearnt(t *testing.T) {
	outerT = t
	c := baseCase()
	c.Stores[1].AclLen = 0 // only the root
	c.Vals = []Val{
		{Key: 3, Dev: 2, Acct: 1, TS: 1, Head: 2},
		{Key: 3, Dev: 2, Acct: 0, TS: 0, Head: 0},
		{Key: 3, Dev: 3, Acct: 0, TS: 0, Head: -1},
	}
	c.Ops = []Op{
		{K: "raw", S: 1, Items: []Item{{V: 0}, {V: 1}, {V: 2}}},
		{K: "sync", S: 0, T: 1},
		{K: "raw", S: 0, Items: []Item{{V: 0}}},
		{K: "sync", S: 1, T: 0},
		{K: "acl", S: 1, N: 2},
		{K: "raw", S: 1, Items: []Item{{V: 0}}, Fault: true},
	}
	vstat.One(t, prop, c, run)
}

// TestRegReaddedSigner: account 1 was a writer at record 1, is removed at record 5 and
// added again at record 6. Its value citing record 1 is valid for every store, whether or
// not the store already knows the re-add (found with the write-permission check in place,
// fixed in /repo 208ac24: AclState.applyAccountsAdd dropped the account's permission history on re-add, so
// PermissionsAtRecord answered "none" for every record before the re-add and a store that
// knew the whole ACL refused what a store with a shorter view had accepted: no convergence).
func TestRegReaddedSigner(t *testing.T) {
	outerT = t
	c := baseCase()
	c.Acl = append(aclPrelude(), aclgenOp("remove", 1, 0), aclgenOp("add", 1, 3))
	c.Stores = []StoreSpec{{Acct: 0, AclLen: -1}, {Acct: 0, AclLen: 4}}
	c.Vals = []Val{
		{Key: 0, Dev: 2, Acct: 1, TS: 5, Head: 1},
		{Key: 0, Dev: 2, Acct: 0, TS: 1, Head: 0},
		{Key: 0, Dev: 2, Acct: 1, TS: 7, Head: 5}, // citing the record that removed it: not allowed
	}
	c.Ops = []Op{
		{K: "raw", S: 1, Items: []Item{{V: 1}, {V: 0}, {V: 2}}},
		{K: "raw", S: 0, Items: []Item{{V: 1}, {V: 2}, {V: 0}}},
	}
	vstat.One(t, prop, c, run)
}
