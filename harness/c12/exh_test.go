package c12

import (
	"os"
	"strconv"
	"testing"

	"verif/harness/internal/vstat"
)

// enumerate is the small-scope part: (1) every mutation kind, the mutant before and after
// its pristine original in one batch, through both entry points; (2) every unauthorised
// signer kind; (3) ALL 24 arrival orders x ALL 8 groupings into consecutive batches of four
// candidates {newer and older value of slot X, an invalid candidate, a value of slot Y},
// the invalid one cycling through the mutation kinds.
func enumerate(yield func(Case) bool) {
	one := func() Case {
		c := baseCase()
		c.Stores = c.Stores[:1]
		return c
	}
	for mi, m := range mutations {
		for pos := 0; pos < 2; pos++ {
			c := one()
			c.Vals = []Val{{Key: 0, Dev: 2, Acct: 1, TS: 3, Head: 2}, {Key: 1, Dev: 3, Acct: 0, TS: 1, Head: 1}}
			mut := Item{V: 0, M: m, A: 5 + mi, B: pos}
			items := []Item{{V: 1}, mut, {V: 0}}
			if pos == 1 {
				items = []Item{{V: 0}, mut, {V: 1}}
			}
			c.Ops = []Op{{K: "raw", S: 0, Via: mi % 2, Items: items}, {K: "raw", S: 0, Via: (mi + 1) % 2, Items: []Item{mut}}}
			if !yield(c) {
				return
			}
		}
	}
	for acct := 2; acct <= 4; acct++ {
		for head := 3; head <= 4; head++ {
			c := one()
			c.Vals = []Val{{Key: 0, Dev: 2, Acct: acct, TS: 3, Head: head}, {Key: 0, Dev: 2, Acct: 1, TS: 1, Head: 1}}
			c.Ops = []Op{{K: "raw", S: 0, Items: []Item{{V: 0}, {V: 1}}}, {K: "raw", S: 0, Via: 1, Items: []Item{{V: 0}}}}
			if !yield(c) {
				return
			}
		}
	}
	perms := permutations(4)
	n := 0
	for _, p := range perms {
		for grouping := 0; grouping < 8; grouping++ {
			c := one()
			c.Vals = []Val{
				{Key: 0, Dev: 2, Acct: 1, TS: 6, Head: 4},
				{Key: 0, Dev: 2, Acct: 0, TS: 2, Head: 1},
				{Key: 2, Dev: 3, Acct: 1, TS: 9, Head: 2},
				{Key: 2, Dev: 3, Acct: 0, TS: 4, Head: 0},
			}
			cand := []Item{{V: 0}, {V: 1}, {V: 2, M: mutations[n%len(mutations)], A: n, B: n / 3}, {V: 3}}
			n++
			var cur []Item
			for i, idx := range p {
				cur = append(cur, cand[idx])
				if i == 3 || grouping&(1<<i) != 0 {
					c.Ops = append(c.Ops, Op{K: "raw", S: 0, Via: (grouping + i) % 2, Items: cur})
					cur = nil
				}
			}
			if !yield(c) {
				return
			}
		}
	}
}

func permutations(n int) [][]int {
	var out [][]int
	var rec func(cur []int, used int)
	rec = func(cur []int, used int) {
		if len(cur) == n {
			out = append(out, append([]int(nil), cur...))
			return
		}
		for i := 0; i < n; i++ {
			if used&(1<<i) == 0 {
				rec(append(cur, i), used|1<<i)
			}
		}
	}
	rec(nil, 0)
	return out
}

// TestExhaustive runs the enumeration; the driver may split it over VERIF_SHARDS processes
// (case i goes to shard i mod shards).
func TestExhaustive(t *testing.T) {
	outerT = t
	shard, _ := strconv.Atoi(os.Getenv("VERIF_SHARD"))
	shards, _ := strconv.Atoi(os.Getenv("VERIF_SHARDS"))
	if shards < 1 {
		shards, shard = 1, 0
	}
	i := -1
	vstat.Enumerate(t, prop, func(yield func(Case) bool) {
		enumerate(func(c Case) bool {
			i++
			if i%shards != shard {
				return true
			}
			return yield(c)
		})
	}, run)
}
