package c14

// In-memory duplex connection with a man-in-the-middle layer.
//
// A link has two one-way streams (0: outgoing side -> incoming side, 1: the reverse).
// Every Write of an endpoint is one unit for the adversary (the real handshake code
// writes exactly one frame per Write); the adversary turns it into zero or more byte
// strings that are queued for the reader, cut into generator-chosen chunks, and become
// readable one frame latency later. Reads block until data is readable, the writer has
// closed (EOF) or the reader's own end is closed. Close of an end closes its write
// stream (the peer drains what is queued, then sees EOF) and its read stream (own
// reads and the peer's writes fail) — the semantics of a reliable byte stream.
//
// Everything is driven by the package time functions, so inside a synctest bubble the
// latency is fake time and a run is deterministic: fake time only advances when every
// goroutine is blocked, therefore "cancel at 10k+5 ms" falls strictly between the
// delivery of frame k (10k ms) and of frame k+1.

import (
	"encoding/binary"
	"errors"
	"io"
	"net"
	"sync"
	"time"
)

const (
	kCorrupt    = iota // xor one byte (A mod len) with (B mod 255)+1
	kTruncEOF          // deliver the first (A mod len) bytes, then end of stream
	kTruncStall        // deliver the first (A mod len) bytes, then nothing, ever
	kLenField          // overwrite the length field (variant A)
	kBadType           // overwrite the type byte (variant A)
	kDrop              // the frame is not delivered, later ones are
	kDup               // the frame is delivered twice (replay inside the connection)
	kHold              // the frame is delivered after the next frame of the same direction
	kReplace           // the frame is replaced by a frame recorded on an earlier connection
	kInjectAck         // an Ack{Null} frame is inserted before the frame
	kSubstitute        // the frame is replaced by a well-formed frame of another type (variant A)
	kNumKinds
)

var kindNames = [...]string{"corrupt", "trunc-eof", "trunc-stall", "len-field", "bad-type", "drop", "dup", "hold", "replace", "inject-ack", "substitute"}

var errClosedPipe = errors.New("c14 pipe: closed")

type seg struct {
	data    []byte
	readyAt time.Time
	w       *wr
}

type wr struct { // one Write call (for the synchronous mode)
	left int
	done chan struct{}
}

type rtTamper struct { // resolved tamper (plain Tamper + replacement bytes)
	Tamper
	data    []byte
	applied bool
	valid   bool // the perturbed frame was preceded by a valid prefix (earlier frame or offset > 0)
}

type stream struct {
	mu        sync.Mutex
	wake      chan struct{}
	segs      []seg
	wclosed   bool // writer closed: EOF after the queue is drained
	rclosed   bool // reader closed: reads and writes fail
	stalled   bool // adversary swallows everything from now on
	eofed     bool // adversary ended the stream
	nWrites   int
	written   [][]byte // what the endpoint wrote, per Write (before the adversary)
	delivered []byte   // what the adversary queued for the reader
	held      []byte
	tampers   []*rtTamper
	chunks    []int
	lat       time.Duration
	chunkGap  time.Duration
	sync      bool
}

func newStream(lat time.Duration, chunks []int, syncMode bool) *stream {
	s := &stream{wake: make(chan struct{}), lat: lat, chunks: chunks, sync: syncMode}
	if lat > 0 {
		s.chunkGap = 20 * time.Microsecond
	}
	return s
}

func (s *stream) signal() { // s.mu held
	close(s.wake)
	s.wake = make(chan struct{})
}

func (s *stream) enqueue(b []byte, w *wr) { // s.mu held
	if len(b) == 0 {
		return
	}
	s.delivered = append(s.delivered, b...)
	at := time.Now().Add(s.lat)
	i := 0
	for off := 0; off < len(b); i++ {
		n := len(b) - off
		if len(s.chunks) > 0 && i < 64 {
			if c := s.chunks[i%len(s.chunks)]; c > 0 && c < n {
				n = c
			}
		}
		s.segs = append(s.segs, seg{data: b[off : off+n], readyAt: at.Add(time.Duration(i) * s.chunkGap), w: w})
		if w != nil {
			w.left++
		}
		off += n
	}
}

// substituteFrame returns a well-formed frame whose type differs from cur: Ack{Null},
// Ack{Unexpected}, Proto{DRPC,[Snappy]}, SkipVerify credentials of version 13.
func substituteFrame(a int, cur byte) []byte {
	frames := [][]byte{
		{msgTypeAck, 0, 0, 0, 0},
		{msgTypeAck, 2, 0, 0, 0, 0x08, 0x01},
		{msgTypeProto, 2, 0, 0, 0, 0x10, 0x01},
		{msgTypeCred, 6, 0, 0, 0, 0x18, 13, 0x22, 2, 'x', 'y'},
	}
	for i := 0; i < len(frames); i++ {
		f := frames[(a+i)%len(frames)]
		if f[0] != cur {
			return append([]byte(nil), f...)
		}
	}
	return append([]byte(nil), frames[0]...)
}

func lenFieldVariant(a, cur int) uint32 {
	switch a % 6 {
	case 0:
		return sizeLimit + 1
	case 1:
		return 1 << 20
	case 2:
		return uint32(cur + 1)
	case 3:
		if cur > 0 {
			return uint32(cur - 1)
		}
		return 7
	case 4:
		return 0
	default:
		return uint32(a/6) % 300
	}
}

func badTypeVariant(a int, cur byte) byte {
	switch a % 6 {
	case 0:
		return 0
	case 1:
		return 3 // a proto frame inside a credential exchange and vice versa
	case 2:
		return 4
	case 3:
		return 255
	case 4:
		if cur == 1 {
			return 2
		}
		return 1
	default:
		return byte(a / 6)
	}
}

// transform applies the tampers addressed to this write; it returns the byte strings to
// queue. s.mu held.
func (s *stream) transform(idx int, p []byte) (out [][]byte) {
	prevHeld := s.held
	s.held = nil
	out = s.transform1(idx, p)
	if prevHeld != nil {
		out = append(out, prevHeld)
	}
	return out
}

func (s *stream) transform1(idx int, p []byte) (out [][]byte) {
	b := append([]byte(nil), p...)
	out = [][]byte{b}
	for _, t := range s.tampers {
		if t.Idx != idx || t.applied || len(b) == 0 {
			continue
		}
		t.applied = true
		t.valid = idx > 0
		switch t.Kind {
		case kCorrupt:
			off := t.A % len(b)
			b[off] ^= byte(t.B%255) + 1
			t.valid = t.valid || off > 0
		case kTruncEOF, kTruncStall:
			n := t.A % len(b)
			t.valid = t.valid || n > 0
			if t.Kind == kTruncEOF {
				s.eofed = true
			} else {
				s.stalled = true
			}
			return [][]byte{b[:n]}
		case kLenField:
			if len(b) >= headerSize {
				binary.LittleEndian.PutUint32(b[1:headerSize], lenFieldVariant(t.A, len(b)-headerSize))
				t.valid = true
			}
		case kBadType:
			nb := badTypeVariant(t.A, b[0])
			if nb == b[0] {
				nb ^= 0x40
			}
			b[0] = nb
		case kDrop:
			return nil
		case kDup:
			out = append(out, append([]byte(nil), b...))
		case kHold:
			s.held = b
			return nil
		case kReplace:
			if t.data == nil {
				t.applied = false
				continue
			}
			b = append([]byte(nil), t.data...)
			out = [][]byte{b}
		case kInjectAck:
			out = [][]byte{{msgTypeAck, 0, 0, 0, 0}, b}
		case kSubstitute:
			b = substituteFrame(t.A, b[0])
			out = [][]byte{b}
		}
	}
	return out
}

func (s *stream) write(p []byte) (int, error) {
	s.mu.Lock()
	if s.wclosed || s.rclosed {
		s.mu.Unlock()
		return 0, errClosedPipe
	}
	idx := s.nWrites
	s.nWrites++
	s.written = append(s.written, append([]byte(nil), p...))
	if s.stalled || s.eofed {
		s.mu.Unlock()
		return len(p), nil
	}
	w := &wr{done: make(chan struct{})}
	for k, b := range s.transform(idx, p) {
		if k == 0 {
			s.enqueue(b, w) // a synchronous writer waits for its own bytes only, not for what the adversary adds
		} else {
			s.enqueue(b, nil)
		}
	}
	s.signal()
	waitFor := s.sync && w.left > 0
	s.mu.Unlock()
	if waitFor {
		for {
			s.mu.Lock()
			if w.left == 0 {
				s.mu.Unlock()
				return len(p), nil
			}
			if s.wclosed || s.rclosed {
				s.mu.Unlock()
				return 0, errClosedPipe
			}
			wk := s.wake
			s.mu.Unlock()
			select {
			case <-wk:
			case <-w.done:
			}
		}
	}
	return len(p), nil
}

func (s *stream) read(p []byte) (int, error) {
	if len(p) == 0 {
		return 0, nil
	}
	for {
		s.mu.Lock()
		if s.rclosed {
			s.mu.Unlock()
			return 0, errClosedPipe
		}
		if len(s.segs) > 0 {
			h := &s.segs[0]
			d := time.Until(h.readyAt)
			if d <= 0 {
				n := copy(p, h.data)
				h.data = h.data[n:]
				if len(h.data) == 0 {
					if h.w != nil {
						h.w.left--
						if h.w.left == 0 {
							close(h.w.done)
						}
					}
					s.segs = s.segs[1:]
				}
				s.mu.Unlock()
				return n, nil
			}
			wk := s.wake
			s.mu.Unlock()
			t := time.NewTimer(d)
			select {
			case <-t.C:
			case <-wk:
			}
			t.Stop()
			continue
		}
		if s.wclosed || s.eofed {
			s.mu.Unlock()
			return 0, io.EOF
		}
		wk := s.wake
		s.mu.Unlock()
		<-wk
	}
}

func (s *stream) closeWrite() {
	s.mu.Lock()
	if !s.wclosed {
		s.wclosed = true
		s.signal()
	}
	s.mu.Unlock()
}

func (s *stream) closeRead() {
	s.mu.Lock()
	if !s.rclosed {
		s.rclosed = true
		s.segs = nil
		s.signal()
	}
	s.mu.Unlock()
}

func (s *stream) snapshot() (delivered []byte, written [][]byte) {
	s.mu.Lock()
	defer s.mu.Unlock()
	return append([]byte(nil), s.delivered...), append([][]byte(nil), s.written...)
}

// end is one end of a link; it implements net.Conn (the proto handshake asks for one).
type end struct {
	in, out *stream
	once    sync.Once
}

func (e *end) Read(p []byte) (int, error)  { return e.in.read(p) }
func (e *end) Write(p []byte) (int, error) { return e.out.write(p) }
func (e *end) Close() error {
	e.once.Do(func() {
		e.out.closeWrite()
		e.in.closeRead()
	})
	return nil
}

type addr struct{}

func (addr) Network() string { return "c14" }
func (addr) String() string  { return "c14" }

func (e *end) LocalAddr() net.Addr              { return addr{} }
func (e *end) RemoteAddr() net.Addr             { return addr{} }
func (e *end) SetDeadline(time.Time) error      { return nil }
func (e *end) SetReadDeadline(time.Time) error  { return nil }
func (e *end) SetWriteDeadline(time.Time) error { return nil }

type link struct {
	s    [2]*stream // 0: O->I, 1: I->O
	o, i *end
}

func newLink(lat time.Duration, chunksOI, chunksIO []int, syncMode bool) *link {
	l := &link{}
	l.s[0] = newStream(lat, chunksOI, syncMode)
	l.s[1] = newStream(lat, chunksIO, syncMode)
	l.o = &end{in: l.s[1], out: l.s[0]}
	l.i = &end{in: l.s[0], out: l.s[1]}
	return l
}
