// Package c14 decides property C14 (connection handshake: mutual version gating, proven
// identity, same verdict on both sides) by generated search.
//
// A case is a sequence (or a concurrent batch) of connections in one process, so the
// pooled handshake objects are reused. Every connection joins two endpoints through an
// in-memory duplex link with a man-in-the-middle layer (pipe_test.go). An endpoint is
// either honest — the real secureservice component (HandshakeOutbound /
// HandshakeInbound) or the handshake package driven with the checkers that component
// wired — or a scripted adversary that writes raw frames. The oracle (oracle_test.go)
// reads the statement: a success verdict of an honest side must be justified by the
// bytes that side received; undisturbed honest runs agree; nothing waits beyond the
// deadline the real callers give; the verdict of a connection does not depend on
// earlier connections.
package c14

import (
	"context"
	"crypto/ed25519"
	"encoding/binary"
	"encoding/json"
	"errors"
	"fmt"
	"io"
	"os"
	"path/filepath"
	"runtime"
	"strconv"
	"strings"
	"sync"
	"testing"
	"testing/synctest"
	"time"

	"pgregory.net/rapid"

	"github.com/anyproto/any-sync/net/peer"
	"github.com/anyproto/any-sync/net/secureservice"
	"github.com/anyproto/any-sync/net/secureservice/handshake"
	"github.com/anyproto/any-sync/net/secureservice/handshake/handshakeproto"

	"verif/harness/internal/vstat"
)

const prop = "C14"

const (
	frameLat  = 10 * time.Millisecond // one-way latency of a frame
	hsTimeout = 10 * time.Second      // what the transports give a handshake (yamux: DialTimeoutSec, default 10)
)

func TestMain(m *testing.M) { vstat.Main(m, prop) }

// ---- case (plain data) ---------------------------------------------------------------------

const (
	fCred = iota
	fAck
	fProto
	fRecorded
	fRaw
)

// Frame is one frame written by a scripted adversary.
type Frame struct {
	Kind    int `json:"kind"`
	DelayMs int `json:"delay_ms,omitempty"` // pause before the write
	// credentials
	CredType int    `json:"cred_type,omitempty"` // field 1 (0 = SkipVerify = omitted, 1 = SignedPeerIds)
	VerEnc   int    `json:"ver_enc,omitempty"`   // 0: version field omitted, 1: written explicitly (even if 0)
	Version  uint32 `json:"version,omitempty"`
	Client   int    `json:"client,omitempty"`  // 0: client version omitted
	Payload  int    `json:"payload,omitempty"` // 0 signed payload, 1 field omitted, 2 empty, 3 cut in half, 4 zero signature
	Ident    int    `json:"ident,omitempty"`   // account whose public key is presented as identity
	Signer   int    `json:"signer,omitempty"`  // account whose key signs
	From     int    `json:"from,omitempty"`    // signed message = peer id of From followed by peer id of To
	To       int    `json:"to,omitempty"`
	Pad      int    `json:"pad,omitempty"` // extra bytes in the client version (oversized frames)
	// ack
	AckErr int `json:"ack_err,omitempty"`
	// proto
	Proto int   `json:"proto,omitempty"`
	Enc   []int `json:"enc,omitempty"`
	// recorded on an earlier connection of the case
	Step int `json:"step,omitempty"`
	Dir  int `json:"dir,omitempty"`
	Idx  int `json:"idx,omitempty"`
	// raw bytes
	Raw []byte `json:"raw,omitempty"`
	// damage to the frame header
	BadType  int `json:"bad_type,omitempty"`  // 0 none, else type byte = BadType-1
	LenDelta int `json:"len_delta,omitempty"` // added to the length field
}

type Side struct {
	Acc       int      `json:"acc"`
	Sees      int      `json:"sees"` // -1: the transport reports the true remote peer id; else the account it reports
	Version   uint32   `json:"version"`
	Accept    []uint32 `json:"accept"`
	ViaConfig bool     `json:"via_config,omitempty"` // accepted list comes from Config.CompatibleVersions
	ReqAuth   bool     `json:"req_auth,omitempty"`   // Config.RequireClientAuth
	AcctCheck bool     `json:"acct_check,omitempty"` // CtxAllowAccountCheck on the outbound context
	Client    int      `json:"client,omitempty"`
	CancelAt  int      `json:"cancel_at,omitempty"` // k>0: the caller cancels the context between frame k-1 and frame k
	Script    []Frame  `json:"script,omitempty"`    // non-empty: scripted adversary instead of an honest endpoint
	CloseEnd  bool     `json:"close_end,omitempty"` // adversary closes the connection when done
}

type Tamper struct {
	Dir  int `json:"dir"` // 0: outgoing->incoming stream, 1: the reverse
	Idx  int `json:"idx"` // index of the frame on that stream
	Kind int `json:"kind"`
	A    int `json:"a,omitempty"`
	B    int `json:"b,omitempty"`
	// kReplace: frame recorded on an earlier connection
	Step int `json:"step,omitempty"`
	RDir int `json:"rdir,omitempty"`
	RIdx int `json:"ridx,omitempty"`
}

type Step struct {
	Proto   bool     `json:"proto,omitempty"` // proto handshake instead of the credential handshake
	O       Side     `json:"o"`
	I       Side     `json:"i"`
	Direct  bool     `json:"direct,omitempty"` // handshake.Outgoing/IncomingHandshake with the wired checkers
	Sync    bool     `json:"sync,omitempty"`   // writes block until read (net.Pipe like) instead of being buffered
	ChunkOI []int    `json:"chunk_oi,omitempty"`
	ChunkIO []int    `json:"chunk_io,omitempty"`
	Tampers []Tamper `json:"tampers,omitempty"`
	// proto handshake
	PProto   int   `json:"p_proto,omitempty"`
	PEnc     []int `json:"p_enc,omitempty"`
	PAllowed []int `json:"p_allowed,omitempty"`
	PSupp    []int `json:"p_supp,omitempty"`
}

type Case struct {
	NodeMask   int    `json:"node_mask"` // accounts that are network nodes
	Concurrent bool   `json:"concurrent,omitempty"`
	Steps      []Step `json:"steps"`
}

// ---- runtime ---------------------------------------------------------------------------------

type stepResult struct {
	o, i      sideResult
	unbounded string
	delivered [2][]byte
	written   [2][][]byte
	tampers   []*rtTamper
}

type store struct {
	mu      sync.Mutex
	written map[int][2][][]byte
}

func (s *store) get(step, dir, idx int) []byte {
	s.mu.Lock()
	defer s.mu.Unlock()
	if len(s.written) == 0 {
		return nil
	}
	var keys []int
	for k := range s.written {
		keys = append(keys, k)
	}
	// deterministic choice modulo what exists
	min, max := keys[0], keys[0]
	for _, k := range keys {
		if k < min {
			min = k
		}
		if k > max {
			max = k
		}
	}
	for d := 0; d <= max-min; d++ {
		k := min + (abs(step)+d)%(max-min+1)
		w, ok := s.written[k]
		if !ok {
			continue
		}
		fr := w[abs(dir)%2]
		if len(fr) == 0 {
			fr = w[1-abs(dir)%2]
		}
		if len(fr) == 0 {
			continue
		}
		return fr[abs(idx)%len(fr)]
	}
	return nil
}

func abs(x int) int {
	if x < 0 {
		return -x
	}
	return x
}

func seesAcc(s, other Side) int {
	if s.Sees >= 0 {
		return s.Sees % nAccounts
	}
	return other.Acc % nAccounts
}

func viewsOf(st Step, nodeMask int) (vo, vi view) {
	oSees, iSees := seesAcc(st.O, st.I), seesAcc(st.I, st.O)
	vo = view{own: peerId(st.O.Acc), remote: peerId(oSees), accept: st.O.Accept,
		verify: st.O.AcctCheck || nodeMask&(1<<oSees) != 0}
	vi = view{own: peerId(st.I.Acc), remote: peerId(iSees), accept: st.I.Accept,
		verify: st.I.ReqAuth || nodeMask&(1<<(st.I.Acc%nAccounts)) != 0}
	return
}

func appendVarintField(b []byte, num int, v uint64) []byte {
	b = binary.AppendUvarint(b, uint64(num)<<3)
	return binary.AppendUvarint(b, v)
}

func appendBytesField(b []byte, num int, v []byte) []byte {
	b = binary.AppendUvarint(b, uint64(num)<<3|2)
	b = binary.AppendUvarint(b, uint64(len(v)))
	return append(b, v...)
}

func frameBytes(tp byte, body []byte, f Frame) []byte {
	if f.BadType > 0 {
		tp = byte(f.BadType - 1)
	}
	b := make([]byte, headerSize, headerSize+len(body))
	b[0] = tp
	binary.LittleEndian.PutUint32(b[1:], uint32(len(body)+f.LenDelta))
	return append(b, body...)
}

func buildFrame(f Frame, st *store) []byte {
	switch f.Kind {
	case fCred:
		var body []byte
		if f.CredType != 0 {
			body = appendVarintField(body, 1, uint64(f.CredType))
		}
		if f.Payload != 1 {
			var pl []byte
			pl = appendBytesField(pl, 1, accounts[abs(f.Ident)%nAccounts].identity)
			sign := ed25519.Sign(accounts[abs(f.Signer)%nAccounts].signPriv, []byte(peerId(abs(f.From))+peerId(abs(f.To))))
			if f.Payload == 4 {
				sign = make([]byte, len(sign))
			}
			pl = appendBytesField(pl, 2, sign)
			switch f.Payload {
			case 2:
				pl = nil
			case 3:
				pl = pl[:len(pl)/2]
			}
			body = appendBytesField(body, 2, pl)
		}
		if f.VerEnc != 0 {
			body = appendVarintField(body, 3, uint64(f.Version))
		}
		if f.Client != 0 || f.Pad > 0 {
			body = appendBytesField(body, 4, []byte(clientNames[abs(f.Client)%len(clientNames)]+strings.Repeat("x", f.Pad)))
		}
		return frameBytes(msgTypeCred, body, f)
	case fAck:
		var body []byte
		if f.AckErr != 0 {
			body = appendVarintField(body, 1, uint64(f.AckErr))
		}
		return frameBytes(msgTypeAck, body, f)
	case fProto:
		var body []byte
		if f.Proto != 0 {
			body = appendVarintField(body, 1, uint64(f.Proto))
		}
		for _, e := range f.Enc {
			body = appendVarintField(body, 2, uint64(e))
		}
		return frameBytes(msgTypeProto, body, f)
	case fRecorded:
		return st.get(f.Step, f.Dir, f.Idx)
	default:
		return f.Raw
	}
}

func cancelDelay(k int) time.Duration { return time.Duration(k-1)*frameLat + frameLat/2 }

type env struct {
	lat     time.Duration
	timeout time.Duration
	bubble  bool
}

func runScript(e env, conn *end, s Side, st *store, done chan<- sideResult) {
	go io.Copy(io.Discard, conn)
	for _, f := range s.Script {
		if f.DelayMs > 0 && e.lat > 0 {
			time.Sleep(time.Duration(f.DelayMs) * time.Millisecond)
		}
		if b := buildFrame(f, st); len(b) > 0 {
			if _, err := conn.Write(b); err != nil {
				break
			}
		}
	}
	if s.CloseEnd {
		if e.lat > 0 {
			time.Sleep(10 * e.lat)
		} else {
			time.Sleep(20 * time.Millisecond)
		}
		conn.Close()
	}
	done <- sideResult{returned: true}
}

func sideCtx(e env, s Side) (context.Context, context.CancelFunc) {
	ctx, cancel := context.WithTimeout(context.Background(), e.timeout)
	if s.CancelAt > 0 && e.lat > 0 {
		tm := time.AfterFunc(cancelDelay(s.CancelAt), cancel)
		return ctx, func() { tm.Stop(); cancel() }
	}
	return ctx, cancel
}

func fromCtx(cctx context.Context) (r sideResult) {
	r.hasCtx, r.cctx = true, cctx
	r.peerId, _ = peer.CtxPeerId(cctx)
	r.identity, _ = peer.CtxIdentity(cctx)
	r.version, _ = peer.CtxProtoVersion(cctx)
	r.client = peer.CtxPeerClientVersion(cctx)
	return
}

func fromResult(res handshake.Result) (r sideResult) {
	r.identity, r.version, r.client = res.Identity, res.ProtoVersion, res.ClientVersion
	return
}

func runHonest(e env, outgoing bool, conn *end, st Step, sv *service, v view, done chan<- sideResult) {
	s := st.I
	if outgoing {
		s = st.O
	}
	ctx, cancel := sideCtx(e, s)
	defer cancel()
	start := time.Now()
	var r sideResult
	var err error
	switch {
	case st.Proto && outgoing:
		pr := &handshakeproto.Proto{Proto: handshakeproto.ProtoType(st.PProto)}
		for _, x := range st.PEnc {
			pr.Encodings = append(pr.Encodings, handshakeproto.Encoding(x))
		}
		r.proto, err = handshake.OutgoingProtoHandshake(ctx, conn, pr)
	case st.Proto:
		var pc handshake.ProtoChecker
		for _, x := range st.PAllowed {
			pc.AllowedProtoTypes = append(pc.AllowedProtoTypes, handshakeproto.ProtoType(x))
		}
		for _, x := range st.PSupp {
			pc.SupportedEncodings = append(pc.SupportedEncodings, handshakeproto.Encoding(x))
		}
		r.proto, err = handshake.IncomingProtoHandshake(ctx, conn, pc)
	case st.Direct && outgoing:
		cc := sv.noVerify
		if v.verify {
			cc = sv.verify
		}
		var res handshake.Result
		if res, err = handshake.OutgoingHandshake(ctx, conn, v.remote, cc); err == nil {
			r = fromResult(res)
		}
	case st.Direct:
		var res handshake.Result
		if res, err = handshake.IncomingHandshake(ctx, conn, v.remote, sv.inbound); err == nil {
			r = fromResult(res)
		}
	case outgoing:
		if s.AcctCheck {
			ctx = secureservice.CtxAllowAccountCheck(ctx)
		}
		var cctx context.Context
		if cctx, err = sv.ss.HandshakeOutbound(ctx, conn, v.remote); err == nil {
			r = fromCtx(cctx)
		}
	default:
		var cctx context.Context
		if cctx, err = sv.ss.HandshakeInbound(ctx, conn, v.remote); err == nil {
			r = fromCtx(cctx)
		}
	}
	r.returned, r.ok, r.err = true, err == nil, err
	r.idAtRet = append([]byte(nil), r.identity...)
	r.elapsed = int64(time.Since(start))
	done <- r
}

type stepRT struct {
	st     Step
	so, si *service
	vo, vi view
}

func execStep(e env, idx int, rt stepRT, rec *store) (res stepResult) {
	st := rt.st
	l := newLink(e.lat, st.ChunkOI, st.ChunkIO, st.Sync)
	for _, t := range st.Tampers {
		r := &rtTamper{Tamper: t}
		r.Dir = abs(t.Dir) % 2
		r.Idx = abs(t.Idx)
		r.Kind = abs(t.Kind) % kNumKinds
		r.A, r.B = abs(t.A), abs(t.B)
		if r.Kind == kReplace {
			r.data = rec.get(t.Step, t.RDir, t.RIdx)
		}
		l.s[r.Dir].tampers = append(l.s[r.Dir].tampers, r)
		res.tampers = append(res.tampers, r)
	}
	chO, chI := make(chan sideResult, 1), make(chan sideResult, 1)
	if len(st.O.Script) > 0 {
		go runScript(e, l.o, st.O, rec, chO)
	} else {
		go runHonest(e, true, l.o, st, rt.so, rt.vo, chO)
	}
	if len(st.I.Script) > 0 {
		go runScript(e, l.i, st.I, rec, chI)
	} else {
		go runHonest(e, false, l.i, st, rt.si, rt.vi, chI)
	}
	// honest sides first: they must be back by their callers' deadline; an adversary is only
	// collected after the link is torn down
	limit := time.NewTimer(e.timeout + 5*time.Second)
	defer limit.Stop()
	wait := func(ch chan sideResult, who string, honest bool) (r sideResult) {
		if !honest {
			return
		}
		select {
		case r = <-ch:
		case <-limit.C:
			res.unbounded += who + " "
		}
		return
	}
	oHonest, iHonest := len(st.O.Script) == 0, len(st.I.Script) == 0
	res.o = wait(chO, "outgoing", oHonest)
	res.i = wait(chI, "incoming", iHonest)
	l.o.Close()
	l.i.Close()
	if !oHonest || strings.Contains(res.unbounded, "outgoing") {
		<-chO
	}
	if !iHonest || strings.Contains(res.unbounded, "incoming") {
		<-chI
	}
	for d := 0; d < 2; d++ {
		res.delivered[d], res.written[d] = l.s[d].snapshot()
	}
	rec.mu.Lock()
	rec.written[idx] = res.written
	rec.mu.Unlock()
	return
}

var poolMu sync.Mutex // serialises cases that want a known pool state (not TestStress)

// clearPool empties the process-wide handshake pool (sync.Pool drops everything after two
// collections), so a case is a function of its own connections only.
func clearPool() {
	runtime.GC()
	runtime.GC()
}

var outerT *testing.T

func inBubble(bubble bool, f func()) (err error) {
	wrapped := func() {
		defer func() {
			if r := recover(); r != nil {
				err = fmt.Errorf("PANIC inside the handshake: %v", r)
			}
		}()
		f()
	}
	if !bubble {
		wrapped()
		return
	}
	synctest.Test(outerT, func(*testing.T) { wrapped() })
	return
}

func prepare(c Case) ([]stepRT, error) {
	rts := make([]stepRT, len(c.Steps))
	for i, st := range c.Steps {
		rt := stepRT{st: st}
		rt.vo, rt.vi = viewsOf(st, c.NodeMask)
		var err error
		if len(st.O.Script) == 0 && !st.Proto {
			if rt.so, err = getService(st.O, c.NodeMask); err != nil {
				return nil, fmt.Errorf("step %d outgoing service: %w", i, err)
			}
		}
		if len(st.I.Script) == 0 && !st.Proto {
			if rt.si, err = getService(st.I, c.NodeMask); err != nil {
				return nil, fmt.Errorf("step %d incoming service: %w", i, err)
			}
		}
		rts[i] = rt
	}
	return rts, nil
}

// normalise maps arbitrary (replayed / shrunk / fuzzed) data into the domain.
func normalise(c *Case) {
	c.NodeMask &= 1<<nAccounts - 1
	if len(c.Steps) > 12 {
		c.Steps = c.Steps[:12]
	}
	for i := range c.Steps {
		st := &c.Steps[i]
		for _, s := range []*Side{&st.O, &st.I} {
			s.Acc = abs(s.Acc) % nAccounts
			if s.Sees >= nAccounts {
				s.Sees %= nAccounts
			}
			if s.Sees < -1 {
				s.Sees = -1
			}
			if len(s.Accept) == 0 {
				s.Accept = []uint32{s.Version} // an empty list would silently mean "the built-in default list"
			}
			if len(s.Accept) > 4 {
				s.Accept = s.Accept[:4]
			}
			s.Client = abs(s.Client) % len(clientNames)
			if s.CancelAt < 0 || s.CancelAt > 6 {
				s.CancelAt = 0
			}
			if len(s.Script) > 6 {
				s.Script = s.Script[:6]
			}
			for j := range s.Script {
				f := &s.Script[j]
				f.Kind = abs(f.Kind) % 5
				f.DelayMs = abs(f.DelayMs) % 50
				if f.Pad > sizeLimit+64 || f.Pad < 0 {
					f.Pad = sizeLimit + 64
				}
			}
		}
		if len(st.O.Script) > 0 && len(st.I.Script) > 0 {
			st.I.Script = nil
		}
		if len(st.Tampers) > 3 {
			st.Tampers = st.Tampers[:3]
		}
	}
}

func sameVerdict(a, b sideResult) bool {
	if a.ok != b.ok {
		return false
	}
	if !a.ok {
		return true
	}
	return a.version == b.version && a.client == b.client && string(a.identity) == string(b.identity) && a.peerId == b.peerId
}

type opts struct {
	bubble   bool // fake time inside a synctest bubble (deterministic) / real time and parallelism
	pristine bool // empty the handshake pool first and check the prefix-independence relation
}

func run(c Case) (vstat.Outcome, error)       { return runMode(c, opts{bubble: true, pristine: true}) }
func runStress(c Case) (vstat.Outcome, error) { return runMode(c, opts{}) }
func runFuzz(c Case) (vstat.Outcome, error)   { return runMode(c, opts{bubble: true}) }

// A panic in a goroutine the handshake code starts itself cannot be recovered and kills the
// process; the running case is therefore flushed first, and check.json names the fatal
// patterns, so the driver reports the death of a shard as a violation with this case.
func writeCurrentCase(c Case) {
	dir := os.Getenv("VERIF_REPLAY_OUT")
	if dir == "" || os.Getenv("VERIF_REPLAY") != "" {
		return
	}
	os.MkdirAll(dir, 0o755)
	b, err := json.Marshal(map[string]any{"property": prop, "test": currentTest,
		"error": "the process died (panic / fatal error inside the handshake) while this case was running", "case": c})
	if err != nil {
		return
	}
	tmp := filepath.Join(dir, ".current-case.tmp")
	if os.WriteFile(tmp, b, 0o644) == nil {
		os.Rename(tmp, filepath.Join(dir, "current-case.json"))
	}
}

func removeCurrentCase() {
	if dir := os.Getenv("VERIF_REPLAY_OUT"); dir != "" {
		os.Remove(filepath.Join(dir, "current-case.json"))
	}
}

var currentTest = "TestRandom"

func runMode(c Case, o opts) (out vstat.Outcome, err error) {
	bubble := o.bubble
	normalise(&c)
	writeCurrentCase(c)
	defer removeCurrentCase()
	if len(c.Steps) == 0 {
		return out, nil
	}
	rts, err := prepare(c)
	if err != nil {
		// a configuration the component refuses at Init is outside the domain
		vstat.Count("init-refused", 1)
		return out, nil
	}
	e := env{lat: frameLat, timeout: hsTimeout, bubble: bubble}
	if !bubble {
		e.lat, e.timeout = 0, 3*time.Second
	} else if o.pristine {
		poolMu.Lock()
		defer poolMu.Unlock()
		clearPool()
	}
	rec := &store{written: map[int][2][][]byte{}}
	results := make([]stepResult, len(rts))
	if perr := inBubble(bubble, func() {
		if c.Concurrent {
			var wg sync.WaitGroup
			for i := range rts {
				wg.Add(1)
				go func() {
					defer wg.Done()
					results[i] = execStep(e, i, rts[i], rec)
				}()
			}
			wg.Wait()
		} else {
			for i := range rts {
				results[i] = execStep(e, i, rts[i], rec)
			}
		}
	}); perr != nil {
		return out, perr
	}

	cls := map[string]bool{}
	anySuccess := false
	for i, rt := range rts {
		poolUsedBefore := i > 0 || c.Concurrent || !o.pristine
		nt, serr := checkStep(rt, results[i], poolUsedBefore, anySuccess, cls)
		if serr != nil {
			return out, fmt.Errorf("connection %d of %d: %w", i+1, len(rts), serr)
		}
		out.NonTrivial = out.NonTrivial || nt
		if results[i].o.ok && results[i].i.ok {
			anySuccess = true
		}
	}

	// metamorphic: the verdict of the last connection is a function of that connection only
	if o.pristine && !c.Concurrent && len(rts) >= 2 {
		last := len(rts) - 1
		clearPool()
		var alone stepResult
		recAlone := &store{written: map[int][2][][]byte{}}
		for k, w := range rec.written {
			if k != last {
				recAlone.written[k] = w
			}
		}
		if perr := inBubble(true, func() { alone = execStep(e, last, rts[last], recAlone) }); perr != nil {
			return out, perr
		}
		h := results[last]
		if len(rts[last].st.O.Script) == 0 && !sameVerdict(h.o, alone.o) {
			return out, fmt.Errorf("the outgoing side of connection %d returns %s after %d earlier connection(s) but %s when it is the only connection of the process",
				last+1, descr(h.o), last, descr(alone.o))
		}
		if len(rts[last].st.I.Script) == 0 && !sameVerdict(h.i, alone.i) {
			return out, fmt.Errorf("the incoming side of connection %d returns %s after %d earlier connection(s) but %s when it is the only connection of the process",
				last+1, descr(h.i), last, descr(alone.i))
		}
		cls["metamorphic-prefix-checked"] = true
	}

	// the identity attached to a connection stays the one its signature proved: re-read every
	// successful connection's identity now, after all later handshakes of the case
	if rerr := reReadIdentities(c, rts, results, cls); rerr != nil {
		return out, rerr
	}

	if c.Concurrent && len(rts) > 1 {
		cls["concurrent"] = true
	}
	if len(rts) > 1 {
		cls["sequence-of-"+strconv.Itoa(min(len(rts), 6))] = true
	}
	for k := range cls {
		out.Classes = append(out.Classes, k)
	}
	out.Sig = vstat.HashJSON(c)
	return out, nil
}

// reReadIdentities compares, at the end of the case, the identity each verified connection
// carries (the returned Result.Identity and peer.CtxIdentity / CtxPubKey of the returned
// context) with the account key that signed for it — taken from the key (honest peer) or
// from a fresh decode of the received bytes (adversary), never from the result.
func reReadIdentities(c Case, rts []stepRT, results []stepResult, cls map[string]bool) error {
	type seen struct {
		step int
		id   string
	}
	byVerifier := map[any][]seen{}
	for i, rt := range rts {
		st := rt.st
		if st.Proto {
			continue
		}
		for _, x := range []struct {
			who        string
			honest     bool
			peerHonest bool
			peerAcc    int
			r          sideResult
			delivered  []byte
			v          view
			verifier   any
		}{
			{"outgoing", len(st.O.Script) == 0, len(st.I.Script) == 0, st.I.Acc, results[i].o, results[i].delivered[1], rt.vo, verifierOf(rt.so, true)},
			{"incoming", len(st.I.Script) == 0, len(st.O.Script) == 0, st.O.Acc, results[i].i, results[i].delivered[0], rt.vi, verifierOf(rt.si, false)},
		} {
			if !x.honest || !x.r.ok || !x.v.verify {
				continue
			}
			p, jerr := justify(x.delivered, x.v)
			if jerr != nil {
				continue // reported by checkStep
			}
			want := p.identity
			if x.peerHonest {
				want = accounts[x.peerAcc%nAccounts].identity // straight from the key
			}
			later := len(rts) - 1 - i
			if c.Concurrent {
				later = len(rts) - 1
			}
			if string(x.r.identity) != string(want) {
				return fmt.Errorf("connection %d of %d: the identity attached by the %s side was %x when the handshake returned and reads %x after %d other handshake(s) of the case; the account that signed is %x",
					i+1, len(rts), x.who, x.r.idAtRet, x.r.identity, later, want)
			}
			if x.r.cctx != nil {
				got, _ := peer.CtxIdentity(x.r.cctx)
				if string(got) != string(want) {
					return fmt.Errorf("connection %d of %d: peer.CtxIdentity of the %s side's context reads %x after %d other handshake(s); the account that signed is %x", i+1, len(rts), x.who, got, later, want)
				}
				if pk, err := peer.CtxPubKey(x.r.cctx); err != nil || string(mustMarshal(pk)) != string(want) {
					return fmt.Errorf("connection %d of %d: peer.CtxPubKey of the %s side's context no longer yields the account that signed (%v)", i+1, len(rts), x.who, err)
				}
			}
			byVerifier[x.verifier] = append(byVerifier[x.verifier], seen{i, string(want)})
		}
	}
	for _, l := range byVerifier {
		for _, a := range l {
			for _, b := range l {
				if a.id != b.id && (a.step < b.step || c.Concurrent && a.step != b.step) {
					cls["identity-re-read-after-later-handshake"] = true
					if c.Concurrent {
						cls["identity-re-read-after-concurrent-handshake"] = true
					}
				}
			}
		}
	}
	return nil
}

func mustMarshal(k interface{ Marshall() ([]byte, error) }) []byte {
	b, _ := k.Marshall()
	return b
}

// verifierOf names the credential checker instance that verified for a side.
func verifierOf(sv *service, outgoing bool) any {
	if sv == nil {
		return nil
	}
	if outgoing {
		return sv.verify
	}
	return sv.inbound
}

func descr(r sideResult) string {
	if !r.returned {
		return "nothing (still blocked)"
	}
	if !r.ok {
		return fmt.Sprintf("error %q", r.err)
	}
	return fmt.Sprintf("success(version=%d client=%q identity=%x)", r.version, r.client, r.identity)
}

func forging(kind int) bool {
	switch kind {
	case kCorrupt, kReplace, kInjectAck, kLenField, kBadType, kSubstitute:
		// a shorter length field turns Ack{error} into Ack{Null}; another type byte makes the proto
		// handshake read an Ack as a Proto: both can fabricate the frame a side is waiting for
		return true
	}
	return false
}

func ownCancel(r sideResult) bool { return r.returned && errors.Is(r.err, context.Canceled) }

// checkStep applies the oracle to one connection.
func checkStep(rt stepRT, r stepResult, poolUsedBefore, successBefore bool, cls map[string]bool) (nontrivial bool, err error) {
	st := rt.st
	oHonest, iHonest := len(st.O.Script) == 0, len(st.I.Script) == 0

	// 1. never an unbounded wait: everybody is back by the deadline the caller gave
	if r.unbounded != "" {
		return false, fmt.Errorf("unbounded wait: %sside still blocked %v after the %v deadline of its caller", r.unbounded, 5*time.Second, hsTimeout)
	}
	for _, x := range []struct {
		h bool
		r sideResult
		n string
	}{{oHonest, r.o, "outgoing"}, {iHonest, r.i, "incoming"}} {
		if x.h && time.Duration(x.r.elapsed) > hsTimeout+time.Second {
			return false, fmt.Errorf("%s side returned only after %v (deadline %v)", x.n, time.Duration(x.r.elapsed), hsTimeout)
		}
	}

	applied, forged, validPrefix := false, false, false
	for _, t := range r.tampers {
		if t.applied {
			applied = true
			forged = forged || forging(t.Kind)
			validPrefix = validPrefix || t.valid || t.Dir == 1
			cls["tamper:"+kindNames[t.Kind]] = true
			cls[fmt.Sprintf("tamper-frame-%d", min(2*t.Idx+t.Dir+1, 5))] = true
		}
	}
	cancelled := (oHonest && ownCancel(r.o)) || (iHonest && ownCancel(r.i))
	if cancelled {
		cls["cancel-took-effect"] = true
		k := st.O.CancelAt
		if iHonest && ownCancel(r.i) {
			k = st.I.CancelAt
		}
		if k >= 2 && k <= 4 {
			cls["cancel-mid-exchange"] = true
			nontrivial = true
		}
	}
	if len(st.ChunkOI) > 0 || len(st.ChunkIO) > 0 {
		cls["chunked"] = true
	}
	if st.Sync {
		cls["sync-pipe"] = true
	}

	classifyTypes(st, r, oHonest, iHonest, cls)

	if st.Proto {
		cls["proto-handshake"] = true
		if iHonest && r.i.ok {
			if jerr := justifyProtoIn(r.delivered[0], st.PAllowed); jerr != nil {
				return false, fmt.Errorf("incoming proto handshake succeeded without justification: %v", jerr)
			}
		}
		if oHonest && r.o.ok {
			if jerr := justifyProtoOut(r.delivered[1]); jerr != nil {
				return false, fmt.Errorf("outgoing proto handshake succeeded without justification: %v", jerr)
			}
		}
		if !oHonest || !iHonest {
			cls["raw-frame-adversary-proto"] = true
			d := r.delivered[0]
			if !iHonest {
				d = r.delivered[1]
			}
			_, _, _, ferr := nextFrame(d)
			return ferr == nil, nil
		}
		if !applied && !cancelled && r.o.ok != r.i.ok {
			return false, fmt.Errorf("undisturbed proto handshake: outgoing %s, incoming %s", descr(r.o), descr(r.i))
		}
		if applied && !forged && r.o.ok && !r.i.ok && !ownCancel(r.i) {
			return false, fmt.Errorf("proto handshake: outgoing side succeeded although the incoming side failed (%v)", r.i.err)
		}
		return applied && validPrefix, nil
	}

	if st.Direct {
		cls["direct-handshake-api"] = true
	} else {
		cls["secureservice-api"] = true
	}

	// 2. a success verdict is justified by what that side received, and reports what was proven
	check := func(who string, honest bool, res sideResult, delivered []byte, v view) error {
		if !honest {
			return nil
		}
		p, jerr := justify(delivered, v)
		// the pool-leak shape (fixed finding): credentials without a version / client version
		// field read into a pooled object that an earlier, successful connection has used
		if p.omitsFields && poolUsedBefore && successBefore {
			cls["omitted-field-after-successful-predecessor"] = true
		}
		if !res.ok {
			return nil
		}
		if jerr != nil {
			return fmt.Errorf("%s side reports success (%s) that nothing it received justifies: %v", who, descr(res), jerr)
		}
		return checkReported(who+" side", res, p, v)
	}
	if err = check("outgoing", oHonest, r.o, r.delivered[1], rt.vo); err != nil {
		return false, err
	}
	if err = check("incoming", iHonest, r.i, r.delivered[0], rt.vi); err != nil {
		return false, err
	}

	// 3. verdicts of the two honest ends
	if oHonest && iHonest {
		switch {
		case !applied && !cancelled:
			if r.o.ok != r.i.ok {
				return false, fmt.Errorf("undisturbed handshake ends with different verdicts: outgoing %s, incoming %s", descr(r.o), descr(r.i))
			}
			classifyHonest(st, rt, r, cls)
		case !forged:
			// truncation, oversize, wrong type, loss, reordering, duplication, cancellation: the
			// outgoing side needs the final ack, which the incoming side only sends on success
			if r.o.ok && !r.i.ok && !ownCancel(r.i) {
				return false, fmt.Errorf("outgoing side succeeded although the incoming side failed with %q", r.i.err)
			}
		}
		if r.i.ok && !r.o.ok {
			cls["late-disturbance:incoming-ok-outgoing-error"] = true
		}
		if st.O.Version != st.I.Version {
			nontrivial = true
			cls["versions-differ"] = true
		}
	} else {
		cls["raw-frame-adversary"] = true
		classifyScript(st, rt, r, cls)
		// non-trivial: the honest side received at least one well-formed frame from the adversary
		d := r.delivered[0]
		if !iHonest {
			d = r.delivered[1]
		}
		if _, _, _, ferr := nextFrame(d); ferr == nil {
			nontrivial = true
		}
	}
	if applied && validPrefix {
		nontrivial = true
	}
	if st.O.Sees >= 0 && st.O.Sees != st.I.Acc || st.I.Sees >= 0 && st.I.Sees != st.O.Acc {
		cls["transport-id-differs-from-endpoint"] = true
	}
	if st.O.Version == 0 && oHonest || st.I.Version == 0 && iHonest {
		cls["legacy-version-0-peer"] = true
	}
	return nontrivial, nil
}

var typeNames = map[byte]string{msgTypeCred: "cred", msgTypeAck: "ack", msgTypeProto: "proto"}

// classifyTypes labels every well-formed frame of a known type that an honest side received
// in a position where the exchange expects another type (or, for a duplicate, the same type again).
func classifyTypes(st Step, r stepResult, oHonest, iHonest bool, cls map[string]bool) {
	hs := "cred"
	expect := map[string][][]byte{"incoming": {{msgTypeCred}, {msgTypeAck}}, "outgoing": {{msgTypeCred, msgTypeAck}, {msgTypeAck}}}
	if st.Proto {
		hs = "proto"
		expect = map[string][][]byte{"incoming": {{msgTypeProto}}, "outgoing": {{msgTypeProto, msgTypeAck}}}
	}
	for _, x := range []struct {
		honest bool
		who    string
		d      []byte
	}{{oHonest, "outgoing", r.delivered[1]}, {iHonest, "incoming", r.delivered[0]}} {
		if !x.honest {
			continue
		}
		rest := x.d
		for pos := 0; pos < len(expect[x.who]); pos++ {
			tp, _, nrest, err := nextFrame(rest)
			if err != nil {
				break
			}
			rest = nrest
			name, knownType := typeNames[tp]
			if !knownType {
				break
			}
			ok := false
			for _, e := range expect[x.who][pos] {
				ok = ok || e == tp
			}
			if !ok {
				cls[fmt.Sprintf("unexpected-type:%s:%s:pos%d:%s", hs, x.who, pos, name)] = true
			}
		}
	}
}

func classifyHonest(st Step, rt stepRT, r stepResult, cls map[string]bool) {
	oInI := containsU32(st.I.Accept, st.O.Version)
	iInO := containsU32(st.O.Accept, st.I.Version)
	switch {
	case r.o.ok:
		cls["honest-both-success"] = true
		if rt.vo.verify || rt.vi.verify {
			cls["success-with-proven-identity"] = true
		}
	default:
		cls["honest-both-error"] = true
	}
	switch {
	case oInI != iInO:
		cls["one-sided-incompatibility"] = true
	case !oInI:
		cls["mutual-incompatibility"] = true
	}
	if rt.vo.verify != rt.vi.verify {
		cls["verification-mode-mismatch"] = true
	}
	if containsU32(st.O.Accept, 0) || containsU32(st.I.Accept, 0) {
		cls["accepts-version-0"] = true
	}
}

func classifyScript(st Step, rt stepRT, r stepResult, cls map[string]bool) {
	adv, hv, hr := st.O, rt.vi, r.i
	if len(st.I.Script) > 0 {
		adv, hv, hr = st.I, rt.vo, r.o
	}
	for _, f := range adv.Script {
		switch {
		case f.Kind == fRecorded:
			if hr.ok {
				cls["replayed-credentials-accepted-same-endpoints"] = true
			} else {
				cls["replayed-credentials-rejected"] = true
			}
		case f.Kind == fCred && (f.Payload == 1 || f.Payload == 2) && f.CredType == 1:
			cls["adversary-omits-signed-payload"] = true
		case f.Kind == fCred && f.Pad > 0:
			cls["oversized-frame"] = true
		case f.Kind == fCred && f.VerEnc == 0:
			cls["adversary-omits-version"] = true
		case f.Kind == fCred && hv.verify && (peerId(abs(f.From)) != hv.remote || peerId(abs(f.To)) != hv.own):
			cls["signature-over-other-peer-ids"] = true
		}
	}
	if hr.ok {
		cls["adversary-accepted-with-valid-credentials"] = true
	}
}

// ---- generators --------------------------------------------------------------------------------

var versionPool = []uint32{0, 1, 2, 3, 12, 13, 14}

func genAccept(rt *rapid.T, must uint32, include bool) []uint32 {
	n := rapid.IntRange(1, 3).Draw(rt, "nAccept")
	var l []uint32
	for len(l) < n {
		v := rapid.SampledFrom(versionPool).Draw(rt, "accept")
		if !containsU32(l, v) && (include || v != must) {
			l = append(l, v)
		}
	}
	if include && !containsU32(l, must) {
		l[rapid.IntRange(0, len(l)-1).Draw(rt, "pos")] = must
	}
	return l
}

func genChunks(rt *rapid.T) []int {
	if rapid.IntRange(0, 2).Draw(rt, "chunked") == 0 {
		return nil
	}
	return rapid.SliceOfN(rapid.IntRange(1, 40), 1, 5).Draw(rt, "chunks")
}

// genHonest draws a connection between two honest endpoints; compat biases the
// configuration towards mutual acceptance.
func genHonest(rt *rapid.T, compat bool) Step {
	var st Step
	st.O.Acc = rapid.IntRange(0, nAccounts-1).Draw(rt, "oAcc")
	st.I.Acc = rapid.IntRange(0, nAccounts-1).Draw(rt, "iAcc")
	st.O.Sees, st.I.Sees = -1, -1
	if !compat && rapid.IntRange(0, 9).Draw(rt, "relay") == 0 {
		st.O.Sees = rapid.IntRange(0, nAccounts-1).Draw(rt, "oSees")
		st.I.Sees = rapid.IntRange(0, nAccounts-1).Draw(rt, "iSees")
	}
	st.O.Version = rapid.SampledFrom(versionPool).Draw(rt, "oVer")
	st.I.Version = rapid.SampledFrom(versionPool).Draw(rt, "iVer")
	incO := compat || rapid.Bool().Draw(rt, "oAcceptsI")
	incI := compat || rapid.Bool().Draw(rt, "iAcceptsO")
	st.O.Accept = genAccept(rt, st.I.Version, incO)
	st.I.Accept = genAccept(rt, st.O.Version, incI)
	st.O.ViaConfig = rapid.Bool().Draw(rt, "oViaConf")
	st.I.ViaConfig = rapid.Bool().Draw(rt, "iViaConf")
	switch rapid.IntRange(0, 4).Draw(rt, "mode") {
	case 0: // nobody verifies (client to client)
	case 1:
		st.I.ReqAuth, st.O.AcctCheck = true, true
	case 2:
		st.I.ReqAuth = true
	case 3:
		st.O.AcctCheck = true
	case 4: // decided by the node mask alone
	}
	st.O.Client = rapid.IntRange(0, len(clientNames)-1).Draw(rt, "oClient")
	st.I.Client = rapid.IntRange(0, len(clientNames)-1).Draw(rt, "iClient")
	st.Direct = rapid.IntRange(0, 3).Draw(rt, "direct") == 0
	st.Sync = rapid.IntRange(0, 2).Draw(rt, "sync") == 0
	st.ChunkOI, st.ChunkIO = genChunks(rt), genChunks(rt)
	return st
}

func genTamper(rt *rapid.T, laterSteps bool) Tamper {
	t := Tamper{
		Dir:  rapid.IntRange(0, 1).Draw(rt, "tDir"),
		Idx:  rapid.IntRange(0, 1).Draw(rt, "tIdx"),
		Kind: rapid.IntRange(0, kNumKinds-1).Draw(rt, "tKind"),
		A:    rapid.IntRange(0, 400).Draw(rt, "tA"),
		B:    rapid.IntRange(0, 254).Draw(rt, "tB"),
	}
	if t.Kind == kReplace {
		t.Step = rapid.IntRange(0, 5).Draw(rt, "tStep")
		t.RDir = rapid.IntRange(0, 1).Draw(rt, "tRDir")
		t.RIdx = rapid.IntRange(0, 1).Draw(rt, "tRIdx")
	}
	return t
}

func genProtoStep(rt *rapid.T) Step {
	st := Step{Proto: true}
	st.O.Sees, st.I.Sees = -1, -1
	st.PProto = rapid.SampledFrom([]int{0, 0, 0, 1, 5}).Draw(rt, "pProto")
	st.PEnc = rapid.SliceOfN(rapid.IntRange(0, 3), 0, 3).Draw(rt, "pEnc")
	st.PAllowed = rapid.SliceOfN(rapid.SampledFrom([]int{0, 0, 1, 5}), 0, 2).Draw(rt, "pAllowed")
	st.PSupp = rapid.SliceOfN(rapid.IntRange(0, 2), 0, 2).Draw(rt, "pSupp")
	st.Sync = rapid.Bool().Draw(rt, "sync")
	st.ChunkOI, st.ChunkIO = genChunks(rt), genChunks(rt)
	return st
}

// genScriptCred draws the credentials frame of a raw-frame adversary with account adv
// talking to the honest account hon; honestly built except for the drawn deviation.
func genScriptCred(rt *rapid.T, adv, hon int, ver uint32) Frame {
	f := Frame{Kind: fCred, CredType: 1, VerEnc: 1, Version: ver, Client: rapid.IntRange(0, 3).Draw(rt, "fClient"),
		Ident: adv, Signer: adv, From: adv, To: hon}
	switch rapid.IntRange(0, 11).Draw(rt, "deviation") {
	case 0: // none: a correct credential
	case 1:
		f.VerEnc = 0
	case 2:
		f.VerEnc, f.Version = 1, 0
	case 3:
		f.From, f.To = hon, adv // order swapped
	case 4:
		f.To = rapid.IntRange(0, nAccounts-1).Draw(rt, "otherTo") // signed for another verifier
	case 5:
		f.From = rapid.IntRange(0, nAccounts-1).Draw(rt, "otherFrom")
	case 6:
		f.Ident = rapid.IntRange(0, nAccounts-1).Draw(rt, "victim") // somebody else's identity, own signature
	case 7:
		f.Payload = rapid.IntRange(1, 4).Draw(rt, "payload")
	case 8:
		f.CredType = rapid.SampledFrom([]int{0, 2, 7}).Draw(rt, "credType")
	case 9:
		f.Pad = sizeLimit - rapid.IntRange(-40, 200).Draw(rt, "pad")
	case 10:
		f.LenDelta = rapid.SampledFrom([]int{-1, 1, sizeLimit}).Draw(rt, "lenDelta")
	case 11:
		f.BadType = rapid.SampledFrom([]int{1, 3, 4, 5, 256}).Draw(rt, "badType")
	}
	return f
}

func genScriptStep(rt *rapid.T, base Step) Step {
	st := base
	advIsO := rapid.IntRange(0, 3).Draw(rt, "advIsO") != 0
	advSide, hon := &st.I, st.O
	if advIsO {
		advSide, hon = &st.O, st.I
	}
	ver := hon.Accept[0]
	if rapid.IntRange(0, 3).Draw(rt, "badVer") == 0 {
		ver = rapid.SampledFrom(versionPool).Draw(rt, "advVer")
	}
	script := []Frame{genScriptCred(rt, advSide.Acc, hon.Acc, ver)}
	switch rapid.IntRange(0, 5).Draw(rt, "tail") {
	case 0, 1, 2:
		script = append(script, Frame{Kind: fAck, DelayMs: rapid.SampledFrom([]int{0, 0, 25}).Draw(rt, "ackDelay")})
	case 3:
		script = append(script, Frame{Kind: fAck, AckErr: rapid.IntRange(1, 9).Draw(rt, "ackErr")})
	case 4:
		script = append([]Frame{{Kind: fAck}}, script...) // out of order: ack first
	case 5: // no ack at all
	}
	if rapid.IntRange(0, 3).Draw(rt, "wrongType") == 0 {
		// a well-formed frame of another type (or the same frame again) in a chosen position
		pos := rapid.IntRange(0, len(script)-1).Draw(rt, "wrongPos")
		script[pos] = genAnyFrame(rt, advSide.Acc, hon.Acc, ver)
	}
	advSide.Script = script
	advSide.CloseEnd = rapid.Bool().Draw(rt, "closeEnd")
	return st
}

// genAnyFrame draws a well-formed frame of any of the three types.
func genAnyFrame(rt *rapid.T, adv, hon int, ver uint32) Frame {
	switch rapid.IntRange(0, 4).Draw(rt, "anyFrame") {
	case 0:
		return Frame{Kind: fAck}
	case 1:
		return Frame{Kind: fAck, AckErr: rapid.IntRange(1, 8).Draw(rt, "ackErr")}
	case 2:
		return Frame{Kind: fProto, Proto: rapid.SampledFrom([]int{0, 0, 1}).Draw(rt, "proto"), Enc: rapid.SliceOfN(rapid.IntRange(0, 2), 0, 2).Draw(rt, "enc")}
	case 3:
		return Frame{Kind: fCred, VerEnc: 1, Version: ver, Client: 1}
	default:
		return Frame{Kind: fCred, CredType: 1, VerEnc: 1, Version: ver, Client: 1, Ident: adv, Signer: adv, From: adv, To: hon}
	}
}

// genProtoScriptStep: a raw-frame adversary on either side of the proto handshake.
func genProtoScriptStep(rt *rapid.T) Step {
	st := genProtoStep(rt)
	if rapid.Bool().Draw(rt, "allowDRPC") {
		st.PAllowed = []int{0}
	}
	n := rapid.IntRange(1, 3).Draw(rt, "nFrames")
	var script []Frame
	for i := 0; i < n; i++ {
		script = append(script, genAnyFrame(rt, 2, 1, 13))
	}
	if rapid.IntRange(0, 3).Draw(rt, "dup") == 0 {
		script = append(script, script[len(script)-1])
	}
	if rapid.IntRange(0, 5).Draw(rt, "garbage") == 0 {
		script = append(script, Frame{Kind: fRaw, Raw: rapid.SliceOfN(rapid.Byte(), 1, 12).Draw(rt, "raw")})
	}
	if rapid.Bool().Draw(rt, "advIsO") {
		st.O.Script, st.O.CloseEnd = script, rapid.Bool().Draw(rt, "closeEnd")
	} else {
		st.I.Script, st.I.CloseEnd = script, rapid.Bool().Draw(rt, "closeEnd")
	}
	return st
}

func genCase(rt *rapid.T) Case {
	var c Case
	c.NodeMask = rapid.SampledFrom([]int{0, 0, 1, 2, 3, 5, 15}).Draw(rt, "nodeMask")
	shape := rapid.IntRange(0, 10).Draw(rt, "shape")
	nPrefix := rapid.IntRange(0, 3).Draw(rt, "nPrefix")
	for i := 0; i < nPrefix; i++ {
		if rapid.IntRange(0, 4).Draw(rt, "prefixProto") == 0 {
			c.Steps = append(c.Steps, genProtoStep(rt))
		} else {
			c.Steps = append(c.Steps, genHonest(rt, rapid.Bool().Draw(rt, "prefixCompat")))
		}
	}
	switch shape {
	case 0, 1, 2: // honest configurations
		c.Steps = append(c.Steps, genHonest(rt, rapid.IntRange(0, 2).Draw(rt, "compat") == 0))
	case 3, 4, 5: // tampering / cancellation on a (mostly) compatible pair
		var st Step
		if rapid.IntRange(0, 5).Draw(rt, "protoTarget") == 0 {
			st = genProtoStep(rt)
		} else {
			st = genHonest(rt, rapid.IntRange(0, 4).Draw(rt, "compat") != 0)
			if rapid.Bool().Draw(rt, "nodes") {
				c.NodeMask |= 1 << st.I.Acc
			}
		}
		what := rapid.IntRange(0, 3).Draw(rt, "what")
		if what != 0 {
			n := rapid.IntRange(1, 2).Draw(rt, "nTampers")
			for i := 0; i < n; i++ {
				st.Tampers = append(st.Tampers, genTamper(rt, len(c.Steps) > 0))
			}
		}
		if what == 0 || what == 1 {
			k := rapid.IntRange(1, 5).Draw(rt, "cancelAt")
			if rapid.Bool().Draw(rt, "cancelO") {
				st.O.CancelAt = k
			} else {
				st.I.CancelAt = k
			}
		}
		c.Steps = append(c.Steps, st)
	case 6, 7: // raw-frame adversary
		if rapid.IntRange(0, 3).Draw(rt, "protoAdversary") == 0 {
			c.Steps = append(c.Steps, genProtoScriptStep(rt))
			break
		}
		base := genHonest(rt, true)
		if rapid.IntRange(0, 2).Draw(rt, "nodes") != 0 {
			c.NodeMask |= 1 << base.I.Acc
		}
		c.Steps = append(c.Steps, genScriptStep(rt, base))
	case 8: // pool-leak probe: honest compatible predecessor(s), then credentials without a version
		v := rapid.SampledFrom([]uint32{1, 2, 3, 13}).Draw(rt, "v")
		ver := rapid.Bool().Draw(rt, "verify")
		pre := genHonest(rt, true)
		pre.O.Version, pre.I.Version = v, v
		pre.O.Accept, pre.I.Accept = []uint32{v}, []uint32{v}
		pre.O.ViaConfig, pre.I.ViaConfig = false, false
		pre.I.ReqAuth, pre.O.AcctCheck = ver, ver
		c.Steps = append(c.Steps, pre)
		nxt := pre
		nxt.O.Acc = rapid.IntRange(0, nAccounts-1).Draw(rt, "advAcc")
		if ver && rapid.IntRange(0, 2).Draw(rt, "samePeerNoPayload") == 0 {
			// the same transport peer id returns without an account signature
			nxt.O.Acc = pre.O.Acc
			f := Frame{Kind: fCred, CredType: 1, VerEnc: 1, Version: v, Client: rapid.IntRange(0, 3).Draw(rt, "fClient"),
				Payload: rapid.IntRange(1, 2).Draw(rt, "payload"), Ident: nxt.O.Acc, Signer: nxt.O.Acc, From: nxt.O.Acc, To: nxt.I.Acc}
			nxt.O.Script = []Frame{f, {Kind: fAck}}
		} else if rapid.Bool().Draw(rt, "legacyPeer") {
			nxt.O.Version = 0 // an honest first-generation peer: never sends a version field
			nxt.O.Accept = []uint32{0, v}
		} else {
			f := Frame{Kind: fCred, CredType: 1, VerEnc: rapid.IntRange(0, 1).Draw(rt, "verEnc"), Version: 0,
				Client: rapid.IntRange(0, 3).Draw(rt, "fClient"), Ident: nxt.O.Acc, Signer: nxt.O.Acc, From: nxt.O.Acc, To: nxt.I.Acc}
			nxt.O.Script = []Frame{f, {Kind: fAck}}
			nxt.O.CloseEnd = rapid.Bool().Draw(rt, "closeEnd")
		}
		c.Steps = append(c.Steps, nxt)
	case 10: // one verifier, several accounts: earlier identities must survive later handshakes
		base := genHonest(rt, true)
		base.O.Sees, base.I.Sees = -1, -1
		base.I.ReqAuth, base.O.AcctCheck = true, true
		shareInbound := rapid.Bool().Draw(rt, "shareInbound")
		n := rapid.IntRange(2, 4).Draw(rt, "nPeers")
		first := rapid.IntRange(0, nAccounts-1).Draw(rt, "firstPeer")
		for k := 0; k < n; k++ {
			st := base
			if shareInbound {
				st.O.Acc = (first + k) % nAccounts // different dialers, one listener
			} else {
				st.I.Acc = (first + k) % nAccounts // one dialer, different listeners
			}
			st.Direct = rapid.IntRange(0, 3).Draw(rt, "direct") == 0
			st.Sync = rapid.Bool().Draw(rt, "sync")
			c.Steps = append(c.Steps, st)
		}
	case 9: // replay of recorded credentials
		pre := genHonest(rt, true)
		pre.I.ReqAuth, pre.O.AcctCheck = true, true
		c.Steps = []Step{pre}
		nxt := pre
		switch rapid.IntRange(0, 3).Draw(rt, "replayTo") {
		case 0: // same endpoints: the statement allows acceptance
		case 1: // adversary has another transport id
			nxt.O.Acc = (pre.O.Acc + 1 + rapid.IntRange(0, nAccounts-2).Draw(rt, "advAcc")) % nAccounts
		case 2: // another verifier
			nxt.I.Acc = (pre.I.Acc + 1 + rapid.IntRange(0, nAccounts-2).Draw(rt, "verifier")) % nAccounts
		case 3: // replay of the verifier's credentials back to a dialing victim
			nxt.I.Acc = (pre.I.Acc + 1 + rapid.IntRange(0, nAccounts-2).Draw(rt, "advAcc")) % nAccounts
			nxt.I.Script = []Frame{{Kind: fRecorded, Step: 0, Dir: 1, Idx: 0}, {Kind: fAck, DelayMs: 25}}
		}
		if len(nxt.I.Script) == 0 {
			nxt.O.Script = []Frame{{Kind: fRecorded, Step: 0, Dir: 0, Idx: 0}, {Kind: fAck}}
		}
		c.Steps = append(c.Steps, nxt)
	}
	if len(c.Steps) > 1 && rapid.IntRange(0, 5).Draw(rt, "concurrent") == 0 {
		c.Concurrent = true
	}
	return c
}

// genStress: many connections at once, real time, real parallelism; nothing that stalls.
func genStress(rt *rapid.T) Case {
	c := Case{Concurrent: true}
	c.NodeMask = rapid.SampledFrom([]int{0, 1, 3, 15}).Draw(rt, "nodeMask")
	n := rapid.IntRange(8, 12).Draw(rt, "n")
	for i := 0; i < n; i++ {
		switch rapid.IntRange(0, 5).Draw(rt, "kind") {
		case 0:
			c.Steps = append(c.Steps, genProtoStep(rt))
		case 1:
			st := genScriptStep(rt, genHonest(rt, true))
			if rapid.IntRange(0, 3).Draw(rt, "protoAdversary") == 0 {
				st = genProtoScriptStep(rt)
			}
			st.O.CloseEnd, st.I.CloseEnd = true, true
			c.Steps = append(c.Steps, st)
		case 2:
			st := genHonest(rt, true)
			st.Tampers = []Tamper{{Dir: rapid.IntRange(0, 1).Draw(rt, "d"), Idx: rapid.IntRange(0, 1).Draw(rt, "i"),
				Kind: rapid.SampledFrom([]int{kCorrupt, kTruncEOF, kBadType, kDup, kSubstitute, kInjectAck}).Draw(rt, "k"), A: rapid.IntRange(5, 300).Draw(rt, "a"), B: rapid.IntRange(0, 254).Draw(rt, "b")}}
			c.Steps = append(c.Steps, st)
		default:
			c.Steps = append(c.Steps, genHonest(rt, rapid.IntRange(0, 3).Draw(rt, "compat") != 0))
		}
	}
	return c
}

// ---- small-scope enumeration ----------------------------------------------------------------------

func subsets(vs []uint32) (res [][]uint32) {
	for m := 1; m < 1<<len(vs); m++ {
		var l []uint32
		for i, v := range vs {
			if m&(1<<i) != 0 {
				l = append(l, v)
			}
		}
		res = append(res, l)
	}
	return
}

func baseStep(ver uint32, verify bool) Step {
	st := Step{}
	st.O = Side{Acc: 0, Sees: -1, Version: ver, Accept: []uint32{ver}, AcctCheck: verify, Client: 1}
	st.I = Side{Acc: 1, Sees: -1, Version: ver, Accept: []uint32{ver}, ReqAuth: verify, Client: 2}
	return st
}

func enumerate(yield func(Case) bool) {
	shard, _ := strconv.Atoi(os.Getenv("VERIF_SHARD"))
	shards, _ := strconv.Atoi(os.Getenv("VERIF_SHARDS"))
	n := 0
	emit := func(c Case) bool {
		n++
		if shards > 1 && n%shards != shard {
			return true
		}
		return yield(c)
	}
	// (a) every (version, accepted list) pair over versions {0,1,2} x every verification mode
	vs := []uint32{0, 1, 2}
	lists := subsets(vs)
	for _, vo := range vs {
		for _, lo := range lists {
			for _, vi := range vs {
				for _, li := range lists {
					for mode := 0; mode < 4; mode++ {
						st := Step{}
						st.O = Side{Acc: 0, Sees: -1, Version: vo, Accept: lo, AcctCheck: mode&1 != 0}
						st.I = Side{Acc: 1, Sees: -1, Version: vi, Accept: li, ReqAuth: mode&2 != 0}
						st.Direct = (int(vo)+int(vi)+mode)%2 == 0
						if !emit(Case{Steps: []Step{st}}) {
							return
						}
					}
				}
			}
		}
	}
	// (b) every truncation point and every byte of each of the four frames, and every
	// structural damage, on a compatible verifying pair
	for dir := 0; dir < 2; dir++ {
		for idx := 0; idx < 2; idx++ {
			span := 150
			if idx == 1 {
				span = headerSize
			}
			for a := 0; a < span; a++ {
				for _, k := range []int{kTruncEOF, kTruncStall, kCorrupt} {
					for _, b := range []int{0, 127} {
						if k != kCorrupt && b != 0 {
							continue
						}
						st := baseStep(13, true)
						st.Sync = a%2 == 1
						st.Tampers = []Tamper{{Dir: dir, Idx: idx, Kind: k, A: a, B: b}}
						if !emit(Case{Steps: []Step{st}}) {
							return
						}
					}
				}
			}
			for _, k := range []int{kLenField, kBadType, kDrop, kDup, kHold, kInjectAck} {
				for a := 0; a < 6; a++ {
					if a > 0 && k != kLenField && k != kBadType {
						break
					}
					for verify := 0; verify < 2; verify++ {
						st := baseStep(13, verify == 1)
						st.ChunkOI, st.ChunkIO = []int{1 + a}, []int{3}
						st.Tampers = []Tamper{{Dir: dir, Idx: idx, Kind: k, A: a}}
						if !emit(Case{Steps: []Step{st}}) {
							return
						}
					}
				}
			}
		}
	}
	// (c) cancellation by either caller at every frame boundary
	for side := 0; side < 2; side++ {
		for k := 1; k <= 6; k++ {
			for m := 0; m < 8; m++ {
				st := baseStep(2, m&1 != 0)
				st.Sync = m&2 != 0
				st.Direct = m&4 != 0
				if side == 0 {
					st.O.CancelAt = k
				} else {
					st.I.CancelAt = k
				}
				if !emit(Case{Steps: []Step{st}}) {
					return
				}
			}
		}
	}
	// (d) a compatible predecessor followed by a peer that sends no version field, to the
	// same verifier (which does not accept 0) or to another one (which accepts only 0)
	for _, v := range []uint32{1, 13} {
		for verify := 0; verify < 2; verify++ {
			for legacy := 0; legacy < 2; legacy++ {
				for other := 0; other < 2; other++ {
					pre := baseStep(v, verify == 1)
					nxt := baseStep(v, verify == 1)
					nxt.O.Acc = 2
					if other == 1 {
						nxt.I.Acc, nxt.I.Version, nxt.I.Accept = 3, 5, []uint32{0}
						nxt.O.Accept = []uint32{5}
					}
					if legacy == 1 {
						nxt.O.Version = 0
					} else {
						nxt.O.Script = []Frame{{Kind: fCred, CredType: 1, VerEnc: 0, Client: 1, Ident: 2, Signer: 2, From: 2, To: nxt.I.Acc}, {Kind: fAck}}
					}
					if !emit(Case{Steps: []Step{pre, nxt}}) {
						return
					}
				}
			}
		}
	}
	// (d') the same for the payload: after a verified connection, the same transport peer id
	// comes back with SignedPeerIds credentials that carry no (or an empty) payload — it holds
	// the peer key but presents no account signature
	for advIsO := 0; advIsO < 2; advIsO++ {
		for pl := 1; pl <= 2; pl++ {
			for reps := 1; reps <= 2; reps++ {
				pre := baseStep(13, true)
				nxt := baseStep(13, true)
				if advIsO == 1 {
					nxt.O.Script = []Frame{{Kind: fCred, CredType: 1, VerEnc: 1, Version: 13, Client: 1, Payload: pl, Ident: 0, Signer: 0, From: 0, To: 1}, {Kind: fAck}}
				} else {
					nxt.I.Script = []Frame{{Kind: fCred, CredType: 1, VerEnc: 1, Version: 13, Client: 2, Payload: pl, Ident: 1, Signer: 1, From: 1, To: 0}, {Kind: fAck, DelayMs: 25}}
				}
				steps := []Step{pre, nxt}
				if reps == 2 {
					steps = []Step{pre, pre, nxt}
				}
				if !emit(Case{Steps: steps}) {
					return
				}
			}
		}
	}
	// (e) a raw-frame adversary, as dialer and as listener, with every single deviation from
	// correct credentials, against a verifying and a non-verifying honest side
	for advIsO := 0; advIsO < 2; advIsO++ {
		for verify := 0; verify < 2; verify++ {
			adv, hon := 2, 1
			for vi, script := range scriptVariants(adv, hon, 13) {
				st := baseStep(13, verify == 1)
				st.Sync = vi%3 == 0
				st.ChunkOI, st.ChunkIO = []int{7, 1}, []int{2, 64}
				if advIsO == 1 {
					st.O.Acc, st.O.Script, st.O.CloseEnd = adv, script, vi%2 == 0
				} else {
					st.I.Acc, st.O.Acc = adv, hon
					st.O.AcctCheck = verify == 1
					st.I.Script, st.I.CloseEnd = script, vi%2 == 0
				}
				if !emit(Case{Steps: []Step{st}}) {
					return
				}
			}
		}
	}
	// (f) every frame type in every position of both handshakes, towards both sides: as a
	// raw-frame adversary (the right frames except for one position; duplicates) and as a
	// man-in-the-middle substitution / insertion / duplication
	protoBase := func() Step {
		st := Step{Proto: true, PProto: 0, PEnc: []int{1, 0}, PAllowed: []int{0}, PSupp: []int{1, 0}}
		st.O.Sees, st.I.Sees = -1, -1
		return st
	}
	anyFrames := func(adv, hon int) []Frame {
		return []Frame{{Kind: fAck}, {Kind: fAck, AckErr: 1}, {Kind: fProto, Enc: []int{1}}, {Kind: fProto},
			{Kind: fCred, VerEnc: 1, Version: 13, Client: 1},
			{Kind: fCred, CredType: 1, VerEnc: 1, Version: 13, Client: 1, Ident: adv, Signer: adv, From: adv, To: hon}}
	}
	for hs := 0; hs < 2; hs++ {
		for advIsO := 0; advIsO < 2; advIsO++ {
			for verify := 0; verify < 2; verify++ {
				if hs == 1 && verify == 1 {
					continue
				}
				adv, hon := 2, 1
				right := []Frame{{Kind: fCred, CredType: 1, VerEnc: 1, Version: 13, Client: 1, Ident: adv, Signer: adv, From: adv, To: hon}, {Kind: fAck}}
				if hs == 1 {
					right = []Frame{{Kind: fProto, Enc: []int{1, 0}}}
				}
				var scripts [][]Frame
				for pos := 0; pos <= len(right); pos++ {
					for _, f := range anyFrames(adv, hon) {
						sc := append([]Frame(nil), right...)
						if pos < len(right) {
							sc[pos] = f
						} else {
							sc = append(sc, f) // one frame too many
						}
						scripts = append(scripts, sc)
					}
					if pos < len(right) { // the frame of this position twice
						sc := append(append([]Frame(nil), right[:pos+1]...), right[pos:]...)
						scripts = append(scripts, sc)
					}
				}
				for si, sc := range scripts {
					st := baseStep(13, verify == 1)
					if hs == 1 {
						st = protoBase()
					}
					st.Sync = si%2 == 1
					if advIsO == 1 {
						st.O.Acc, st.O.Script, st.O.CloseEnd = adv, sc, si%3 == 0
					} else {
						st.I.Acc, st.O.Acc, st.O.AcctCheck = adv, hon, verify == 1
						st.I.Script, st.I.CloseEnd = sc, si%3 == 0
					}
					if !emit(Case{Steps: []Step{st}}) {
						return
					}
				}
			}
		}
		for dir := 0; dir < 2; dir++ {
			for idx := 0; idx < 2; idx++ {
				if hs == 1 && idx == 1 {
					continue
				}
				for _, k := range []int{kSubstitute, kInjectAck, kDup, kBadType, kDrop, kHold} {
					for a := 0; a < 6; a++ {
						if a > 0 && (k == kInjectAck || k == kDup || k == kDrop || k == kHold) {
							break
						}
						st := baseStep(13, a%2 == 0)
						if hs == 1 {
							st = protoBase()
							if a >= 3 {
								st.PEnc = nil // the accepting side answers with an Ack
							}
						}
						st.Sync = a%2 == 1
						st.Tampers = []Tamper{{Dir: dir, Idx: idx, Kind: k, A: a}}
						if !emit(Case{Steps: []Step{st}}) {
							return
						}
					}
				}
			}
		}
	}
	// (g) one verifier checks 2..3 different accounts, as listener and as dialer, one after the
	// other and at once: the earlier connections must still carry their own identity at the end
	for shareInbound := 0; shareInbound < 2; shareInbound++ {
		for n := 2; n <= 3; n++ {
			for direct := 0; direct < 2; direct++ {
				for conc := 0; conc < 2; conc++ {
					var steps []Step
					for k := 0; k < n; k++ {
						st := baseStep(13, true)
						st.Direct = direct == 1
						if shareInbound == 1 {
							st.O.Acc = []int{0, 2, 3}[k]
						} else {
							st.I.Acc = []int{1, 2, 3}[k]
						}
						steps = append(steps, st)
					}
					if !emit(Case{Steps: steps, Concurrent: conc == 1}) {
						return
					}
				}
			}
		}
	}
}

// padFor finds the padding that makes the body of a credentials frame exactly target bytes.
func padFor(f Frame, target int) int {
	f.Pad = 1
	for i := 0; i < 4; i++ {
		n := len(buildFrame(f, nil)) - headerSize
		f.Pad += target - n
		if f.Pad < 1 {
			f.Pad = 1
		}
	}
	return f.Pad
}

func scriptVariants(adv, hon int, ver uint32) (res [][]Frame) {
	good := Frame{Kind: fCred, CredType: 1, VerEnc: 1, Version: ver, Client: 1, Ident: adv, Signer: adv, From: adv, To: hon}
	ack := Frame{Kind: fAck}
	mod := func(f func(*Frame)) {
		c := good
		f(&c)
		res = append(res, []Frame{c, ack})
	}
	mod(func(f *Frame) {})
	mod(func(f *Frame) { f.VerEnc = 0 })
	mod(func(f *Frame) { f.Version = 0 })
	mod(func(f *Frame) { f.Version = ver + 1 })
	mod(func(f *Frame) { f.Client = 0 })
	mod(func(f *Frame) { f.From, f.To = hon, adv })
	mod(func(f *Frame) { f.To = 3 })
	mod(func(f *Frame) { f.To = adv })
	mod(func(f *Frame) { f.From = 3 })
	mod(func(f *Frame) { f.From = hon })
	mod(func(f *Frame) { f.Ident = 0 })
	mod(func(f *Frame) { f.Signer = 0 })
	mod(func(f *Frame) { f.Ident, f.Signer = 0, 0 })
	for pl := 1; pl <= 4; pl++ {
		mod(func(f *Frame) { f.Payload = pl })
	}
	for _, ct := range []int{0, 2, 7} {
		mod(func(f *Frame) { f.CredType = ct })
	}
	mod(func(f *Frame) { f.Pad = padFor(*f, sizeLimit) })
	mod(func(f *Frame) { f.Pad = padFor(*f, sizeLimit+1) })
	mod(func(f *Frame) { f.Pad = sizeLimit + 64 })
	for _, d := range []int{-1, 1, 100, sizeLimit} {
		mod(func(f *Frame) { f.LenDelta = d })
	}
	for _, bt := range []int{1, 3, 4, 5, 256} {
		mod(func(f *Frame) { f.BadType = bt })
	}
	// tails after correct credentials
	res = append(res, []Frame{good})
	res = append(res, []Frame{good, {Kind: fAck, AckErr: 2}})
	res = append(res, []Frame{good, {Kind: fAck, AckErr: 6, DelayMs: 25}})
	res = append(res, []Frame{ack, good})
	res = append(res, []Frame{good, good, ack})
	res = append(res, []Frame{good, {Kind: fProto, Enc: []int{1}}, ack})
	res = append(res, []Frame{good, {Kind: fAck, BadType: 2}, ack})
	res = append(res, []Frame{good, {Kind: fRaw, Raw: []byte{2, 0, 0}}})
	res = append(res, []Frame{{Kind: fRaw, Raw: []byte{1}}})
	return
}

// ---- tests --------------------------------------------------------------------------------------------

func single(t *testing.T) {
	outerT = t
	currentTest = strings.SplitN(t.Name(), "/", 2)[0]
	prev := runtime.GOMAXPROCS(1) // one P: the per-P sync.Pool behaves the same in every run
	t.Cleanup(func() { runtime.GOMAXPROCS(prev) })
}

func TestRandom(t *testing.T)     { single(t); vstat.Check(t, prop, genCase, run) }
func TestExhaustive(t *testing.T) { single(t); vstat.Enumerate(t, prop, enumerate, run) }
func TestStress(t *testing.T) {
	outerT, currentTest = t, "TestStress"
	vstat.Check(t, prop, genStress, runStress)
}

func TestReplay(t *testing.T) {
	t.Run("TestRandom", func(t *testing.T) { single(t); vstat.Replay(t, prop, "TestRandom", run) })
	t.Run("TestExhaustive", func(t *testing.T) { single(t); vstat.Replay(t, prop, "TestExhaustive", run) })
	t.Run("TestStress", func(t *testing.T) { outerT = t; vstat.Replay(t, prop, "TestStress", runStress) })
	t.Run("FuzzIncomingFrames", func(t *testing.T) { single(t); vstat.Replay(t, prop, "FuzzIncomingFrames", runFuzz) })
	for _, n := range []string{"TestRegPoolLeak", "TestRegPoolLeakFalseReject", "TestRegIdentityKept", "TestRegRelay", "TestRegReplay", "TestRegFinalAckLost"} {
		t.Run(n, func(t *testing.T) { single(t); vstat.Replay(t, prop, n, run) })
	}
}

// ---- hand-picked corner cases --------------------------------------------------------------------

// Fixed finding (pooled handshake object kept Version / ClientVersion of the previous
// peer): a peer whose credentials carry no version field, after a compatible peer, to a
// verifier that does not accept version 0, must be rejected.
var casePoolLeak = func() Case {
	pre := baseStep(13, true)
	nxt := baseStep(13, true)
	nxt.O.Acc = 2
	nxt.O.Script = []Frame{{Kind: fCred, CredType: 1, VerEnc: 0, Client: 1, Ident: 2, Signer: 2, From: 2, To: 1}, {Kind: fAck}}
	return Case{Steps: []Step{pre, nxt}}
}()

func TestRegPoolLeak(t *testing.T) { single(t); vstat.One(t, prop, casePoolLeak, run) }

// Relay: both honest ends see the adversary's transport id; verification must fail on both.
func TestRegRelay(t *testing.T) {
	single(t)
	st := baseStep(13, true)
	st.O.Sees, st.I.Sees = 2, 2
	vstat.One(t, prop, Case{Steps: []Step{st}}, run)
}

// Credentials recorded between accounts 0 and 1 replayed by account 2 / to account 3.
func TestRegReplay(t *testing.T) {
	single(t)
	pre := baseStep(13, true)
	a, b, c := baseStep(13, true), baseStep(13, true), baseStep(13, true)
	a.O.Acc, a.O.Script = 2, []Frame{{Kind: fRecorded, Step: 0, Dir: 0, Idx: 0}, {Kind: fAck}}
	b.I.Acc, b.O.Script = 3, []Frame{{Kind: fRecorded, Step: 0, Dir: 0, Idx: 0}, {Kind: fAck}}
	c.O.Script = []Frame{{Kind: fRecorded, Step: 0, Dir: 0, Idx: 0}, {Kind: fAck}} // same endpoints
	vstat.One(t, prop, Case{Steps: []Step{pre, a, b, c}}, run)
}

// One listener verifies three different accounts: every connection keeps its own identity.
func TestRegIdentityKept(t *testing.T) {
	single(t)
	var steps []Step
	for _, acc := range []int{0, 2, 3} {
		st := baseStep(13, true)
		st.O.Acc = acc
		steps = append(steps, st)
	}
	vstat.One(t, prop, Case{Steps: steps}, run)
}

// The final ack is lost: the incoming side has completed, the outgoing side must fail by its deadline.
func TestRegFinalAckLost(t *testing.T) {
	single(t)
	st := baseStep(13, true)
	st.Tampers = []Tamper{{Dir: 1, Idx: 1, Kind: kDrop}}
	vstat.One(t, prop, Case{Steps: []Step{st}}, run)
}

// The converse of the same finding: a first-generation peer (version 0, no version field) is
// accepted by a verifier that accepts only 0 — also after the process handled a version-13 peer.
func TestRegPoolLeakFalseReject(t *testing.T) {
	single(t)
	pre := baseStep(13, false)
	nxt := baseStep(13, false)
	nxt.O.Acc, nxt.O.Version, nxt.O.Accept = 2, 0, []uint32{5}
	nxt.I.Acc, nxt.I.Version, nxt.I.Accept = 3, 5, []uint32{0}
	vstat.One(t, prop, Case{Steps: []Step{pre, nxt}}, run)
}

// ---- native fuzzing of the frame stream ------------------------------------------------------------

func fuzzCase(cfg byte, data []byte) Case {
	st := baseStep(13, cfg&2 != 0)
	st.Sync = cfg&4 != 0
	switch (cfg >> 3) & 3 {
	case 1:
		st.ChunkOI, st.ChunkIO = []int{1}, []int{1}
	case 2:
		st.ChunkOI, st.ChunkIO = []int{5, 3}, []int{4, 9}
	}
	st.Direct = cfg&32 != 0
	if cfg&128 != 0 { // the proto handshake instead of the credential handshake
		st.Proto, st.PProto, st.PEnc, st.PAllowed, st.PSupp = true, 0, []int{1, 0}, []int{0}, []int{1, 0}
		if cfg&32 != 0 {
			st.PEnc = nil
		}
	}
	script := []Frame{{Kind: fRaw, Raw: data}}
	if cfg&1 == 0 {
		st.O.Script, st.O.CloseEnd = script, cfg&64 != 0
	} else {
		st.I.Script, st.I.CloseEnd = script, cfg&64 != 0
	}
	return Case{Steps: []Step{st}}
}

// FuzzIncomingFrames feeds arbitrary bytes to IncomingHandshake (cfg bit 0 clear) or
// OutgoingHandshake (set), or with cfg bit 7 to Incoming/OutgoingProtoHandshake: the call must return — error or success, no panic, no hang
// beyond the deadline — and a success must be justified by the bytes (valid credentials
// where verification is required, accepted version, Ack{Null}).
func FuzzIncomingFrames(f *testing.F) {
	// seeds: the streams of undisturbed handshakes, as delivered to either side
	for _, verify := range []bool{false, true} {
		st := baseStep(13, verify)
		rts, err := prepare(Case{Steps: []Step{st}})
		if err != nil {
			f.Fatal(err)
		}
		r := execStep(env{timeout: 3 * time.Second}, 0, rts[0], &store{written: map[int][2][][]byte{}})
		if !r.o.ok || !r.i.ok {
			f.Fatalf("seed handshake failed: %v / %v", r.o.err, r.i.err)
		}
		for cfg := 0; cfg < 128; cfg += 8 {
			b := byte(cfg)
			if verify {
				b |= 2
			}
			f.Add(b, r.delivered[0])
			f.Add(b|1, r.delivered[1])
			f.Add(b|4|32|64, r.delivered[0][:len(r.delivered[0])-headerSize])
		}
	}
	f.Add(byte(0), []byte{1, 0xff, 0xff, 0xff, 0xff})
	// every well-formed frame type first, second and twice, for both handshakes and both sides
	wellFormed := [][]byte{substituteFrame(0, 0), substituteFrame(1, 0), substituteFrame(2, 0), substituteFrame(3, 0),
		buildFrame(Frame{Kind: fProto, Enc: []int{1, 0}}, nil), buildFrame(Frame{Kind: fProto}, nil),
		buildFrame(Frame{Kind: fCred, CredType: 1, VerEnc: 1, Version: 13, Client: 1, Ident: 0, Signer: 0, From: 0, To: 1}, nil),
		buildFrame(Frame{Kind: fCred, CredType: 1, VerEnc: 1, Version: 13, Client: 2, Ident: 1, Signer: 1, From: 1, To: 0}, nil)}
	for _, cfg := range []byte{0, 1, 2, 3, 128, 129, 128 | 32, 129 | 32, 4 | 64, 5 | 64, 128 | 8 | 64, 129 | 16 | 64} {
		for _, a := range wellFormed {
			f.Add(cfg, a)
			if cfg&^129 != 0 {
				continue // pairs only for the four plain configurations: the baseline run is slow
			}
			for _, b := range [][]byte{wellFormed[0], wellFormed[4], wellFormed[6]} {
				f.Add(cfg, append(append([]byte(nil), a...), b...))
			}
		}
	}
	f.Fuzz(func(t *testing.T, cfg byte, data []byte) {
		if len(data) > sizeLimit+4096 {
			return
		}
		outerT, currentTest = t, "FuzzIncomingFrames"
		c := fuzzCase(cfg, data)
		o, err := runFuzz(c)
		if err != nil {
			t.Fatalf("property %s violated: %v", prop, err)
		}
		vstat.Record("FuzzIncomingFrames", o, nil)
	})
}
