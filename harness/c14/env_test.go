package c14

// Stub application around the real secureservice component: account service, node
// configuration (which peer ids are network nodes) and config (RequireClientAuth,
// CompatibleVersions). The secureservice is initialised by its own Init through
// app.Start, so the checkers and version lists are wired exactly as in production;
// the two private fields the repository's own tests set (protoVersion,
// compatibleVersions) are set the same way, through reflection because the harness
// lives outside the package.

import (
	"context"
	"crypto/ed25519"
	"crypto/sha256"
	"fmt"
	"reflect"
	"sync"
	"unsafe"

	"go.uber.org/zap"

	"github.com/anyproto/any-sync/accountservice"
	"github.com/anyproto/any-sync/app"
	"github.com/anyproto/any-sync/app/logger"
	"github.com/anyproto/any-sync/commonspace/object/accountdata"
	"github.com/anyproto/any-sync/net/secureservice"
	"github.com/anyproto/any-sync/net/secureservice/handshake"
	"github.com/anyproto/any-sync/net/secureservice/handshake/handshakeproto"
	"github.com/anyproto/any-sync/nodeconf"
	"github.com/anyproto/any-sync/util/crypto"
)

func init() {
	logger.SetDefault(zap.NewNop())
	logger.SetNamedLevels(nil) // rebuilds the already created named loggers on the silent core
}

const nAccounts = 4

type account struct {
	keys     *accountdata.AccountKeys
	identity []byte            // marshalled public account key
	signPub  ed25519.PublicKey // raw account public key (for the reference verifier)
	signPriv ed25519.PrivateKey
}

var accounts = func() (res [nAccounts]account) {
	for i := range res {
		ps := sha256.Sum256([]byte(fmt.Sprintf("c14 peer key %d", i)))
		ss := sha256.Sum256([]byte(fmt.Sprintf("c14 account key %d", i)))
		peerPriv := ed25519.NewKeyFromSeed(ps[:])
		signPriv := ed25519.NewKeyFromSeed(ss[:])
		keys := accountdata.New(crypto.NewEd25519PrivKey(peerPriv), crypto.NewEd25519PrivKey(signPriv))
		id, err := keys.SignKey.GetPublic().Marshall()
		if err != nil {
			panic(err)
		}
		res[i] = account{keys: keys, identity: id, signPub: signPriv.Public().(ed25519.PublicKey), signPriv: signPriv}
	}
	return
}()

func peerId(acc int) string { return accounts[acc%nAccounts].keys.PeerId }

var clientNames = []string{"", "cli:v1.0", "any-sync-node:v0.9", "middle:v0.40.1/desktop"}

// ---- stub components -------------------------------------------------------------------

type accStub struct{ keys *accountdata.AccountKeys }

func (a *accStub) Init(*app.App) error               { return nil }
func (a *accStub) Name() string                      { return accountservice.CName }
func (a *accStub) Account() *accountdata.AccountKeys { return a.keys }

type confStub struct{ c secureservice.Config }

func (c *confStub) Init(*app.App) error                    { return nil }
func (c *confStub) Name() string                           { return "config" }
func (c *confStub) GetSecureService() secureservice.Config { return c.c }

type ncStub struct {
	nodeconf.Service // nil: every other method is out of the handshake's reach
	nodes            map[string]bool
}

func (n *ncStub) Init(*app.App) error         { return nil }
func (n *ncStub) Name() string                { return nodeconf.CName }
func (n *ncStub) Run(context.Context) error   { return nil }
func (n *ncStub) Close(context.Context) error { return nil }
func (n *ncStub) NodeTypes(id string) []nodeconf.NodeType {
	if n.nodes[id] {
		return []nodeconf.NodeType{nodeconf.NodeTypeTree}
	}
	return nil
}

// ---- private field access ----------------------------------------------------------------

func privField(obj any, name string) reflect.Value {
	v := reflect.ValueOf(obj)
	for v.Kind() == reflect.Interface || v.Kind() == reflect.Pointer {
		v = v.Elem()
	}
	f := v.FieldByName(name)
	if !f.IsValid() {
		panic("c14: no field " + name + " in " + v.Type().String())
	}
	return reflect.NewAt(f.Type(), unsafe.Pointer(f.UnsafeAddr())).Elem()
}

// ---- services ------------------------------------------------------------------------------

type service struct {
	ss       secureservice.SecureService
	noVerify handshake.CredentialChecker
	verify   handshake.CredentialChecker
	inbound  handshake.CredentialChecker
	nc       *ncStub
}

var (
	svcMu    sync.Mutex
	svcCache = map[string]*service{}
)

// getService builds (or returns the cached) secureservice for one side. Version 0
// ("first any-sync version", which never sends a version field) cannot be configured
// through Init — it substitutes the current version — so a legacy peer is an
// initialised service whose two checkers are patched to present version 0.
func getService(s Side, nodeMask int) (*service, error) {
	key := fmt.Sprintf("%d|%d|%v|%v|%v|%d|%d", s.Acc%nAccounts, s.Version, s.Accept, s.ViaConfig, s.ReqAuth, nodeMask, s.Client)
	svcMu.Lock()
	defer svcMu.Unlock()
	if sv, ok := svcCache[key]; ok {
		return sv, nil
	}
	if len(svcCache) >= 256 {
		// keep the heap small: every case empties the handshake pool with two collections
		svcCache = map[string]*service{}
	}
	acc := accounts[s.Acc%nAccounts]
	ss := secureservice.New()
	own := s.Version
	if own == 0 {
		own = 1
	}
	privField(ss, "protoVersion").SetUint(uint64(own))
	conf := secureservice.Config{RequireClientAuth: s.ReqAuth}
	if s.ViaConfig && s.Version != 0 && containsU32(s.Accept, s.Version) {
		conf.CompatibleVersions = append([]uint32(nil), s.Accept...)
	} else {
		privField(ss, "compatibleVersions").Set(reflect.ValueOf(append([]uint32(nil), s.Accept...)))
	}
	nc := &ncStub{nodes: map[string]bool{}}
	for i := 0; i < nAccounts; i++ {
		if nodeMask&(1<<i) != 0 {
			nc.nodes[peerId(i)] = true
		}
	}
	a := new(app.App)
	if name := clientNames[s.Client%len(clientNames)]; name != "" {
		a.SetVersionName(name)
	} else {
		a.SetVersionName("harness:v0")
	}
	a.Register(&accStub{keys: acc.keys}).Register(&confStub{c: conf}).Register(nc).Register(ss)
	if err := a.Start(context.Background()); err != nil {
		return nil, err
	}
	sv := &service{ss: ss, nc: nc}
	sv.noVerify = privField(ss, "noVerifyChecker").Interface().(handshake.CredentialChecker)
	sv.verify = privField(ss, "peerSignVerifier").Interface().(handshake.CredentialChecker)
	sv.inbound = privField(ss, "inboundChecker").Interface().(handshake.CredentialChecker)
	if s.Version == 0 {
		privField(sv.noVerify, "cred").Interface().(*handshakeproto.Credentials).Version = 0
		privField(sv.verify, "protoVersion").SetUint(0)
	}
	svcCache[key] = sv
	return sv, nil
}

func clientNameOf(s Side) string {
	if n := clientNames[s.Client%len(clientNames)]; n != "" {
		return n
	}
	return "harness:v0"
}

func containsU32(l []uint32, v uint32) bool {
	for _, x := range l {
		if x == v {
			return true
		}
	}
	return false
}
