package c14

// Reference reading of the statement, independent of the handshake code: what a side
// must have RECEIVED for a success verdict to be justified. The protobuf codecs are
// used on fresh objects only (trusted black boxes); signatures are checked with the
// standard library.

import (
	"bytes"
	"context"
	"crypto/ed25519"
	"encoding/binary"
	"fmt"

	"github.com/anyproto/any-sync/net/secureservice/handshake/handshakeproto"
	"github.com/anyproto/any-sync/util/crypto/cryptoproto"
)

const (
	headerSize   = 5
	msgTypeCred  = byte(1)
	msgTypeAck   = byte(2)
	msgTypeProto = byte(3)
	sizeLimit    = 200 * 1024 // the documented frame size limit
)

// nextFrame cuts one well-formed frame from the front of a delivered stream.
func nextFrame(b []byte) (tp byte, body, rest []byte, err error) {
	if len(b) < headerSize {
		return 0, nil, nil, fmt.Errorf("stream ends inside a frame header (%d bytes)", len(b))
	}
	tp = b[0]
	size := binary.LittleEndian.Uint32(b[1:headerSize])
	if size > sizeLimit {
		return 0, nil, nil, fmt.Errorf("frame length %d exceeds the size limit", size)
	}
	if uint32(len(b)-headerSize) < size {
		return 0, nil, nil, fmt.Errorf("stream ends inside a frame body (%d of %d bytes)", len(b)-headerSize, size)
	}
	return tp, b[headerSize : headerSize+int(size)], b[headerSize+int(size):], nil
}

// fieldsPresent scans a protobuf message and reports which field numbers occur.
func fieldsPresent(b []byte) (map[int]bool, bool) {
	res := map[int]bool{}
	for len(b) > 0 {
		k, n := binary.Uvarint(b)
		if n <= 0 {
			return res, false
		}
		b = b[n:]
		res[int(k>>3)] = true
		switch k & 7 {
		case 0:
			_, n := binary.Uvarint(b)
			if n <= 0 {
				return res, false
			}
			b = b[n:]
		case 1:
			if len(b) < 8 {
				return res, false
			}
			b = b[8:]
		case 2:
			l, n := binary.Uvarint(b)
			if n <= 0 || uint64(len(b)-n) < l {
				return res, false
			}
			b = b[n+int(l):]
		case 5:
			if len(b) < 4 {
				return res, false
			}
			b = b[4:]
		default:
			return res, false
		}
	}
	return res, true
}

// view is what one honest side knows and requires.
type view struct {
	own, remote string   // own peer id, transport peer id of the remote
	accept      []uint32 // accepted protocol versions
	verify      bool     // identity verification required
}

type proven struct {
	identity    []byte
	version     uint32
	client      string
	omitsFields bool // the credentials lack the version or client-version field on the wire
}

// justify decides, from the bytes delivered to a side alone, whether a success verdict
// of that side is allowed by the statement, and what it must then report.
func justify(delivered []byte, v view) (p proven, err error) {
	tp, body, rest, err := nextFrame(delivered)
	if err != nil {
		return p, fmt.Errorf("first frame: %w", err)
	}
	if tp != msgTypeCred {
		return p, fmt.Errorf("first frame has type %d, not credentials", tp)
	}
	cred := &handshakeproto.Credentials{}
	if err = cred.UnmarshalVT(body); err != nil {
		return p, fmt.Errorf("credentials do not decode: %v", err)
	}
	present, _ := fieldsPresent(body)
	p.omitsFields = !present[3] || !present[4]
	p.version, p.client = cred.Version, cred.ClientVersion
	if !containsU32(v.accept, cred.Version) {
		return p, fmt.Errorf("peer version %d is not in the accepted list %v", cred.Version, v.accept)
	}
	if v.verify {
		if cred.Type != handshakeproto.CredentialsType_SignedPeerIds {
			return p, fmt.Errorf("verification required but credentials type is %d", cred.Type)
		}
		pl := &handshakeproto.PayloadSignedPeerIds{}
		if err = pl.UnmarshalVT(cred.Payload); err != nil {
			return p, fmt.Errorf("signed payload does not decode: %v", err)
		}
		key := &cryptoproto.Key{}
		if err = key.UnmarshalVT(pl.Identity); err != nil || key.Type != cryptoproto.KeyType_Ed25519Public || len(key.Data) != ed25519.PublicKeySize {
			return p, fmt.Errorf("identity is not an ed25519 public key")
		}
		if !ed25519.Verify(ed25519.PublicKey(key.Data), []byte(v.remote+v.own), pl.Sign) {
			return p, fmt.Errorf("signature does not verify over (peer id of the remote, own peer id)")
		}
		p.identity = pl.Identity
	}
	tp, body, _, err = nextFrame(rest)
	if err != nil {
		return p, fmt.Errorf("second frame: %w", err)
	}
	if tp != msgTypeAck {
		return p, fmt.Errorf("second frame has type %d, not ack", tp)
	}
	ack := &handshakeproto.Ack{}
	if err = ack.UnmarshalVT(body); err != nil {
		return p, fmt.Errorf("ack does not decode: %v", err)
	}
	if ack.Error != handshakeproto.Error_Null {
		return p, fmt.Errorf("ack carries error %v", ack.Error)
	}
	return p, nil
}

// sideResult is what one honest side returned.
type sideResult struct {
	returned bool
	ok       bool
	err      error
	elapsed  int64 // ns of (fake) time until the call returned
	peerId   string
	identity []byte
	version  uint32
	client   string
	hasCtx   bool // result came from the secureservice API (context values)
	proto    *handshakeproto.Proto
	cctx     context.Context // the context HandshakeInbound / HandshakeOutbound returned (kept for the re-read)
	idAtRet  []byte          // copy of the identity taken the moment the call returned
}

func checkReported(who string, r sideResult, p proven, v view) error {
	if r.version != p.version {
		return fmt.Errorf("%s reports peer version %d, the credentials it received carry %d", who, r.version, p.version)
	}
	if r.client != p.client {
		return fmt.Errorf("%s reports client version %q, the credentials it received carry %q", who, r.client, p.client)
	}
	if v.verify {
		if !bytes.Equal(r.identity, p.identity) {
			if bytes.Equal(r.idAtRet, p.identity) {
				return fmt.Errorf("%s attached identity %x when the handshake returned (what the signature proves), but the same connection reads %x at the end of the case, after later handshakes", who, r.idAtRet, r.identity)
			}
			return fmt.Errorf("%s attaches identity %x, the verified signature proves %x", who, r.identity, p.identity)
		}
	} else if len(r.identity) != 0 {
		return fmt.Errorf("%s attaches identity %x although nothing was verified", who, r.identity)
	}
	if r.hasCtx && r.peerId != v.remote {
		return fmt.Errorf("%s attaches peer id %q, the transport peer id is %q", who, r.peerId, v.remote)
	}
	return nil
}

// ---- proto handshake ---------------------------------------------------------------------

func justifyProtoIn(delivered []byte, allowed []int) error {
	tp, body, _, err := nextFrame(delivered)
	if err != nil {
		return fmt.Errorf("first frame: %w", err)
	}
	if tp != msgTypeProto {
		return fmt.Errorf("first frame has type %d, not proto", tp)
	}
	pr := &handshakeproto.Proto{}
	if err = pr.UnmarshalVT(body); err != nil {
		return fmt.Errorf("proto does not decode: %v", err)
	}
	for _, a := range allowed {
		if int(pr.Proto) == a {
			return nil
		}
	}
	return fmt.Errorf("proto type %d is not in the allowed list %v", pr.Proto, allowed)
}

func justifyProtoOut(delivered []byte) error {
	tp, body, _, err := nextFrame(delivered)
	if err != nil {
		return fmt.Errorf("first frame: %w", err)
	}
	switch tp {
	case msgTypeProto:
		pr := &handshakeproto.Proto{}
		if err = pr.UnmarshalVT(body); err != nil {
			return fmt.Errorf("proto does not decode: %v", err)
		}
		return nil
	case msgTypeAck:
		ack := &handshakeproto.Ack{}
		if err = ack.UnmarshalVT(body); err != nil {
			return fmt.Errorf("ack does not decode: %v", err)
		}
		if ack.Error != handshakeproto.Error_Null {
			return fmt.Errorf("ack carries error %v", ack.Error)
		}
		return nil
	}
	return fmt.Errorf("first frame has type %d", tp)
}
