// Package c08 decides property C08: the hash a head index advertises for the whole set
// and its answer to any range query depend only on the entries it currently contains —
// not on the order of insertions, updates and removals, nor on whether it was maintained
// incrementally or filled in one call at start-up.
//
// Oracle: after every step (or every k-th step of long histories) the index driven
// through the history is compared with a *fresh* index (setmodel.Fresh: new ldiff, one
// Set call) holding the contents of the plain-map model: same Hash(), same Len and
// Elements, same answer (hash, count, elements) to every range the diff protocol can ask
// (the subdivision walked down around every id of the universe) and to drawn ranges,
// and the head-sync gate (DiffTypeCheck) says "in sync" over the wire.
package c08

import (
	"bytes"
	"context"
	"fmt"
	"os"
	"sort"
	"strconv"
	"testing"

	"github.com/anyproto/any-sync/app/ldiff"
	"pgregory.net/rapid"

	"verif/harness/internal/setmodel"
	"verif/harness/internal/vstat"
)

const prop = "C08"

const sigRemainder = "position-in-alignment-remainder" // see c07: getBottomRange, bucket == divideFactor

func TestMain(m *testing.M) { vstat.Main(m, prop) }

// ---- case (plain data) ---------------------------------------------------------------

const (
	opSetNew     = 0 // Set of an id not in the index     (A selects among the absent universe ids)
	opSetSame    = 1 // Set of a present id, same head     (A selects among the present ids)
	opSetDiff    = 2 // Set of a present id, another head  (A selects, H is the new head)
	opSetMulti   = 3 // one Set call with several elements (M: universe index, head), new and existing mixed
	opRemove     = 4 // RemoveId of a present id
	opRemoveMiss = 5 // RemoveId of an absent id
	opRemoveAt   = 6 // RemoveId of universe id number A, present or not (used by the enumeration)
)

type Op struct {
	K int      `json:"k"`
	A int      `json:"a,omitempty"`
	H int      `json:"h,omitempty"`
	M [][2]int `json:"m,omitempty"`
}

type Case struct {
	DF     int               `json:"df"`
	TH     int               `json:"th"`
	Ids    []setmodel.IDSpec `json:"ids"`
	Ops    []Op              `json:"ops"`
	Every  int               `json:"every"`  // full comparison after every Every-th op and after the last; Len and Hash() after every op
	Ranges [][2]uint64       `json:"ranges"` // extra ranges to ask
}

var headTab = []string{"a", "b", "ab", "ba", "b0", "a~"}

func head(k int) string { return headTab[((k%len(headTab))+len(headTab))%len(headTab)] }

// ---- ranges the diff protocol can ask ----------------------------------------------------

// protocolRanges walks the subdivision down from the whole ring: the children of every
// range that holds at least one universe id are asked; a range is entered while it holds
// >= 2 universe ids and for `slack` more levels when it holds one (a correct index has no
// structure there, a defective one may; and a peer that is subdivided deeper asks there).
func protocolRanges(uni []uint64, df int) []setmodel.Rng {
	out := []setmodel.Rng{setmodel.Top}
	var walk func(r setmodel.Rng, slack int)
	walk = func(r setmodel.Rng, slack int) {
		n := setmodel.CountIn(uni, r.From, r.To)
		if n == 0 && r != setmodel.Top {
			return
		}
		if n <= 1 && r != setmodel.Top {
			slack--
			if slack < 0 {
				return
			}
		}
		subs, ok := setmodel.Sub(r, df)
		if !ok {
			return
		}
		out = append(out, subs...)
		for _, s := range subs {
			walk(s, slack)
		}
	}
	walk(setmodel.Top, 2)
	return out
}

// ---- comparison with the fresh index -------------------------------------------------------

func sameElements(a, b []ldiff.Element) bool {
	if len(a) != len(b) {
		return false
	}
	for i := range a {
		if a[i] != b[i] {
			return false
		}
	}
	return true
}

type asker struct {
	req    []ldiff.Range
	hb, fb []ldiff.RangeResult // result buffers
}

func newAsker(c Case, uni []uint64) *asker {
	a := &asker{}
	add := func(r setmodel.Rng) {
		a.req = append(a.req, ldiff.Range{From: r.From, To: r.To}, ldiff.Range{From: r.From, To: r.To, Elements: true})
	}
	for _, r := range protocolRanges(uni, c.DF) {
		add(r)
	}
	for _, r := range c.Ranges {
		if r[0] <= r[1] {
			add(setmodel.Rng{From: r[0], To: r[1]})
		}
	}
	for i, h := range uni { // single positions and spans between universe ids
		add(setmodel.Rng{From: h, To: h})
		if i > 0 {
			add(setmodel.Rng{From: uni[i-1], To: h})
			add(setmodel.Rng{From: uni[i-1] + 1, To: h})
		}
	}
	return a
}

// compare: full=false checks Len and the whole-set hash only (every step); full=true also
// Elements and every range answer.
func compare(c Case, a *asker, hist ldiff.Diff, model setmodel.Set, step int, full bool) error {
	ctx := context.Background()
	fresh := setmodel.Fresh(c.DF, c.TH, model)
	at := fmt.Sprintf("after op %d (df=%d th=%d, %d entries)", step, c.DF, c.TH, len(model))
	// the index holds exactly the model's entries
	if hist.Len() != len(model) {
		return fmt.Errorf("%s: Len() = %d, model holds %d", at, hist.Len(), len(model))
	}
	if !full {
		if hh, fh := hist.Hash(), fresh.Hash(); hh != fh {
			return fmt.Errorf("%s: Hash() = %s, fresh index holding the same entries %s", at, hh, fh)
		}
		return nil
	}
	els := hist.Elements()
	if !sameElements(els, model.Elements()) {
		return fmt.Errorf("%s: Elements() = %v, model (ring order) %v", at, els, model.Elements())
	}
	if !sameElements(els, fresh.Elements()) {
		return fmt.Errorf("%s: Elements() = %v, fresh index %v", at, els, fresh.Elements())
	}
	// whole-set hash
	if hh, fh := hist.Hash(), fresh.Hash(); hh != fh {
		return fmt.Errorf("%s: Hash() = %s, fresh index holding the same entries %s", at, hh, fh)
	}
	// range answers
	hr, err := hist.Ranges(ctx, a.req, a.hb[:0])
	if err != nil {
		return fmt.Errorf("%s: Ranges error %v", at, err)
	}
	fr, err := fresh.Ranges(ctx, a.req, a.fb[:0])
	if err != nil {
		return fmt.Errorf("%s: fresh Ranges error %v", at, err)
	}
	if len(hr) != len(a.req) || len(fr) != len(a.req) {
		return fmt.Errorf("%s: Ranges answered %d / %d of %d", at, len(hr), len(fr), len(a.req))
	}
	for i, rq := range a.req {
		if !bytes.Equal(hr[i].Hash, fr[i].Hash) || hr[i].Count != fr[i].Count || !sameElements(hr[i].Elements, fr[i].Elements) {
			return fmt.Errorf("%s: range [%x,%x] elements=%v answered hash=%x count=%d elements=%v; fresh index: hash=%x count=%d elements=%v",
				at, rq.From, rq.To, rq.Elements, hr[i].Hash, hr[i].Count, hr[i].Elements, fr[i].Hash, fr[i].Count, fr[i].Elements)
		}
	}
	a.hb, a.fb = hr, fr
	vstat.Count("ranges_compared", int64(len(a.req)))
	vstat.Count("comparisons", 1)
	return nil
}

// ---- the property --------------------------------------------------------------------------

func run(c Case) (vstat.Outcome, error) {
	var out vstat.Outcome
	if c.DF < 2 || c.TH < 1 {
		return out, nil
	}
	// universe (deduplicated)
	var ids []string
	seen := map[string]bool{}
	for _, sp := range c.Ids {
		id := sp.ID()
		if !seen[id] {
			seen[id] = true
			ids = append(ids, id)
		}
	}
	if len(ids) == 0 {
		return out, nil
	}
	uni := make([]uint64, len(ids))
	for i, id := range ids {
		uni[i] = setmodel.HashOf(id)
	}
	// Only if recorded as an unrepaired known finding: positions in the alignment remainder
	// of a subdivision (nil range in getBottomRange, a crash unrelated to histories).
	if vstat.KnownSignature(prop, sigRemainder) || vstat.KnownSignature("C07", sigRemainder) {
		for _, h := range uni {
			if setmodel.InRemainder(h, c.DF) {
				out.Excluded, out.Sig = sigRemainder, vstat.HashJSON(c)
				return out, nil
			}
		}
	}
	sort.Slice(uni, func(i, j int) bool { return uni[i] < uni[j] })
	if setmodel.TooClose(uni) {
		return out, nil // outside the domain (near-collisions of the position hash), see check.json
	}
	ask := newAsker(c, uni)
	every := max(1, c.Every)

	model := setmodel.Set{}
	hist := ldiff.New(c.DF, c.TH)
	present := func() (p, a []string) { // in universe order
		for _, id := range ids {
			if _, ok := model[id]; ok {
				p = append(p, id)
			} else {
				a = append(a, id)
			}
		}
		return
	}
	depthOn := func(s setmodel.Set, id string) (int, int) {
		return setmodel.SplitDepth(s.Hashes(), c.DF, c.TH, setmodel.HashOf(id))
	}
	classes := map[string]bool{}
	updates, merges := 0, 0

	if err := compare(c, ask, hist, model, 0, false); err != nil {
		return out, err
	}
	for i, op := range c.Ops {
		p, a := present()
		k := op.K
		// interpret modulo the current state
		if k == opSetNew && len(a) == 0 {
			k = opSetDiff
		}
		if (k == opSetSame || k == opSetDiff || k == opRemove) && len(p) == 0 {
			k = opSetNew
		}
		if k == opRemoveMiss && len(a) == 0 {
			k = opRemove
		}
		sel := func(l []string) string { return l[((op.A%len(l))+len(l))%len(l)] }
		var id string
		switch k {
		case opSetNew, opRemoveMiss:
			id = sel(a)
		case opSetSame, opSetDiff, opRemove:
			id = sel(p)
		case opRemoveAt:
			id = sel(ids)
			if _, ok := model[id]; ok {
				k = opRemove
			} else {
				k = opRemoveMiss
			}
		}
		applySet := func(id, h string) {
			if old, ok := model[id]; ok {
				updates++
				if old == h {
					classes["update-same-head"] = true
				} else {
					classes["update-other-head"] = true
				}
				if _, leaf := depthOn(model, id); leaf == c.TH {
					classes["update-in-full-leaf"] = true
				}
				model[id] = h
				return
			}
			before, _ := depthOn(model, id)
			model[id] = h
			if after, _ := depthOn(model, id); after > before {
				classes["split"] = true
				if after-before >= 2 {
					classes["multi-level-split"] = true
				}
			}
		}
		switch k {
		case opSetNew:
			applySet(id, head(op.H))
			hist.Set(ldiff.Element{Id: id, Head: model[id]})
		case opSetSame, opSetDiff:
			h := model[id]
			if k == opSetDiff {
				h = head(op.H)
				if h == model[id] {
					h = head(op.H + 1)
				}
			}
			applySet(id, h)
			hist.Set(ldiff.Element{Id: id, Head: h})
		case opSetMulti:
			var els []ldiff.Element
			for _, m := range op.M {
				id := ids[((m[0]%len(ids))+len(ids))%len(ids)]
				if _, ok := model[id]; ok && len(op.M) > 1 {
					classes["multi-with-existing"] = true
				}
				applySet(id, head(m[1]))
				els = append(els, ldiff.Element{Id: id, Head: model[id]})
			}
			if len(els) > 0 {
				hist.Set(els...)
				if len(els) > 1 {
					classes["set-multi"] = true
				}
			}
		case opRemove:
			before, _ := depthOn(model, id)
			delete(model, id)
			if err := hist.RemoveId(id); err != nil {
				return out, fmt.Errorf("op %d: RemoveId(%q) of a present id: %v", i+1, id, err)
			}
			if after, _ := depthOn(model, id); after < before {
				merges++
				classes["merge"] = true
				if before-after >= 2 {
					classes["two-level-merge"] = true
				}
			}
		case opRemoveMiss:
			_ = hist.RemoveId(id) // outcome not prescribed by C08; the contents must not change
			classes["remove-absent"] = true
		}
		if err := compare(c, ask, hist, model, i+1, (i+1)%every == 0 || i == len(c.Ops)-1); err != nil {
			return out, err
		}
	}
	// "recognise that they are in sync without exchanging ranges": the head-sync gate over
	// the wire, both ways round.
	fresh := setmodel.Fresh(c.DF, c.TH, model)
	for _, pair := range [][2]ldiff.Diff{{hist, fresh}, {fresh, hist}} {
		needs, err := setmodel.HeadSyncRemote(pair[0]).DiffTypeCheck(context.Background(), pair[1])
		if err != nil {
			return out, fmt.Errorf("DiffTypeCheck: %v", err)
		}
		if needs {
			return out, fmt.Errorf("DiffTypeCheck between the history-built index and a fresh index with the same %d entries says a sync is needed (df=%d th=%d)", len(model), c.DF, c.TH)
		}
	}

	out.Sig = vstat.HashJSON(c)
	out.NonTrivial = updates > 0 || merges > 0
	for k := range classes {
		out.Classes = append(out.Classes, k)
	}
	sort.Strings(out.Classes)
	if len(c.Ops) >= 50 {
		out.Classes = append(out.Classes, "ops>=50")
	}
	return out, nil
}

// ---- generators ------------------------------------------------------------------------------

var dfs = []int{2, 3, 4, 7, 16}
var ths = []int{1, 2, 3, 8}

func genUniverse(rt *rapid.T, df int) []setmodel.IDSpec {
	var ids []setmodel.IDSpec
	target := rapid.IntRange(1, 40).Draw(rt, "universe")
	for len(ids) < target {
		switch rapid.IntRange(0, 9).Draw(rt, "part") {
		case 0, 1, 2, 3, 4, 5: // cluster of neighbouring pool ranks: one bucket for many levels
			r0 := rapid.IntRange(0, setmodel.PoolSize-1).Draw(rt, "r0")
			n := rapid.IntRange(2, 12).Draw(rt, "len")
			stride := rapid.SampledFrom([]int{1, 1, 2, 7}).Draw(rt, "stride")
			for i := 0; i < n; i++ {
				ids = append(ids, setmodel.Rank(r0+i*stride))
			}
		case 6, 7: // spread
			ids = append(ids, setmodel.Rank(rapid.IntRange(0, setmodel.PoolSize-1).Draw(rt, "rank")))
		case 8: // ends of the ring
			ids = append(ids, setmodel.Exact(0, 0), setmodel.Exact(^uint64(0), 0), setmodel.Rank(0), setmodel.Rank(setmodel.PoolSize-1))
		default: // solved ids on and near the borders of a range of the subdivision
			r := setmodel.Top
			depth := rapid.IntRange(1, 8).Draw(rt, "depth")
			for d := 0; d < depth; d++ {
				subs, ok := setmodel.Sub(r, df)
				if !ok {
					break
				}
				r = subs[rapid.IntRange(0, len(subs)-1).Draw(rt, "bucket")]
			}
			ids = append(ids, setmodel.Exact(r.From, 0), setmodel.Exact(r.To, 0))
			if r.To-r.From > 1<<24 {
				n := rapid.IntRange(0, 5).Draw(rt, "inner")
				for i := 0; i < n; i++ {
					ids = append(ids, setmodel.Exact(r.From+rapid.Uint64Range(1, 255).Draw(rt, "off")<<16, 0))
				}
			}
		}
	}
	return ids
}

func genCase(rt *rapid.T) Case {
	var c Case
	if rapid.IntRange(0, 9).Draw(rt, "paramKind") < 8 {
		c.DF = rapid.SampledFrom(dfs).Draw(rt, "df")
		c.TH = rapid.SampledFrom(ths).Draw(rt, "th")
	} else {
		c.DF = rapid.IntRange(2, 40).Draw(rt, "dfAny")
		c.TH = rapid.IntRange(1, 40).Draw(rt, "thAny")
	}
	c.Ids = setmodel.SpacedOut(genUniverse(rt, c.DF))
	maxOps := 40
	if rapid.IntRange(0, 9).Draw(rt, "long") == 0 {
		maxOps = 200
	}
	n := rapid.IntRange(1, maxOps).Draw(rt, "nops")
	c.Every = 1
	if n > 12 {
		c.Every = rapid.SampledFrom([]int{1, 4, 16, 1000}).Draw(rt, "every")
	}
	// phases: growth, churn, shrink — so that ranges fill up, split, and empty again
	for i := 0; i < n; i++ {
		var weights []int
		switch phase := i * 3 / n; phase {
		case 0:
			weights = []int{8, 2, 2, 2, 1, 1}
		case 1:
			weights = []int{3, 3, 3, 2, 3, 1}
		default:
			weights = []int{1, 2, 2, 1, 8, 1}
		}
		tot := 0
		for _, w := range weights {
			tot += w
		}
		x := rapid.IntRange(0, tot-1).Draw(rt, "kind")
		k := 0
		for x >= weights[k] {
			x -= weights[k]
			k++
		}
		op := Op{K: k, A: rapid.IntRange(0, 1000).Draw(rt, "a"), H: rapid.IntRange(0, 5).Draw(rt, "h")}
		if k == opSetMulti {
			m := rapid.IntRange(1, 12).Draw(rt, "multi")
			for j := 0; j < m; j++ {
				op.M = append(op.M, [2]int{rapid.IntRange(0, 1000).Draw(rt, "mi"), rapid.IntRange(0, 5).Draw(rt, "mh")})
			}
		}
		c.Ops = append(c.Ops, op)
	}
	nr := rapid.IntRange(0, 6).Draw(rt, "nranges")
	for i := 0; i < nr; i++ {
		a := rapid.Uint64().Draw(rt, "from")
		b := rapid.Uint64().Draw(rt, "to")
		if a > b {
			a, b = b, a
		}
		c.Ranges = append(c.Ranges, [2]uint64{a, b})
	}
	return c
}

func shardOf() (shard, shards int) {
	shards, _ = strconv.Atoi(os.Getenv("VERIF_SHARDS"))
	shard, _ = strconv.Atoi(os.Getenv("VERIF_SHARD"))
	if shards < 1 {
		shards = 1
	}
	return shard % shards, shards
}

// enumerate: every history of length <= 4 (quick; length 4 only for divide factor 2, 16
// and threshold 1, 2) / <= 5 (thorough) over a universe of 3 ids
// with the alphabet {Set(id, head a), Set(id, head b), RemoveId(id)} (9 letters), for two
// universes (three neighbours in the pool; three solved ids 2^12 apart) and every
// parameter pair; shortest first.
func enumerate(yield func(Case) bool) {
	shard, shards := shardOf()
	const base = 0x3c3c3c3c00000000
	unis := [][]setmodel.IDSpec{
		{setmodel.Rank(300000), setmodel.Rank(300001), setmodel.Rank(300002)},
		{setmodel.Exact(base, 0), setmodel.Exact(base+1<<12, 0), setmodel.Exact(base+1<<13, 0)},
	}
	maxLen := vstat.Pick(4, 5)
	k := 0
	for l := 1; l <= maxLen; l++ {
		total := 1
		for i := 0; i < l; i++ {
			total *= 9
		}
		for code := 0; code < total; code++ {
			for ui, u := range unis {
				for _, df := range dfs {
					for _, th := range ths {
						if th == 8 && (df != 2 || ui != 0) {
							continue // 3 ids never exceed threshold 8: one representative is enough
						}
						if l == maxLen && !vstat.Thorough() && !((df == 2 || df == 16) && th <= 2) {
							continue // quick: the longest histories on a reduced parameter grid
						}
						k++
						if k%shards != shard {
							continue
						}
						c := Case{DF: df, TH: th, Ids: u, Every: 1000} // every prefix is a case of its own
						for i, x := 0, code; i < l; i, x = i+1, x/9 {
							c.Ops = append(c.Ops, letter(x%9))
						}
						if !yield(c) {
							return
						}
					}
				}
			}
		}
	}
}

// letter: 0..5 Set(id i/2... ) ; 6..8 RemoveId — expressed with direct universe indexes via
// opSetMulti (a one-element Set call) so that no modulo-state reinterpretation applies.
func letter(x int) Op {
	if x < 6 {
		return Op{K: opSetMulti, M: [][2]int{{x / 2, x % 2}}}
	}
	return Op{K: opRemoveAt, A: x - 6}
}

func TestExhaustive(t *testing.T) { vstat.Enumerate(t, prop, enumerate, run) }
func TestRandom(t *testing.T)     { vstat.Check(t, prop, genCase, run) }
func TestReplay(t *testing.T) {
	for _, name := range []string{"TestExhaustive", "TestRandom", "TestRegSetExistingSameHead", "TestRegUpdateInFullLeaf", "TestRegSetMultiWithExisting", "TestRegMultiLevelMerge", "TestRegRingEndHistory"} {
		t.Run(name, func(t *testing.T) { vstat.Replay(t, prop, name, run) })
	}
}

// ---- regressions: minimised failures found by this package on the pinned tree ----------------

var near3 = []setmodel.IDSpec{setmodel.Rank(300000), setmodel.Rank(300001), setmodel.Rank(300002)}

func set(i, h int) Op { return Op{K: opSetMulti, M: [][2]int{{i, h}}} }
func del(i int) Op    { return Op{K: opRemoveAt, A: i} }

// New(2,1); Set(id0,a); Set(id0,a): the second Set is counted as an insertion, the leaf
// holding one element "exceeds" threshold 1 and is subdivided; Hash() differs from a fresh
// index holding {id0:a}.
func TestRegSetExistingSameHead(t *testing.T) {
	vstat.One(t, prop, Case{DF: 2, TH: 1, Ids: near3[:1], Every: 1, Ops: []Op{set(0, 0), set(0, 0)}}, run)
}

// Update with another head in a leaf that is exactly full (threshold 2).
func TestRegUpdateInFullLeaf(t *testing.T) {
	vstat.One(t, prop, Case{DF: 16, TH: 2, Ids: near3, Every: 1, Ops: []Op{set(0, 0), set(1, 0), set(0, 1)}}, run)
}

// One Set call carrying a present and a new id.
func TestRegSetMultiWithExisting(t *testing.T) {
	vstat.One(t, prop, Case{DF: 4, TH: 2, Ids: near3, Every: 1, Ops: []Op{set(0, 0), {K: opSetMulti, M: [][2]int{{0, 0}, {1, 0}}}}}, run)
}

// Two neighbours split ~19 levels deep (df=2, th=1); removing one must merge every level
// back, the pinned code merges only the lowest one.
func TestRegMultiLevelMerge(t *testing.T) {
	vstat.One(t, prop, Case{DF: 2, TH: 1, Ids: near3, Every: 1, Ops: []Op{set(0, 0), set(1, 0), del(0)}}, run)
	vstat.One(t, prop, Case{DF: 4, TH: 2, Ids: near3, Every: 1, Ops: []Op{set(0, 0), set(1, 0), set(2, 0), del(1)}}, run)
}

// An id on the last position of the ring, divide factor 3 (2^64 = 3k+1) resp. next to
// last, divide factor 7 (2^64 = 7k+2): the pinned getBottomRange computes bucket ==
// divideFactor for it and Set / RemoveId crash on a nil range. With the bucket clamped the
// history (insert, split next to it, update, remove) must behave like any other.
func TestRegRingEndHistory(t *testing.T) {
	far := []setmodel.IDSpec{setmodel.Exact(^uint64(0)-1<<20, 0), setmodel.Exact(^uint64(0)-1<<30, 0)}
	ops := []Op{set(1, 0), set(0, 0), set(2, 0), set(0, 1), del(1), del(0), set(0, 1), set(1, 1), del(2), del(0)}
	vstat.One(t, prop, Case{DF: 3, TH: 1, Ids: append([]setmodel.IDSpec{setmodel.Exact(^uint64(0), 0)}, far...), Every: 1, Ops: ops}, run)
	vstat.One(t, prop, Case{DF: 7, TH: 2, Ids: append([]setmodel.IDSpec{setmodel.Exact(^uint64(0)-1, 0)}, far...), Every: 1, Ops: ops}, run)
}
