// Package c05 decides property C05: after any membership history every account holding a
// permission derives, from the raw record log and its own private key alone, the current
// read key and every earlier one, while an account that holds none cannot derive any key
// generation introduced since it last held one; tree content added as encrypted exists only
// as ciphertext under the per-tree key of the generation its read-key id names.
//
// Oracles (all independent of the implementation's own bookkeeping):
//   - the reference membership model of engine B (who holds which permission after which
//     record, which record introduced which generation), derived from op semantics;
//   - the stored record bytes, decoded with the protobuf codecs only;
//   - an explicit attacker that tries every key it legitimately holds on every ciphertext of
//     every later record;
//   - for trees: the stored change bytes, decrypted by the harness with a key it derives
//     itself from the generation's key bytes and the tree id.
package c05

import (
	"bytes"
	"encoding/hex"
	"fmt"
	"sort"
	"strings"
	"testing"

	"github.com/anyproto/any-sync/app/logger"
	"github.com/anyproto/any-sync/commonspace/object/acl/aclrecordproto"
	"github.com/anyproto/any-sync/commonspace/object/acl/list"
	"github.com/anyproto/any-sync/commonspace/object/acl/recordverifier"
	"github.com/anyproto/any-sync/commonspace/object/tree/objecttree"
	"github.com/anyproto/any-sync/commonspace/object/tree/treechangeproto"
	"github.com/anyproto/any-sync/consensus/consensusproto"
	"github.com/anyproto/any-sync/util/crypto"

	"verif/harness/internal/aclgen"
	"verif/harness/internal/vstat"
)

const prop = "C05"

var outerT *testing.T

func TestMain(m *testing.M) {
	logger.Config{Production: true, DefaultLevel: "fatal", DisableStdErr: true}.ApplyGlobal()
	vstat.Main(m, prop)
}

// ---- case (plain data) -------------------------------------------------------------------

// Write is a tree write by the (Author mod #accounts-that-may-write)-th such account.
type Write struct {
	Author int `json:"a"`
	Len    int `json:"l"`
	Pref   int `json:"p,omitempty"` // account Pref-1 writes if it may (0: no preference)
}

type Step struct {
	Op *aclgen.Op `json:"op,omitempty"`
	W  *Write     `json:"w,omitempty"`
	F  *ForgeRot  `json:"f,omitempty"`
}

type Case struct {
	Seed  uint64 `json:"seed"`
	N     int    `json:"n"`
	Sign  bool   `json:"sign"` // records carry the network acceptor's signature (client verifier usable)
	Steps []Step `json:"steps"`
}

// ---- run ----------------------------------------------------------------------------------

type gen struct {
	id  string // id of the record that introduced the generation
	rec int    // its index in the log
}

type blob struct {
	label string
	data  []byte
}

type attacker struct {
	name string
	priv crypto.PrivKey
	syms map[string]crypto.SymKey // hex(raw) -> key
}

type inviteTrack struct {
	inv       *aclgen.InviteInfo
	created   int
	revokedAt int // -1 while live
	att       *attacker
}

type writeRec struct {
	id     string
	plain  string
	genIdx int
	author int
}

type treeView struct {
	acc  int
	mem  *memStorage
	tree objecttree.ObjectTree
	have int
	// outFed: this open tree was handed changes while its account held no permission and has
	// not taken part in anything since the account was admitted again; outGens = number of
	// generations at that hand-over
	outFed  bool
	outGens int
}

type env struct {
	c           Case
	w           *aclgen.World
	gens        []gen
	truth       map[string][]byte // generation id -> key bytes all members agree on
	idOf        map[string]int    // marshalled identity -> account
	invites     map[*aclgen.InviteInfo]*inviteTrack
	invList     []*inviteTrack
	fresh       [][]list.AclList // [account][0 full, 1 client]
	oldKeyBlobs []blob
	classes     map[string]bool
	// statistics
	nViews, nPos, nNeg, nAttack, nAttackOpen, nRawRot, nWrites, nTreeIter, nSkipped, nForged int
	removedChecked                                                                           bool
	hadLeaveRequest, authored                                                                []bool
	// tree
	realSt   objecttree.Storage
	realTree objecttree.ObjectTree
	root     *treechangeproto.RawTreeChangeWithId
	otherId  string
	views    map[int]*treeView
	changes  []*treechangeproto.RawTreeChangeWithId
	writes   []writeRec
}

func mod(a, n int) int    { return ((a % n) + n) % n }
func member(p int) bool   { return p != aclgen.None }
func canWrite(p int) bool { return p == aclgen.Owner || p == aclgen.Admin || p == aclgen.Writer }

func (e *env) lastHeld(i int) int {
	pa := e.w.M.PermAt[i]
	for r := len(pa) - 1; r >= 0; r-- {
		if member(pa[r]) {
			return r
		}
	}
	return -1
}

func (e *env) pub(i int) crypto.PubKey { return e.w.Keys[i].SignKey.GetPublic() }

func safeDecrypt(f func([]byte) ([]byte, error), b []byte) (out []byte, ok bool) {
	defer func() {
		if r := recover(); r != nil {
			out, ok = nil, false
		}
	}()
	out, err := f(b)
	return out, err == nil
}

// decodeRecord decodes the STORED bytes of a record with the protobuf codecs only.
func decodeRecord(rec *consensusproto.RawRecordWithId, isRoot bool) (root *aclrecordproto.AclRoot, data *aclrecordproto.AclData, err error) {
	raw := &consensusproto.RawRecord{}
	if err = raw.UnmarshalVT(rec.Payload); err != nil {
		return
	}
	if isRoot {
		root = &aclrecordproto.AclRoot{}
		err = root.UnmarshalVT(raw.Payload)
		return
	}
	r := &consensusproto.Record{}
	if err = r.UnmarshalVT(raw.Payload); err != nil {
		return
	}
	data = &aclrecordproto.AclData{}
	err = data.UnmarshalVT(r.Data)
	return
}

func rotationsOf(data *aclrecordproto.AclData) (out []*aclrecordproto.AclReadKeyChange) {
	if data == nil {
		return
	}
	for _, c := range data.AclContent {
		if rk := c.GetReadKeyChange(); rk != nil {
			out = append(out, rk)
		}
		if ar := c.GetAccountRemove(); ar != nil && ar.ReadKeyChange != nil {
			out = append(out, ar.ReadKeyChange)
		}
	}
	return
}

// blobsOf lists every ciphertext field of a record.
func blobsOf(root *aclrecordproto.AclRoot, data *aclrecordproto.AclData) (out []blob) {
	add := func(l string, b []byte) {
		if len(b) > 0 {
			out = append(out, blob{l, b})
		}
	}
	if root != nil {
		add("root.encryptedReadKey", root.EncryptedReadKey)
		add("root.encryptedMetadataPrivKey", root.EncryptedMetadataPrivKey)
		add("root.encryptedOwnerMetadata", root.EncryptedOwnerMetadata)
	}
	rk := func(p string, ch *aclrecordproto.AclReadKeyChange) {
		if ch == nil {
			return
		}
		for i, k := range ch.AccountKeys {
			add(fmt.Sprintf("%s.accountKeys[%d]", p, i), k.EncryptedReadKey)
		}
		for i, k := range ch.InviteKeys {
			add(fmt.Sprintf("%s.inviteKeys[%d]", p, i), k.EncryptedReadKey)
		}
		add(p+".encryptedMetadataPrivKey", ch.EncryptedMetadataPrivKey)
		add(p+".encryptedOldReadKey", ch.EncryptedOldReadKey)
	}
	if data != nil {
		for ci, c := range data.AclContent {
			p := fmt.Sprintf("content[%d]", ci)
			switch {
			case c.GetInvite() != nil:
				add(p+".invite.encryptedReadKey", c.GetInvite().EncryptedReadKey)
			case c.GetRequestJoin() != nil:
				add(p+".requestJoin.metadata", c.GetRequestJoin().Metadata)
			case c.GetRequestAccept() != nil:
				add(p+".requestAccept.encryptedReadKey", c.GetRequestAccept().EncryptedReadKey)
			case c.GetInviteJoin() != nil:
				add(p+".inviteJoin.encryptedReadKey", c.GetInviteJoin().EncryptedReadKey)
				add(p+".inviteJoin.metadata", c.GetInviteJoin().Metadata)
			case c.GetAccountsAdd() != nil:
				for i, a := range c.GetAccountsAdd().Additions {
					add(fmt.Sprintf("%s.accountsAdd[%d].encryptedReadKey", p, i), a.EncryptedReadKey)
					add(fmt.Sprintf("%s.accountsAdd[%d].metadata", p, i), a.Metadata)
				}
			case c.GetAccountRemove() != nil:
				rk(p+".accountRemove.readKeyChange", c.GetAccountRemove().ReadKeyChange)
			case c.GetReadKeyChange() != nil:
				rk(p+".readKeyChange", c.GetReadKeyChange())
			}
		}
	}
	return
}

// rawRecordCheck: the stored bytes of record r rotate the key iff the model says so, and
// a rotation carries ciphertexts for exactly the accounts active right after the record
// and exactly the live open invites.
func (e *env) rawRecordCheck(r int, data *aclrecordproto.AclData) error {
	w := e.w
	rots := rotationsOf(data)
	want := 0
	if r > 0 {
		want = w.M.GenAt[r] - w.M.GenAt[r-1]
	}
	if len(rots) != want {
		return fmt.Errorf("record %d (%s): stored bytes contain %d read-key changes, the op's meaning says %d", r, w.Steps[len(w.Steps)-1].Op.Kind, len(rots), want)
	}
	for _, rk := range rots {
		e.nRawRot++
		var got []int
		seen := map[int]bool{}
		for _, k := range rk.AccountKeys {
			i, ok := e.idOf[string(k.Identity)]
			if !ok {
				return fmt.Errorf("record %d: read-key change addresses an identity that is no account of the space: %x", r, k.Identity)
			}
			if seen[i] {
				return fmt.Errorf("record %d: read-key change addresses account %d twice", r, i)
			}
			seen[i] = true
			got = append(got, i)
			if len(k.EncryptedReadKey) == 0 {
				return fmt.Errorf("record %d: empty ciphertext for account %d", r, i)
			}
		}
		sort.Ints(got)
		// accounts active right after the record; an account that joins by a LATER content of the
		// same record (batch: removal + addition) is handed the new key by that content instead
		joinedLater := map[int]bool{}
		after := false
		for _, c := range data.AclContent {
			if c.GetReadKeyChange() == rk || (c.GetAccountRemove() != nil && c.GetAccountRemove().ReadKeyChange == rk) {
				after = true
				continue
			}
			if !after {
				continue
			}
			if ad := c.GetAccountsAdd(); ad != nil {
				for _, a := range ad.Additions {
					if i, ok := e.idOf[string(a.Identity)]; ok && len(a.EncryptedReadKey) > 0 {
						joinedLater[i] = true
					}
				}
			}
			if ac := c.GetRequestAccept(); ac != nil {
				if i, ok := e.idOf[string(ac.Identity)]; ok && len(ac.EncryptedReadKey) > 0 {
					joinedLater[i] = true
				}
			}
		}
		var exp []int
		for i := 0; i < w.N; i++ {
			if member(w.M.PermAt[i][r]) && !(joinedLater[i] && !member(w.M.PermAt[i][r-1])) {
				exp = append(exp, i)
			}
		}
		if len(joinedLater) > 0 {
			e.classes["rotation-and-join-in-one-record"] = true
		}
		if fmt.Sprint(got) != fmt.Sprint(exp) {
			return fmt.Errorf("record %d (op %+v): stored read-key change carries ciphertexts for accounts %v, the accounts active right after it are %v", r, w.Steps[len(w.Steps)-1].Op, got, exp)
		}
		var gotInv, expInv []string
		for _, k := range rk.InviteKeys {
			gotInv = append(gotInv, hex.EncodeToString(k.Identity))
		}
		// an open invite created by a LATER content of the same record (batch: removal + new
		// invite) does not exist yet when the rotation is applied; the invite content itself
		// must hand it the key
		createdLater := map[string]bool{}
		after = false
		for _, c := range data.AclContent {
			if c.GetReadKeyChange() == rk || (c.GetAccountRemove() != nil && c.GetAccountRemove().ReadKeyChange == rk) {
				after = true
				continue
			}
			if inv := c.GetInvite(); after && inv != nil {
				createdLater[hex.EncodeToString(inv.InviteKey)] = true
			}
		}
		for _, inv := range w.Invites {
			if inv.Live && inv.Anyone {
				b, err := inv.Key.GetPublic().Marshall()
				if err != nil {
					return err
				}
				if createdLater[hex.EncodeToString(b)] {
					e.classes["rotation-and-new-open-invite-in-one-record"] = true
					continue
				}
				expInv = append(expInv, hex.EncodeToString(b))
			}
		}
		sort.Strings(gotInv)
		sort.Strings(expInv)
		if fmt.Sprint(gotInv) != fmt.Sprint(expInv) {
			return fmt.Errorf("record %d (op %+v): stored read-key change carries ciphertexts for invite keys %v, the live open invites are %v", r, w.Steps[len(w.Steps)-1].Op, gotInv, expInv)
		}
		if len(expInv) > 0 {
			e.classes["rotation-with-live-open-invite"] = true
		}
	}
	return nil
}

func keyDigest(l list.AclList) string {
	st := l.AclState()
	var lines []string
	for id, k := range st.Keys() {
		s := "-"
		if k.ReadKey != nil {
			raw, _ := k.ReadKey.Raw()
			s = hex.EncodeToString(raw)
		}
		lines = append(lines, id+"="+s)
	}
	sort.Strings(lines)
	return strings.Join(lines, "\n") + "\ncur=" + st.CurrentReadKeyId()
}

type namedView struct {
	name string
	l    list.AclList
}

// buildViews: every account rebuilds its private view FROM THE RAW LOG with its own key,
// once with the fully validating verifier and once with the client verifier.
func (e *env) buildViews() error {
	w := e.w
	e.fresh = make([][]list.AclList, w.N)
	for i := 0; i < w.N; i++ {
		full, err := aclgen.NewList(w.Keys[i], w.Records, recordverifier.NewValidateFull())
		if err != nil {
			return fmt.Errorf("account %d (%s) cannot build its view from the raw log of %d records (full validation): %v", i, aclgen.PermNames[w.M.Perm[i]], len(w.Records), err)
		}
		e.fresh[i] = []list.AclList{full, nil}
		e.nViews++
		if w.AcceptorSign {
			cl, err := aclgen.NewList(w.Keys[i], w.Records, recordverifier.New(w.NetKey.GetPublic()))
			if err != nil {
				return fmt.Errorf("account %d (%s) cannot build its view from the raw log of %d records (client verifier): %v", i, aclgen.PermNames[w.M.Perm[i]], len(w.Records), err)
			}
			e.fresh[i][1] = cl
			e.nViews++
			e.classes["client-verifier-view"] = true
		}
	}
	return nil
}

func (e *env) viewsOf(i int) []namedView {
	vs := []namedView{{"incrementally maintained list", e.w.Lists[i]}, {"view rebuilt from the raw log (full validation)", e.fresh[i][0]}}
	if e.fresh[i][1] != nil {
		vs = append(vs, namedView{"view rebuilt from the raw log (client verifier)", e.fresh[i][1]})
	}
	return vs
}

func (e *env) opText() string {
	if len(e.w.Steps) == 0 {
		return "root"
	}
	return fmt.Sprintf("%+v", e.w.Steps[len(e.w.Steps)-1].Op)
}

// keyOracle is the statement's first sentence, for every account and every view.
func (e *env) keyOracle(r int) error {
	w := e.w
	cur := e.gens[len(e.gens)-1]
	// members first, so that the agreed key bytes of a new generation are known
	for pass := 0; pass < 2; pass++ {
		for i := 0; i < w.N; i++ {
			isMember := member(w.M.Perm[i])
			if isMember != (pass == 0) {
				continue
			}
			lastHeld := e.lastHeld(i)
			var firstDigest string
			for vi, v := range e.viewsOf(i) {
				st := v.l.AclState()
				if got := int(st.Permissions(e.pub(i))); got != w.M.Perm[i] {
					return fmt.Errorf("MODEL/IMPLEMENTATION MISMATCH after record %d (%s): account %d has permission %s in its %s, the reference model says %s", r, e.opText(), i, aclgen.PermNames[got], v.name, aclgen.PermNames[w.M.Perm[i]])
				}
				d := keyDigest(v.l)
				if vi == 0 {
					firstDigest = d
				} else if d != firstDigest {
					return fmt.Errorf("after record %d (%s): account %d's %s disagrees with its incrementally maintained list on the keys it holds:\n%s\n--- vs ---\n%s", r, e.opText(), i, v.name, d, firstDigest)
				}
				keys := st.Keys()
				if isMember {
					if st.CurrentReadKeyId() != cur.id {
						return fmt.Errorf("after record %d (%s): member %d's %s names %s as the current read key id, the generation in force was introduced by record %d (%s)", r, e.opText(), i, v.name, st.CurrentReadKeyId(), cur.rec, cur.id)
					}
					for gi, g := range e.gens {
						k, ok := keys[g.id]
						if !ok || k.ReadKey == nil {
							return fmt.Errorf("after record %d (%s): account %d holds permission %s but its %s has NO read key for generation %d/%d (introduced by record %d); member since record %d", r, e.opText(), i, aclgen.PermNames[w.M.Perm[i]], v.name, gi+1, len(e.gens), g.rec, e.memberSince(i))
						}
						raw, err := k.ReadKey.Raw()
						if err != nil {
							return err
						}
						if t, ok := e.truth[g.id]; !ok {
							e.truth[g.id] = append([]byte(nil), raw...)
						} else if !bytes.Equal(t, raw) {
							return fmt.Errorf("after record %d (%s): account %d's %s holds key bytes for generation %d that differ from the bytes other members hold", r, e.opText(), i, v.name, gi+1)
						}
						e.nPos++
					}
					if ck, err := st.CurrentReadKey(); err != nil || ck == nil {
						return fmt.Errorf("after record %d: member %d's %s: CurrentReadKey() = %v, %v", r, i, v.name, ck, err)
					}
				} else {
					for gi, g := range e.gens {
						if g.rec <= lastHeld {
							continue
						}
						if k, ok := keys[g.id]; ok && k.ReadKey != nil {
							return fmt.Errorf("after record %d (%s): account %d holds no permission (last held one after record %d) but its %s HAS the read key of generation %d, introduced later by record %d", r, e.opText(), i, lastHeld, v.name, gi+1, g.rec)
						}
						e.nNeg++
						if lastHeld >= 0 {
							e.removedChecked = true
						}
					}
					if lastHeld < 0 {
						e.classes["never-member-view-checked"] = true
					} else {
						e.classes["removed-view-checked"] = true
					}
				}
			}
		}
	}
	for _, g := range e.gens {
		if _, ok := e.truth[g.id]; !ok {
			return fmt.Errorf("after record %d: no member holds generation introduced by record %d", r, g.rec)
		}
	}
	return nil
}

func (e *env) memberSince(i int) int {
	pa := e.w.M.PermAt[i]
	r := len(pa) - 1
	for r > 0 && member(pa[r-1]) {
		r--
	}
	return r
}

// attack: with everything the attacker legitimately holds, try to open every ciphertext of
// the record; nothing may contain the key bytes of a forbidden generation.
func (e *env) attack(a *attacker, r int, blobs []blob, forbidden []gen) error {
	examine := func(p []byte, how string, b blob) (bool, error) {
		for _, g := range forbidden {
			if t := e.truth[g.id]; len(t) > 0 && bytes.Contains(p, t) {
				return false, fmt.Errorf("%s derives the read key of the generation introduced by record %d, which it must not know: %s opens %s of record %d (%s)", a.name, g.rec, how, b.label, r, e.opText())
			}
		}
		if k, err := crypto.UnmarshallAESKeyProto(p); err == nil {
			raw, _ := k.Raw()
			h := hex.EncodeToString(raw)
			if _, ok := a.syms[h]; !ok {
				a.syms[h] = k
				return true, nil
			}
		}
		return false, nil
	}
	for round := 0; round < 8; round++ {
		grew := false
		var symOrder []string
		for h := range a.syms {
			symOrder = append(symOrder, h)
		}
		sort.Strings(symOrder)
		for _, b := range blobs {
			if round == 0 && a.priv != nil && len(b.data) >= 48 {
				e.nAttack++
				if p, ok := safeDecrypt(a.priv.Decrypt, b.data); ok {
					e.nAttackOpen++
					g, err := examine(p, "its private key", b)
					if err != nil {
						return err
					}
					grew = grew || g
				}
			}
			for _, h := range symOrder {
				e.nAttack++
				if p, ok := safeDecrypt(a.syms[h].Decrypt, b.data); ok {
					e.nAttackOpen++
					g, err := examine(p, "a read key it holds", b)
					if err != nil {
						return err
					}
					grew = grew || g
				}
			}
		}
		if !grew {
			break
		}
	}
	return nil
}

func (e *env) attacks(r int, blobs []blob) error {
	w := e.w
	for i := 0; i < w.N; i++ {
		if member(w.M.Perm[i]) {
			continue
		}
		lastHeld := e.lastHeld(i)
		a := &attacker{name: fmt.Sprintf("account %d (no permission since record %d)", i, lastHeld+1), priv: w.Keys[i].SignKey, syms: map[string]crypto.SymKey{}}
		var forbidden []gen
		for _, g := range e.gens {
			if g.rec > lastHeld {
				forbidden = append(forbidden, g)
			} else if k, err := crypto.UnmarshallAESKey(e.truth[g.id]); err == nil {
				a.syms[hex.EncodeToString(e.truth[g.id])] = k
			}
		}
		for _, k := range e.fresh[i][0].AclState().Keys() {
			if k.ReadKey != nil {
				raw, _ := k.ReadKey.Raw()
				a.syms[hex.EncodeToString(raw)] = k.ReadKey
			}
		}
		if err := e.attack(a, r, blobs, forbidden); err != nil {
			return err
		}
	}
	// the chain old-key-under-new-key of every rotation so far
	for _, b := range blobs {
		if strings.HasSuffix(b.label, ".encryptedOldReadKey") {
			e.oldKeyBlobs = append(e.oldKeyBlobs, b)
		}
	}
	// live open invites: only what their key holder can derive is accumulated here — it is what
	// the holder legitimately knows once the invite is revoked. Nothing is demanded of a live
	// invite: an invite is not an account holding a permission (whether a join through it
	// succeeds is outside the statement; an ACCEPTED join is judged by the member oracles).
	for _, it := range e.invList {
		if !it.inv.Anyone || !it.inv.Live {
			continue
		}
		if it.att == nil {
			it.att = &attacker{name: fmt.Sprintf("the holder of the open invite key created by record %d", it.created), priv: it.inv.Key, syms: map[string]crypto.SymKey{}}
		}
		if err := e.attack(it.att, r, blobs, nil); err != nil {
			return err
		}
		if err := e.attack(&attacker{name: it.att.name, syms: it.att.syms}, r, e.oldKeyBlobs, nil); err != nil {
			return err
		}
	}
	// revoked open invites: the holder of the invite key
	for _, it := range e.invList {
		if !it.inv.Anyone {
			continue
		}
		if it.inv.Live {
			continue
		}
		if it.revokedAt < 0 {
			it.revokedAt = r
			if it.att == nil { // created and revoked without ever being seen live
				it.att = &attacker{priv: it.inv.Key, syms: map[string]crypto.SymKey{}}
				for q := it.created; q < r; q++ {
					root, data, err := decodeRecord(w.Records[q], q == 0)
					if err != nil {
						return err
					}
					if err := e.attack(it.att, q, blobsOf(root, data), nil); err != nil {
						return err
					}
				}
			}
			// what it legitimately knows: everything it derived from the records while it was live
			it.att.name = fmt.Sprintf("the holder of the open invite key revoked by record %d", r)
			if len(it.att.syms) == 0 {
				return fmt.Errorf("HARNESS: the holder of a live open invite key (created by record %d) could not derive any read key before its revocation at record %d", it.created, r)
			}
		}
		var forbidden []gen
		for _, g := range e.gens {
			if g.rec >= it.revokedAt {
				forbidden = append(forbidden, g)
			}
		}
		if len(forbidden) > 0 {
			e.classes["revoked-invite-attacked-on-later-generation"] = true
			e.removedChecked = true
		}
		if err := e.attack(it.att, r, blobs, forbidden); err != nil {
			return err
		}
	}
	return nil
}

// afterRecord runs every ACL-side oracle after an accepted record (and after the root).
func (e *env) afterRecord() error {
	w := e.w
	r := len(w.Records) - 1
	if len(w.M.GenAt) != r+1 {
		return fmt.Errorf("HARNESS: model snapshots %d != records %d", len(w.M.GenAt), r+1)
	}
	if r == 0 {
		e.gens = []gen{{w.Records[0].Id, 0}}
	} else {
		switch w.M.GenAt[r] - w.M.GenAt[r-1] {
		case 0:
		case 1:
			e.gens = append(e.gens, gen{w.Records[r].Id, r})
		default:
			return fmt.Errorf("HARNESS: generation jump at record %d", r)
		}
	}
	for i, s := range w.Stuck {
		if s {
			return fmt.Errorf("after record %d (%s): account %d's own list rejected a builder-made record every other replica accepted (it could not unpack the key material addressed to it)", r, e.opText(), i)
		}
	}
	for _, inv := range w.Invites {
		if _, ok := e.invites[inv]; !ok {
			it := &inviteTrack{inv: inv, created: r, revokedAt: -1}
			e.invites[inv] = it
			e.invList = append(e.invList, it)
		}
	}
	root, data, err := decodeRecord(w.Records[r], r == 0)
	if err != nil {
		return fmt.Errorf("record %d does not decode: %v", r, err)
	}
	if err := e.rawRecordCheck(r, data); err != nil {
		return err
	}
	if err := e.buildViews(); err != nil {
		return err
	}
	if err := e.keyOracle(r); err != nil {
		return err
	}
	if err := e.attacks(r, blobsOf(root, data)); err != nil {
		return err
	}
	e.classify(r)
	return nil
}

// classify labels the shapes the history has exercised so far (from the model only).
func (e *env) classify(r int) {
	w := e.w
	if r == 0 {
		return
	}
	op := w.Steps[len(w.Steps)-1].Op
	rotated := w.M.GenAt[r] > w.M.GenAt[r-1]
	e.classes["op-"+op.Kind] = true
	for i := 0; i < w.N; i++ {
		before, after := w.M.PermAt[i][r-1], w.M.PermAt[i][r]
		switch {
		case !member(before) && member(after):
			// a join of any kind
			if len(e.gens) >= 3 {
				e.classes["joiner-unwraps>=2-generations"] = true
			}
			wasMember := false
			for q := 0; q < r-1; q++ {
				if member(w.M.PermAt[i][q]) {
					wasMember = true
				}
			}
			if wasMember {
				e.classes["re-add"] = true
				// generations introduced while it was out
				out := r - 1
				for out > 0 && !member(w.M.PermAt[i][out-1]) {
					out--
				}
				missed := 0
				for _, g := range e.gens {
					if g.rec >= out {
						missed++
					}
				}
				if missed >= 2 {
					e.classes["re-add-regains>=2-missed-generations"] = true
				}
			}
			switch op.Kind {
			case "invite_join":
				e.classes["join-by-open-invite"] = true
				// the invite used: created before the generation in force?
				for _, it := range e.invList {
					if it.inv.Anyone && it.inv.Live && it.created < e.gens[len(e.gens)-1].rec {
						e.classes["open-invite-join-after-rotation"] = true
					}
					if it.inv.Anyone && it.inv.Live && it.created > 0 && w.M.GenAt[it.created] > w.M.GenAt[it.created-1] {
						e.classes["join-through-invite-created-by-removal-batch"] = true
					}
				}
			case "accept":
				e.classes["join-by-request-accept"] = true
			case "add", "add2":
				e.classes["direct-add"] = true
			case "batch":
				e.classes["join-inside-batch"] = true
			}
		case member(before) && !member(after):
			e.classes["removal"] = true
			if w.M.PendingRemove[i] == "" && e.hadLeaveRequest[i] {
				e.classes["leave-request-then-removal"] = true
			}
			e.hadLeaveRequest[i] = false
		case member(before) && member(after) && before != after:
			e.classes["permission-change-among-members"] = true
		}
	}
	if op.Kind == "request_remove" {
		e.hadLeaveRequest[mod(op.Actor, w.N)] = true
	}
	if op.Kind == "cancel" {
		e.hadLeaveRequest[mod(op.Actor, w.N)] = false
	}
	if rotated {
		switch op.Kind {
		case "read_key_change":
			e.classes["stand-alone-rotation"] = true
		case "invite_revoke_rotate":
			e.classes["revoke-with-rotation"] = true
		}
		for _, it := range e.invList {
			if it.inv.Anyone && it.inv.Live && it.created < r {
				e.classes["open-invite-alive-across-rotation"] = true
			}
		}
		for i := 0; i < w.N; i++ {
			if w.M.PendingJoin[i] != "" {
				e.classes["join-request-pending-across-rotation"] = true
			}
		}
	}
}
