package c05

import (
	"context"
	"sort"

	anystore "github.com/anyproto/any-store"
	"github.com/anyproto/any-sync/commonspace/object/tree/objecttree"
	"github.com/anyproto/any-sync/commonspace/object/tree/treechangeproto"
	"github.com/anyproto/lexid"
)

// memStorage is an in-memory objecttree.Storage with the semantics of the any-store one
// (unique ids, all-or-nothing AddAll, iteration in order-id order). The long-lived member
// trees that only RECEIVE transmitted changes live on it: a real database per account and
// case costs more than the rest of the case. Everything that is asserted about STORED bytes
// reads the real any-store storage of the replica (tree_test.go).
var memLexId = lexid.Must(lexid.CharsAllNoEscape, 4, 100)

type memStorage struct {
	id       string
	root     objecttree.StorageChange
	changes  map[string]objecttree.StorageChange
	heads    []string
	snapshot string
	seq      uint64
}

func newMemStorage(root *treechangeproto.RawTreeChangeWithId) *memStorage {
	rc := objecttree.StorageChange{RawChange: append([]byte(nil), root.RawChange...), Id: root.Id, SnapshotCounter: 1, OrderId: memLexId.Next(""), TreeId: root.Id, ChangeSize: len(root.RawChange)}
	// like the real storage: the root gets the first lexid, the tree assigns the later ones from it
	return &memStorage{id: root.Id, root: rc, changes: map[string]objecttree.StorageChange{root.Id: rc}, heads: []string{root.Id}, snapshot: root.Id}
}

func (s *memStorage) Id() string { return s.id }
func (s *memStorage) Root(context.Context) (objecttree.StorageChange, error) {
	return s.root, nil
}
func (s *memStorage) Heads(context.Context) ([]string, error) {
	return append([]string(nil), s.heads...), nil
}
func (s *memStorage) CommonSnapshot(context.Context) (string, error) { return s.snapshot, nil }
func (s *memStorage) Has(_ context.Context, id string) (bool, error) {
	_, ok := s.changes[id]
	return ok, nil
}
func (s *memStorage) Get(_ context.Context, id string) (objecttree.StorageChange, error) {
	c, ok := s.changes[id]
	if !ok {
		return objecttree.StorageChange{}, anystore.ErrDocNotFound
	}
	return c, nil
}
func (s *memStorage) sorted(pred func(objecttree.StorageChange) bool) []objecttree.StorageChange {
	var out []objecttree.StorageChange
	for _, c := range s.changes {
		if pred(c) {
			out = append(out, c)
		}
	}
	sort.Slice(out, func(i, j int) bool { return out[i].OrderId < out[j].OrderId })
	return out
}
func (s *memStorage) GetAfterOrder(ctx context.Context, orderId string, it objecttree.StorageIterator) error {
	for _, c := range s.sorted(func(c objecttree.StorageChange) bool { return c.OrderId >= orderId }) {
		cont, err := it(ctx, c)
		if !cont {
			return err
		}
	}
	return nil
}
func (s *memStorage) GetAfterAddSeq(ctx context.Context, addSeq uint64, it objecttree.StorageIterator) error {
	for _, c := range s.sorted(func(c objecttree.StorageChange) bool { return c.AddSeq > addSeq }) {
		cont, err := it(ctx, c)
		if !cont {
			return err
		}
	}
	return nil
}
func (s *memStorage) add(changes []objecttree.StorageChange, heads []string, snapshot string, dupOk bool) error {
	if !dupOk {
		for _, c := range changes {
			if _, ok := s.changes[c.Id]; ok {
				return anystore.ErrDocExists
			}
		}
	}
	s.seq++
	for _, c := range changes {
		if _, ok := s.changes[c.Id]; ok {
			continue
		}
		c.RawChange = append([]byte(nil), c.RawChange...)
		c.AddSeq, c.TreeId = s.seq, s.id
		s.changes[c.Id] = c
	}
	s.heads, s.snapshot = append([]string(nil), heads...), snapshot
	return nil
}
func (s *memStorage) AddAll(_ context.Context, changes []objecttree.StorageChange, heads []string, snapshot string) error {
	return s.add(changes, heads, snapshot, false)
}
func (s *memStorage) AddAllNoError(_ context.Context, changes []objecttree.StorageChange, heads []string, snapshot string) error {
	return s.add(changes, heads, snapshot, true)
}
func (s *memStorage) Delete(context.Context) error {
	s.changes = map[string]objecttree.StorageChange{}
	return nil
}
func (s *memStorage) Close() error { return nil }
