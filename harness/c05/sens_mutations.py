#!/usr/bin/env python3
"""Sensitivity edits for C05 (see SENSITIVITY.md).

  python3 sens_mutations.py <name>    writes /tmp/mut/c05<name>.diff, a diff against /repo HEAD made of
                                      (proposed_fix_*.diff not yet in HEAD) + the one breaking edit <name>
  then:  /verif/senstest.sh C05 quick /tmp/mut/c05<name>.diff      (exit 1 = caught)

The proposed fixes ride along because the check (rightly) fires on HEAD until they are committed or
listed in known_findings.json; `none` = fixes only (must be silent)."""
import subprocess, sys, os
WT = '/tmp/wt-c05mut-%d' % os.getpid()
HERE = os.path.dirname(os.path.abspath(__file__))
ACL = 'commonspace/object/acl/list/'
TREE = 'commonspace/object/tree/objecttree/'


def sh(*a):
    return subprocess.run(a, check=True, text=True, stdout=subprocess.PIPE).stdout


def rep(path, old, new):
    p = os.path.join(WT, path)
    s = open(p).read()
    assert s.count(old) >= 1, (path, old[:70])
    open(p, 'w').write(s.replace(old, new, 1))


def a():  # (a) buildReadKeyChange includes removed identities
    rep(ACL + 'aclrecordbuilder.go', '''		if removedIdentities != nil {
			if _, exists := removedIdentities[identity]; exists {
				continue
			}
		}
''', '''		_ = identity
''')


def a2():  # (a) + the validator agrees with the broken builder (does not exclude the removed either)
    a()
    rep(ACL + 'validator.go', '''		if _, exists := removedUsers[pubKey]; exists {
			continue
		}
''', '')


def b():  # (b) validateReadKeyChange compares lengths only
    rep(ACL + 'validator.go', '''	if !slices.Equal(activeUsers, updatedUsers) || !slices.Equal(activeInvites, updatedInvites) {
		return ErrIncorrectNumberOfAccounts
	}
''', '')


def c():  # (c) unpackAllKeys stops one generation early
    rep(ACL + 'aclstate.go', 'for idx := len(st.readKeyChanges) - 1; idx >= 0; idx-- {\n\t\trecId := st.readKeyChanges[idx]\n\t\tkeys := st.keys[recId]\n\t\tmetadataKey',
        'for idx := len(st.readKeyChanges) - 1; idx >= 1; idx-- {\n\t\trecId := st.readKeyChanges[idx]\n\t\tkeys := st.keys[recId]\n\t\tmetadataKey')


def d():  # (d) Build falls back to plaintext on nil key
    rep(TREE + 'changebuilder.go', '''		if payload.ReadKey == nil {
			err = ErrMissingEncryptKey
			return
		}
		var encrypted []byte
		encrypted, err = payload.ReadKey.Encrypt(payload.Content)
		if err != nil {
			return
		}
		change.ChangesData = encrypted''', '''		if payload.ReadKey == nil {
			change.ChangesData = payload.Content
		} else {
			var encrypted []byte
			encrypted, err = payload.ReadKey.Encrypt(payload.Content)
			if err != nil {
				return
			}
			change.ChangesData = encrypted
		}''')


def d2():  # the tree itself does not insist on a key (ErrMissingKey dropped); Build still refuses
    rep(TREE + 'objecttree.go', '''		if ot.currentReadKey == nil {
			err = ErrMissingKey
			return
		}
		readKey = ot.currentReadKey''', '''		if ot.currentReadKey != nil {
			readKey = ot.currentReadKey
		} else {
			cnt.Unencrypted = true
		}''')
    rep(TREE + 'objecttree.go', '''		Unencrypted:    !content.ShouldBeEncrypted,''', '''		Unencrypted:    !content.ShouldBeEncrypted || cnt.Unencrypted,''')


def e():  # (e) tree uses the space key without per-tree derivation
    rep(TREE + 'objecttree.go', '''		treeKey, err := deriver.DeriveKey(raw)
		if err != nil {
			return err
		}
		ot.keys[key] = treeKey''', '''		_ = raw
		ot.keys[key] = value.ReadKey''')
    rep(TREE + 'objecttree.go', '''	ot.currentReadKey, err = deriveTreeKey(curKey, ot.id)
	return err''', '''	ot.currentReadKey = curKey
	return nil''')
    rep(TREE + 'objecttree.go', 'deriver := crypto.NewKeyDeriver(fmt.Sprintf(crypto.AnysyncTreePath, ot.id))', '')


def f():  # own: the validator forgets to compare the open invites of a rotation
    rep(ACL + 'validator.go', 'if !slices.Equal(activeUsers, updatedUsers) || !slices.Equal(activeInvites, updatedInvites) {',
        'if !slices.Equal(activeUsers, updatedUsers) {')


def g():  # own: the tree caches its current key and never refreshes it after a rotation
    rep(TREE + 'objecttree.go', '''	if derived, ok := ot.keys[curKeyId]; ok {
		ot.currentReadKey = derived
		return nil
	}''', '''	if derived, ok := ot.keys[curKeyId]; ok {
		if ot.currentReadKey == nil {
			ot.currentReadKey = derived
		}
		return nil
	}''')


def h():  # own: the keep-only-ours partial decode (client verifier) keeps the others' entries, drops ours
    rep(ACL + 'keepidentity.go', '''			if keep {
				ek := &aclrecordproto.AclEncryptedReadKey{}''', '''			if !keep {
				ek := &aclrecordproto.AclEncryptedReadKey{}''')


def i():  # own: a rotation re-encrypts for the open invites but the state keeps the invite's OLD ciphertext
    rep(ACL + 'aclstate.go', '''				invite.encryptedReadKey = encKey.EncryptedReadKey
				st.invites[key] = invite''', '''				st.invites[key] = invite''')


def j():  # own: request-accept hands the joiner only the current generation (no backward unwrapping)
    rep(ACL + 'aclstate.go', '''	if st.pubKey.Equals(acceptIdentity) {
		return st.unpackAllKeys(ch.EncryptedReadKey)
	}''', '''	if st.pubKey.Equals(acceptIdentity) {
		rk, err := st.unmarshallDecryptReadKey(ch.EncryptedReadKey, st.key.Decrypt)
		if err != nil {
			return err
		}
		cur := st.keys[st.CurrentReadKeyId()]
		cur.ReadKey = rk
		st.keys[st.CurrentReadKeyId()] = cur
	}''')


def k():  # own: revoke-with-rotation does not withhold the new key from the invite being revoked,
    # and the revoke is laid out after the rotation so that the record still validates
    rep(ACL + 'aclrecordbuilder.go', '''		rkChange, err = a.buildReadKeyChange(*payload.ReadKeyChange, nil, revoked)''', '''		_ = revoked
		rkChange, err = a.buildReadKeyChange(*payload.ReadKeyChange, nil, nil)''')
    # move the rotation in front of everything: build it first
    rep(ACL + 'aclrecordbuilder.go', '''		contentList = append(contentList, &aclrecordproto.AclContentValue{
			Value: &aclrecordproto.AclContentValue_ReadKeyChange{ReadKeyChange: rkChange},
		})''', '''		contentList = append([]*aclrecordproto.AclContentValue{{
			Value: &aclrecordproto.AclContentValue_ReadKeyChange{ReadKeyChange: rkChange},
		}}, contentList...)''')


def none():
    pass


MUTS = dict(a=a, a2=a2, b=b, c=c, d=d, d2=d2, e=e, f=f, g=g, h=h, i=i, j=j, k=k, none=none)

if __name__ == '__main__':
    name = sys.argv[1]
    sh('git', '-C', '/repo', 'worktree', 'add', '-q', '--detach', WT, 'HEAD')
    try:
        for fx in sorted(x for x in os.listdir(HERE) if x.startswith('proposed_fix_') and x.endswith('.diff')):
            r = subprocess.run(['git', '-C', WT, 'apply', '--whitespace=nowarn', os.path.join(HERE, fx)], stderr=subprocess.PIPE, text=True)
            print(fx, 'applied' if r.returncode == 0 else 'not applied (already in HEAD?)')
        MUTS[name]()
        out = sh('git', '-C', WT, 'diff')
        os.makedirs('/tmp/mut', exist_ok=True)
        open('/tmp/mut/c05%s.diff' % name, 'w').write(out)
        print('wrote /tmp/mut/c05%s.diff (%d bytes)' % (name, len(out)))
    finally:
        subprocess.run(['git', '-C', '/repo', 'worktree', 'remove', '--force', WT])
