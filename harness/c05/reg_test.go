package c05

import (
	"testing"

	"verif/harness/internal/aclgen"
	"verif/harness/internal/vstat"
)

func o(kind string, actor, target, perm int) Step {
	return Step{Op: &aclgen.Op{Kind: kind, Actor: actor, Target: target, Perm: perm}}
}
func oref(kind string, actor, ref, perm int) Step {
	return Step{Op: &aclgen.Op{Kind: kind, Actor: actor, Ref: ref, Perm: perm}}
}
func wr(author int) Step { return Step{W: &Write{Author: author, Len: 40}} }

func one(t *testing.T, c Case) {
	outerT = t
	openReal(t)
	vstat.One(t, prop, c, run)
}

// TestRegReAddedAuthor: an account writes, is removed, and is added again by a direct add.
// Every member must still be able to build the tree holding its earlier change.
func TestRegReAddedAuthor(t *testing.T) {
	one(t, Case{Seed: 11, N: 3, Sign: true, Steps: []Step{
		o("add", 0, 1, aclgen.Writer),
		wr(1),
		o("remove", 0, 1, 0),
		o("add", 0, 1, aclgen.Writer),
		wr(1),
	}})
}

// TestRegBatchRemoveRevokesOpenInvite: one record removes a member and revokes an open invite.
// The generation that record introduces must not be handed to the invite it revokes.
func TestRegBatchRemoveRevokesOpenInvite(t *testing.T) {
	one(t, Case{Seed: 12, N: 3, Sign: true, Steps: []Step{
		oref("invite_anyone", 0, 0, aclgen.Writer),
		o("add", 0, 1, aclgen.Writer),
		{Op: &aclgen.Op{Kind: "batch", Actor: 0, Sub: []aclgen.Op{{Kind: "remove", Target: 1}, {Kind: "invite_revoke", Ref: -1}}}},
		wr(0),
	}})
}

// ---- hand-picked corner cases: one per class the design names ------------------------------

func mustClasses(t *testing.T, c Case, want ...string) {
	t.Helper()
	outerT = t
	openReal(t)
	o, err := run(c)
	if err != nil {
		vstat.One(t, prop, c, run) // records the violation + replay file
		return
	}
	have := map[string]bool{}
	for _, cl := range o.Classes {
		have[cl] = true
	}
	for _, cl := range want {
		if !have[cl] {
			t.Errorf("HARNESS: scenario did not reach class %q (classes %v)", cl, o.Classes)
		}
	}
	if !o.NonTrivial {
		t.Errorf("HARNESS: scenario is not non-trivial")
	}
	vstat.Record(t.Name(), o, func() any { return c })
}

// re-add after removal by request + accept: the account regains every generation, including the
// ones introduced while it was out.
func TestRegReAddRegainsAllGenerations(t *testing.T) {
	mustClasses(t, Case{Seed: 21, N: 4, Sign: true, Steps: []Step{
		o("add", 0, 1, aclgen.Writer), o("add", 0, 2, aclgen.Reader),
		wr(1),
		o("remove", 0, 2, 0), o("read_key_change", 0, 0, 0), wr(0), o("read_key_change", 0, 0, 0),
		oref("invite", 0, 0, 0), oref("request_join", 2, -1, 0), o("accept", 0, 2, aclgen.Writer),
		wr(2), wr(1),
	}}, "re-add", "re-add-regains>=2-missed-generations", "joiner-unwraps>=2-generations", "join-by-request-accept", "tree-writer-was-re-added", "tree-content-under-several-generations")
}

// an open invite stays alive across a removal and a stand-alone rotation; the account that
// joins through it afterwards gets the current key and every earlier one.
func TestRegOpenInviteAcrossRotation(t *testing.T) {
	mustClasses(t, Case{Seed: 22, N: 4, Sign: true, Steps: []Step{
		oref("invite_anyone", 0, 0, aclgen.Writer), o("add", 0, 1, aclgen.Writer), wr(1),
		o("remove", 0, 1, 0), o("read_key_change", 0, 0, 0), wr(0),
		oref("invite_join", 2, -1, 0), wr(2),
		oref("invite_join", 1, -1, 0), wr(1),
	}}, "open-invite-alive-across-rotation", "open-invite-join-after-rotation", "rotation-with-live-open-invite", "joiner-unwraps>=2-generations", "re-add")
}

// revoke with rotation: the holder of the revoked invite key is attacked on the generation the
// revoke introduces and on a later one.
func TestRegRevokeWithRotation(t *testing.T) {
	mustClasses(t, Case{Seed: 23, N: 4, Sign: true, Steps: []Step{
		oref("invite_anyone", 0, 0, aclgen.Reader), oref("invite_join", 1, -1, 0), wr(0),
		oref("invite_revoke_rotate", 0, -1, 0), wr(0),
		oref("invite_join", 2, -1, 0), // refused: the invite is gone
		o("read_key_change", 0, 0, 0), wr(0),
	}}, "revoke-with-rotation", "revoked-invite-attacked-on-later-generation", "stand-alone-rotation")
}

// leave request + removal, by an admin that joined through a request made two generations ago.
func TestRegLeaveRequestFlow(t *testing.T) {
	mustClasses(t, Case{Seed: 24, N: 5, Sign: false, Steps: []Step{
		oref("invite", 0, 0, 0), oref("request_join", 1, -1, 0),
		o("read_key_change", 0, 0, 0), o("read_key_change", 0, 0, 0),
		o("accept", 0, 1, aclgen.Admin), o("add", 1, 2, aclgen.Writer), wr(2),
		o("request_remove", 2, 0, 0), wr(2), o("remove", 1, 2, 0), wr(1),
		o("perm_change", 0, 1, aclgen.Reader),
	}}, "leave-request-then-removal", "join-request-pending-across-rotation", "joiner-unwraps>=2-generations", "permission-change-among-members", "removed-view-checked", "tree-removed-account-cannot-write")
}

// removal + addition in one record; ownership handed over; the old owner removed.
func TestRegBatchAndOwnership(t *testing.T) {
	mustClasses(t, Case{Seed: 25, N: 5, Sign: true, Steps: []Step{
		o("add", 0, 1, aclgen.Admin), o("add", 0, 2, aclgen.Writer),
		{Op: &aclgen.Op{Kind: "batch", Actor: 0, Sub: []aclgen.Op{{Kind: "remove", Target: 2}, {Kind: "add", Target: 3, Perm: aclgen.Writer}}}},
		wr(2),
		{Op: &aclgen.Op{Kind: "ownership", Actor: 0, Target: 1, Perm: aclgen.Writer}},
		o("remove", 1, 0, 0), wr(0), wr(1),
	}}, "rotation-and-join-in-one-record", "op-ownership", "removal")
}

// rotations with the right number of wrong recipients are rejected, in a state with members,
// a removed account, a never-admitted account and a live open invite.
func TestRegForgedRotationsRejected(t *testing.T) {
	f := func(d, x, v int) Step { return Step{F: &ForgeRot{Drop: d, Add: x, Variant: v}} }
	mustClasses(t, Case{Seed: 26, N: 5, Sign: true, Steps: []Step{
		o("add", 0, 1, aclgen.Writer), o("add", 0, 2, aclgen.Reader), o("add", 0, 3, aclgen.Writer),
		oref("invite_anyone", 0, 0, aclgen.Reader),
		o("remove", 0, 3, 0),
		f(0, 0, 0), f(1, 1, 0), f(0, 0, 1), f(1, 2, 1), f(0, 0, 2),
		wr(1), o("read_key_change", 0, 0, 0), wr(0),
	}}, "forged-rotation-wrong-recipients-v0-rejected", "forged-rotation-wrong-recipients-v1-rejected", "forged-rotation-wrong-recipients-v2-rejected")
}

// TestRegBatchRemoveWithNewOpenInvite: one record removes a member (rotating the key) and
// creates an open invite. WHENEVER a join through that invite is accepted, the joiner derives
// the current key and every earlier one, content written afterwards decrypts for it and its
// own content decrypts for the others. (Observation outside the statement: on the pinned tree
// the invite embeds the pre-rotation key, the first join is refused by the joiner's own
// builder, and only the next rotation re-keys the invite; the scenario therefore joins again
// after a rotation. Nothing is demanded of the refused join.)
// Control: the same with the invite created before the batch.
func TestRegBatchRemoveWithNewOpenInvite(t *testing.T) {
	mustClasses(t, Case{Seed: 31, N: 4, Sign: true, Steps: []Step{
		o("add", 0, 1, aclgen.Writer), wr(1),
		{Op: &aclgen.Op{Kind: "batch", Actor: 0, Sub: []aclgen.Op{{Kind: "remove", Target: 1}, {Kind: "new_invite", Perm: aclgen.Writer}}}},
		wr(0),
		oref("invite_join", 2, -1, 0),
		wr(1),
		o("read_key_change", 0, 0, 0),
		oref("invite_join", 2, -1, 0), // refused if the first one was accepted
		wr(1), wr(0),
	}}, "rotation-and-new-open-invite-in-one-record", "join-through-invite-created-by-removal-batch")
}

func TestRegBatchRemoveWithEarlierOpenInvite(t *testing.T) {
	mustClasses(t, Case{Seed: 32, N: 4, Sign: true, Steps: []Step{
		o("add", 0, 1, aclgen.Writer), wr(1),
		oref("invite_anyone", 0, 0, aclgen.Writer),
		{Op: &aclgen.Op{Kind: "batch", Actor: 0, Sub: []aclgen.Op{{Kind: "remove", Target: 1}, {Kind: "add", Target: 3, Perm: aclgen.Reader}}}},
		wr(0),
		oref("invite_join", 2, -1, 0),
		wr(1), wr(0),
	}}, "open-invite-join-after-rotation", "rotation-with-live-open-invite")
}

// an account's open tree keeps receiving changes while the account is out; the account is
// admitted again without another rotation and writes (first scenario) or reads (second: another
// member writes first) through that same tree object.
func TestRegReadmittedOpenTree(t *testing.T) {
	wp := func(acc int) Step { return Step{W: &Write{Author: 0, Len: 40, Pref: acc + 1}} }
	mustClasses(t, Case{Seed: 41, N: 4, Sign: true, Steps: []Step{
		o("add", 0, 1, aclgen.Writer), o("add", 0, 2, aclgen.Writer), wp(1),
		o("remove", 0, 1, 0), wp(2), wp(0),
		o("add", 0, 1, aclgen.Writer),
		wp(1), wp(2),
		o("remove", 0, 2, 0), wp(0),
		oref("invite", 0, 0, 0), oref("request_join", 2, -1, 0), o("accept", 0, 2, aclgen.Writer),
		wp(1), wp(2),
	}}, "tree-readmitted-without-rotation-writes-through-open-tree", "tree-readmitted-without-rotation-reads-through-open-tree", "tree-open-tree-of-removed-account-receives-ciphertext")
}
