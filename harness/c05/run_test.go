package c05

import (
	"fmt"
	"sort"
	"strings"
	"testing"

	"pgregory.net/rapid"

	"verif/harness/internal/aclgen"
	"verif/harness/internal/vstat"
)

// okPerm: permissions a join / permission change may carry inside C05's alphabet.
func okPerm(p int) bool {
	return p == aclgen.Admin || p == aclgen.Writer || p == aclgen.Reader || p == aclgen.Guest
}

// inAlphabet filters ops that leave the quantifier's alphabet (membership histories):
// a permission "change" that targets an account holding no permission — it is no membership
// operation, the validator accepts it, and it yields a permission without a key — and ops
// that grant the pseudo-permission None / Owner through a join. Returns the (possibly
// trimmed) op and whether to run it.
func (e *env) inAlphabet(op aclgen.Op) (aclgen.Op, bool) {
	w := e.w
	held := func(i int) bool { return member(w.M.Perm[mod(i, w.N)]) }
	switch op.Kind {
	case "perm_change":
		return op, held(op.Target) && okPerm(op.Perm)
	case "perm_changes":
		return op, held(op.Target) && held(op.T2) && okPerm(op.Perm)
	case "accept", "add", "add2", "invite_anyone", "invite_change":
		return op, okPerm(op.Perm)
	case "invite_join":
		return op, op.Perm == aclgen.None || okPerm(op.Perm)
	case "ownership":
		return op, held(op.Target) && (op.Perm == aclgen.Admin || op.Perm == aclgen.Writer || op.Perm == aclgen.Reader)
	case "batch":
		var sub []aclgen.Op
		for _, s := range op.Sub {
			switch s.Kind {
			case "perm_change":
				if !held(s.Target) || !okPerm(s.Perm) {
					continue
				}
			case "add", "accept":
				if !okPerm(s.Perm) {
					continue
				}
			}
			sub = append(sub, s)
		}
		op.Sub = sub
		return op, len(sub) > 0
	}
	return op, true
}

// Finding 1 (proposed_fix_1.diff, fixed in /repo by 208ac24; regression TestRegReAddedAuthor):
// applyAccountsAdd dropped the permission history of an account that is added again, so trees
// holding content it authored during an earlier membership could no longer be built. Only
// while the signature is listed as "known" in known_findings.json (it is not: inert) is it
// excluded by construction: a direct add (stand-alone or inside a batch) of an account that
// authored tree content during an earlier membership is then not executed.
const sigReAdd = "readd-by-accounts-add-drops-permission-history"

// Finding 2 (proposed_fix_2.diff, fixed in /repo by de402e2; regression
// TestRegBatchRemoveRevokesOpenInvite): BuildBatchRequest laid a removal (with its rotation)
// out BEFORE the invite revokes of the same record, so the new generation was encrypted to an
// open invite that the very same record revokes. Excluded by construction only while listed
// as known (inert now): the revoke of a live open invite is dropped from a batch that also
// removes accounts.
const sigBatchRevoke = "batch-removal-rotation-hands-new-key-to-invite-revoked-in-same-record"

func (e *env) excludeKnown(op aclgen.Op) (aclgen.Op, bool, string) {
	if op.Kind == "batch" && vstat.KnownSignature(prop, sigBatchRevoke) {
		hasRemove := false
		for _, s := range op.Sub {
			if s.Kind == "remove" && member(e.w.M.Perm[mod(s.Target, e.w.N)]) {
				hasRemove = true
			}
		}
		var live []*aclgen.InviteInfo
		for _, inv := range e.w.Invites {
			if inv.Live {
				live = append(live, inv)
			}
		}
		if hasRemove && len(live) > 0 {
			var sub []aclgen.Op
			excluded := false
			for _, s := range op.Sub {
				if s.Kind == "invite_revoke" && live[mod(s.Ref, len(live))].Anyone {
					excluded = true
					continue
				}
				sub = append(sub, s)
			}
			if excluded {
				op.Sub = sub
				return op, len(sub) > 0, sigBatchRevoke
			}
		}
	}
	op, ok, ex := e.excludeReAdd(op)
	if ex {
		return op, ok, sigReAdd
	}
	return op, ok, ""
}

func (e *env) excludeReAdd(op aclgen.Op) (aclgen.Op, bool, bool) {
	if !vstat.KnownSignature(prop, sigReAdd) {
		return op, true, false
	}
	w := e.w
	hit := func(t int) bool {
		t = mod(t, w.N)
		return e.authored[t] && !member(w.M.Perm[t]) && e.lastHeld(t) >= 0
	}
	switch op.Kind {
	case "add":
		if hit(op.Target) {
			return op, false, true
		}
	case "add2":
		if hit(op.Target) || hit(op.T2) {
			return op, false, true
		}
	case "batch":
		var sub []aclgen.Op
		excluded := false
		for _, s := range op.Sub {
			if s.Kind == "add" && hit(s.Target) {
				excluded = true
				continue
			}
			sub = append(sub, s)
		}
		op.Sub = sub
		return op, len(sub) > 0, excluded
	}
	return op, true, false
}

// refusedJoin only labels an observation that is outside the statement: an open invite created
// by the very record that removes a member (and so rotates the key) embeds the PRE-rotation key;
// until a later rotation re-keys it, the joiner's own builder refuses to build the join.
func (e *env) refusedJoin(op aclgen.Op, buildErr string) {
	if op.Kind != "invite_join" || !strings.Contains(buildErr, "failed to decrypt key") {
		return
	}
	w := e.w
	for _, it := range e.invList {
		if it.inv.Anyone && it.inv.Live && it.created > 0 && w.M.GenAt[it.created] > w.M.GenAt[it.created-1] && it.created == e.gens[len(e.gens)-1].rec {
			e.classes["join-through-removal-batch-invite-refused"] = true
		}
	}
}

func run(c Case) (vstat.Outcome, error) {
	var out vstat.Outcome
	if c.N < 2 || c.N > 10 {
		return out, nil
	}
	e := &env{c: c, truth: map[string][]byte{}, idOf: map[string]int{}, invites: map[*aclgen.InviteInfo]*inviteTrack{}, classes: map[string]bool{}, hadLeaveRequest: make([]bool, c.N), authored: make([]bool, c.N)}
	e.authored[0] = true // the tree root
	nAccepted, nRefused, builderPanics := 0, 0, 0
	err := aclgen.Bubble(outerT, func() (err error) {
		defer e.close()
		w, err := aclgen.NewWorld(c.N, c.Seed, c.Sign)
		if err != nil {
			return err
		}
		e.w = w
		for i := 0; i < w.N; i++ {
			b, err := w.Keys[i].SignKey.GetPublic().Marshall()
			if err != nil {
				return err
			}
			e.idOf[string(b)] = i
		}
		if err := e.initTree(); err != nil {
			return err
		}
		if err := e.afterRecord(); err != nil {
			return err
		}
		nw := 0
		for si, s := range c.Steps {
			switch {
			case s.Op != nil:
				op, ok := e.inAlphabet(*s.Op)
				if !ok {
					e.nSkipped++
					continue
				}
				op, ok, excluded := e.excludeKnown(op)
				if excluded != "" {
					out.Excluded = excluded
				}
				if !ok {
					continue
				}
				st, err := w.Apply(op)
				if err != nil {
					return fmt.Errorf("step %d: %v", si, err)
				}
				if !st.Accepted {
					nRefused++
					e.refusedJoin(op, st.BuildErr)
					continue
				}
				nAccepted++
				if err := e.afterRecord(); err != nil {
					return fmt.Errorf("step %d: %w", si, err)
				}
			case s.F != nil:
				if err := e.forgeRotation(*s.F); err != nil {
					return fmt.Errorf("step %d: %w", si, err)
				}
			case s.W != nil:
				if err := e.write(*s.W, nw); err != nil {
					return fmt.Errorf("step %d (tree write %d): %w", si, nw, err)
				}
				nw++
			}
		}
		if err := e.finalTrees(); err != nil {
			return fmt.Errorf("final: %w", err)
		}
		builderPanics = w.BuilderPanics
		out.Sig = vstat.Hash(w.Head(), len(w.Records), len(e.writes))
		return nil
	})
	if err != nil {
		return out, err
	}
	// non-trivial: >=1 removal (or open-invite revoke) followed by >=1 later generation, with
	// the removed party's view / attack actually checked
	w := e.w
	removalWithLater := false
	for i := 0; i < w.N; i++ {
		for r := 1; r < len(w.Records); r++ {
			if member(w.M.PermAt[i][r-1]) && !member(w.M.PermAt[i][r]) && e.gens[len(e.gens)-1].rec >= r {
				removalWithLater = true
			}
		}
	}
	for _, it := range e.invList {
		if it.inv.Anyone && it.revokedAt >= 0 && e.gens[len(e.gens)-1].rec >= it.revokedAt {
			removalWithLater = true
		}
	}
	out.NonTrivial = removalWithLater && e.removedChecked
	for k := range e.classes {
		out.Classes = append(out.Classes, k)
	}
	sort.Strings(out.Classes)
	vstat.Count("accepted_records", int64(nAccepted))
	vstat.Count("refused_ops", int64(nRefused))
	vstat.Count("skipped_ops_outside_alphabet", int64(e.nSkipped))
	vstat.Count("builder_panics", int64(builderPanics))
	vstat.Count("views_rebuilt_from_raw_log", int64(e.nViews))
	vstat.Count("member_generation_key_checks", int64(e.nPos))
	vstat.Count("non_member_generation_nil_checks", int64(e.nNeg))
	vstat.Count("rotation_records_decoded", int64(e.nRawRot))
	vstat.Count("derivation_attempts", int64(e.nAttack))
	vstat.Count("derivation_attempts_that_opened_something", int64(e.nAttackOpen))
	vstat.Count("forged_rotations_rejected", int64(e.nForged))
	vstat.Count("tree_writes", int64(e.nWrites))
	vstat.Count("tree_iterations", int64(e.nTreeIter))
	vstat.Count("key_generations", int64(len(e.gens)))
	return out, nil
}

// ---- generator ----------------------------------------------------------------------------

// genCase draws a membership history over exactly the quantifier's alphabet — join by
// request + accept, join by open invite, direct add, remove (rotates), leave request +
// removal, invite revoke with rotation, stand-alone rotation, re-add — plus permission
// changes among members, interleaved with tree writes. Construction over rejection: a rough
// guess of who is a member keeps most ops legal; a share of the ops is drawn blindly.
func genCase(rt *rapid.T) Case {
	n := rapid.IntRange(4, vstat.Pick(6, 8)).Draw(rt, "n")
	c := Case{Seed: rapid.Uint64Range(1, 1<<40).Draw(rt, "seed"), N: n, Sign: rapid.IntRange(0, 5).Draw(rt, "sign") != 0}
	maxOps := vstat.Pick(25, 45)
	target := rapid.IntRange(6, maxOps).Draw(rt, "len")
	nOps := 0
	guess := make([]int, n)
	guess[0] = aclgen.Owner
	owner := 0
	acct := rapid.IntRange(0, n-1)
	goodPerm := rapid.SampledFrom([]int{aclgen.Writer, aclgen.Reader, aclgen.Writer, aclgen.Admin, aclgen.Writer})
	pick := func(label string, pred func(i int) bool) int {
		var cnd []int
		for i := 0; i < n; i++ {
			if pred(i) {
				cnd = append(cnd, i)
			}
		}
		if len(cnd) == 0 || rapid.IntRange(0, 11).Draw(rt, label+"-blind") == 0 {
			return acct.Draw(rt, label)
		}
		return cnd[rapid.IntRange(0, len(cnd)-1).Draw(rt, label)]
	}
	manager := func(label string) int {
		if rapid.IntRange(0, 2).Draw(rt, label+"-o") != 0 {
			return owner
		}
		return pick(label, func(i int) bool { return guess[i] == aclgen.Owner || guess[i] == aclgen.Admin })
	}
	nonMember := func(label string) int { return pick(label, func(i int) bool { return guess[i] == aclgen.None }) }
	memberNotOwner := func(label string) int {
		return pick(label, func(i int) bool { return guess[i] != aclgen.None && guess[i] != aclgen.Owner })
	}
	op := func(o aclgen.Op) {
		c.Steps = append(c.Steps, Step{Op: &o})
		nOps++
	}
	write := func() {
		c.Steps = append(c.Steps, Step{W: &Write{Author: rapid.IntRange(0, 7).Draw(rt, "wa"), Len: rapid.SampledFrom([]int{32, 48, 200, 1500}).Draw(rt, "wl")}})
	}
	// interlude: things that happen between the two halves of a flow
	interlude := func() {
		switch rapid.IntRange(0, 7).Draw(rt, "interlude") {
		case 0, 1:
			op(aclgen.Op{Kind: "read_key_change", Actor: manager("ia")})
		case 2:
			x := memberNotOwner("ir")
			op(aclgen.Op{Kind: "remove", Actor: owner, Target: x})
			guess[x] = aclgen.None
		case 3:
			write()
		}
	}
	for nOps < target {
		switch rapid.IntRange(0, 31).Draw(rt, "shape") {
		case 0, 1, 2: // join by request + accept (or decline / cancel)
			x := nonMember("x")
			op(aclgen.Op{Kind: "invite", Actor: manager("a")})
			op(aclgen.Op{Kind: "request_join", Actor: x, Ref: -1})
			interlude()
			switch rapid.IntRange(0, 5).Draw(rt, "end") {
			case 0, 1, 2, 3:
				p := goodPerm.Draw(rt, "p")
				a := owner
				if p != aclgen.Admin {
					a = manager("aa")
				}
				op(aclgen.Op{Kind: "accept", Actor: a, Target: x, Perm: p})
				guess[x] = p
			case 4:
				op(aclgen.Op{Kind: "decline", Actor: manager("ad"), Target: x})
			case 5:
				op(aclgen.Op{Kind: "cancel", Actor: x})
			}
		case 3, 4, 5: // join by open invite, possibly long after the invite was made
			x := nonMember("x")
			p := goodPerm.Draw(rt, "p")
			if rapid.IntRange(0, 3).Draw(rt, "newinv") != 0 {
				op(aclgen.Op{Kind: "invite_anyone", Actor: owner, Perm: p})
			}
			interlude()
			if rapid.Bool().Draw(rt, "twice") {
				interlude()
			}
			op(aclgen.Op{Kind: "invite_join", Actor: x, Ref: rapid.SampledFrom([]int{-1, -1, -1, 0, -2}).Draw(rt, "ref"), Perm: rapid.SampledFrom([]int{aclgen.None, aclgen.None, aclgen.None, aclgen.Reader, aclgen.Writer}).Draw(rt, "jp")})
			guess[x] = p
		case 6, 7, 8: // direct add
			x := nonMember("t")
			p := rapid.SampledFrom([]int{aclgen.Writer, aclgen.Reader, aclgen.Writer, aclgen.Admin, aclgen.Guest}).Draw(rt, "p")
			k := rapid.SampledFrom([]string{"add", "add", "add", "add2"}).Draw(rt, "k")
			x2 := nonMember("t2")
			a := owner
			if p != aclgen.Admin {
				a = manager("a")
			}
			op(aclgen.Op{Kind: k, Actor: a, Target: x, T2: x2, Perm: p})
			guess[x] = p
			if k == "add2" && x2 != x {
				guess[x2] = aclgen.Reader
			}
		case 9, 10, 11: // remove (the builder rotates)
			x := memberNotOwner("t")
			k := rapid.SampledFrom([]string{"remove", "remove", "remove", "remove2"}).Draw(rt, "k")
			x2 := memberNotOwner("t2")
			a := owner
			if guess[x] != aclgen.Admin {
				a = manager("a")
			}
			op(aclgen.Op{Kind: k, Actor: a, Target: x, T2: x2})
			guess[x] = aclgen.None
			if k == "remove2" {
				guess[x2] = aclgen.None
			}
		case 12, 13: // leave request + removal
			x := memberNotOwner("x")
			op(aclgen.Op{Kind: "request_remove", Actor: x})
			interlude()
			switch rapid.IntRange(0, 3).Draw(rt, "end") {
			case 0, 1, 2:
				op(aclgen.Op{Kind: "remove", Actor: owner, Target: x})
				guess[x] = aclgen.None
			case 3:
				op(aclgen.Op{Kind: "cancel", Actor: x})
			}
		case 14, 15: // invite revoke with rotation
			if rapid.IntRange(0, 2).Draw(rt, "mk") == 0 {
				op(aclgen.Op{Kind: "invite_anyone", Actor: owner, Perm: goodPerm.Draw(rt, "p")})
				interlude()
			}
			op(aclgen.Op{Kind: "invite_revoke_rotate", Actor: manager("a"), Ref: rapid.IntRange(-2, 2).Draw(rt, "r")})
		case 16: // plain revoke (the invite holder keeps what it had; later rotations must drop it)
			op(aclgen.Op{Kind: "invite_revoke", Actor: manager("a"), Ref: rapid.IntRange(-2, 2).Draw(rt, "r")})
		case 17, 18: // stand-alone rotation
			op(aclgen.Op{Kind: "read_key_change", Actor: manager("a")})
		case 19, 20: // re-add: remove, let generations pass, add the same account again
			x := memberNotOwner("x")
			op(aclgen.Op{Kind: "remove", Actor: owner, Target: x})
			guess[x] = aclgen.None
			interlude()
			if rapid.Bool().Draw(rt, "twice") {
				interlude()
			}
			p := goodPerm.Draw(rt, "p")
			switch rapid.IntRange(0, 3).Draw(rt, "how") {
			case 0, 1:
				op(aclgen.Op{Kind: "add", Actor: owner, Target: x, Perm: p})
			case 2:
				op(aclgen.Op{Kind: "invite", Actor: owner})
				op(aclgen.Op{Kind: "request_join", Actor: x, Ref: -1})
				op(aclgen.Op{Kind: "accept", Actor: owner, Target: x, Perm: p})
			case 3:
				op(aclgen.Op{Kind: "invite_anyone", Actor: owner, Perm: p})
				op(aclgen.Op{Kind: "invite_join", Actor: x, Ref: -1})
			}
			guess[x] = p
		case 21: // permission change among members
			x := memberNotOwner("t")
			p := rapid.SampledFrom([]int{aclgen.Writer, aclgen.Reader, aclgen.Admin, aclgen.Guest}).Draw(rt, "p")
			op(aclgen.Op{Kind: "perm_change", Actor: owner, Target: x, Perm: p})
			if guess[x] != aclgen.Guest && guess[x] != aclgen.None && (p != aclgen.Guest || guess[x] == aclgen.Reader) {
				guess[x] = p
			}
		case 22: // ownership passes to a member
			x := pick("t", func(i int) bool {
				return guess[i] == aclgen.Admin || guess[i] == aclgen.Writer || guess[i] == aclgen.Reader
			})
			p := rapid.SampledFrom([]int{aclgen.Admin, aclgen.Writer}).Draw(rt, "p")
			op(aclgen.Op{Kind: "ownership", Actor: owner, Target: x, Perm: p})
			if guess[x] != aclgen.None && guess[x] != aclgen.Guest && x != owner {
				guess[owner] = p
				guess[x] = aclgen.Owner
				owner = x
			}
		case 23: // one record: removal + addition (+ permission change, + revoke)
			r := memberNotOwner("br")
			sub := []aclgen.Op{{Kind: "remove", Target: r}}
			if x := nonMember("ba"); x != r && rapid.IntRange(0, 3).Draw(rt, "badd") != 0 {
				p := goodPerm.Draw(rt, "bp")
				sub = append(sub, aclgen.Op{Kind: "add", Target: x, Perm: p})
				guess[x] = p
			}
			if rapid.IntRange(0, 2).Draw(rt, "bchg") == 0 {
				if x := memberNotOwner("bc"); x != r {
					sub = append(sub, aclgen.Op{Kind: "perm_change", Target: x, Perm: rapid.SampledFrom([]int{aclgen.Reader, aclgen.Writer}).Draw(rt, "bcp")})
				}
			}
			if rapid.IntRange(0, 2).Draw(rt, "brev") == 0 {
				sub = append(sub, aclgen.Op{Kind: "invite_revoke", Ref: rapid.IntRange(-1, 2).Draw(rt, "brr")})
			}
			op(aclgen.Op{Kind: "batch", Actor: owner, Sub: sub})
			guess[r] = aclgen.None
		case 29: // one record removes a member and creates an invite (maybe adds too); an outsider joins through it
			r := memberNotOwner("nr")
			p := goodPerm.Draw(rt, "np")
			sub := []aclgen.Op{{Kind: "remove", Target: r}, {Kind: "new_invite", Perm: rapid.SampledFrom([]int{p, p, p, aclgen.None}).Draw(rt, "nk")}}
			if x := nonMember("na"); x != r && rapid.Bool().Draw(rt, "nadd") {
				sub = append(sub, aclgen.Op{Kind: "add", Target: x, Perm: aclgen.Writer})
				guess[x] = aclgen.Writer
			}
			op(aclgen.Op{Kind: "batch", Actor: owner, Sub: sub})
			guess[r] = aclgen.None
			if rapid.Bool().Draw(rt, "nw") {
				write()
			}
			x := nonMember("nx")
			if sub[1].Perm == aclgen.None {
				op(aclgen.Op{Kind: "request_join", Actor: x, Ref: -1})
				op(aclgen.Op{Kind: "accept", Actor: owner, Target: x, Perm: p})
			} else {
				op(aclgen.Op{Kind: "invite_join", Actor: x, Ref: -1})
			}
			guess[x] = p
			write()
		case 30, 31: // an account's open tree keeps receiving changes while the account is out; the
			// account is admitted again WITHOUT another rotation and writes through the same tree
			x := nonMember("ox")
			if rapid.Bool().Draw(rt, "oexisting") {
				x = memberNotOwner("ox2")
			} else {
				op(aclgen.Op{Kind: "add", Actor: owner, Target: x, Perm: aclgen.Writer})
			}
			c.Steps = append(c.Steps, Step{W: &Write{Author: rapid.IntRange(0, 7).Draw(rt, "wa"), Len: 40, Pref: x + 1}})
			op(aclgen.Op{Kind: "remove", Actor: owner, Target: x})
			write()
			switch rapid.IntRange(0, 3).Draw(rt, "ohow") {
			case 0, 1:
				op(aclgen.Op{Kind: "add", Actor: owner, Target: x, Perm: aclgen.Writer})
			case 2:
				op(aclgen.Op{Kind: "invite", Actor: owner})
				op(aclgen.Op{Kind: "request_join", Actor: x, Ref: -1})
				op(aclgen.Op{Kind: "accept", Actor: owner, Target: x, Perm: aclgen.Writer})
			case 3:
				op(aclgen.Op{Kind: "invite_anyone", Actor: owner, Perm: aclgen.Writer})
				op(aclgen.Op{Kind: "invite_join", Actor: x, Ref: -1})
			}
			guess[x] = aclgen.Writer
			if rapid.IntRange(0, 2).Draw(rt, "oread") == 0 {
				write() // somebody else writes first: the returning account reads through its open tree
			}
			c.Steps = append(c.Steps, Step{W: &Write{Author: rapid.IntRange(0, 7).Draw(rt, "wa"), Len: 40, Pref: x + 1}})
		case 24, 25, 26: // tree write
			write()
		case 27: // a forged rotation with the right number of wrong recipients (must be rejected)
			c.Steps = append(c.Steps, Step{F: &ForgeRot{Drop: rapid.IntRange(0, 5).Draw(rt, "fd"), Add: rapid.IntRange(0, 5).Draw(rt, "fx"), Variant: rapid.IntRange(0, 2).Draw(rt, "fv")}})
		default: // a blind op of the alphabet: any actor, any target
			op(aclgen.Op{
				Kind: rapid.SampledFrom([]string{"invite", "invite_anyone", "invite_revoke", "invite_revoke_rotate", "request_join", "accept",
					"decline", "cancel", "invite_join", "add", "remove", "request_remove", "perm_change", "read_key_change"}).Draw(rt, "k"),
				Actor: acct.Draw(rt, "a"), Target: acct.Draw(rt, "t"), T2: acct.Draw(rt, "t2"),
				Perm: rapid.IntRange(0, 5).Draw(rt, "p"), Ref: rapid.IntRange(-2, 3).Draw(rt, "r"),
			})
		}
	}
	// histories of at most maxOps ACL steps
	kept, nk := c.Steps[:0], 0
	for _, s := range c.Steps {
		if s.Op != nil {
			if nk >= maxOps {
				continue
			}
			nk++
		}
		kept = append(kept, s)
	}
	c.Steps = kept
	if rapid.IntRange(0, 3).Draw(rt, "tailwrite") != 0 {
		write()
	}
	return c
}

func TestRandom(t *testing.T) {
	outerT = t
	openReal(t)
	vstat.Check(t, prop, genCase, run)
}

func TestReplay(t *testing.T) {
	outerT = t
	openReal(t)
	t.Run("TestRandom", func(t *testing.T) { vstat.Replay(t, prop, "TestRandom", run) })
}
