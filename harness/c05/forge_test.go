package c05

import (
	"fmt"

	"github.com/anyproto/any-sync/commonspace/object/acl/aclrecordproto"
	"github.com/anyproto/any-sync/util/crypto"

	"verif/harness/internal/aclgen"
)

// ForgeRot is a stand-alone rotation assembled by the harness and validly signed by the
// space owner whose RECIPIENTS are wrong although their NUMBER is right: a member is
// swapped for an account without permission, a member is addressed twice instead of
// another one, or a live open invite's key is swapped for a stranger's. The statement holds
// after any sequence of ACCEPTED records only if no fully validating replica accepts such a
// record (the mechanism the property names: validateReadKeyChange), so the step demands a
// rejection; an acceptance locks a member out of the new generation or hands it to an
// outsider and is reported as the violation it is.
type ForgeRot struct {
	Drop    int `json:"d"`
	Add     int `json:"x"`
	Variant int `json:"v"`
}

func (e *env) forgeRotation(f ForgeRot) error {
	w := e.w
	owner := -1
	var members, outsiders []int
	for i := 0; i < w.N; i++ {
		switch {
		case w.M.Perm[i] == aclgen.Owner:
			owner = i
		case member(w.M.Perm[i]):
			members = append(members, i)
		default:
			outsiders = append(outsiders, i)
		}
	}
	if owner < 0 || len(members) == 0 {
		return nil
	}
	cur, err := w.Lists[owner].AclState().CurrentReadKey()
	if err != nil || cur == nil {
		return fmt.Errorf("the owner (account %d) has no current read key: %v", owner, err)
	}
	newKey := crypto.NewAES()
	proto, err := newKey.Marshall()
	if err != nil {
		return err
	}
	dropped := members[mod(f.Drop, len(members))]
	recipients := []int{owner}
	for _, m := range members {
		if m != dropped {
			recipients = append(recipients, m)
		}
	}
	var liveOpen []*aclgen.InviteInfo
	for _, inv := range w.Invites {
		if inv.Live && inv.Anyone {
			liveOpen = append(liveOpen, inv)
		}
	}
	what := ""
	variant := mod(f.Variant, 3)
	if variant == 2 && len(liveOpen) == 0 {
		variant = 0
	}
	if variant == 0 && len(outsiders) == 0 {
		variant = 1
	}
	swapInvite := -1
	switch variant {
	case 0:
		x := outsiders[mod(f.Add, len(outsiders))]
		recipients = append(recipients, x)
		what = fmt.Sprintf("member %d is left out and account %d, which holds no permission, is handed the new key", dropped, x)
	case 1:
		recipients = append(recipients, recipients[mod(f.Add, len(recipients))])
		what = fmt.Sprintf("member %d is left out and another member is addressed twice", dropped)
	case 2:
		recipients = append(recipients, dropped)
		swapInvite = mod(f.Add, len(liveOpen))
		what = "a live open invite is left out and a stranger's key is addressed instead"
	}
	rk := &aclrecordproto.AclReadKeyChange{}
	for _, i := range recipients {
		pk := w.Keys[i].SignKey.GetPublic()
		id, err := pk.Marshall()
		if err != nil {
			return err
		}
		enc, err := pk.Encrypt(proto)
		if err != nil {
			return err
		}
		rk.AccountKeys = append(rk.AccountKeys, &aclrecordproto.AclEncryptedReadKey{Identity: id, EncryptedReadKey: enc})
	}
	for k, inv := range liveOpen {
		pk := inv.Key.GetPublic()
		if k == swapInvite {
			_, stranger, err := crypto.GenerateRandomEd25519KeyPair()
			if err != nil {
				return err
			}
			pk = stranger
		}
		id, err := pk.Marshall()
		if err != nil {
			return err
		}
		enc, err := pk.Encrypt(proto)
		if err != nil {
			return err
		}
		rk.InviteKeys = append(rk.InviteKeys, &aclrecordproto.AclEncryptedReadKey{Identity: id, EncryptedReadKey: enc})
	}
	mkPriv, mkPub, err := crypto.GenerateRandomEd25519KeyPair()
	if err != nil {
		return err
	}
	if rk.MetadataPubKey, err = mkPub.Marshall(); err != nil {
		return err
	}
	mkProto, err := mkPriv.Marshall()
	if err != nil {
		return err
	}
	if rk.EncryptedMetadataPrivKey, err = newKey.Encrypt(mkProto); err != nil {
		return err
	}
	curProto, err := cur.Marshall()
	if err != nil {
		return err
	}
	if rk.EncryptedOldReadKey, err = newKey.Encrypt(curProto); err != nil {
		return err
	}
	rec, err := w.Forge(owner, w.Head(), []*aclrecordproto.AclContentValue{{Value: &aclrecordproto.AclContentValue_ReadKeyChange{ReadKeyChange: rk}}})
	if err != nil {
		return err
	}
	accepted, err := w.Submit(rec)
	if err != nil {
		return fmt.Errorf("a rotation with the right number of wrong recipients (%s): %v", what, err)
	}
	e.nForged++
	if accepted {
		return fmt.Errorf("fully validating replicas ACCEPTED a rotation, validly signed by the owner, whose recipients are not the active accounts and live open invites: %s", what)
	}
	e.classes[fmt.Sprintf("forged-rotation-wrong-recipients-v%d-rejected", variant)] = true
	return nil
}
