package c05

import (
	"bytes"
	"context"
	"errors"
	"fmt"
	"os"
	"path/filepath"
	"sync/atomic"

	anystore "github.com/anyproto/any-store"
	"github.com/anyproto/any-sync/commonspace/headsync/headstorage"
	"github.com/anyproto/any-sync/commonspace/object/acl/list"
	"github.com/anyproto/any-sync/commonspace/object/acl/recordverifier"
	"github.com/anyproto/any-sync/commonspace/object/tree/objecttree"
	"github.com/anyproto/any-sync/commonspace/object/tree/treechangeproto"
	"github.com/anyproto/any-sync/util/crypto"

	"verif/harness/internal/aclgen"
)

var ctx = context.Background()

func cloneChange(c *treechangeproto.RawTreeChangeWithId) *treechangeproto.RawTreeChangeWithId {
	return &treechangeproto.RawTreeChangeWithId{RawChange: append([]byte(nil), c.RawChange...), Id: c.Id}
}

func setAddSeq(st objecttree.Storage) {
	if s, ok := st.(interface{ SetAddSeq(*atomic.Uint64) }); ok {
		s.SetAddSeq(&atomic.Uint64{})
	}
}

// ---- the replica's real storage ------------------------------------------------------------
//
// One any-store database per Test function holds the real tree storage of every case it runs
// (tree ids are content ids, hence unique per case; the case deletes its tree at its end). It
// is opened OUTSIDE the synctest bubbles (its connection pool must not belong to one) by
// openReal, which every Test function calls first, and removed when that function ends.
var real struct {
	dir string
	db  anystore.DB
	hs  headstorage.HeadStorage
	err error
}

type cleaner interface {
	Cleanup(func())
	Fatalf(string, ...any)
}

func openReal(t cleaner) {
	real.db, real.hs = nil, nil
	real.dir, real.err = os.MkdirTemp("", "c05-")
	if real.err == nil {
		real.db, real.err = anystore.Open(ctx, filepath.Join(real.dir, "replica.db"), &anystore.Config{ReadConnections: 2})
	}
	if real.err == nil {
		real.hs, real.err = headstorage.New(ctx, real.db)
	}
	dir, db := real.dir, real.db
	t.Cleanup(func() {
		if db != nil {
			db.Close()
		}
		if dir != "" {
			os.RemoveAll(dir)
		}
	})
	if real.err != nil {
		t.Fatalf("open real storage: %v", real.err)
	}
}

// initTree creates the (encrypted) tree root, signed by the space owner.
func (e *env) initTree() (err error) {
	w := e.w
	if real.err != nil || real.db == nil {
		return fmt.Errorf("HARNESS: real storage not open: %v", real.err)
	}
	e.root, err = objecttree.CreateObjectTreeRoot(objecttree.ObjectTreeCreatePayload{
		PrivKey: w.Keys[0].SignKey, ChangeType: "verif.object", ChangePayload: []byte("payload"), SpaceId: w.SpaceId,
		IsEncrypted: true, Seed: []byte(fmt.Sprintf("c05-%d", e.c.Seed)), Timestamp: 946684800,
	}, w.Lists[0])
	if err != nil {
		return err
	}
	other, err := objecttree.CreateObjectTreeRoot(objecttree.ObjectTreeCreatePayload{
		PrivKey: w.Keys[0].SignKey, ChangeType: "verif.object", ChangePayload: []byte("payload"), SpaceId: w.SpaceId,
		IsEncrypted: true, Seed: []byte(fmt.Sprintf("c05-other-%d", e.c.Seed)), Timestamp: 946684800,
	}, w.Lists[0])
	if err != nil {
		return err
	}
	e.otherId = other.Id
	e.views = map[int]*treeView{}
	// the replica: real any-store storage, verifying tree over account 0's validating list
	if e.realSt, err = objecttree.CreateStorage(ctx, cloneChange(e.root), real.hs, real.db); err != nil {
		return err
	}
	setAddSeq(e.realSt)
	if e.realTree, err = objecttree.BuildObjectTree(e.realSt, w.Lists[0]); err != nil {
		return err
	}
	return nil
}

func (e *env) close() {
	if e.realSt != nil {
		e.realSt.Delete(ctx)
		e.realSt.Close()
	}
}

// view returns account i's long-lived verifying tree, built with BuildObjectTree over the
// account's own (evolving) ACL list.
func (e *env) view(i int) (*treeView, error) {
	if v, ok := e.views[i]; ok {
		return v, nil
	}
	v := &treeView{acc: i, mem: newMemStorage(e.root)}
	e.views[i] = v
	var err error
	if v.tree, err = objecttree.BuildObjectTree(v.mem, e.w.Lists[i]); err != nil {
		return nil, fmt.Errorf("account %d cannot build the tree over its own ACL list: %v", i, err)
	}
	return v, nil
}

// feed transmits the raw changes the view lacks, the way sync does.
func (e *env) feed(v *treeView) error {
	if v.have == len(e.changes) {
		return nil
	}
	var raws []*treechangeproto.RawTreeChangeWithId
	for _, c := range e.changes[v.have:] {
		raws = append(raws, cloneChange(c))
	}
	v.tree.Lock()
	_, err := v.tree.AddRawChanges(ctx, objecttree.RawChangesPayload{NewHeads: []string{e.changes[len(e.changes)-1].Id}, RawChanges: raws})
	v.tree.Unlock()
	if err != nil {
		return err
	}
	v.have = len(e.changes)
	return nil
}

type seenChange struct {
	id    string
	plain string
}

func iterate(t objecttree.ObjectTree, rootId string) (got []seenChange, err error) {
	t.Lock()
	defer t.Unlock()
	err = t.IterateRoot(func(ch *objecttree.Change, decrypted []byte) (any, error) {
		return string(decrypted), nil
	}, func(ch *objecttree.Change) bool {
		if ch.Id == rootId {
			return true
		}
		s, _ := ch.Model.(string)
		got = append(got, seenChange{ch.Id, s})
		return true
	})
	return
}

// checkReader: a tree holding all raw changes, seen through account i's ACL view.
func (e *env) checkReader(i int, t objecttree.ObjectTree, what string) error {
	w := e.w
	got, err := iterate(t, e.root.Id)
	e.nTreeIter++
	if member(w.M.Perm[i]) {
		if err != nil {
			return fmt.Errorf("member %d (%s): IterateRoot over %s fails: %v (%d of %d changes decrypted)", i, aclgen.PermNames[w.M.Perm[i]], what, err, len(got), len(e.writes))
		}
		if len(got) != len(e.writes) {
			return fmt.Errorf("member %d: %s iterates %d changes, %d were written", i, what, len(got), len(e.writes))
		}
		for k, wr := range e.writes {
			if got[k].id != wr.id || got[k].plain != wr.plain {
				return fmt.Errorf("member %d: %s: change %d (%s, written by account %d under generation %d) decrypts to %q, the original is %q", i, what, k, wr.id, wr.author, wr.genIdx+1, got[k].plain, wr.plain)
			}
		}
		return nil
	}
	lastHeld := e.lastHeld(i)
	byId := map[string]writeRec{}
	for _, wr := range e.writes {
		byId[wr.id] = wr
	}
	for _, g := range got {
		wr, ok := byId[g.id]
		if !ok {
			continue
		}
		if e.gens[wr.genIdx].rec > lastHeld && (g.plain == wr.plain || bytes.Contains([]byte(g.plain), []byte(wr.plain[:24]))) {
			return fmt.Errorf("account %d holds no permission (last held one after record %d) but %s decrypts change %s written under generation %d (introduced by record %d)", i, lastHeld, what, wr.id, wr.genIdx+1, e.gens[wr.genIdx].rec)
		}
	}
	for _, wr := range e.writes {
		if e.gens[wr.genIdx].rec > lastHeld {
			e.classes["tree-non-member-cannot-read-later-content"] = true
		}
	}
	return nil
}

func deriveFor(treeId string, raw []byte) (crypto.SymKey, error) {
	return crypto.NewKeyDeriver(fmt.Sprintf(crypto.AnysyncTreePath, treeId)).DeriveKey(raw)
}

// write: an account that may write adds encrypted content to its own tree.
func (e *env) write(wr Write, k int) error {
	w := e.w
	var writers []int
	for i := 0; i < w.N; i++ {
		if canWrite(w.M.Perm[i]) {
			writers = append(writers, i)
		}
	}
	a := writers[mod(wr.Author, len(writers))]
	if wr.Pref > 0 && wr.Pref <= w.N && canWrite(w.M.Perm[wr.Pref-1]) {
		a = wr.Pref - 1
	}
	v, err := e.view(a)
	if err != nil {
		return err
	}
	if err := e.feed(v); err != nil {
		return fmt.Errorf("writer %d cannot add the earlier raw changes to its tree: %v", a, err)
	}
	n := wr.Len
	if n < 32 {
		n = 32
	}
	if n > 4096 {
		n = 4096
	}
	plain := []byte(fmt.Sprintf("C05<PLAINTEXT>#%03d#%016x#", k, e.c.Seed))
	for len(plain) < n {
		plain = append(plain, byte('a'+(len(plain)*7+k)%26))
	}
	curGen := len(e.gens) - 1
	if v.outFed && v.outGens == len(e.gens) {
		// the account was out, its open tree went on receiving changes, it was admitted again
		// without another rotation and now writes through that same tree object
		e.classes["tree-readmitted-without-rotation-writes-through-open-tree"] = true
	}
	v.outFed = false
	v.tree.Lock()
	res, err := v.tree.AddContent(ctx, objecttree.SignableChangeContent{
		Data: append([]byte(nil), plain...), Key: w.Keys[a].SignKey, ShouldBeEncrypted: true, Timestamp: 946684800 + int64(k) + 1, DataType: "t",
	})
	v.tree.Unlock()
	if err != nil {
		return fmt.Errorf("account %d (%s, member since record %d, %d generations) cannot add encrypted content: %v", a, aclgen.PermNames[w.M.Perm[a]], e.memberSince(a), len(e.gens), err)
	}
	if len(res.Added) != 1 {
		return fmt.Errorf("AddContent added %d changes", len(res.Added))
	}
	id := res.Added[0].Id
	transmitted := &treechangeproto.RawTreeChangeWithId{RawChange: append([]byte(nil), res.Added[0].RawChange...), Id: id}
	// the bytes travel to the replica, whose verifying tree stores them in real storage
	e.realTree.Lock()
	_, err = e.realTree.AddRawChanges(ctx, objecttree.RawChangesPayload{NewHeads: []string{id}, RawChanges: []*treechangeproto.RawTreeChangeWithId{cloneChange(transmitted)}})
	e.realTree.Unlock()
	if err != nil {
		return fmt.Errorf("the replica's verifying tree rejects change %s written by member %d: %v", id, a, err)
	}
	stored, err := e.realTree.Storage().Get(ctx, id)
	if err != nil {
		return fmt.Errorf("written change %s is not in the replica's storage: %v", id, err)
	}
	rawBytes := append([]byte(nil), stored.RawChange...)
	if !bytes.Equal(rawBytes, transmitted.RawChange) {
		return fmt.Errorf("stored bytes of change %s differ from the bytes handed out for transmission", id)
	}
	if own, err := v.tree.Storage().Get(ctx, id); err != nil || !bytes.Equal(own.RawChange, rawBytes) {
		return fmt.Errorf("the writer's own storage holds other bytes for change %s (err=%v)", id, err)
	}
	marker := plain[:24]
	if bytes.Contains(rawBytes, marker) {
		return fmt.Errorf("change %s, added as encrypted by account %d, is stored with its plaintext", id, a)
	}
	rtc := &treechangeproto.RawTreeChange{}
	if err := rtc.UnmarshalVT(rawBytes); err != nil {
		return err
	}
	tc := &treechangeproto.TreeChange{}
	if err := tc.UnmarshalVT(rtc.Payload); err != nil {
		return err
	}
	named := -1
	for gi, g := range e.gens {
		if g.id == tc.ReadKeyId {
			named = gi
		}
	}
	if named < 0 {
		return fmt.Errorf("change %s names read key id %q, which is no key generation of the ACL", id, tc.ReadKeyId)
	}
	if named != curGen {
		return fmt.Errorf("change %s written by member %d names generation %d, the generation in force is %d", id, a, named+1, curGen+1)
	}
	key, err := deriveFor(e.root.Id, e.truth[e.gens[named].id])
	if err != nil {
		return err
	}
	dec, ok := safeDecrypt(key.Decrypt, tc.ChangesData)
	if !ok || !bytes.Equal(dec, plain) {
		return fmt.Errorf("stored ciphertext of change %s does not decrypt to the original under the tree-derived key of the generation its read-key id names (generation %d)", id, named+1)
	}
	// per-tree derivation: neither another tree's key nor the space key itself opens it
	okey, err := deriveFor(e.otherId, e.truth[e.gens[named].id])
	if err != nil {
		return err
	}
	if d, ok := safeDecrypt(okey.Decrypt, tc.ChangesData); ok && bytes.Contains(d, marker) {
		return fmt.Errorf("ciphertext of change %s in tree %s opens under the key derived for ANOTHER tree (%s)", id, e.root.Id, e.otherId)
	}
	skey, err := crypto.UnmarshallAESKey(e.truth[e.gens[named].id])
	if err != nil {
		return err
	}
	if d, ok := safeDecrypt(skey.Decrypt, tc.ChangesData); ok && bytes.Contains(d, marker) {
		return fmt.Errorf("ciphertext of change %s opens under the space read key itself (no per-tree derivation)", id)
	}
	// keys of other generations do not open it
	for gi, g := range e.gens {
		if gi == named {
			continue
		}
		gk, _ := deriveFor(e.root.Id, e.truth[g.id])
		if d, ok := safeDecrypt(gk.Decrypt, tc.ChangesData); ok && bytes.Contains(d, marker) {
			return fmt.Errorf("ciphertext of change %s (names generation %d) opens under generation %d", id, named+1, gi+1)
		}
	}
	e.changes = append(e.changes, &treechangeproto.RawTreeChangeWithId{RawChange: rawBytes, Id: id})
	e.writes = append(e.writes, writeRec{id: id, plain: string(plain), genIdx: named, author: a})
	v.have = len(e.changes)
	e.nWrites++
	e.authored[a] = true
	if named >= 1 {
		e.classes["tree-write-under-generation>=2"] = true
	}
	if e.writes[0].genIdx != named {
		e.classes["tree-content-under-several-generations"] = true
	}
	for q := 0; q < e.memberSince(a); q++ {
		if member(w.M.PermAt[a][q]) {
			e.classes["tree-writer-was-re-added"] = true
		}
	}
	if e.memberSince(a) > 0 && len(e.gens) >= 2 && e.gens[1].rec < e.memberSince(a) {
		e.classes["tree-writer-joined-after-rotation"] = true
	}

	// every current member's long-lived tree gets the raw changes it lacks (a device receives
	// changes only while its account is admitted; one that is admitted again catches up here)
	// and iterates the plaintext of everything written so far
	for i := 0; i < w.N; i++ {
		if !member(w.M.Perm[i]) {
			continue
		}
		vi, err := e.view(i)
		if err != nil {
			return err
		}
		if err := e.feed(vi); err != nil {
			return fmt.Errorf("member %d cannot add the transmitted raw changes to its tree: %v", i, err)
		}
		if vi.outFed && vi.outGens == len(e.gens) {
			e.classes["tree-readmitted-without-rotation-reads-through-open-tree"] = true
		}
		vi.outFed = false
		if err := e.checkReader(i, vi.tree, fmt.Sprintf("account %d's long-lived tree", i)); err != nil {
			return err
		}
	}
	// the still-open tree of an account that lost its permission goes on receiving the
	// ciphertext (it must not read it); the same object is used again if the account returns
	for i := 0; i < w.N; i++ {
		vi, has := e.views[i]
		if member(w.M.Perm[i]) || !has {
			continue
		}
		if err := e.feed(vi); err != nil {
			vi.tree.Close()
			delete(e.views, i) // a fresh tree is built if the account returns
			continue
		}
		vi.outFed, vi.outGens = true, len(e.gens)
		if err := e.checkReader(i, vi.tree, fmt.Sprintf("account %d's still-open tree", i)); err != nil {
			return err
		}
		e.classes["tree-open-tree-of-removed-account-receives-ciphertext"] = true
	}
	// an account without permission that gets hold of the stored ciphertext must not read what
	// was written under generations introduced since it last held one
	for i := 0; i < w.N; i++ {
		if !member(w.M.Perm[i]) {
			if err := e.fromStorage(i); err != nil {
				return err
			}
		}
	}
	if err := e.noKeyNoChange(); err != nil {
		return err
	}
	// two accounts (rotating) rebuild the tree from the replica's storage right now
	for j := 0; j < 2; j++ {
		if err := e.fromStorage(mod(k*2+j, w.N)); err != nil {
			return err
		}
	}
	return nil
}

// noKeyNoChange: building an encrypted change without a key fails instead of emitting plaintext.
func (e *env) noKeyNoChange() error {
	w := e.w
	secret := []byte("C05<MUST-NEVER-BE-STORED-IN-THE-CLEAR>")
	// 1. the change builder itself
	var author int
	for i := 0; i < w.N; i++ {
		if canWrite(w.M.Perm[i]) {
			author = i
			break
		}
	}
	_, raw, err := objecttree.NewChangeBuilder(crypto.NewKeyStorage(), e.root).Build(objecttree.BuilderContent{
		TreeHeadIds: e.realTree.Heads(), AclHeadId: w.Head(), SnapshotBaseId: e.root.Id, ReadKeyId: e.gens[len(e.gens)-1].id,
		PrivKey: w.Keys[author].SignKey, ReadKey: nil, Unencrypted: false, Content: secret, Timestamp: 946684900,
	})
	if raw != nil && bytes.Contains(raw.RawChange, secret) {
		return fmt.Errorf("ChangeBuilder.Build with Unencrypted=false and no read key emitted the plaintext (err=%v)", err)
	}
	if err == nil || raw != nil {
		return fmt.Errorf("ChangeBuilder.Build with Unencrypted=false and no read key did not fail (err=%v, change=%v)", err, raw != nil)
	}
	if !errors.Is(err, objecttree.ErrMissingEncryptKey) {
		return fmt.Errorf("ChangeBuilder.Build with Unencrypted=false and no read key failed with %v, want ErrMissingEncryptKey", err)
	}
	e.classes["builder-refuses-nil-key"] = true
	// 2. trees seen through ACL views that lack the current key, on the real storage of a
	// member (a wrongly emitted change would land there)
	try := func(i int, signer int, wantMissingKey bool, what string) error {
		st, err := objecttree.NewStorage(ctx, e.root.Id, real.hs, real.db)
		if err != nil {
			return err
		}
		setAddSeq(st)
		t, err := objecttree.BuildObjectTree(st, e.fresh[i][0])
		if err != nil {
			return nil // this view cannot even build the tree: nothing is emitted
		}
		headsBefore := fmt.Sprint(t.Heads())
		t.Lock()
		res, aerr := t.AddContent(ctx, objecttree.SignableChangeContent{Data: secret, Key: w.Keys[signer].SignKey, ShouldBeEncrypted: true, Timestamp: 946684901, DataType: "t"})
		var praw *treechangeproto.RawTreeChangeWithId
		var perr error
		if aerr != nil {
			praw, perr = t.PrepareChange(objecttree.SignableChangeContent{Data: secret, Key: w.Keys[signer].SignKey, ShouldBeEncrypted: true, Timestamp: 946684902, DataType: "t"})
		}
		t.Unlock()
		for _, a := range res.Added {
			if bytes.Contains(a.RawChange, secret) {
				return fmt.Errorf("%s: AddContent(ShouldBeEncrypted) emitted the plaintext", what)
			}
		}
		if praw != nil && bytes.Contains(praw.RawChange, secret) {
			return fmt.Errorf("%s: PrepareChange(ShouldBeEncrypted) emitted the plaintext", what)
		}
		if aerr == nil || len(res.Added) != 0 || fmt.Sprint(t.Heads()) != headsBefore {
			return fmt.Errorf("%s: AddContent(ShouldBeEncrypted) succeeded without the current read key (err=%v, added=%d)", what, aerr, len(res.Added))
		}
		if perr == nil {
			return fmt.Errorf("%s: PrepareChange(ShouldBeEncrypted) succeeded without the current read key", what)
		}
		if wantMissingKey && !errors.Is(aerr, objecttree.ErrMissingKey) {
			return fmt.Errorf("%s: AddContent(ShouldBeEncrypted) failed with %v, want ErrMissingKey", what, aerr)
		}
		return nil
	}
	never, removed := -1, -1
	for i := 0; i < w.N; i++ {
		if member(w.M.Perm[i]) {
			continue
		}
		if e.lastHeld(i) < 0 && never < 0 {
			never = i
		}
		if e.lastHeld(i) >= 0 && removed < 0 {
			removed = i
		}
	}
	if never >= 0 {
		// an ACL view without any key (a never-admitted account's) asked to encrypt a change
		// signed by an account that may write: the only thing missing is the key
		if err := try(never, author, true, fmt.Sprintf("tree over the ACL view of never-admitted account %d, change signed by writer %d", never, author)); err != nil {
			return err
		}
		e.classes["tree-view-without-key-gets-ErrMissingKey"] = true
	}
	if removed >= 0 {
		if err := try(removed, removed, false, fmt.Sprintf("tree over the ACL view of removed account %d, change signed by itself", removed)); err != nil {
			return err
		}
		e.classes["tree-removed-account-cannot-write"] = true
	}
	return nil
}

// fromStorage: account i builds the tree FROM the replica's real STORAGE (which holds every
// raw change) over a view of the ACL rebuilt from the raw log.
func (e *env) fromStorage(i int) error {
	w := e.w
	var l list.AclList = e.fresh[i][0]
	kind := "full validation"
	if i%2 == 1 && e.fresh[i][1] != nil {
		l, kind = e.fresh[i][1], "client verifier"
	}
	st, err := objecttree.NewStorage(ctx, e.root.Id, real.hs, real.db)
	if err != nil {
		return err
	}
	setAddSeq(st)
	t, err := objecttree.BuildObjectTree(st, l)
	if err != nil {
		if member(w.M.Perm[i]) {
			return fmt.Errorf("member %d cannot build the tree from storage over its ACL view (%s): %v", i, kind, err)
		}
		return nil
	}
	if err := e.checkReader(i, t, fmt.Sprintf("the tree account %d builds from storage over its ACL view rebuilt from the raw log (%s)", i, kind)); err != nil {
		return err
	}
	e.classes["tree-built-from-storage"] = true
	return nil
}

func (e *env) finalTrees() error {
	if len(e.writes) == 0 {
		return nil
	}
	w := e.w
	for i := 0; i < w.N; i++ {
		if member(w.M.Perm[i]) {
			vi, err := e.view(i)
			if err != nil {
				return err
			}
			delivered := vi.have < len(e.changes)
			if err := e.feed(vi); err != nil {
				return fmt.Errorf("member %d cannot add the transmitted raw changes to its tree: %v", i, err)
			}
			// an open tree that received ciphertext while its account was out reloads its keys
			// the next time it takes part in something (a change arrives, it writes): reading
			// through it before that is outside the statement (IterateRoot does not look at the ACL)
			if !vi.outFed || delivered {
				if err := e.checkReader(i, vi.tree, fmt.Sprintf("account %d's long-lived tree", i)); err != nil {
					return err
				}
			}
		}
		if err := e.fromStorage(i); err != nil {
			return err
		}
	}
	return nil
}

var _ = recordverifier.New
