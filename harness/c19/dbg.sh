#!/bin/sh
# usage: dbg.sh [checks] [seed]
cd /verif/harness && export GOFLAGS=-mod=mod GOPROXY=off && rm -rf /dev/shm/c19dbg c19/testdata
VERIF_REPLAY_OUT=/dev/shm/c19dbg go test -tags verif -vet=off -count=1 -run 'TestRandom' ./c19 -rapid.checks=${1:-300} ${2:+-rapid.seed=$2} -rapid.nofailfile 2>&1 | grep -v "\[rapid\] draw" | grep -v "^ *\(/root\|/verif\).*\.go:[0-9]* in\|traceback\|Failed test output\|^ *$" | tail -8
[ -f /dev/shm/c19dbg/TestRandom.json ] && python3 -c "
import json
d=json.load(open('/dev/shm/c19dbg/TestRandom.json'))
print(d['error'])
print(json.dumps(d['case']))"
exit 0
