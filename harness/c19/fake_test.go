package c19

// Harness-owned environment of the stream pool: fake drpc.Stream (gated MsgSend, scripted
// MsgRecv), fake peer.Peer, and the StreamHandler the pool dials through.
//
// Every MsgSend parks until the controller releases it ("frozen writers"): a healthy
// stream is one the controller releases at every quiescence point until it is drained, a
// slow one is released one send per schedule step, a blocked one never (until teardown).
// No send completes while a burst of pool calls is running, which keeps run(c)
// deterministic up to the few races the model treats as "may".

import (
	"context"
	"errors"
	"fmt"
	"io"
	"sync"

	"storj.io/drpc"

	"github.com/anyproto/any-sync/app"
	"github.com/anyproto/any-sync/net/peer"
	"github.com/anyproto/any-sync/net/streampool"
	"github.com/anyproto/any-sync/net/streampool/streamhandler"
)

// ---- messages ------------------------------------------------------------------------

const (
	cmdNone = iota
	cmdHello
	cmdAddTags
	cmdRemoveTags
	cmdFail // HandleMessage returns an error
)

// Msg is the drpc.Message used in both directions. Outbound: Id identifies the pool call
// that produced it; the pool copies it per stream (peerMessage) and stamps the peer id.
// Inbound: From/Cmd/Tags script the handler.
type Msg struct {
	Id     int
	PeerId string
	From   string
	Cmd    int
	Tags   []string
}

func (m *Msg) SetPeerId(p string) { m.PeerId = p }
func (m *Msg) Copy() drpc.Message { cp := *m; return &cp }

// ---- fake stream ----------------------------------------------------------------------

var (
	errSendFail   = errors.New("fake: send failed")
	errRecvFail   = errors.New("fake: recv failed")
	errFakeClosed = errors.New("fake: stream closed")
)

type recvCmd struct {
	msg Msg
	err error
}

type parkedSend struct {
	n       int
	release chan struct{}
}

type fakeStream struct {
	key    string
	peerId string
	spec   StreamSpec
	tags   []string // slice handed to the pool
	ctx    context.Context
	cancel context.CancelFunc

	mu         sync.Mutex
	sendCalls  int
	obs        []int // outbound message ids in MsgSend entry order
	foreign    []string
	parked     *parkedSend
	drain      bool
	free       bool // stress mode: a healthy stream's sends pass without parking
	closed     bool
	closeCalls int
	closedCh   chan struct{}
	endKnown   bool // a fake call has returned an error to the pool (the stream is ending)
	lateSends  int  // MsgSend entries after the harness declared the stream dead
	dead       bool
	recvCalls  int
	recvQ      chan recvCmd
}

func newFakeStream(key, peerId string, spec StreamSpec, tags []string) *fakeStream {
	ctx, cancel := context.WithCancel(peer.CtxWithPeerId(context.Background(), peerId))
	return &fakeStream{
		key: key, peerId: peerId, spec: spec, tags: tags, ctx: ctx, cancel: cancel,
		closedCh: make(chan struct{}), recvQ: make(chan recvCmd, 64),
	}
}

func (f *fakeStream) Context() context.Context { return f.ctx }
func (f *fakeStream) CloseSend() error         { return nil }

var errCloseFail = errors.New("fake: close packet could not be written")

// Close is what the pool calls. The stream is closed in any case (parked calls return);
// spec.CloseErr makes it report an error like a drpc stream on a dead transport does
// (1: every call, 2: only the first call).
func (f *fakeStream) Close() error {
	f.mu.Lock()
	f.closeCalls++
	n := f.closeCalls
	f.closeLocked()
	f.mu.Unlock()
	if f.spec.CloseErr == 1 || (f.spec.CloseErr == 2 && n == 1) {
		return errCloseFail
	}
	return nil
}

// extClose: the transport / the harness ends the stream (not counted as a pool Close call).
func (f *fakeStream) extClose() {
	f.mu.Lock()
	f.closeLocked()
	f.mu.Unlock()
}

func (f *fakeStream) closeLocked() {
	if !f.closed {
		f.closed = true
		close(f.closedCh)
	}
}

func (f *fakeStream) MsgSend(msg drpc.Message, _ drpc.Encoding) error {
	m, _ := msg.(*Msg)
	f.mu.Lock()
	if f.dead {
		f.lateSends++
	}
	if m == nil {
		f.foreign = append(f.foreign, fmt.Sprintf("non-Msg %T", msg))
		f.mu.Unlock()
		return nil
	}
	if m.PeerId != f.peerId {
		f.foreign = append(f.foreign, fmt.Sprintf("msg %d stamped for peer %q", m.Id, m.PeerId))
	}
	f.sendCalls++
	n := f.sendCalls
	f.obs = append(f.obs, m.Id)
	if f.closed {
		f.endKnown = true
		f.mu.Unlock()
		return errFakeClosed
	}
	if f.drain || f.free {
		err := f.resultLocked(n)
		f.mu.Unlock()
		return err
	}
	p := &parkedSend{n: n, release: make(chan struct{})}
	f.parked = p
	f.mu.Unlock()
	var err error
	select {
	case <-p.release:
		f.mu.Lock()
		err = f.resultLocked(n)
		f.mu.Unlock()
	case <-f.closedCh:
		err = errFakeClosed
	case <-f.ctx.Done():
		err = f.ctx.Err()
	}
	f.mu.Lock()
	if f.parked == p {
		f.parked = nil
	}
	if err != nil {
		f.endKnown = true
	}
	f.mu.Unlock()
	return err
}

func (f *fakeStream) resultLocked(n int) error {
	if f.spec.FailSendAt > 0 && n == f.spec.FailSendAt {
		f.endKnown = true
		return errSendFail
	}
	return nil
}

// releaseOne lets the parked MsgSend return; reports whether that send fails.
func (f *fakeStream) releaseOne() (released, fails bool) {
	f.mu.Lock()
	p := f.parked
	f.parked = nil
	f.mu.Unlock()
	if p == nil {
		return false, false
	}
	close(p.release)
	return true, f.spec.FailSendAt > 0 && p.n == f.spec.FailSendAt
}

func (f *fakeStream) isParked() bool {
	f.mu.Lock()
	defer f.mu.Unlock()
	return f.parked != nil
}

func (f *fakeStream) setDrain() {
	f.mu.Lock()
	f.drain = true
	f.mu.Unlock()
	f.releaseOne()
}

func (f *fakeStream) markDead() {
	f.mu.Lock()
	f.dead = true
	f.mu.Unlock()
}

func (f *fakeStream) snapshot() (obs []int, foreign []string, late int, endKnown bool) {
	f.mu.Lock()
	defer f.mu.Unlock()
	return append([]int(nil), f.obs...), append([]string(nil), f.foreign...), f.lateSends, f.endKnown
}

func (f *fakeStream) MsgRecv(msg drpc.Message, _ drpc.Encoding) error {
	m := msg.(*Msg)
	f.mu.Lock()
	f.recvCalls++
	n := f.recvCalls
	if f.spec.FailRecvAt > 0 && n == f.spec.FailRecvAt {
		f.endKnown = true
		f.mu.Unlock()
		return errRecvFail
	}
	f.mu.Unlock()
	if n == 1 {
		*m = Msg{From: f.key, Cmd: cmdHello}
		return nil
	}
	var err error
	select {
	case c := <-f.recvQ:
		if c.err == nil {
			*m = c.msg
			m.From = f.key
			return nil
		}
		err = c.err
	case <-f.closedCh:
		err = io.EOF
	case <-f.ctx.Done():
		err = f.ctx.Err()
	}
	f.mu.Lock()
	f.endKnown = true
	f.mu.Unlock()
	return err
}

// ---- fake peer ------------------------------------------------------------------------

// fakePeer satisfies peer.Peer; the pool only uses Id and Context, the rest would panic
// through the nil embedded interface (and thereby show up).
type fakePeer struct {
	peer.Peer
	id  string
	ctx context.Context
}

func (p *fakePeer) Id() string               { return p.id }
func (p *fakePeer) Context() context.Context { return p.ctx }

// ---- stream handler ---------------------------------------------------------------------

type knownCtx struct {
	ctx      context.Context
	streamId uint32
}

type handler struct {
	h  *harness
	mu sync.Mutex
	// facts the environment learns
	ctxs      map[string]knownCtx // stream key -> ctx seen in HandleMessage
	dialed    []*fakeStream       // streams handed out by OpenStream, in call order
	dialCount map[string]int      // per peer id
	dialErrs  map[string]int
	stuck     int // OpenStream calls currently parked
	stuckGate chan struct{}
	tagErrs   []string // results of tag calls made from inside HandleMessage
	panics    []string
	hooks     []*hookWait // close-hook invocations that parked
	hookCalls int
}

type hookWait struct {
	ch       chan struct{}
	burst    int
	released bool
}

// closeHook is registered with streampool.WithStreamCloseHook (documented to run outside the
// pool lock). Depending on the case it returns at once, parks until the controller releases
// it (so later pool calls run while it is parked), and/or calls back into the pool.
func (hd *handler) closeHook(streamId uint32, peerId string, tags []string) {
	h := hd.h
	defer func() {
		if r := recover(); r != nil {
			hd.mu.Lock()
			hd.panics = append(hd.panics, fmt.Sprintf("panic in close hook: %v", r))
			hd.mu.Unlock()
		}
	}()
	kind := h.c.Hook
	var w *hookWait
	hd.mu.Lock()
	hd.hookCalls++
	if (kind == hookPark || kind == hookParkReenter) && !h.draining {
		w = &hookWait{ch: make(chan struct{}), burst: int(h.burstAt.Load())}
		hd.hooks = append(hd.hooks, w)
	}
	hd.mu.Unlock()
	if w != nil {
		<-w.ch
	}
	if kind == hookReenter || kind == hookParkReenter {
		var all []string
		for t := 0; t < nTags; t++ {
			all = append(all, tagName(t))
		}
		_ = h.pool.Streams(all...)
		_ = h.pool.RemoveTagsById(streamId, tags...)
		_ = h.pool.Broadcast(h.ctx, &Msg{Id: -1}, "tag-nobody-has")
	}
}

// releaseHooks lets the hooks that parked in a burst before `before` return.
func (hd *handler) releaseHooks(before int) (n int) {
	hd.mu.Lock()
	defer hd.mu.Unlock()
	for _, w := range hd.hooks {
		if !w.released && w.burst < before {
			w.released = true
			close(w.ch)
			n++
		}
	}
	return
}

func (hd *handler) hooksParked() (n int) {
	hd.mu.Lock()
	defer hd.mu.Unlock()
	for _, w := range hd.hooks {
		if !w.released {
			n++
		}
	}
	return
}

var _ streamhandler.StreamHandler = (*handler)(nil)

func (hd *handler) Init(*app.App) error { return nil }
func (hd *handler) Name() string        { return streamhandler.CName }

func (hd *handler) NewReadMessage() drpc.Message { return new(Msg) }

func (hd *handler) OpenStream(ctx context.Context, p peer.Peer) (drpc.Stream, []string, int, error) {
	h := hd.h
	pi, ok := h.peerIdx[p.Id()]
	if !ok {
		return nil, nil, 0, fmt.Errorf("unknown peer %s", p.Id())
	}
	ps := h.c.Peers[pi]
	switch ps.Dial {
	case dialError:
		hd.mu.Lock()
		hd.dialErrs[p.Id()]++
		hd.mu.Unlock()
		return nil, nil, 0, errors.New("fake: dial failed")
	case dialStuck:
		hd.mu.Lock()
		hd.stuck++
		hd.mu.Unlock()
		select {
		case <-hd.stuckGate:
		case <-ctx.Done():
		}
		hd.mu.Lock()
		hd.stuck--
		hd.mu.Unlock()
		return nil, nil, 0, errors.New("fake: dial gave up")
	}
	hd.mu.Lock()
	hd.dialCount[p.Id()]++
	n := hd.dialCount[p.Id()]
	key := fmt.Sprintf("d%d.%d", pi, n)
	f := newFakeStream(key, p.Id(), ps.Stream, h.tagSlice(ps.Stream.Tags))
	hd.dialed = append(hd.dialed, f)
	if h.draining {
		f.drain = true
	}
	if h.stressFree && ps.Stream.Gate == gateHealthy {
		f.free = true
	}
	hd.mu.Unlock()
	return f, f.tags, ps.Stream.Queue, nil
}

func (hd *handler) HandleMessage(ctx context.Context, peerId string, msg drpc.Message) (err error) {
	defer func() {
		if r := recover(); r != nil {
			hd.mu.Lock()
			hd.panics = append(hd.panics, fmt.Sprintf("panic in HandleMessage: %v", r))
			hd.mu.Unlock()
		}
	}()
	m := msg.(*Msg)
	switch m.Cmd {
	case cmdHello:
		id, ok := streampool.CtxStreamId(ctx)
		if ok {
			hd.mu.Lock()
			hd.ctxs[m.From] = knownCtx{ctx: ctx, streamId: id}
			hd.mu.Unlock()
		}
	case cmdAddTags:
		if e := hd.h.pool.AddTagsCtx(ctx, m.Tags...); e != nil {
			hd.noteTagErr("AddTagsCtx", m.From, e)
		}
	case cmdRemoveTags:
		if e := hd.h.pool.RemoveTagsCtx(ctx, m.Tags...); e != nil {
			hd.noteTagErr("RemoveTagsCtx", m.From, e)
		}
	case cmdFail:
		return errors.New("fake: handler rejects message")
	}
	return nil
}

func (hd *handler) noteTagErr(call, key string, e error) {
	hd.mu.Lock()
	hd.tagErrs = append(hd.tagErrs, fmt.Sprintf("%s from HandleMessage of live stream %s: %v", call, key, e))
	hd.mu.Unlock()
}
