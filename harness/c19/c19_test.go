// Package c19 decides property C19 (outbound messaging through net/streampool is bounded
// and isolated: a stuck peer blocks nobody) by running the real stream pool inside
// testing/synctest bubbles against harness-owned streams, peers and a stream handler, and
// comparing what the fake streams observe with a reference model of the statement.
package c19

import (
	"context"
	"encoding/json"
	"errors"
	"fmt"
	"os"
	"path/filepath"
	"runtime"
	"sort"
	"strings"
	"sync"
	"sync/atomic"
	"testing"
	"testing/synctest"
	"time"

	"pgregory.net/rapid"
	"storj.io/drpc"

	"github.com/anyproto/any-sync/app/logger"
	anynet "github.com/anyproto/any-sync/net"
	"github.com/anyproto/any-sync/net/peer"
	"github.com/anyproto/any-sync/net/streampool"

	"verif/harness/internal/vstat"
)

const prop = "C19"

func TestMain(m *testing.M) {
	// Only fatal-level lines are printed: the pool's log.Fatal on index inconsistency must
	// reach the shard output (the driver matches it), everything else is noise.
	logger.Config{Production: true, DefaultLevel: "fatal", Format: logger.PlaintextOutput}.ApplyGlobal()
	vstat.Main(m, prop)
}

// ---- case (plain data) -------------------------------------------------------------------

const (
	gateHealthy = 0 // released at every quiescence point until drained
	gateSlow    = 1 // one send released per schedule step
	gateBlocked = 2 // MsgSend never returns (until the stream is closed / teardown)
)

const (
	dialOK    = 0
	dialError = 1
	dialStuck = 2 // OpenStream never returns (until teardown)
)

const (
	opSend = iota
	opSendById
	opBroadcast
	opAddTags
	opRemoveTags
	opRemoveTagsById
	opClose      // via 0: the transport closes the stream, via 1: its context is cancelled
	opRecvErr    // MsgRecv returns an error
	opHandlerErr // an incoming message the handler rejects
	opAddStream  // hand the next not-yet-added stream to the pool
	nOpKinds
)

const (
	hookNone        = 0 // pool built without a close hook
	hookInstant     = 1
	hookPark        = 2 // parks until the quiescence point after the next burst
	hookReenter     = 3 // calls Streams / RemoveTagsById / Broadcast from inside the hook
	hookParkReenter = 4
)

const nTags = 4

type StreamSpec struct {
	Gate       int   `json:"gate"`
	Peer       int   `json:"peer"`
	Tags       []int `json:"tags"`
	Queue      int   `json:"queue"`
	FailSendAt int   `json:"fail_send_at"` // n>0: the n-th MsgSend returns an error
	FailRecvAt int   `json:"fail_recv_at"` // n>0: the n-th MsgRecv returns an error (call 1 delivers a hello)
	Incoming   bool  `json:"incoming"`     // registered with ReadStream instead of AddStream
	CloseErr   int   `json:"close_err"`    // the stream's Close() returns an error: 0 never, 1 always, 2 only the first call
}

type PeerSpec struct {
	Dial   int        `json:"dial"`
	Stream StreamSpec `json:"stream"` // what the handler's OpenStream yields for this peer
}

type Op struct {
	Kind  int   `json:"kind"`
	A     int   `json:"a"`     // stream selector, modulo the streams known at the last quiescence
	Peers []int `json:"peers"` // Send / SendById targets, modulo the number of peers
	Tags  []int `json:"tags"`  // tag indices modulo nTags
	Via   int   `json:"via"`   // tag ops: 0 direct call with the stream's ctx, 1 from inside HandleMessage; close: 0 Close, 1 ctx cancel
	N     int   `json:"n"`     // Send/SendById/Broadcast: number of back-to-back calls (each its own message), 1..6
	Pace  bool  `json:"pace"`  // quiesce (synctest.Wait, drain healthy streams, one schedule step) after this op
}

type Case struct {
	Peers      []PeerSpec   `json:"peers"`
	Streams    []StreamSpec `json:"streams"`
	Initial    int          `json:"initial"` // streams added before the first op
	Workers    int          `json:"workers"`
	DialQueue  int          `json:"dial_queue"`
	SharedTags bool         `json:"shared_tags"` // streams with equal tag lists hand the pool the same slice
	Hook       int          `json:"hook"`        // behaviour of the WithStreamCloseHook callback (hook* constants)
	Ops        []Op         `json:"ops"`
	Sched      []int        `json:"sched"` // per quiescence point: 0 nothing, k>0 release one send of the (k-1 mod n)-th parked slow stream
}

func clamp(v, lo, hi int) int {
	if v < lo {
		return lo
	}
	if v > hi {
		return hi
	}
	return v
}

// listTags normalises a tag list that may mention a tag several times (legal input for
// AddStream / ReadStream / OpenStream / AddTagsCtx / RemoveTags*).
func listTags(in []int) []int {
	if len(in) > 4 {
		in = in[:4]
	}
	var out []int
	for _, t := range in {
		out = append(out, ((t%nTags)+nTags)%nTags)
	}
	return out
}

func normTags(in []int) []int {
	var out []int
	seen := map[int]bool{}
	for _, t := range in {
		t = ((t % nTags) + nTags) % nTags
		if !seen[t] {
			seen[t] = true
			out = append(out, t)
		}
	}
	return out
}

func normSpec(s StreamSpec, nPeers int, dial bool) StreamSpec {
	s.Gate = clamp(s.Gate, 0, 2)
	s.Peer = ((s.Peer % nPeers) + nPeers) % nPeers
	s.Tags = listTags(s.Tags)
	s.Queue = clamp(s.Queue, 1, 5)
	s.FailSendAt = clamp(s.FailSendAt, 0, 6)
	s.FailRecvAt = clamp(s.FailRecvAt, 0, 6)
	s.CloseErr = clamp(s.CloseErr, 0, 2)
	if dial {
		// a dialled stream that dies at once would be re-dialled in a loop whose length is a race
		s.FailRecvAt = 0
		s.Incoming = false
	}
	return s
}

// norm brings arbitrary (replayed, shrunk) data into the domain; it is idempotent.
func norm(c Case) Case {
	if len(c.Peers) == 0 {
		c.Peers = []PeerSpec{{}}
	}
	if len(c.Peers) > 4 {
		c.Peers = c.Peers[:4]
	}
	c.Peers = append([]PeerSpec(nil), c.Peers...)
	for i := range c.Peers {
		c.Peers[i].Dial = clamp(c.Peers[i].Dial, 0, 2)
		c.Peers[i].Stream = normSpec(c.Peers[i].Stream, len(c.Peers), true)
		c.Peers[i].Stream.Peer = i
	}
	if len(c.Streams) > 6 {
		c.Streams = c.Streams[:6]
	}
	c.Streams = append([]StreamSpec(nil), c.Streams...)
	for i := range c.Streams {
		c.Streams[i] = normSpec(c.Streams[i], len(c.Peers), false)
	}
	c.Initial = clamp(c.Initial, 0, len(c.Streams))
	c.Workers = clamp(c.Workers, 1, 3)
	c.DialQueue = clamp(c.DialQueue, 1, 5)
	c.Hook = clamp(c.Hook, 0, 4)
	if len(c.Ops) > 40 {
		c.Ops = c.Ops[:40]
	}
	c.Ops = append([]Op(nil), c.Ops...)
	for i := range c.Ops {
		o := &c.Ops[i]
		o.Kind = ((o.Kind % nOpKinds) + nOpKinds) % nOpKinds
		if o.A < 0 {
			o.A = -o.A
		}
		o.Via = clamp(o.Via, 0, 1)
		o.N = clamp(o.N, 1, 6)
		if o.Kind > opBroadcast {
			o.N = 1
		}
		o.Tags = listTags(o.Tags)
		var ps []int
		seen := map[int]bool{}
		for _, p := range o.Peers {
			p = ((p % len(c.Peers)) + len(c.Peers)) % len(c.Peers)
			if !seen[p] {
				seen[p] = true
				ps = append(ps, p)
			}
		}
		o.Peers = ps
		switch o.Kind {
		case opSend, opSendById:
			if len(o.Peers) == 0 {
				o.Peers = []int{0}
			}
			o.Tags, o.A, o.Via = nil, 0, 0
		case opBroadcast:
			if len(o.Tags) == 0 {
				o.Tags = []int{0}
			}
			o.Peers, o.A, o.Via = nil, 0, 0
		case opAddTags, opRemoveTags:
			if len(o.Tags) == 0 {
				o.Tags = []int{0}
			}
			o.Peers = nil
		case opRemoveTagsById:
			if len(o.Tags) == 0 {
				o.Tags = []int{0}
			}
			o.Peers, o.Via = nil, 0
		case opClose:
			o.Peers, o.Tags = nil, nil
		case opRecvErr, opHandlerErr:
			o.Peers, o.Tags, o.Via = nil, nil, 0
		case opAddStream:
			o.Peers, o.Tags, o.Via, o.A = nil, nil, 0, 0
		}
	}
	for i := range c.Sched {
		if c.Sched[i] < 0 {
			c.Sched[i] = -c.Sched[i]
		}
		c.Sched[i] %= 8
	}
	return c
}

// ---- bursts -------------------------------------------------------------------------------

// A burst is a maximal run of ops issued back to back by one goroutine with no quiescence
// in between. The grouping is a function of the case alone.
func bursts(c Case) [][]Op {
	var out [][]Op
	var cur []Op
	hasSend, hasAdd := false, false
	flush := func() {
		if len(cur) > 0 {
			out = append(out, cur)
		}
		cur, hasSend, hasAdd = nil, false, false
	}
	stuckSeen := false
	nextAdd := c.Initial
	for _, o := range c.Ops {
		solo, after := false, o.Pace
		switch o.Kind {
		case opAddTags, opRemoveTags:
			if o.Via == 1 {
				solo = true // applied by the read loop: keep it alone so its effect is exact
			}
		case opSend:
			for _, p := range o.Peers {
				if c.Peers[p].Dial == dialStuck {
					stuckSeen = true
				}
			}
			if stuckSeen {
				solo = true // dial workers may be parked: account for them exactly
				o.N = 1
			}
			if hasAdd {
				flush()
			}
		case opAddStream:
			if hasSend {
				flush() // keeps the per-peer stream order known to the model
			}
			if nextAdd < len(c.Streams) && c.Streams[nextAdd].Incoming {
				after = true // ReadStream registers from its own goroutine
			}
			nextAdd++
		}
		if solo {
			flush()
		}
		cur = append(cur, o)
		hasSend = hasSend || o.Kind == opSend
		hasAdd = hasAdd || o.Kind == opAddStream
		if solo || after {
			flush()
		}
	}
	flush()
	return out
}

// ---- model --------------------------------------------------------------------------------

type entry struct {
	msg   int
	must  bool
	async bool // issued through Send inside a multi-op burst (processed by the dial workers at an unknown time)
	burst int
}

type snap struct {
	obsIdx int // index in obs of the message in flight when the snapshot was taken
	t      int // messages with id < t had been issued
	cnt    int
}

type mStream struct {
	f        *fakeStream
	peer     int
	q        int
	healthy  bool // gate healthy and no scripted failure
	tags     map[int]bool
	mayTags  map[int]bool // tags a racing AddTags may have given an ending stream
	mult     map[int]int  // tag -> times it was mentioned at registration (while still held from then)
	added    bool
	dying    bool // an end event has been triggered since the last quiescence
	dead     bool
	ctxKnown bool
	kc       knownCtx
	parked   bool // a send was in flight at the last quiescence
	pending  []*entry
	seen     int
	cmds     int
	snaps    []snap
	readRet  chan error
}

func (s *mStream) present() bool { return s.added && !s.dead }

type msgInfo struct {
	kind  int
	peers map[int]bool // Send/SendById: addressed peers
	seenP map[int]int  // peer -> times observed (Send/SendById: at most once per peer)
	limbo map[int]bool // peers that may still get it at teardown (task parked behind a stuck dial)
	tags  map[int]bool // Broadcast: addressed tags
}

type expDial struct{ peer, msg int }

type harness struct {
	c          Case
	ctx        context.Context
	pool       streampool.StreamPool
	hd         *handler
	peers      []*fakePeer
	peerIdx    map[string]int
	tagSl      map[string][]string
	tagMu      sync.Mutex
	draining   bool
	stressFree bool

	streams  []*mStream          // explicit streams by spec index, then dialled ones in integration order
	byKey    map[string]*mStream //
	order    []*mStream          // pool insertion order (per peer this is the order the pool tries streams in)
	known    []*mStream          // selectable by ops: snapshot at the last quiescence
	nextAdd  int
	dialSeen int

	msgs         []*msgInfo
	burstNo      int
	burstSolo    bool
	burstSends   int
	burstAsync   []int
	burstMsgs    []int        // every message issued in the current burst
	mayDial      map[int]bool // peers an in-burst Send may have opened a stream to (unknown until quiescence)
	burstEnded   map[*mStream]bool
	expDials     []expDial
	stuckWorkers int
	dq           int
	step         int

	burstAt  atomic.Int32 // mirror of burstNo for the hook goroutines
	progress atomic.Int32
	abort    atomic.Bool
	vioMu    sync.Mutex
	vio      []string

	nonTrivial bool
	classes    map[string]bool
}

func tagName(t int) string { return fmt.Sprintf("t%d", t) }

func tagNames(ts []int) []string {
	out := make([]string, len(ts))
	for i, t := range ts {
		out[i] = tagName(t)
	}
	return out
}

func (h *harness) tagSlice(ts []int) []string {
	if !h.c.SharedTags {
		return tagNames(ts)
	}
	k := fmt.Sprint(ts)
	h.tagMu.Lock()
	defer h.tagMu.Unlock()
	if s, ok := h.tagSl[k]; ok {
		return s
	}
	s := tagNames(ts)
	h.tagSl[k] = s
	return s
}

func (h *harness) violate(f string, a ...any) {
	h.vioMu.Lock()
	h.vio = append(h.vio, fmt.Sprintf(f, a...))
	h.vioMu.Unlock()
}

func (h *harness) failed() bool {
	h.vioMu.Lock()
	defer h.vioMu.Unlock()
	return len(h.vio) > 0
}

func (h *harness) class(c string) { h.classes[c] = true }

func newHarness(c Case) *harness {
	h := &harness{c: c, ctx: context.Background(), peerIdx: map[string]int{}, tagSl: map[string][]string{},
		byKey: map[string]*mStream{}, classes: map[string]bool{}, burstEnded: map[*mStream]bool{}}
	h.hd = &handler{h: h, ctxs: map[string]knownCtx{}, dialCount: map[string]int{}, dialErrs: map[string]int{}, stuckGate: make(chan struct{})}
	for i := range c.Peers {
		id := fmt.Sprintf("peer%d", i)
		h.peerIdx[id] = i
		h.peers = append(h.peers, &fakePeer{id: id, ctx: peer.CtxWithPeerId(context.Background(), id)})
	}
	h.streams = make([]*mStream, len(c.Streams))
	var opts []streampool.Option
	if c.Hook != hookNone {
		opts = append(opts, streampool.WithStreamCloseHook(h.hd.closeHook))
	}
	h.pool = streampool.NewStreamPool(h.hd, streampool.StreamConfig{SendQueueSize: 10, DialQueueWorkers: c.Workers, DialQueueSize: c.DialQueue}, opts...)
	return h
}

func (h *harness) newModelStream(f *fakeStream, spec StreamSpec) *mStream {
	s := &mStream{f: f, peer: spec.Peer, q: spec.Queue, tags: map[int]bool{}, mayTags: map[int]bool{}, added: true,
		healthy: spec.Gate == gateHealthy && spec.FailSendAt == 0 && spec.FailRecvAt == 0}
	s.mult = map[int]int{}
	for _, t := range spec.Tags {
		s.tags[t] = true
		s.mult[t]++
		if s.mult[t] == 2 {
			h.class("tag-mentioned-twice-at-registration")
		}
	}
	h.byKey[f.key] = s
	h.order = append(h.order, s)
	return s
}

// bounds on the number of messages sitting in the stream's queue (not counting the one in flight)
func (s *mStream) bounds() (lo, hi int) {
	for _, e := range s.pending {
		if e.must {
			lo++
		}
	}
	hi = len(s.pending)
	if !s.parked && lo > 0 {
		lo-- // an idle writer may already have taken the first one
	}
	return
}

func (h *harness) otherTrouble(s *mStream) bool {
	for _, o := range h.order {
		if o != s && o.present() && !o.healthy {
			return true
		}
	}
	return false
}

func (h *harness) addEntry(s *mStream, msg int, must, async bool) {
	s.pending = append(s.pending, &entry{msg: msg, must: must, async: async, burst: h.burstNo})
	if s.healthy && !s.dying && h.otherTrouble(s) {
		h.nonTrivial = true
	}
}

// address models one write of msg to s. It reports whether the write is certainly accepted
// (1), certainly rejected (-1) or undecided (0).
func (h *harness) address(s *mStream, msg int, async bool) int {
	if !s.present() {
		return -1
	}
	if s.dying {
		h.addEntry(s, msg, false, async)
		return 0
	}
	lo, hi := s.bounds()
	switch {
	case async:
		if lo < s.q {
			h.addEntry(s, msg, false, true)
			return 0
		}
		return -1
	case hi < s.q:
		h.addEntry(s, msg, true, false)
		return 1
	case lo < s.q:
		h.addEntry(s, msg, false, false)
		h.class("queue-boundary")
		return 0
	default:
		h.class("queue-overflow")
		if !s.healthy {
			h.class("queue-overflow-on-stuck-stream")
		}
		return -1
	}
}

func (h *harness) peerStreams(p int) (out []*mStream) {
	for _, s := range h.order {
		if s.peer == p && s.present() {
			out = append(out, s)
		}
	}
	return
}

// chain models "write to the peer's streams in order until one accepts".
func (h *harness) chain(p int, msg int, async bool) {
	ss := h.peerStreams(p)
	if len(ss) >= 2 {
		h.class("two-streams-one-peer")
	}
	degraded := async
	for _, s := range ss {
		if degraded {
			if s.dying {
				h.addEntry(s, msg, false, async)
			} else if lo, _ := s.bounds(); lo < s.q {
				h.addEntry(s, msg, false, async)
			}
			continue
		}
		switch h.address(s, msg, false) {
		case 1:
			return
		case 0:
			degraded = true
		}
	}
}

func (h *harness) newMsg(kind int, peers, tags []int) int {
	mi := &msgInfo{kind: kind, peers: map[int]bool{}, seenP: map[int]int{}, limbo: map[int]bool{}, tags: map[int]bool{}}
	for _, p := range peers {
		mi.peers[p] = true
	}
	for _, t := range tags {
		mi.tags[t] = true
	}
	h.msgs = append(h.msgs, mi)
	h.burstMsgs = append(h.burstMsgs, len(h.msgs)-1)
	return len(h.msgs) - 1
}

func (h *harness) markDying(s *mStream) {
	if !s.present() {
		return
	}
	s.dying = true
	if s.f.spec.CloseErr > 0 {
		h.class("end-with-close-error")
	}
	h.burstEnded[s] = true
	for _, e := range s.pending {
		e.must = false
	}
}

func (h *harness) pick(a int) *mStream {
	if len(h.known) == 0 {
		return nil
	}
	return h.known[a%len(h.known)]
}

// ---- executing one op (op goroutine) --------------------------------------------------------

func (h *harness) exec(o Op) {
	beat.Add(1)
	if o.N > 1 {
		n := o.N
		o.N = 1
		for i := 0; i < n && !h.abort.Load(); i++ {
			h.exec(o)
		}
		return
	}
	switch o.Kind {
	case opBroadcast:
		id := h.newMsg(opBroadcast, nil, o.Tags)
		for _, s := range h.order {
			hit := false
			for _, t := range o.Tags {
				hit = hit || s.tags[t] || (s.dying && s.mayTags[t])
			}
			if hit {
				if h.address(s, id, false) >= 0 {
					for k := h.extraCopies(s, o.Tags); k > 0; k-- {
						h.addEntry(s, id, false, false)
					}
				}
			}
		}
		if err := h.pool.Broadcast(h.ctx, &Msg{Id: id}, tagNames(o.Tags)...); err != nil {
			h.violate("Broadcast returned %v", err)
		}

	case opSendById:
		id := h.newMsg(opSendById, o.Peers, nil)
		var ids []string
		anyPresent, anyLive, unsure := false, false, false
		for _, p := range o.Peers {
			ids = append(ids, h.peers[p].id)
			unsure = unsure || h.mayDial[p]
			for _, s := range h.peerStreams(p) {
				anyPresent = true
				anyLive = anyLive || !s.dying
			}
		}
		if len(o.Peers) > 1 && anyPresent {
			h.class("sendbyid-multi-peer")
		}
		for _, p := range o.Peers {
			h.chain(p, id, false)
		}
		err := h.pool.SendById(h.ctx, &Msg{Id: id}, ids...)
		if !anyPresent && !unsure && !errors.Is(err, anynet.ErrUnableToConnect) {
			h.violate("SendById to peers %v that have no stream returned %v, want ErrUnableToConnect", o.Peers, err)
		}
		if anyLive && err != nil {
			h.violate("SendById to peers %v with a live stream returned %v", o.Peers, err)
		}
		if !anyPresent {
			h.class("sendbyid-no-stream")
		}

	case opSend:
		h.execSend(o)

	case opAddTags, opRemoveTags:
		s := h.pick(o.A)
		if s == nil {
			return
		}
		if h.burstEnded[s] {
			h.class("close-during-tag-change")
		}
		if o.Via == 1 {
			if !s.present() || s.dying {
				return
			}
			cmd := cmdAddTags
			if o.Kind == opRemoveTags {
				cmd = cmdRemoveTags
			}
			s.f.recvQ <- recvCmd{msg: Msg{Cmd: cmd, Tags: tagNames(o.Tags)}}
			h.applyTags(s, o)
			h.noteCmd(s)
			h.class("tag-change-from-handler")
			return
		}
		if !s.ctxKnown {
			return
		}
		var err error
		if o.Kind == opAddTags {
			err = h.pool.AddTagsCtx(s.kc.ctx, tagNames(o.Tags)...)
		} else {
			err = h.pool.RemoveTagsCtx(s.kc.ctx, tagNames(o.Tags)...)
		}
		if s.present() && !s.dying {
			if err != nil {
				h.violate("tag change (op kind %d) on live stream %s returned %v", o.Kind, s.f.key, err)
			}
			h.applyTags(s, o)
		} else if s.present() && o.Kind == opAddTags {
			for _, t := range o.Tags {
				s.mayTags[t] = true // races with the stream's removal: may or may not take effect
			}
		}

	case opRemoveTagsById:
		s := h.pick(o.A)
		if s == nil || !s.ctxKnown {
			return
		}
		if h.burstEnded[s] {
			h.class("close-during-tag-change")
		}
		if err := h.pool.RemoveTagsById(s.kc.streamId, tagNames(o.Tags)...); err != nil {
			h.violate("RemoveTagsById returned %v", err)
		}
		if s.present() && !s.dying {
			h.applyTags(s, o)
		}

	case opClose:
		s := h.pick(o.A)
		if s == nil || !s.present() {
			return
		}
		if o.Via == 1 {
			s.f.cancel()
			h.class("end-ctx-cancel")
		} else {
			s.f.extClose()
			h.class("end-transport-close")
		}
		h.markDying(s)

	case opRecvErr:
		s := h.pick(o.A)
		if s == nil || !s.present() {
			return
		}
		s.f.recvQ <- recvCmd{err: errRecvFail}
		h.markDying(s)
		h.class("end-recv-error")

	case opHandlerErr:
		s := h.pick(o.A)
		if s == nil || !s.present() {
			return
		}
		s.f.recvQ <- recvCmd{msg: Msg{Cmd: cmdFail}}
		h.markDying(s)
		h.class("end-handler-error")

	case opAddStream:
		h.addNext()
	}
}

func (h *harness) applyTags(s *mStream, o Op) {
	for _, t := range o.Tags {
		if o.Kind == opAddTags {
			s.tags[t] = true
		} else {
			delete(s.tags, t)
			if s.mult[t] > 1 {
				h.class("duplicate-tag-removed")
			}
			delete(s.mult, t)
		}
	}
}

// extraCopies: the statement does not say what a tag mentioned k times at registration means.
// The pool keeps k index entries for it, so Streams(tag) lists the stream up to k times and a
// Broadcast to that single tag may reach it up to k times; the model tolerates 1..k (further
// copies are "may") and insists only that all of them go away with the tag / the stream.
func (h *harness) extraCopies(s *mStream, tags []int) int {
	if len(tags) != 1 || s.mult[tags[0]] < 2 {
		return 0
	}
	return s.mult[tags[0]] - 1
}

// noteCmd: the stream consumed one more scripted incoming message; its next MsgRecv may be
// the one scripted to fail.
func (h *harness) noteCmd(s *mStream) {
	s.cmds++
	if n := s.f.spec.FailRecvAt; n > 0 && s.cmds+2 >= n {
		h.markDying(s)
		h.class("end-recv-error")
	}
}

func (h *harness) addNext() {
	if h.nextAdd >= len(h.c.Streams) {
		return
	}
	i := h.nextAdd
	h.nextAdd++
	spec := h.c.Streams[i]
	f := newFakeStream(fmt.Sprintf("e%d", i), h.peers[spec.Peer].id, spec, h.tagSlice(spec.Tags))
	s := h.newModelStream(f, spec)
	h.streams[i] = s
	if spec.FailRecvAt == 1 || spec.FailRecvAt == 2 {
		h.markDying(s) // ends by itself right away
		h.class("end-recv-error")
	}
	if spec.Incoming {
		h.class("incoming-readstream")
		s.readRet = make(chan error, 1)
		go func() {
			defer func() {
				if r := recover(); r != nil {
					h.violate("panic in ReadStream: %v", r)
					s.readRet <- fmt.Errorf("panic")
				}
			}()
			s.readRet <- h.pool.ReadStream(f, spec.Queue, f.tags...)
		}()
		return
	}
	if err := h.pool.AddStream(f, spec.Queue, f.tags...); err != nil {
		h.violate("AddStream(%s) returned %v", f.key, err)
	}
}

func (h *harness) execSend(o Op) {
	id := h.newMsg(opSend, o.Peers, nil)
	mi := h.msgs[id]
	var ps []peer.Peer
	for _, p := range o.Peers {
		ps = append(ps, h.peers[p])
	}
	send := func() error {
		return h.pool.Send(h.ctx, &Msg{Id: id}, func(context.Context) ([]peer.Peer, error) { return ps, nil })
	}
	if h.stuckWorkers >= h.c.Workers {
		// every dial worker is parked behind a stuck dial: the task is queued (bounded), the
		// caller still returns
		h.class("send-behind-stuck-dial")
		err := send()
		if h.dq < h.c.DialQueue {
			if err != nil {
				h.violate("Send with %d/%d queued dial tasks returned %v", h.dq, h.c.DialQueue, err)
			}
		} else {
			h.class("dial-queue-overflow")
		}
		if err == nil {
			h.dq++
			for _, p := range o.Peers {
				mi.limbo[p] = true
			}
		}
		return
	}
	if h.burstSolo {
		if err := send(); err != nil {
			h.violate("Send with an idle dial worker returned %v", err)
			return
		}
		for i, p := range o.Peers {
			if len(h.peerStreams(p)) > 0 {
				h.chain(p, id, false)
				continue
			}
			switch h.c.Peers[p].Dial {
			case dialOK:
				h.expDials = append(h.expDials, expDial{peer: p, msg: id})
				h.class("dial")
			case dialError:
				h.class("dial-error")
			case dialStuck:
				h.class("dial-stuck")
				h.stuckWorkers++
				for _, q := range o.Peers[i+1:] {
					mi.limbo[q] = true
				}
				return
			}
		}
		return
	}
	// inside a burst: processed by the dial workers at an unknown moment of the burst
	h.class("send-in-burst")
	err := send()
	if err != nil {
		if h.burstSends < h.c.DialQueue {
			h.violate("Send #%d of a burst with dial queue size %d returned %v", h.burstSends+1, h.c.DialQueue, err)
		}
		h.class("dial-queue-overflow")
		return
	}
	h.burstSends++
	h.burstAsync = append(h.burstAsync, id)
	for _, p := range o.Peers {
		live := false
		for _, s := range h.peerStreams(p) {
			live = live || !s.dying
		}
		if !live && h.c.Peers[p].Dial == dialOK {
			h.mayDial[p] = true
		}
		h.chain(p, id, true)
	}
}

// ---- controller (bubble main goroutine) -------------------------------------------------------

func (h *harness) runBurst(ops []Op) chan struct{} {
	h.burstNo++
	h.burstAt.Store(int32(h.burstNo))
	h.burstSolo = len(ops) == 1 && ops[0].N <= 1
	h.burstSends = 0
	h.burstAsync = nil
	h.burstMsgs = nil
	h.mayDial = map[int]bool{}
	h.expDials = nil
	h.burstEnded = map[*mStream]bool{}
	if len(ops) > 1 {
		h.class("burst")
	}
	done := make(chan struct{})
	h.progress.Store(0)
	go func() {
		defer close(done)
		defer func() {
			if r := recover(); r != nil {
				h.violate("panic in pool call (op %d of burst: %+v): %v", h.progress.Load(), ops[h.progress.Load()], r)
			}
		}()
		for i, o := range ops {
			if h.abort.Load() {
				return
			}
			h.progress.Store(int32(i))
			h.exec(o)
		}
	}()
	return done
}

func (h *harness) allStreams() []*mStream {
	out := append([]*mStream(nil), h.order...)
	sort.SliceStable(out, func(i, j int) bool { return out[i].f.key < out[j].f.key })
	return out
}

// integrateDials brings streams handed out by OpenStream into the model.
func (h *harness) integrateDials() {
	h.hd.mu.Lock()
	fresh := append([]*fakeStream(nil), h.hd.dialed[h.dialSeen:]...)
	h.dialSeen = len(h.hd.dialed)
	h.hd.mu.Unlock()
	sort.SliceStable(fresh, func(i, j int) bool { return fresh[i].key < fresh[j].key })
	for _, f := range fresh {
		s := h.newModelStream(f, f.spec)
		h.streams = append(h.streams, s)
		h.class("dialled-stream")
		expected := false
		for _, d := range h.expDials {
			if d.peer == s.peer {
				expected = true
				h.addEntry(s, d.msg, true, false)
			}
		}
		if !expected {
			// opened at an unknown moment of the burst: whatever the burst addressed to this
			// peer or to the stream's tags may have reached it
			for _, id := range h.burstMsgs {
				mi := h.msgs[id]
				hit := mi.peers[s.peer]
				for t := range s.tags {
					hit = hit || mi.tags[t]
				}
				if hit {
					h.addEntry(s, id, false, mi.kind == opSend)
					if mi.kind == opBroadcast {
						for k := h.extraCopies(s, keys(mi.tags)); k > 0; k-- {
							h.addEntry(s, id, false, false)
						}
					}
				}
			}
		}
	}
}

func mustPrecede(y, x *entry, workers int) bool {
	if y.msg >= x.msg {
		return false
	}
	if y.burst < x.burst || !y.async {
		return true
	}
	return x.async && workers == 1
}

// observe feeds what the fake streams saw since the last call through the model.
func (h *harness) observe() {
	for _, s := range h.allStreams() {
		obs, foreign, late, _ := s.f.snapshot()
		for _, f := range foreign {
			h.violate("stream %s (peer %d) was handed a message not meant for it: %s", s.f.key, s.peer, f)
		}
		if late > 0 {
			h.violate("stream %s was written to %d time(s) after it had ended and the pool had quiesced", s.f.key, late)
		}
		for ; s.seen < len(obs); s.seen++ {
			x := obs[s.seen]
			if x < 0 || x >= len(h.msgs) {
				h.violate("stream %s saw unknown message %d", s.f.key, x)
				continue
			}
			mi := h.msgs[x]
			idx := -1
			for j, e := range s.pending {
				if e.msg == x {
					idx = j
					break
				}
			}
			if idx < 0 {
				if mi.limbo[s.peer] {
					delete(mi.limbo, s.peer)
					mi.seenP[s.peer]++
					continue
				}
				h.violate("stream %s (peer %d, tags %v, queue %d) saw message %d which was not addressed to it, had been dropped on overflow, is a duplicate, or is out of order; seen so far %v",
					s.f.key, s.peer, keys(s.tags), s.q, x, obs[:s.seen+1])
				continue
			}
			xe := s.pending[idx]
			var keep []*entry
			for j, e := range s.pending {
				if j == idx {
					continue
				}
				if j < idx && mustPrecede(e, xe, h.c.Workers) {
					if e.must {
						h.violate("stream %s saw message %d before message %d which was accepted earlier and must come first (lost or reordered); seen so far %v",
							s.f.key, x, e.msg, obs[:s.seen+1])
					}
					continue // dropped
				}
				keep = append(keep, e)
			}
			s.pending = keep
			if mi.kind != opBroadcast {
				mi.seenP[s.peer]++
				if mi.seenP[s.peer] > 1 {
					h.violate("message %d sent to peer %d once was written %d times across its streams", x, s.peer, mi.seenP[s.peer])
				}
			}
			for k := range s.snaps {
				sn := &s.snaps[k]
				if sn.obsIdx < s.seen && x < sn.t {
					sn.cnt++
					if sn.cnt == s.q+1 {
						h.violate("stream %s with queue size %d: %d messages accepted while its writer was parked in one MsgSend were later written (buffer bound exceeded)",
							s.f.key, s.q, sn.cnt)
					}
				}
			}
		}
	}
}

func keys(m map[int]bool) []int {
	var out []int
	for k := range m {
		out = append(out, k)
	}
	sort.Ints(out)
	return out
}

// settle: quiesce, drain the healthy streams, take one schedule step, then check.
func (h *harness) settle(done chan struct{}, ops []Op) {
	beat.Add(1)
	synctest.Wait()
	beat.Add(1)
	h.integrateDials()
	for {
		released := false
		for _, s := range h.allStreams() {
			if s.present() && s.f.spec.Gate == gateHealthy {
				if ok, fails := s.f.releaseOne(); ok {
					released = true
					if fails {
						h.markDying(s)
						h.class("end-send-error")
					}
				}
			}
		}
		if !released {
			break
		}
		beat.Add(1)
		synctest.Wait()
		h.integrateDials()
	}
	// every healthy stream is drained: whoever is still parked is slow or stuck
	select {
	case <-done:
	default:
		i := int(h.progress.Load())
		var parked []string
		for _, s := range h.allStreams() {
			if s.f.isParked() {
				parked = append(parked, s.f.key)
			}
		}
		h.hd.mu.Lock()
		stuck := h.hd.stuck
		h.hd.mu.Unlock()
		h.violate("caller blocked: op %d of the burst (%+v) has not returned although every goroutine is durably blocked; parked streams %v, stuck dials %d",
			i, ops[i], parked, stuck)
		h.abort.Store(true)
		return
	}
	// close hooks that parked before this burst have now been parked through a whole burst
	// of pool calls (all of which returned): let them finish
	if n := h.hd.releaseHooks(h.burstNo); n > 0 {
		h.class("ops-while-close-hook-parked")
		synctest.Wait()
	}
	// one schedule step
	k := 0
	if len(h.c.Sched) > 0 {
		k = h.c.Sched[h.step%len(h.c.Sched)]
	}
	h.step++
	if k > 0 {
		var slow []*mStream
		for _, s := range h.allStreams() {
			if s.present() && s.f.spec.Gate == gateSlow && s.f.isParked() {
				slow = append(slow, s)
			}
		}
		if len(slow) > 0 {
			s := slow[(k-1)%len(slow)]
			if _, fails := s.f.releaseOne(); fails {
				h.markDying(s)
				h.class("end-send-error")
			}
			h.class("slow-step")
			synctest.Wait()
		}
	}
	h.check()
}

// check runs at a quiescence point, after the op goroutine has returned.
func (h *harness) check() {
	h.hd.mu.Lock()
	for _, p := range h.hd.panics {
		h.violate("%s", p)
	}
	for _, e := range h.hd.tagErrs {
		h.violate("%s", e)
	}
	h.hd.panics, h.hd.tagErrs = nil, nil
	stuck := h.hd.stuck
	h.hd.mu.Unlock()
	if (stuck > 0) != (h.stuckWorkers > 0) && !h.draining {
		// several workers can wait for one parked OpenStream, so only "any" is comparable
		h.violate("model expects %d dial workers parked behind stuck dials, environment sees %d parked OpenStream calls", h.stuckWorkers, stuck)
	}
	for _, d := range h.expDials {
		ok := false
		for _, s := range h.order {
			ok = ok || (s.peer == d.peer && s.present())
		}
		if !ok {
			h.violate("Send of message %d to peer %d (no stream, dial possible) opened no stream", d.msg, d.peer)
		}
	}
	h.expDials = nil
	h.observe()

	for _, s := range h.allStreams() {
		if s.dying {
			s.dying, s.dead = false, true
			s.pending = nil
			s.f.markDead()
		}
		if s.dead && s.readRet != nil {
			select {
			case <-s.readRet:
				s.readRet = nil
			default:
				// the close hook runs on the read loop's goroutine: while one is parked
				// ReadStream legitimately has not returned yet
				if h.hd.hooksParked() == 0 {
					h.violate("ReadStream of ended stream %s has not returned", s.f.key)
				}
			}
		}
		if !s.present() {
			continue
		}
		s.parked = s.f.isParked()
		if !s.parked {
			for _, e := range s.pending {
				if e.must {
					h.violate("stream %s (peer %d, queue %d, gate %d) is idle but never saw message %d which was addressed to it while its queue had room (isolation/completeness)",
						s.f.key, s.peer, s.q, s.f.spec.Gate, e.msg)
				}
			}
			s.pending = nil
		} else {
			s.snaps = append(s.snaps, snap{obsIdx: s.seen - 1, t: len(h.msgs)})
			if len(s.snaps) > 8 {
				s.snaps = s.snaps[len(s.snaps)-8:]
			}
			if !s.healthy && s.f.spec.Gate != gateHealthy {
				h.class("parked-stream")
			}
		}
		if !s.ctxKnown {
			h.hd.mu.Lock()
			if kc, ok := h.hd.ctxs[s.f.key]; ok {
				s.ctxKnown, s.kc = true, kc
			}
			h.hd.mu.Unlock()
		}
	}
	h.known = nil
	for _, s := range h.allStreams() {
		h.known = append(h.known, s)
	}
	h.checkIndex()
}

// checkIndex compares Streams(tag) with the model for every tag.
func (h *harness) checkIndex() {
	defer func() {
		if r := recover(); r != nil {
			h.violate("panic in Streams(tag): %v (stale index entry)", r)
		}
	}()
	for t := 0; t < nTags; t++ {
		got := map[string]int{}
		for _, st := range h.pool.Streams(tagName(t)) {
			f, ok := st.(*fakeStream)
			if !ok {
				h.violate("Streams(%s) returned a foreign stream %T", tagName(t), st)
				continue
			}
			got[f.key]++
		}
		for _, s := range h.allStreams() {
			n := got[s.f.key]
			delete(got, s.f.key)
			want := 0
			if s.present() && s.tags[t] {
				want = 1
			}
			switch {
			case n == want:
			case want == 1 && n > 1 && n <= s.mult[t]:
				// one index entry per mention at registration (see extraCopies)
			case s.dead:
				h.violate("Streams(%s) still returns stream %s after it ended", tagName(t), s.f.key)
			case want == 0:
				h.violate("Streams(%s) returns stream %s whose tags are %v", tagName(t), s.f.key, keys(s.tags))
			case n == 0:
				h.violate("Streams(%s) does not return live stream %s whose tags are %v", tagName(t), s.f.key, keys(s.tags))
			default:
				h.violate("Streams(%s) returns stream %s %d times", tagName(t), s.f.key, n)
			}
		}
		for k := range got {
			h.violate("Streams(%s) returns unknown stream %s", tagName(t), k)
		}
	}
}

func (h *harness) teardown() {
	beat.Add(1)
	h.abort.Store(true)
	// 1. open every gate: live streams drain, parked dials give up, queued tasks run
	h.hd.mu.Lock()
	h.draining = true
	h.hd.mu.Unlock()
	h.hd.releaseHooks(1 << 30)
	for _, s := range h.allStreams() {
		s.f.setDrain()
	}
	close(h.hd.stuckGate)
	synctest.Wait()
	h.integrateDials()
	if !h.failed() {
		h.observe()
		for _, s := range h.allStreams() {
			_, _, _, ended := s.f.snapshot()
			if !s.present() || s.dying || ended {
				continue
			}
			for _, e := range s.pending {
				if e.must {
					h.violate("after all gates were opened live stream %s never saw message %d which it had room for", s.f.key, e.msg)
				}
			}
		}
	}
	// 2. end every stream
	h.hd.mu.Lock()
	all := append([]*fakeStream(nil), h.hd.dialed...)
	h.hd.mu.Unlock()
	for _, s := range h.streams {
		if s != nil {
			all = append(all, s.f)
		}
	}
	for _, f := range all {
		f.extClose()
	}
	synctest.Wait()
	if !h.failed() {
		func() {
			defer func() {
				if r := recover(); r != nil {
					h.violate("panic in Streams after all streams ended: %v", r)
				}
			}()
			var tags []string
			for t := 0; t < nTags; t++ {
				tags = append(tags, tagName(t))
			}
			if left := h.pool.Streams(tags...); len(left) != 0 {
				h.violate("%d index entries survive after every stream has ended", len(left))
			}
		}()
		for _, s := range h.streams {
			if s != nil && s.readRet != nil {
				select {
				case <-s.readRet:
				default:
					h.violate("ReadStream of stream %s has not returned after the stream ended", s.f.key)
				}
			}
		}
	}
	// 3. stop the pool
	_ = h.pool.Close(h.ctx)
	synctest.Wait()
}

func runInBubble(c Case) (out vstat.Outcome, err error) {
	h := newHarness(c)
	defer func() {
		if r := recover(); r != nil {
			h.violate("panic in controller: %v", r)
		}
		func() {
			defer func() {
				if r := recover(); r != nil {
					h.violate("panic in teardown: %v", r)
				}
			}()
			h.teardown()
		}()
		out.Sig = vstat.HashJSON(c)
		out.NonTrivial = h.nonTrivial
		for k := range h.classes {
			out.Classes = append(out.Classes, k)
		}
		sort.Strings(out.Classes)
		h.vioMu.Lock()
		if len(h.vio) > 0 {
			err = errors.New(h.vio[0])
			if len(h.vio) > 1 {
				err = fmt.Errorf("%s\n(+%d more: %s)", h.vio[0], len(h.vio)-1, h.vio[1])
			}
		}
		h.vioMu.Unlock()
	}()
	if e := h.pool.Run(h.ctx); e != nil {
		h.violate("pool.Run: %v", e)
		return
	}
	// initial streams: AddStream ops back to back; a ReadStream registration happens on its own
	// goroutine, so it is followed by a quiescence point to keep the insertion order known
	var init []Op
	flushInit := func() {
		if len(init) > 0 {
			done := h.runBurst(init)
			h.settle(done, init)
			h.step-- // the initial quiescence points do not consume schedule steps
			init = nil
		}
	}
	for i := 0; i < c.Initial; i++ {
		init = append(init, Op{Kind: opAddStream})
		if c.Streams[i].Incoming {
			flushInit()
		}
	}
	flushInit()
	for _, ops := range bursts(c) {
		if h.failed() {
			return
		}
		done := h.runBurst(ops)
		h.settle(done, ops)
	}
	return
}

// ---- run ---------------------------------------------------------------------------------------

var outerT *testing.T
var curTest string

func writeCurrent(c any) {
	dir := os.Getenv("VERIF_REPLAY_OUT")
	if dir == "" {
		return
	}
	os.MkdirAll(dir, 0o755)
	b, _ := json.Marshal(map[string]any{"property": prop, "test": curTest, "error": "process died while this case was running (pool Fatal / crash in a pool goroutine)", "case": c})
	tmp := filepath.Join(dir, ".current-case.tmp")
	if os.WriteFile(tmp, b, 0o644) == nil {
		os.Rename(tmp, filepath.Join(dir, "current-case.json"))
	}
}

func clearCurrent() {
	if dir := os.Getenv("VERIF_REPLAY_OUT"); dir != "" {
		os.Remove(filepath.Join(dir, "current-case.json"))
	}
}

// hangTimeout is real time. A case normally takes well under a millisecond and the
// controller beats (beat counter) at every op and every quiescence step; no beat for this
// long means synctest.Wait never saw the pool quiesce: some goroutine is blocked for good
// on something that is not a channel/timer (a mutex held by a call or a close hook that is
// itself parked), or spins.
const hangTimeout = 3 * time.Second

var beat atomic.Int64

type runResult struct {
	out vstat.Outcome
	err error
}

func run(c Case) (vstat.Outcome, error) {
	c = norm(c)
	writeCurrent(c)
	defer clearCurrent()
	return watched(func() (vstat.Outcome, error) { return runInBubble(c) })
}

// watched runs body inside a synctest bubble on its own goroutine and turns "no controller
// heartbeat for hangTimeout" into a verdict.
func watched(body func() (vstat.Outcome, error)) (vstat.Outcome, error) {
	res := make(chan runResult, 1)
	go func() {
		var r runResult
		defer func() {
			if p := recover(); p != nil {
				// synctest reports goroutines left blocked in the bubble this way
				r.err = fmt.Errorf("bubble did not wind down: %v", p)
			}
			res <- r
		}()
		synctest.Test(outerT, func(*testing.T) {
			r.out, r.err = body()
		})
	}()
	tick := time.NewTicker(50 * time.Millisecond)
	defer tick.Stop()
	last, since := beat.Load(), time.Now()
	for {
		select {
		case r := <-res:
			return r.out, r.err
		case <-tick.C:
			if b := beat.Load(); b != last {
				last, since = b, time.Now()
			} else if time.Since(since) > hangTimeout {
				return vstat.Outcome{}, fmt.Errorf("pool wedged: the case made no progress for %v of real time: synctest.Wait never saw the pool quiesce (a goroutine is blocked on a lock held by a call or a close hook that is itself parked, or spins)\n%s",
					hangTimeout, poolStacks())
			}
		}
	}
}

// poolStacks returns the stacks of the goroutines that are inside the stream pool.
func poolStacks() string {
	buf := make([]byte, 1<<20)
	buf = buf[:runtime.Stack(buf, true)]
	var keep []string
	for _, g := range strings.Split(string(buf), "\n\n") {
		if strings.Contains(g, "net/streampool.") {
			lines := strings.Split(g, "\n")
			if len(lines) > 9 {
				lines = lines[:9]
			}
			keep = append(keep, strings.Join(lines, "\n"))
		}
		if len(keep) >= 6 {
			break
		}
	}
	return strings.Join(keep, "\n\n")
}

// ---- generator ----------------------------------------------------------------------------------

// tags are skewed so that broadcasts usually hit several streams
var genTag = rapid.SampledFrom([]int{0, 0, 0, 1, 1, 2, 3})

// genTagList: mostly distinct tags, sometimes a tag mentioned twice
func genTagList(rt *rapid.T, label string, min int) []int {
	ts := normTags(rapid.SliceOfN(genTag, min, 3).Draw(rt, label))
	if len(ts) > 0 && rapid.IntRange(0, 3).Draw(rt, label+"-dup") == 0 {
		ts = append(ts, ts[rapid.IntRange(0, len(ts)-1).Draw(rt, label+"-dupIdx")])
	}
	return ts
}

func genSpec(rt *rapid.T, nPeers int, label string) StreamSpec {
	s := StreamSpec{
		Gate:  rapid.SampledFrom([]int{0, 0, 0, 1, 2, 2}).Draw(rt, label+"gate"),
		Peer:  rapid.IntRange(0, nPeers-1).Draw(rt, label+"peer"),
		Tags:  genTagList(rt, label+"tags", 0),
		Queue: rapid.SampledFrom([]int{1, 1, 2, 2, 3, 4, 5}).Draw(rt, label+"queue"),
	}
	switch rapid.IntRange(0, 9).Draw(rt, label+"fail") {
	case 0:
		s.FailSendAt = rapid.IntRange(1, 4).Draw(rt, label+"failSendAt")
	case 1:
		s.FailRecvAt = rapid.IntRange(1, 5).Draw(rt, label+"failRecvAt")
	}
	s.Incoming = rapid.IntRange(0, 3).Draw(rt, label+"incoming") == 0
	s.CloseErr = rapid.SampledFrom([]int{0, 0, 0, 1, 1, 2}).Draw(rt, label+"closeErr")
	return s
}

func genCase(rt *rapid.T) Case {
	var c Case
	nPeers := rapid.IntRange(1, 4).Draw(rt, "nPeers")
	for i := 0; i < nPeers; i++ {
		c.Peers = append(c.Peers, PeerSpec{
			Dial:   rapid.SampledFrom([]int{0, 0, 0, 1, 2}).Draw(rt, "dial"),
			Stream: genSpec(rt, nPeers, "dial-"),
		})
	}
	nStreams := rapid.IntRange(1, 6).Draw(rt, "nStreams")
	for i := 0; i < nStreams; i++ {
		c.Streams = append(c.Streams, genSpec(rt, nPeers, "s-"))
	}
	c.Initial = rapid.IntRange(0, nStreams).Draw(rt, "initial")
	c.Workers = rapid.IntRange(1, 3).Draw(rt, "workers")
	c.DialQueue = rapid.IntRange(1, 5).Draw(rt, "dialQueue")
	c.SharedTags = rapid.IntRange(0, 3).Draw(rt, "sharedTags") == 0
	c.Hook = rapid.SampledFrom([]int{0, 1, 2, 2, 3, 4, 4}).Draw(rt, "hook")
	nOps := rapid.IntRange(1, 24).Draw(rt, "nOps")
	kinds := []int{opSend, opSend, opSendById, opSendById, opBroadcast, opBroadcast, opBroadcast, opBroadcast,
		opAddTags, opAddTags, opRemoveTags, opRemoveTags, opRemoveTagsById, opClose, opRecvErr, opHandlerErr, opAddStream}
	for i := 0; i < nOps; i++ {
		o := Op{
			Kind: rapid.SampledFrom(kinds).Draw(rt, "kind"),
			A:    rapid.IntRange(0, 7).Draw(rt, "a"),
			Via:  rapid.IntRange(0, 1).Draw(rt, "via"),
			N:    rapid.SampledFrom([]int{1, 1, 1, 1, 2, 3, 4, 6}).Draw(rt, "n"),
			Pace: rapid.IntRange(0, 2).Draw(rt, "pace") > 0,
		}
		o.Peers = rapid.SliceOfN(rapid.IntRange(0, nPeers-1), 1, 3).Draw(rt, "peers")
		o.Tags = genTagList(rt, "tags", 1)
		switch rapid.IntRange(0, 11).Draw(rt, "shape") {
		case 0:
			// a stream ends while its tags are being changed and a broadcast is on its way
			end := Op{Kind: rapid.SampledFrom([]int{opClose, opClose, opRecvErr, opHandlerErr}).Draw(rt, "endKind"), A: o.A, Via: o.Via}
			tag := Op{Kind: rapid.SampledFrom([]int{opAddTags, opRemoveTags, opRemoveTagsById}).Draw(rt, "tagKind"), A: o.A, Tags: o.Tags}
			bc := Op{Kind: opBroadcast, Tags: o.Tags, N: o.N, Pace: true}
			if rapid.Bool().Draw(rt, "tagFirst") {
				c.Ops = append(c.Ops, tag, end, bc)
			} else {
				c.Ops = append(c.Ops, end, tag, bc)
			}
		case 1:
			// more back-to-back messages than any queue holds
			c.Ops = append(c.Ops, Op{Kind: rapid.SampledFrom([]int{opBroadcast, opSendById}).Draw(rt, "floodKind"),
				Peers: o.Peers[:1], Tags: o.Tags, N: 6, Pace: o.Pace})
		default:
			c.Ops = append(c.Ops, o)
		}
	}
	c.Sched = rapid.SliceOfN(rapid.IntRange(0, 3), 1, 8).Draw(rt, "sched")
	return norm(c)
}

// ---- tests ----------------------------------------------------------------------------------------

func TestRandom(t *testing.T) {
	outerT, curTest = t, t.Name()
	vstat.Check(t, prop, genCase, run)
}

func TestReplay(t *testing.T) {
	t.Run("TestRandom", func(t *testing.T) {
		outerT, curTest = t, "TestRandom"
		vstat.Replay(t, prop, "TestRandom", run)
	})
	t.Run("TestStress", func(t *testing.T) {
		outerT, curTest = t, "TestStress"
		vstat.Replay(t, prop, "TestStress", runStress)
	})
	t.Run("TestDialWorkers", func(t *testing.T) {
		outerT, curTest = t, "TestDialWorkers"
		vstat.Replay(t, prop, "TestDialWorkers", runDial)
	})
	t.Run("TestReg", func(t *testing.T) { // cases saved by the hand-written regressions
		var hdr struct {
			Test string `json:"test"`
		}
		if b, err := os.ReadFile(os.Getenv("VERIF_REPLAY")); err == nil {
			json.Unmarshal(b, &hdr)
		}
		if !strings.HasPrefix(hdr.Test, "TestReg") {
			t.Skip("not a regression case")
		}
		outerT, curTest = t, hdr.Test
		if hdr.Test == "TestRegDialBacklog" {
			vstat.Replay(t, prop, hdr.Test, runDial)
			return
		}
		vstat.Replay(t, prop, hdr.Test, run)
	})
}

var _ drpc.Stream = (*fakeStream)(nil)
