package c19

// Minimised past failures and hand-picked corner cases; all must pass.

import (
	"testing"

	"verif/harness/internal/vstat"
)

func one(t *testing.T, c Case) {
	t.Helper()
	outerT, curTest = t, t.Name()
	vstat.One(t, prop, c, run)
}

func peersOK(n int) []PeerSpec {
	ps := make([]PeerSpec, n)
	for i := range ps {
		ps[i] = PeerSpec{Dial: dialOK, Stream: StreamSpec{Peer: i, Queue: 2}}
	}
	return ps
}

// fixed 66275b6: SendById(msg, p0, p1) returned after the first successful write, so the
// stream of p1 never saw the message (found by TestRandom; minimal case).
func TestRegSendByIdMultiPeer(t *testing.T) {
	one(t, Case{
		Peers:   peersOK(2),
		Streams: []StreamSpec{{Peer: 0, Queue: 1}, {Peer: 1, Queue: 1}},
		Initial: 2, Workers: 1, DialQueue: 1,
		Ops: []Op{{Kind: opSendById, Peers: []int{0, 1}, N: 1, Pace: true}},
	})
}

// fixed 0d4bc65: two streams registered with the same tags slice [t0,t1]; RemoveTagsById on
// the first filtered the shared backing array in place ([t1,t1] for the second stream), the
// tag index went stale and the end of the second stream hit log.Fatal
// "removeStream: streamId does not exist" (process death; found by TestRandom).
func TestRegSharedTagsSlice(t *testing.T) {
	one(t, Case{
		Peers:   peersOK(2),
		Streams: []StreamSpec{{Peer: 0, Queue: 1, Tags: []int{0, 1}}, {Peer: 1, Queue: 1, Tags: []int{0, 1}}},
		Initial: 2, Workers: 1, DialQueue: 1, SharedTags: true,
		Ops: []Op{
			{Kind: opRemoveTagsById, A: 0, Tags: []int{0}, Pace: true},
			{Kind: opBroadcast, Tags: []int{0}, N: 1, Pace: true},
			{Kind: opClose, A: 1, Pace: true},
			{Kind: opBroadcast, Tags: []int{0, 1}, N: 1, Pace: true},
		},
	})
}

// a blocked stream with a full queue next to a healthy one: broadcasts keep returning, the
// healthy stream sees all of them, the blocked one ends up with the first queue+1.
func TestRegBlockedNextToHealthy(t *testing.T) {
	one(t, Case{
		Peers: peersOK(2),
		Streams: []StreamSpec{
			{Gate: gateBlocked, Peer: 0, Queue: 1, Tags: []int{0}},
			{Gate: gateHealthy, Peer: 1, Queue: 2, Tags: []int{0}},
		},
		Initial: 2, Workers: 1, DialQueue: 2,
		Ops: []Op{
			{Kind: opBroadcast, Tags: []int{0}, N: 1, Pace: true},
			{Kind: opBroadcast, Tags: []int{0}, N: 1, Pace: true},
			{Kind: opBroadcast, Tags: []int{0}, N: 1, Pace: true},
			{Kind: opBroadcast, Tags: []int{0}, N: 6, Pace: true},
			{Kind: opSendById, Peers: []int{0}, N: 2, Pace: true},
			{Kind: opSendById, Peers: []int{1}, N: 1, Pace: true},
		},
	})
}

// two streams of one peer: the blocked one fills up, later messages go to the second one.
func TestRegTwoStreamsOnePeer(t *testing.T) {
	one(t, Case{
		Peers: peersOK(1),
		Streams: []StreamSpec{
			{Gate: gateBlocked, Peer: 0, Queue: 1},
			{Gate: gateHealthy, Peer: 0, Queue: 1},
		},
		Initial: 2, Workers: 1, DialQueue: 2,
		Ops: []Op{
			{Kind: opSendById, Peers: []int{0}, N: 1, Pace: true},
			{Kind: opSendById, Peers: []int{0}, N: 1, Pace: true},
			{Kind: opSendById, Peers: []int{0}, N: 1, Pace: true},
			{Kind: opSend, Peers: []int{0}, N: 1, Pace: true},
			{Kind: opClose, A: 0, Pace: true},
			{Kind: opSendById, Peers: []int{0}, N: 1, Pace: true},
		},
	})
}

// a stream ends (every way it can) while its tags are changed and a broadcast is issued.
func TestRegEndDuringTagChange(t *testing.T) {
	for _, end := range []Op{{Kind: opClose}, {Kind: opClose, Via: 1}, {Kind: opRecvErr}, {Kind: opHandlerErr}} {
		for _, tagFirst := range []bool{false, true} {
			tag := Op{Kind: opAddTags, A: 0, Tags: []int{1}}
			ops := []Op{end, tag}
			if tagFirst {
				ops = []Op{tag, end}
			}
			ops = append(ops, Op{Kind: opBroadcast, Tags: []int{0, 1}, N: 2, Pace: true},
				Op{Kind: opSendById, Peers: []int{0}, N: 1, Pace: true},
				Op{Kind: opRemoveTagsById, A: 0, Tags: []int{0}, Pace: true},
				Op{Kind: opBroadcast, Tags: []int{0, 1}, N: 1, Pace: true})
			one(t, Case{
				Peers: peersOK(2),
				Streams: []StreamSpec{
					{Gate: gateSlow, Peer: 0, Queue: 2, Tags: []int{0}},
					{Gate: gateHealthy, Peer: 1, Queue: 2, Tags: []int{0, 1}},
				},
				Initial: 2, Workers: 2, DialQueue: 2, Ops: ops, Sched: []int{1},
			})
		}
	}
}

// a dial that never returns parks the only dial worker: Send keeps returning (queued, then
// rejected), SendById and Broadcast to existing streams are unaffected.
func TestRegStuckDial(t *testing.T) {
	ps := peersOK(2)
	ps[0].Dial = dialStuck
	one(t, Case{
		Peers:   ps,
		Streams: []StreamSpec{{Gate: gateHealthy, Peer: 1, Queue: 1, Tags: []int{0}}},
		Initial: 1, Workers: 1, DialQueue: 1,
		Ops: []Op{
			{Kind: opSend, Peers: []int{0, 1}, N: 1, Pace: true},
			{Kind: opSend, Peers: []int{1}, N: 1, Pace: true},
			{Kind: opSend, Peers: []int{1}, N: 1, Pace: true},
			{Kind: opSendById, Peers: []int{1}, N: 1, Pace: true},
			{Kind: opBroadcast, Tags: []int{0}, N: 1, Pace: true},
		},
	})
}

// a stream whose 2nd send fails, registered with ReadStream; a peer that is dialled on demand.
func TestRegSendFailureAndDial(t *testing.T) {
	one(t, Case{
		Peers: peersOK(2),
		Streams: []StreamSpec{
			{Gate: gateHealthy, Peer: 0, Queue: 3, Tags: []int{0}, FailSendAt: 2, Incoming: true},
		},
		Initial: 1, Workers: 2, DialQueue: 3,
		Ops: []Op{
			{Kind: opBroadcast, Tags: []int{0}, N: 3, Pace: true},
			{Kind: opSendById, Peers: []int{0}, N: 1, Pace: true},
			{Kind: opSend, Peers: []int{0, 1}, N: 1, Pace: true},
			{Kind: opSend, Peers: []int{0, 1}, N: 3, Pace: true},
			{Kind: opBroadcast, Tags: []int{0}, N: 1, Pace: true},
		},
	})
}

// seeded change C19-b: streamClose skipped removeStream when the drpc stream's Close()
// returned an error (dead transport), leaving the ended stream in every index for ever.
// Every way a stream ends, with Close() failing always / only the first time.
func TestRegCloseReturnsError(t *testing.T) {
	ends := [][]Op{
		{{Kind: opClose, A: 0, Pace: true}},
		{{Kind: opClose, A: 0, Via: 1, Pace: true}},
		{{Kind: opRecvErr, A: 0, Pace: true}},
		{{Kind: opHandlerErr, A: 0, Pace: true}},
		{{Kind: opBroadcast, Tags: []int{0}, N: 1, Pace: true}}, // first send fails (FailSendAt 1)
	}
	for ce := 1; ce <= 2; ce++ {
		for i, end := range ends {
			s0 := StreamSpec{Gate: gateHealthy, Peer: 0, Queue: 2, Tags: []int{0, 1}, CloseErr: ce, Incoming: i%2 == 1}
			if i == 4 {
				s0.FailSendAt = 1
			}
			ops := append(append([]Op(nil), end...),
				Op{Kind: opSendById, Peers: []int{0}, N: 1, Pace: true},
				Op{Kind: opBroadcast, Tags: []int{0, 1}, N: 2, Pace: true},
				Op{Kind: opRemoveTagsById, A: 0, Tags: []int{0}, Pace: true})
			ps := peersOK(2)
			ps[0].Dial = dialError
			one(t, Case{
				Peers:   ps,
				Streams: []StreamSpec{s0, {Gate: gateHealthy, Peer: 1, Queue: 2, Tags: []int{0}}},
				Initial: 2, Workers: 1, DialQueue: 2, Ops: ops,
			})
		}
	}
}

// seeded change C19-a2: removeStream ran the WithStreamCloseHook callback while holding the
// pool mutex. A parked hook then blocks every pool call for any peer; a hook that calls back
// into the pool deadlocks on itself.
func TestRegCloseHookOutsideLock(t *testing.T) {
	for hook := hookInstant; hook <= hookParkReenter; hook++ {
		for _, end := range []Op{{Kind: opClose, A: 0, Pace: true}, {Kind: opRecvErr, A: 0, Pace: true}, {Kind: opBroadcast, Tags: []int{1}, N: 1, Pace: true}} {
			one(t, Case{
				Peers: peersOK(2),
				Streams: []StreamSpec{
					{Gate: gateHealthy, Peer: 0, Queue: 2, Tags: []int{0, 1}, FailSendAt: 1, Incoming: hook%2 == 0},
					{Gate: gateHealthy, Peer: 1, Queue: 2, Tags: []int{0}},
				},
				Initial: 2, Workers: 1, DialQueue: 2, Hook: hook,
				Ops: []Op{
					end, // stream 0 ends; its hook may stay parked through the next burst
					{Kind: opBroadcast, Tags: []int{0}, N: 2},
					{Kind: opSendById, Peers: []int{1}, N: 1},
					{Kind: opAddTags, A: 1, Tags: []int{2}},
					{Kind: opSend, Peers: []int{1}, N: 1, Pace: true},
					{Kind: opBroadcast, Tags: []int{2}, N: 1, Pace: true},
				},
			})
		}
	}
}

// seeded change C19-a4: addStream de-duplicated st.tags but still added one index entry per
// mention, so a tag mentioned twice at registration left a stale stream id in the tag index
// after RemoveTags* / the end of the stream (stale subscription, then nil dereference).
func TestRegTagMentionedTwice(t *testing.T) {
	ps := peersOK(3)
	ps[2].Stream.Tags = []int{2, 2}
	for _, incoming := range []bool{false, true} {
		one(t, Case{
			Peers: ps,
			Streams: []StreamSpec{
				{Gate: gateHealthy, Peer: 0, Queue: 3, Tags: []int{0, 1, 0}, Incoming: incoming},
				{Gate: gateHealthy, Peer: 1, Queue: 3, Tags: []int{0, 0}, Incoming: !incoming},
			},
			Initial: 2, Workers: 1, DialQueue: 2, Hook: hookInstant,
			Ops: []Op{
				{Kind: opBroadcast, Tags: []int{0}, N: 1, Pace: true},
				{Kind: opRemoveTagsById, A: 0, Tags: []int{0, 0}, Pace: true},
				{Kind: opBroadcast, Tags: []int{0}, N: 1, Pace: true},
				{Kind: opSend, Peers: []int{2}, N: 1, Pace: true}, // dials a stream registered with tags [2,2]
				{Kind: opBroadcast, Tags: []int{2}, N: 1, Pace: true},
				{Kind: opRemoveTags, A: 0, Tags: []int{2}, Via: 1, Pace: true}, // stream d2.1 sorts first
				{Kind: opBroadcast, Tags: []int{2, 1}, N: 1, Pace: true},
				{Kind: opClose, A: 2, Pace: true}, // e1, still holding tag 0 twice
				{Kind: opBroadcast, Tags: []int{0}, N: 2, Pace: true},
				{Kind: opAddTags, A: 1, Tags: []int{0, 0}, Pace: true},
				{Kind: opBroadcast, Tags: []int{0}, N: 1, Pace: true},
			},
		})
	}
}
