package c19

// TestDialWorkers: the Send path (dial / send work pool). All dial workers are parked by
// Sends whose PeerGetter waits on a harness gate, then a generated backlog of Sends is queued
// ([stuck peer | healthy peer]...), then the parked workers are released in a generated
// order while the stuck peers stay parked. Everything is decided with synctest.Wait, no
// wall clock.
//
// Oracle (statement: a stuck peer never delays delivery to other peers): replaying the
// backlog over "each free worker takes ONE task at a time", a Send to a healthy peer must
// have been written once a worker that is not parked on a stuck peer was available for it;
// every Send call returns at once while all workers are parked; the healthy streams see each
// message at most once and only messages stamped for their peer.

import (
	"context"
	"errors"
	"fmt"
	"sync"
	"sync/atomic"
	"testing"
	"testing/synctest"

	"pgregory.net/rapid"

	"github.com/anyproto/any-sync/net/peer"
	"github.com/anyproto/any-sync/net/streampool"

	"verif/harness/internal/vstat"
)

type DialCase struct {
	Workers int   `json:"workers"` // 2..4
	Backlog []int `json:"backlog"` // queued while every worker is parked: 0 = Send to a stuck peer, k>0 = Send to healthy peer k-1 (mod 2)
	Release []int `json:"release"` // order in which parked workers are released (indices mod remaining)
	Queue   int   `json:"queue"`   // queue size of the healthy streams is Queue + backlog length (never the bottleneck)
}

func normDial(c DialCase) DialCase {
	c.Workers = clamp(c.Workers, 2, 4)
	if len(c.Backlog) > 8 {
		c.Backlog = c.Backlog[:8]
	}
	c.Backlog = append([]int(nil), c.Backlog...)
	for i := range c.Backlog {
		if c.Backlog[i] < 0 {
			c.Backlog[i] = -c.Backlog[i]
		}
		c.Backlog[i] %= 3
	}
	if len(c.Release) > c.Workers {
		c.Release = c.Release[:c.Workers]
	}
	c.Release = append([]int(nil), c.Release...)
	for i := range c.Release {
		if c.Release[i] < 0 {
			c.Release[i] = -c.Release[i]
		}
	}
	c.Queue = clamp(c.Queue, 1, 3)
	return c
}

func runDial(c DialCase) (vstat.Outcome, error) {
	c = normDial(c)
	writeCurrent(c)
	defer clearCurrent()
	return watched(func() (vstat.Outcome, error) { return runDialInBubble(c) })
}

func runDialInBubble(c DialCase) (out vstat.Outcome, err error) {
	var vioMu sync.Mutex
	var vio []string
	violate := func(f string, a ...any) {
		vioMu.Lock()
		vio = append(vio, fmt.Sprintf(f, a...))
		vioMu.Unlock()
	}
	ctx := context.Background()
	// harness pieces reused from the main check: handler (never dials here), fake streams
	h := &harness{c: norm(Case{}), ctx: ctx, peerIdx: map[string]int{}, tagSl: map[string][]string{}, byKey: map[string]*mStream{}, classes: map[string]bool{}}
	h.hd = &handler{h: h, ctxs: map[string]knownCtx{}, dialCount: map[string]int{}, dialErrs: map[string]int{}, stuckGate: make(chan struct{})}
	pool := streampool.NewStreamPool(h.hd, streampool.StreamConfig{SendQueueSize: 10, DialQueueWorkers: c.Workers, DialQueueSize: len(c.Backlog) + 1})
	h.pool = pool
	if e := pool.Run(ctx); e != nil {
		return out, e
	}
	var healthy [2]*fakeStream
	var hpeers [2]*fakePeer
	for i := range healthy {
		id := fmt.Sprintf("healthy%d", i)
		hpeers[i] = &fakePeer{id: id, ctx: peer.CtxWithPeerId(ctx, id)}
		healthy[i] = newFakeStream(fmt.Sprintf("h%d", i), id, StreamSpec{Queue: c.Queue + len(c.Backlog) + c.Workers}, nil)
		if e := pool.AddStream(healthy[i], healthy[i].spec.Queue); e != nil {
			violate("AddStream: %v", e)
		}
	}
	stuck := make(chan struct{}) // closed at teardown
	gates := make([]chan struct{}, c.Workers)
	var entered atomic.Int32
	drain := func() {
		for {
			beat.Add(1)
			synctest.Wait()
			rel := false
			for _, f := range healthy {
				if ok, _ := f.releaseOne(); ok {
					rel = true
				}
			}
			if !rel {
				return
			}
		}
	}
	// send issues one Send from its own goroutine and insists that it has returned once
	// everything is durably blocked
	send := func(what string, id int, getter streampool.PeerGetter) {
		done := make(chan error, 1)
		go func() {
			defer func() {
				if r := recover(); r != nil {
					done <- fmt.Errorf("panic: %v", r)
				}
			}()
			done <- pool.Send(ctx, &Msg{Id: id}, getter)
		}()
		drain()
		select {
		case e := <-done:
			if e != nil {
				violate("Send (%s) returned %v although the dial queue has room", what, e)
			}
		default:
			violate("caller blocked: Send (%s) has not returned although every goroutine is durably blocked", what)
		}
	}
	drain()
	// 1. park every worker: message ids 0..W-1, delivered to healthy peer 0 once released
	for i := 0; i < c.Workers; i++ {
		g := make(chan struct{})
		gates[i] = g
		send(fmt.Sprintf("parking worker %d", i), i, func(context.Context) ([]peer.Peer, error) {
			entered.Add(1)
			<-g
			return []peer.Peer{hpeers[0]}, nil
		})
	}
	if int(entered.Load()) != c.Workers {
		violate("%d dial workers configured but only %d Sends are being processed concurrently", c.Workers, entered.Load())
	}
	// 2. the backlog: ids W.. in queue order
	type task struct {
		id, target int // target -1: stuck peer
	}
	var queue []task
	for k, b := range c.Backlog {
		id := c.Workers + k
		if b == 0 {
			queue = append(queue, task{id, -1})
			send("to a stuck peer, queued", id, func(context.Context) ([]peer.Peer, error) {
				<-stuck
				return nil, errors.New("fake: peer unreachable")
			})
		} else {
			tgt := (b - 1) % 2
			queue = append(queue, task{id, tgt})
			p := hpeers[tgt]
			send(fmt.Sprintf("to healthy peer %d, queued", tgt), id, func(context.Context) ([]peer.Peer, error) { return []peer.Peer{p}, nil })
		}
	}
	// 3. release parked workers one at a time; reference: a free worker takes one task at a
	// time from the head of the queue until it parks on a stuck peer or the queue is empty
	want := [2][]int{}
	parked := make([]int, c.Workers)
	for i := range parked {
		parked[i] = i
	}
	stuckWorkers, released := 0, 0
	stuckBeforeHealthy := false
	for _, r := range c.Release {
		if len(parked) == 0 {
			break
		}
		j := r % len(parked)
		w := parked[j]
		parked = append(parked[:j], parked[j+1:]...)
		close(gates[w])
		released++
		want[0] = append(want[0], w) // the parking Send itself delivers to healthy peer 0
		for len(queue) > 0 {
			t := queue[0]
			queue = queue[1:]
			if t.target < 0 {
				stuckWorkers++
				for _, later := range queue {
					if later.target >= 0 {
						stuckBeforeHealthy = true
					}
				}
				break
			}
			want[t.target] = append(want[t.target], t.id)
		}
		drain()
		for i, f := range healthy {
			obs, foreign, _, _ := f.snapshot()
			for _, x := range foreign {
				violate("healthy stream %d was handed a message not meant for it: %s", i, x)
			}
			seen := map[int]int{}
			for _, x := range obs {
				seen[x]++
				if seen[x] > 1 {
					violate("healthy peer %d saw message %d twice: %v", i, x, obs)
				}
			}
			missing := false
			for _, x := range want[i] {
				missing = missing || seen[x] == 0
			}
			if missing {
				violate("after releasing %d of %d dial workers (%d parked on stuck peers, backlog %v): healthy peer %d saw messages %v, want %v — a Send to a healthy peer is held back behind a stuck one although a worker is free",
					released, c.Workers, stuckWorkers, c.Backlog, i, obs, want[i])
			}
		}
		if len(vio) > 0 {
			break
		}
	}
	// teardown
	beat.Add(1)
	for _, w := range parked {
		close(gates[w])
	}
	close(stuck)
	for _, f := range healthy {
		f.setDrain()
	}
	synctest.Wait()
	for _, f := range healthy {
		f.extClose()
	}
	synctest.Wait()
	_ = pool.Close(ctx)
	synctest.Wait()

	out.Sig = vstat.HashJSON(c)
	out.NonTrivial = stuckBeforeHealthy && released >= 2
	out.Classes = []string{"dial-workers-scenario"}
	if stuckBeforeHealthy && released >= 2 {
		out.Classes = append(out.Classes, "dial-backlog-stuck-before-healthy")
	}
	if stuckWorkers >= c.Workers {
		out.Classes = append(out.Classes, "dial-all-workers-on-stuck-peers")
	}
	if len(vio) > 0 {
		return out, errors.New(vio[0])
	}
	return out, nil
}

func genDialCase(rt *rapid.T) DialCase {
	w := rapid.IntRange(2, 4).Draw(rt, "workers")
	return normDial(DialCase{
		Workers: w,
		Backlog: rapid.SliceOfN(rapid.SampledFrom([]int{0, 0, 1, 1, 2}), 1, 8).Draw(rt, "backlog"),
		Release: rapid.SliceOfN(rapid.IntRange(0, 3), 1, w).Draw(rt, "release"),
		Queue:   rapid.IntRange(1, 3).Draw(rt, "queue"),
	})
}

func TestDialWorkers(t *testing.T) {
	outerT, curTest = t, t.Name()
	vstat.Check(t, prop, genDialCase, runDial)
}

// seeded change C19-b4: a dial worker took the whole backlog (batch.Wait) instead of one
// task, so a Send to a healthy peer queued behind a Send to a stuck peer was never processed
// although another worker was idle.
func TestRegDialBacklog(t *testing.T) {
	outerT, curTest = t, t.Name()
	for _, c := range []DialCase{
		{Workers: 2, Backlog: []int{0, 1}, Release: []int{0, 0}, Queue: 1},
		{Workers: 2, Backlog: []int{1, 0, 2, 1}, Release: []int{1, 0}, Queue: 1},
		{Workers: 3, Backlog: []int{0, 0, 1, 2, 0, 1}, Release: []int{2, 0, 0}, Queue: 2},
	} {
		vstat.One(t, prop, c, runDial)
	}
}
