package c19

// TestStress: the same generated cases, but executed with real goroutines and the real
// scheduler (thorough tier, under -race). No model: only what holds under every
// interleaving is asserted.
//   - every caller goroutine finishes (bounded real time) while blocked streams stay parked;
//   - a stream only sees messages stamped for its peer, that were sent to its peer / to a
//     tag it can have had, each at most once, and messages issued by one goroutine with
//     direct calls (Broadcast / SendById) arrive in issue order;
//   - a stream that is never released sees at most queue-size+1 Broadcast/SendById messages;
//   - once every stream has ended the index is empty; no Fatal, no panic, no data race.

import (
	"context"
	"fmt"
	"sync"
	"testing"
	"time"

	"github.com/anyproto/any-sync/net/peer"

	"verif/harness/internal/vstat"
)

type stressMsg struct {
	kind   int
	issuer int
	seq    int // per issuer
	peers  map[int]bool
	tags   map[int]bool
}

const stressCallers = 3

// real time; the callers only make non-blocking calls
const stressTimeout = 10 * time.Second

func runStress(c Case) (out vstat.Outcome, err error) {
	c = norm(c)
	writeCurrent(c)
	defer clearCurrent()
	h := newHarness(c)
	if e := h.pool.Run(h.ctx); e != nil {
		return out, fmt.Errorf("pool.Run: %v", e)
	}
	var mu sync.Mutex
	var msgs []*stressMsg
	var fakes []*fakeStream
	stop := make(chan struct{})
	var bg sync.WaitGroup

	newMsg := func(m *stressMsg) int {
		mu.Lock()
		defer mu.Unlock()
		msgs = append(msgs, m)
		return len(msgs) - 1
	}
	add := func(i int) {
		spec := c.Streams[i]
		f := newFakeStream(fmt.Sprintf("e%d", i), h.peers[spec.Peer].id, spec, h.tagSlice(spec.Tags))
		f.free = spec.Gate == gateHealthy
		mu.Lock()
		fakes = append(fakes, f)
		mu.Unlock()
		if spec.Incoming {
			bg.Add(1)
			go func() {
				defer bg.Done()
				defer func() {
					if r := recover(); r != nil {
						h.violate("panic in ReadStream: %v", r)
					}
				}()
				_ = h.pool.ReadStream(f, spec.Queue, f.tags...)
			}()
			return
		}
		if e := h.pool.AddStream(f, spec.Queue, f.tags...); e != nil {
			h.violate("AddStream: %v", e)
		}
	}
	h.stressFree = true
	for i := 0; i < c.Initial; i++ {
		add(i)
	}
	nextAdd := c.Initial
	allFakes := func() []*fakeStream {
		mu.Lock()
		out := append([]*fakeStream(nil), fakes...)
		mu.Unlock()
		h.hd.mu.Lock()
		out = append(out, h.hd.dialed...)
		h.hd.mu.Unlock()
		return out
	}
	// slow streams: a releaser lets one send through every now and then
	bg.Add(1)
	go func() {
		defer bg.Done()
		for {
			select {
			case <-stop:
				return
			case <-time.After(200 * time.Microsecond):
			}
			for _, f := range allFakes() {
				if f.spec.Gate == gateSlow {
					f.releaseOne()
				}
			}
		}
	}()
	pickFake := func(a int) *fakeStream {
		fs := allFakes()
		if len(fs) == 0 {
			return nil
		}
		return fs[a%len(fs)]
	}
	ctxOf := func(f *fakeStream) (knownCtx, bool) {
		h.hd.mu.Lock()
		defer h.hd.mu.Unlock()
		kc, ok := h.hd.ctxs[f.key]
		return kc, ok
	}
	var addMu sync.Mutex
	caller := func(g int, ops []Op) {
		seq := 0
		for _, o := range ops {
			n := o.N
			if n < 1 {
				n = 1
			}
			for r := 0; r < n; r++ {
				switch o.Kind {
				case opBroadcast:
					m := &stressMsg{kind: opBroadcast, issuer: g, seq: seq, tags: map[int]bool{}}
					seq++
					for _, t := range o.Tags {
						m.tags[t] = true
					}
					_ = h.pool.Broadcast(h.ctx, &Msg{Id: newMsg(m)}, tagNames(o.Tags)...)
				case opSendById, opSend:
					m := &stressMsg{kind: o.Kind, issuer: g, seq: seq, peers: map[int]bool{}}
					seq++
					var ids []string
					var ps []peer.Peer
					for _, p := range o.Peers {
						m.peers[p] = true
						ids = append(ids, h.peers[p].id)
						ps = append(ps, h.peers[p])
					}
					id := newMsg(m)
					if o.Kind == opSendById {
						_ = h.pool.SendById(h.ctx, &Msg{Id: id}, ids...)
					} else {
						_ = h.pool.Send(h.ctx, &Msg{Id: id}, func(context.Context) ([]peer.Peer, error) { return ps, nil })
					}
				case opAddTags, opRemoveTags:
					f := pickFake(o.A)
					if f == nil {
						continue
					}
					if o.Via == 1 {
						cmd := cmdAddTags
						if o.Kind == opRemoveTags {
							cmd = cmdRemoveTags
						}
						select {
						case f.recvQ <- recvCmd{msg: Msg{Cmd: cmd, Tags: tagNames(o.Tags)}}:
						default:
						}
					} else if kc, ok := ctxOf(f); ok {
						if o.Kind == opAddTags {
							_ = h.pool.AddTagsCtx(kc.ctx, tagNames(o.Tags)...)
						} else {
							_ = h.pool.RemoveTagsCtx(kc.ctx, tagNames(o.Tags)...)
						}
					}
				case opRemoveTagsById:
					if f := pickFake(o.A); f != nil {
						if kc, ok := ctxOf(f); ok {
							_ = h.pool.RemoveTagsById(kc.streamId, tagNames(o.Tags)...)
						}
					}
				case opClose:
					if f := pickFake(o.A); f != nil {
						if o.Via == 1 {
							f.cancel()
						} else {
							f.extClose()
						}
					}
				case opRecvErr, opHandlerErr:
					if f := pickFake(o.A); f != nil {
						cmd := recvCmd{err: errRecvFail}
						if o.Kind == opHandlerErr {
							cmd = recvCmd{msg: Msg{Cmd: cmdFail}}
						}
						select {
						case f.recvQ <- cmd:
						default:
						}
					}
				case opAddStream:
					addMu.Lock()
					i := nextAdd
					nextAdd++
					addMu.Unlock()
					if i < len(c.Streams) {
						add(i)
					}
				}
			}
		}
	}
	split := make([][]Op, stressCallers)
	for i, o := range c.Ops {
		split[i%stressCallers] = append(split[i%stressCallers], o)
	}
	var callers sync.WaitGroup
	for g := range split {
		callers.Add(1)
		go func(g int) {
			defer callers.Done()
			defer func() {
				if r := recover(); r != nil {
					h.violate("panic in pool call (caller %d): %v", g, r)
				}
			}()
			caller(g, split[g])
		}(g)
	}
	cdone := make(chan struct{})
	go func() { callers.Wait(); close(cdone) }()
	select {
	case <-cdone:
	case <-time.After(stressTimeout):
		h.violate("callers have not returned after %v while blocked streams are parked\n%s", stressTimeout, poolStacks())
	}
	// wind down: open all gates, let things drain, then end every stream
	close(stop)
	h.hd.mu.Lock()
	h.draining = true // close hooks no longer park
	h.hd.mu.Unlock()
	h.hd.releaseHooks(1 << 30)
	deadline := time.Now().Add(stressTimeout)
	quiet := func() bool { // nothing more is being written: counts stable
		a := 0
		for _, f := range allFakes() {
			obs, _, _, _ := f.snapshot()
			a += len(obs)
		}
		time.Sleep(2 * time.Millisecond)
		b := 0
		for _, f := range allFakes() {
			obs, _, _, _ := f.snapshot()
			b += len(obs)
		}
		return a == b
	}
	h.hd.mu.Lock()
	h.draining = true
	h.hd.mu.Unlock()
	close(h.hd.stuckGate)
	for _, f := range allFakes() {
		f.setDrain()
	}
	for !quiet() && time.Now().Before(deadline) {
	}
	for _, f := range allFakes() {
		f.setDrain()
		f.extClose()
	}
	var tags []string
	for t := 0; t < nTags; t++ {
		tags = append(tags, tagName(t))
	}
	for {
		left := -1
		func() {
			defer func() {
				if r := recover(); r != nil {
					h.violate("panic in Streams after all streams ended: %v", r)
					left = 0
				}
			}()
			left = len(h.pool.Streams(tags...))
		}()
		if left == 0 {
			break
		}
		for _, f := range allFakes() { // a Send still being processed may have opened a stream meanwhile
			f.setDrain()
			f.extClose()
		}
		if time.Now().After(deadline) {
			h.violate("%d index entries survive after every stream has ended", left)
			break
		}
		time.Sleep(time.Millisecond)
	}
	_ = h.pool.Close(h.ctx)
	// late dials (tasks that were parked behind a stuck dial) may still hand out streams
	for i := 0; i < 3; i++ {
		time.Sleep(time.Millisecond)
		for _, f := range allFakes() {
			f.setDrain()
			f.extClose()
		}
	}
	bgDone := make(chan struct{})
	go func() { bg.Wait(); close(bgDone) }()
	select {
	case <-bgDone:
	case <-time.After(stressTimeout):
		h.violate("ReadStream goroutines have not returned after their streams ended")
	}

	// ---- what the streams saw
	canTag := map[int]bool{}
	for _, o := range c.Ops {
		if o.Kind == opAddTags {
			for _, t := range o.Tags {
				canTag[t] = true
			}
		}
	}
	mu.Lock()
	msgs = append([]*stressMsg(nil), msgs...)
	mu.Unlock()
	perPeer := map[[2]int]int{}
	for _, f := range allFakes() {
		obs, foreign, _, _ := f.snapshot()
		pi := h.peerIdx[f.peerId]
		for _, x := range foreign {
			h.violate("stream %s was handed a message not meant for it: %s", f.key, x)
		}
		seen := map[int]int{}
		last := map[int]int{} // issuer -> last direct seq
		direct := 0
		for _, x := range obs {
			if x < 0 || x >= len(msgs) {
				h.violate("stream %s saw unknown message %d", f.key, x)
				continue
			}
			m := msgs[x]
			seen[x]++
			allowed := 1
			if m.kind == opBroadcast && len(m.tags) == 1 {
				// one index entry per mention of the tag at registration (see extraCopies)
				for t := range m.tags {
					k := 0
					for _, st := range f.spec.Tags {
						if st == t {
							k++
						}
					}
					if k > allowed {
						allowed = k
					}
				}
			}
			if seen[x] > allowed {
				h.violate("stream %s saw message %d %d times", f.key, x, seen[x])
			}
			if m.kind == opBroadcast {
				ok := false
				for t := range m.tags {
					ok = ok || canTag[t]
					for _, st := range f.spec.Tags {
						ok = ok || st == t
					}
				}
				if !ok {
					h.violate("stream %s (tags %v) saw broadcast %d for tags %v it can never have had", f.key, f.spec.Tags, x, keys(m.tags))
				}
			} else {
				if !m.peers[pi] {
					h.violate("stream %s of peer %d saw message %d sent to peers %v", f.key, pi, x, keys(m.peers))
				}
				perPeer[[2]int{x, pi}]++
			}
			if m.kind != opSend {
				direct++
				if prev, ok := last[m.issuer]; ok && prev > m.seq {
					h.violate("stream %s saw messages of caller %d out of issue order (%d after %d): %v", f.key, m.issuer, m.seq, prev, obs)
				}
				last[m.issuer] = m.seq
			}
		}
		// a blocked stream never completed a send before the callers had returned, and a direct
		// write happens before its call returns: all of them were in flight or buffered at once
		if f.spec.Gate == gateBlocked && direct > f.spec.Queue+1 {
			h.violate("blocked stream %s with queue size %d was handed %d Broadcast/SendById messages although it never completed a send while they were issued", f.key, f.spec.Queue, direct)
		}
	}
	_ = 0
	for k, n := range perPeer {
		if n > 1 {
			h.violate("message %d sent to peer %d once was written %d times across its streams", k[0], k[1], n)
		}
	}
	h.hd.mu.Lock()
	for _, p := range h.hd.panics {
		h.violate("%s", p)
	}
	h.hd.mu.Unlock()

	out.Sig = vstat.HashJSON(c)
	blocked, healthy := false, false
	for _, s := range c.Streams {
		blocked = blocked || s.Gate != gateHealthy || s.FailSendAt > 0 || s.FailRecvAt > 0
		healthy = healthy || (s.Gate == gateHealthy && s.FailSendAt == 0 && s.FailRecvAt == 0)
	}
	out.NonTrivial = blocked && healthy
	out.Classes = []string{"stress-real-goroutines"}
	h.vioMu.Lock()
	defer h.vioMu.Unlock()
	if len(h.vio) > 0 {
		return out, fmt.Errorf("%s", h.vio[0])
	}
	return out, nil
}

func TestStress(t *testing.T) {
	outerT, curTest = t, t.Name()
	vstat.Check(t, prop, genCase, runStress)
}
