package c02

import (
	"bytes"
	"context"
	"crypto/ed25519"
	"crypto/sha256"
	"encoding/base32"
	"encoding/json"
	"fmt"
	"os"
	"sort"
	"strings"

	anystore "github.com/anyproto/any-store"

	"github.com/anyproto/any-sync/commonspace/object/acl/list"
	"github.com/anyproto/any-sync/commonspace/object/acl/recordverifier"
	"github.com/anyproto/any-sync/commonspace/object/tree/objecttree"
	"github.com/anyproto/any-sync/commonspace/object/tree/treechangeproto"
	"github.com/anyproto/any-sync/commonspace/object/tree/treestorage"
	"github.com/anyproto/any-sync/commonspace/spacestorage"
	"github.com/anyproto/any-sync/commonspace/spacesyncproto"
	"github.com/anyproto/any-sync/consensus/consensusproto"
	"github.com/anyproto/any-sync/util/crypto"

	"verif/harness/internal/aclgen"
	"verif/harness/internal/dbutil"
	"verif/harness/internal/vstat"
)

var debug = os.Getenv("C02_DEBUG") != ""

type raw = treechangeproto.RawTreeChangeWithId

// built is the harness' bookkeeping of a change it built itself (valid or not).
type built struct {
	raw     *raw
	author  int // account index
	aclIdx  int // index of the cited record in the history; -1: unknown / empty id
	aclHead string
	parents []string
	snap    bool
	base    string
}

// H is the state of one case.
type H struct {
	c       Case
	w       *aclgen.World
	recs    []*consensusproto.RawRecordWithId
	recIdx  map[string]int
	local   int // the tree's ACL list holds records[0..local]
	acl     list.AclList
	space   spacestorage.SpaceStorage
	tree    objecttree.ObjectTree
	root    *raw
	rootAt  int
	builder objecttree.ChangeBuilder
	pubs    [][]byte // raw Ed25519 public key per account
	clock   int64
	nbuilt  int

	pool     map[string]*built // every change the harness built, by its true content hash
	snap     *snapshot
	verdicts map[string]verdict
	classes  map[string]bool

	nDeliveries, nCands, nMuts, nRejectedBatches, nAccepted int
	singleDim, byteMut                                      int
}

// ---- independent predicate ------------------------------------------------------------------

// cidOf: CIDv1, dag-cbor, sha2-256, base32 lower case without padding.
func cidOf(data []byte) string {
	sum := sha256.Sum256(data)
	b := append([]byte{0x01, 0x71, 0x12, 0x20}, sum[:]...)
	return "b" + strings.ToLower(base32.StdEncoding.WithPadding(base32.NoPadding).EncodeToString(b))
}

func rawPub(identityProto []byte) []byte {
	pk, err := crypto.UnmarshalEd25519PublicKeyProto(identityProto)
	if err != nil {
		return nil
	}
	r, err := pk.Raw()
	if err != nil || len(r) != ed25519.PublicKeySize {
		return nil
	}
	return r
}

type verdict struct {
	ok      bool
	why     string
	reasons []string // authorisation dimensions that fail (perm, not-local, unknown-acl, older-than-parent)
	author  int
	aclIdx  int
	tc      *treechangeproto.TreeChange
	isRoot  bool
}

func canWrite(p int) bool { return p == aclgen.Writer || p == aclgen.Admin || p == aclgen.Owner }

// citedBy returns the index of the ACL record cited by the change with this id, looking at
// bytes whose hash is the id (harness pool, else what the tree stores). known=false when
// the harness cannot tell; none=true for the unsigned root of a derived tree.
func (h *H) citedBy(id string, stored map[string][]byte) (idx int, none, known bool) {
	if id == h.root.Id {
		if h.c.Derived {
			return 0, true, true
		}
		return h.rootAt, false, true
	}
	var data []byte
	if b, ok := h.pool[id]; ok {
		data = b.raw.RawChange
	} else if s, ok := stored[id]; ok && cidOf(s) == id {
		data = s
	} else {
		return 0, false, false
	}
	rtc := &treechangeproto.RawTreeChange{}
	if rtc.UnmarshalVT(data) != nil {
		return 0, false, false
	}
	tc := &treechangeproto.TreeChange{}
	if tc.UnmarshalVT(rtc.Payload) != nil {
		return 0, false, false
	}
	i, ok := h.recIdx[tc.AclHeadId]
	if !ok {
		return 0, false, false
	}
	return i, false, true
}

// judge is the statement's predicate for (id, bytes), evaluated at the present local ACL prefix.
func (h *H) judge(id string, data []byte, stored map[string][]byte) verdict {
	key := fmt.Sprintf("%s/%x/%d", id, sha256.Sum256(data), h.local)
	if v, ok := h.verdicts[key]; ok {
		return v
	}
	v := h.judgeUncached(id, data, stored)
	h.verdicts[key] = v
	return v
}

func (h *H) judgeUncached(id string, data []byte, stored map[string][]byte) verdict {
	v := verdict{author: -1, aclIdx: -1}
	if cidOf(data) != id {
		v.why = "id is not the content hash of the bytes"
		return v
	}
	if id == h.root.Id {
		// same hash as the root the harness created: the root itself
		v.isRoot = true
		if h.c.Derived {
			v.ok = true // the unsigned, deterministic root of a derived tree
			return v
		}
		rtc := &treechangeproto.RawTreeChange{}
		rc := &treechangeproto.RootChange{}
		if rtc.UnmarshalVT(data) != nil || rc.UnmarshalVT(rtc.Payload) != nil {
			v.why = "root does not decode"
			return v
		}
		pub := rawPub(rc.Identity)
		if pub == nil || len(rtc.Signature) != ed25519.SignatureSize || !ed25519.Verify(pub, rtc.Payload, rtc.Signature) {
			v.why = "root signature does not verify"
			return v
		}
		v.ok = true
		return v
	}
	rtc := &treechangeproto.RawTreeChange{}
	if err := rtc.UnmarshalVT(data); err != nil {
		v.why = "wrapper does not decode"
		return v
	}
	tc := &treechangeproto.TreeChange{}
	if err := tc.UnmarshalVT(rtc.Payload); err != nil {
		v.why = "payload does not decode"
		return v
	}
	v.tc = tc
	pub := rawPub(tc.Identity)
	if pub == nil {
		v.why = "named identity is not a public key"
		return v
	}
	if len(rtc.Signature) != ed25519.SignatureSize || !ed25519.Verify(pub, rtc.Payload, rtc.Signature) {
		v.why = "signature does not verify under the named identity"
		return v
	}
	for i, p := range h.pubs {
		if bytes.Equal(p, pub) {
			v.author = i
		}
	}
	// authorisation dimensions
	idx, okIdx := h.recIdx[tc.AclHeadId]
	switch {
	case !okIdx:
		v.reasons = append(v.reasons, "unknown-acl")
	case idx > h.local:
		v.reasons = append(v.reasons, "not-local")
		v.aclIdx = idx
	default:
		v.aclIdx = idx
	}
	if okIdx {
		if v.author < 0 || !canWrite(h.w.M.PermAt[v.author][idx]) {
			v.reasons = append(v.reasons, "perm")
		}
		for _, p := range tc.TreeHeadIds {
			pi, none, known := h.citedBy(p, stored)
			if !known {
				vstat.Count("parent_unknown_to_harness", 1)
				continue
			}
			if none {
				continue
			}
			if idx < pi {
				v.reasons = append(v.reasons, "older-than-parent")
				break
			}
		}
	} else if v.author < 0 {
		v.reasons = append(v.reasons, "perm")
	}
	if len(v.reasons) > 0 {
		v.why = "not authorised: " + strings.Join(v.reasons, "+")
		return v
	}
	v.ok = true
	return v
}

// ---- observation --------------------------------------------------------------------------

type storedRec struct {
	Id, Order, Snap string
	Counter         int
	Prev            []string
	Sum             [32]byte
	data            []byte
}

type snapshot struct {
	heads   []string
	iter    []string
	mem     map[string]*objecttree.Change
	stored  []storedRec
	byId    map[string][]byte
	entry   string
	rootId  string
}

func (s *snapshot) render() string {
	var b strings.Builder
	fmt.Fprintf(&b, "heads: %s\n", strings.Join(s.heads, ","))
	fmt.Fprintf(&b, "iterate-root: %s\n", strings.Join(s.iter, ","))
	fmt.Fprintf(&b, "storage:\n")
	for _, r := range s.stored {
		fmt.Fprintf(&b, "  %s order=%q snap=%s counter=%d prev=%v sum=%x\n", r.Id, r.Order, r.Snap, r.Counter, r.Prev, r.Sum[:6])
	}
	fmt.Fprintf(&b, "heads-entry: %s\n", s.entry)
	return b.String()
}

func (h *H) observe() (*snapshot, error) {
	ctx := context.Background()
	s := &snapshot{mem: map[string]*objecttree.Change{}, byId: map[string][]byte{}}
	h.tree.Lock()
	defer h.tree.Unlock()
	s.heads = append([]string(nil), h.tree.Heads()...)
	s.rootId = h.tree.Root().Id
	err := h.tree.IterateRoot(nil, func(c *objecttree.Change) bool {
		s.iter = append(s.iter, c.Id)
		s.mem[c.Id] = c
		return true
	})
	if err != nil {
		return nil, fmt.Errorf("IterateRoot: %w", err)
	}
	err = h.tree.Storage().GetAfterOrder(ctx, "", func(ctx context.Context, sc objecttree.StorageChange) (bool, error) {
		d := append([]byte(nil), sc.RawChange...)
		s.stored = append(s.stored, storedRec{Id: sc.Id, Order: sc.OrderId, Snap: sc.SnapshotId, Counter: sc.SnapshotCounter,
			Prev: append([]string(nil), sc.PrevIds...), Sum: sha256.Sum256(d), data: d})
		s.byId[sc.Id] = d
		return true, nil
	})
	if err != nil {
		return nil, fmt.Errorf("storage scan: %w", err)
	}
	e, err := h.space.HeadStorage().GetEntry(ctx, h.root.Id)
	if err != nil {
		return nil, fmt.Errorf("heads entry: %w", err)
	}
	s.entry = fmt.Sprintf("heads=%v common=%s deleted=%d derived=%v parent=%q seq=%d", e.Heads, e.CommonSnapshot, e.DeletedStatus, e.IsDerived, e.ParentId, e.LastAddSeq)
	return s, nil
}

// onlyIf judges everything that is part of the tree after a call.
func (h *H) onlyIf(s *snapshot, delivered []*raw, what string) error {
	ctx := context.Background()
	// on disk
	for _, r := range s.stored {
		if v := h.judge(r.Id, r.data, s.byId); !v.ok {
			return fmt.Errorf("%s: change %s is STORED but %s (local ACL prefix %d, bytes %x)", what, r.Id, v.why, h.local, r.data)
		}
	}
	deliveredBy := map[string][]byte{}
	for _, d := range delivered {
		if _, ok := deliveredBy[d.Id]; !ok {
			deliveredBy[d.Id] = d.RawChange
		}
	}
	// in memory
	memIds := append([]string(nil), s.iter...)
	for _, d := range delivered {
		h.tree.Lock()
		has := h.tree.HasChanges(d.Id)
		h.tree.Unlock()
		if _, inIter := s.mem[d.Id]; has && !inIter {
			memIds = append(memIds, d.Id)
		}
		onDisk, err := h.tree.Storage().Has(ctx, d.Id)
		if err != nil {
			return fmt.Errorf("Storage.Has: %w", err)
		}
		if onDisk {
			// what a reader of the storage gets under this id (copied: storage buffers alias)
			sc, err := h.tree.Storage().Get(ctx, d.Id)
			if err != nil {
				return fmt.Errorf("Storage.Get(%s) although Has: %w", d.Id, err)
			}
			got := append([]byte(nil), sc.RawChange...)
			if v := h.judge(d.Id, got, s.byId); !v.ok {
				return fmt.Errorf("%s: Storage.Get(%s) returns bytes for which %s (bytes %x)", what, d.Id, v.why, got)
			}
		}
		if _, scanned := s.byId[d.Id]; onDisk && !scanned {
			// present in the collection but not in the scan of this tree: judge what was delivered
			if v := h.judge(d.Id, d.RawChange, s.byId); !v.ok {
				return fmt.Errorf("%s: Storage.Has(%s) after delivery of bytes for which %s", what, d.Id, v.why)
			}
		}
	}
	for _, id := range memIds {
		data, ok := s.byId[id]
		if !ok {
			data, ok = deliveredBy[id]
		}
		if !ok {
			if b, inPool := h.pool[id]; inPool {
				data, ok = b.raw.RawChange, true
			}
		}
		if !ok {
			return fmt.Errorf("%s: change %s is ATTACHED in memory, is not stored and was not delivered", what, id)
		}
		v := h.judge(id, data, s.byId)
		if !v.ok {
			return fmt.Errorf("%s: change %s is ATTACHED but %s (local ACL prefix %d, bytes %x)", what, id, v.why, h.local, data)
		}
		// the in-memory object must be the change those bytes describe
		if c := s.mem[id]; c != nil && !v.isRoot && v.tc != nil {
			var memPub []byte
			if c.Identity != nil {
				memPub, _ = c.Identity.Raw()
			}
			if !bytes.Equal(memPub, rawPub(v.tc.Identity)) || c.AclHeadId != v.tc.AclHeadId ||
				strings.Join(sortedCopy(c.PreviousIds), ",") != strings.Join(sortedCopy(v.tc.TreeHeadIds), ",") {
				return fmt.Errorf("%s: attached change %s differs in memory (author/acl head/parents) from the bytes with that hash", what, id)
			}
		}
	}
	return nil
}

// deliver hands a payload to AddRawChanges and applies the oracle.
func (h *H) deliver(payload []*raw, what string) (added bool, callErr error, err error) {
	ctx := context.Background()
	if h.snap == nil {
		if h.snap, err = h.observe(); err != nil {
			return false, nil, err
		}
	}
	pre := h.snap
	// heads of the payload: ids nobody in the payload names as parent
	named := map[string]bool{}
	for _, r := range payload {
		if b, ok := h.pool[r.Id]; ok {
			for _, p := range b.parents {
				named[p] = true
			}
		}
	}
	var newHeads []string
	for _, r := range payload {
		if !named[r.Id] {
			newHeads = append(newHeads, r.Id)
		}
	}
	in := make([]*raw, len(payload))
	for i, r := range payload {
		in[i] = &raw{RawChange: append([]byte(nil), r.RawChange...), Id: r.Id}
	}
	h.tree.Lock()
	res, callErr := func() (res objecttree.AddResult, err error) {
		defer func() {
			if r := recover(); r != nil {
				h.tree.Unlock()
				if debug {
					fmt.Printf("PANIC in AddRawChanges(%s): %v\n--- tree before the call ---\n%s--- payload ---\n", what, r, pre.render())
					for _, x := range payload {
						if b, ok := h.pool[x.Id]; ok {
							fmt.Printf("  %s parents=%v base=%s snap=%v\n", x.Id, b.parents, b.base, b.snap)
						}
					}
				}
				panic(r)
			}
		}()
		return h.tree.AddRawChanges(ctx, objecttree.RawChangesPayload{NewHeads: newHeads, RawChanges: in})
	}()
	h.tree.Unlock()
	h.nDeliveries++
	post, err := h.observe()
	if err != nil {
		return false, callErr, err
	}
	h.snap = post
	if callErr != nil {
		h.nRejectedBatches++
		if a, b := pre.render(), post.render(); a != b {
			return false, callErr, fmt.Errorf("%s: AddRawChanges returned an error (%s) but the tree is not as it was:\n--- before ---\n%s--- after ---\n%s", what, clean(callErr), a, b)
		}
	}
	if err := h.onlyIf(post, payload, what); err != nil {
		return false, callErr, err
	}
	if debug {
		fmt.Printf("  %-60s err=%s added=%d heads=%s\n", what, clean(callErr), len(res.Added), shorts(post.heads))
	}
	return len(post.stored) > len(pre.stored), callErr, nil
}

func (h *H) inTree(id string) bool {
	if _, ok := h.snap.mem[id]; ok {
		return true
	}
	_, ok := h.snap.byId[id]
	return ok
}

// ---- construction ---------------------------------------------------------------------------

func (h *H) recId(i int) string { return h.recs[i].Id }

// build forges a change with the exported builder and registers it in the pool.
func (h *H) build(author int, aclHead string, parents []string, base string, snap bool, tag string) (*built, error) {
	h.clock++
	h.nbuilt++
	_, r, err := h.builder.Build(objecttree.BuilderContent{
		TreeHeadIds:    append([]string(nil), parents...),
		AclHeadId:      aclHead,
		SnapshotBaseId: base,
		IsSnapshot:     snap,
		Unencrypted:    true,
		PrivKey:        h.w.Keys[author].SignKey,
		Content:        []byte(fmt.Sprintf("%s-%d", tag, h.nbuilt)),
		Timestamp:      h.clock,
		DataType:       "t",
	})
	if err != nil {
		return nil, fmt.Errorf("ChangeBuilder.Build: %w", err)
	}
	idx, ok := h.recIdx[aclHead]
	if !ok {
		idx = -1
	}
	b := &built{raw: r, author: author, aclIdx: idx, aclHead: aclHead, parents: append([]string(nil), parents...), snap: snap, base: base}
	if cidOf(r.RawChange) != r.Id {
		return nil, fmt.Errorf("ChangeBuilder.Build produced id %s which is not the content hash %s of its bytes", r.Id, cidOf(r.RawChange))
	}
	h.pool[r.Id] = b
	if debug {
		fmt.Printf("    built %s %s author=%d acl=%s parents=%s base=%s snap=%v ts=%d n=%d\n", tag, short(r.Id), author, short(aclHead), shorts(parents), short(base), snap, h.clock, h.nbuilt)
	}
	return b, nil
}

// baseOf: the snapshot a child of the change id is based on.
func (h *H) baseOf(id string) string {
	if id == h.root.Id {
		return id
	}
	if b, ok := h.pool[id]; ok {
		if b.snap {
			return id
		}
		return b.base
	}
	return h.root.Id
}

// plan interprets a Spec in the current state: parents, lowest admissible record, base.
type plan struct {
	parents []string
	lo      int
	base    string
}

func (h *H) planFor(s Spec) plan {
	var p plan
	if s.Par == 0 || len(h.snap.stored) == 0 {
		p.parents = append([]string(nil), h.snap.heads...)
	} else {
		p.parents = []string{h.snap.stored[(s.Par-1)%len(h.snap.stored)].Id}
	}
	sort.Strings(p.parents)
	for _, id := range p.parents {
		if i, none, known := h.citedBy(id, h.snap.byId); known && !none && i > p.lo {
			p.lo = i
		}
	}
	bases := map[string]bool{}
	for _, id := range p.parents {
		bases[h.baseOf(id)] = true
	}
	if len(bases) == 1 {
		for b := range bases {
			p.base = b
		}
	} else {
		// what AddContent does: the in-memory root is the common snapshot of the heads
		p.base = h.snap.rootId
	}
	return p
}

func (h *H) writersAt(idx int) []int {
	var out []int
	for a := 0; a < h.c.N; a++ {
		if canWrite(h.w.M.PermAt[a][idx]) {
			out = append(out, a)
		}
	}
	return out
}

// company builds n fresh valid changes: a chain starting as a sibling of the step's change
// (same parents); with desc the last one is a child of x instead.
func (h *H) company(n int, p plan, aclIdx int, author int, desc bool, x *built) ([]*raw, error) {
	var out []*raw
	parents, base := p.parents, p.base
	for i := 0; i < n; i++ {
		if desc && i == n-1 && x != nil {
			// a child of x by x's author citing exactly what x cites: valid iff x is
			cbase := x.base
			if x.snap {
				cbase = x.raw.Id
			}
			b, err := h.build(x.author, x.aclHead, []string{x.raw.Id}, cbase, false, "child")
			if err != nil {
				return nil, err
			}
			out = append(out, b.raw)
			continue
		}
		b, err := h.build(author, h.recId(aclIdx), parents, base, false, "company")
		if err != nil {
			return nil, err
		}
		out = append(out, b.raw)
		parents = []string{b.raw.Id}
	}
	return out, nil
}

func insertAt(batch []*raw, x *raw, pos int) []*raw {
	pos = pos % (len(batch) + 1)
	out := append([]*raw(nil), batch[:pos]...)
	out = append(out, x)
	return append(out, batch[pos:]...)
}

// ---- world ----------------------------------------------------------------------------------

func (h *H) setup(sc *dbutil.Scratch) (db anystore.DB, err error) {
	c := h.c
	err = aclgen.Bubble(outerT, func() error {
		var err error
		h.w, err = aclgen.NewWorld(c.N, c.Seed, false)
		if err != nil {
			return err
		}
		for _, op := range c.Ops {
			if op.Kind != "add" && op.Kind != "perm_change" && op.Kind != "remove" {
				return fmt.Errorf("op kind %q is outside the C02 alphabet", op.Kind)
			}
			st, err := h.w.Apply(op)
			if err != nil {
				return err
			}
			if !st.Accepted {
				vstat.Count("acl_op_refused", 1)
			}
		}
		return nil
	})
	if err != nil {
		return nil, err
	}
	h.recs = h.w.Records
	nrec := len(h.recs)
	h.recIdx = map[string]int{}
	for i, r := range h.recs {
		h.recIdx[r.Id] = i
	}
	for i := 0; i < c.N; i++ {
		p, err := h.w.Keys[i].SignKey.GetPublic().Raw()
		if err != nil {
			return nil, err
		}
		h.pubs = append(h.pubs, p)
	}
	h.local = nrec - 1
	if c.Prefix >= 0 {
		h.local = c.Prefix % nrec
	}
	h.rootAt = c.RootAt % (h.local + 1)

	ctx := context.Background()
	db, err = sc.Open("space.db")
	if err != nil {
		return nil, err
	}
	owner := h.w.Keys[0]
	rootList, err := aclgen.NewList(owner, cloneRecs(h.recs[:h.rootAt+1]), recordverifier.NewValidateFull())
	if err != nil {
		return db, err
	}
	seed := []byte(fmt.Sprintf("seed-%d", c.Seed))
	settings, err := objecttree.CreateObjectTreeRoot(objecttree.ObjectTreeCreatePayload{
		PrivKey: owner.SignKey, ChangeType: "settings", SpaceId: h.w.SpaceId, Seed: seed, Timestamp: 1_700_000_000,
	}, rootList)
	if err != nil {
		return db, err
	}
	if c.Derived {
		h.root, err = objecttree.DeriveObjectTreeRoot(objecttree.ObjectTreeDerivePayload{
			ChangeType: "verif.derived", ChangePayload: []byte("payload"), SpaceId: h.w.SpaceId,
		}, rootList)
	} else {
		h.root, err = objecttree.CreateObjectTreeRoot(objecttree.ObjectTreeCreatePayload{
			PrivKey: owner.SignKey, ChangeType: "verif.object", ChangePayload: []byte("payload"), SpaceId: h.w.SpaceId,
			Seed: append(seed, 'o'), Timestamp: 1_700_000_000,
		}, rootList)
	}
	if err != nil {
		return db, err
	}
	h.space, err = spacestorage.Create(ctx, db, spacestorage.SpaceStorageCreatePayload{
		AclWithId:           aclgen.CloneRec(h.recs[0]),
		SpaceHeaderWithId:   &spacesyncproto.RawSpaceHeaderWithId{RawHeader: []byte("header"), Id: h.w.SpaceId},
		SpaceSettingsWithId: &raw{RawChange: settings.RawChange, Id: settings.Id},
	})
	if err != nil {
		return db, err
	}
	aclSt, err := h.space.AclStorage()
	if err != nil {
		return db, err
	}
	h.acl, err = list.BuildAclListWithIdentity(h.w.Keys[c.Observer%c.N], aclSt, recordverifier.NewValidateFull())
	if err != nil {
		return db, err
	}
	for i := 1; i <= h.local; i++ {
		if err := h.acl.AddRawRecord(aclgen.CloneRec(h.recs[i])); err != nil {
			return db, fmt.Errorf("local ACL list rejects record %d of the history: %w", i, err)
		}
	}
	st, err := h.space.CreateTreeStorage(ctx, treestorage.TreeStorageCreatePayload{
		RootRawChange: &raw{RawChange: append([]byte(nil), h.root.RawChange...), Id: h.root.Id},
		Heads:         []string{h.root.Id},
	})
	if err != nil {
		return db, err
	}
	h.tree, err = h.buildTree(st)
	if err != nil {
		return db, fmt.Errorf("BuildObjectTree on a root by the owner citing record %d: %w", h.rootAt, err)
	}
	h.builder = objecttree.NewChangeBuilder(crypto.NewKeyStorage(), h.root)
	h.clock = 1_700_000_100
	return db, nil
}

func cloneRecs(rs []*consensusproto.RawRecordWithId) []*consensusproto.RawRecordWithId {
	out := make([]*consensusproto.RawRecordWithId, len(rs))
	for i, r := range rs {
		out[i] = aclgen.CloneRec(r)
	}
	return out
}

// ---- classification of a candidate by the reference model --------------------------------------

func (h *H) classify(author, idx int, v verdict, lo int) {
	cl := h.classes
	perm := h.w.M.PermAt[author]
	never := true
	for _, p := range perm {
		if p != aclgen.None {
			never = false
		}
	}
	if never {
		cl["never-member"] = true
		return
	}
	if idx < 0 {
		return
	}
	cur := perm[idx]
	if cur == aclgen.Reader {
		cl["reader"] = true
	}
	wasMemberBefore, removedBefore := false, false
	for j := 0; j <= idx; j++ {
		if perm[j] != aclgen.None {
			if removedBefore {
				cl["re-added"] = true
			}
			wasMemberBefore = true
		} else if wasMemberBefore {
			removedBefore = true
		}
	}
	if cur == aclgen.None && wasMemberBefore {
		cl["removed"] = true
	}
	if cur == aclgen.None && !wasMemberBefore {
		cl["not-yet-member"] = true
	}
	// last demotion (can write -> cannot) at or before idx
	for j := 1; j <= idx; j++ {
		if canWrite(perm[j-1]) && !canWrite(perm[j]) && !canWrite(cur) {
			if j == idx {
				cl["demoted-at-cited-record"] = true
			} else {
				cl["demoted-before-cited-record"] = true
			}
		}
	}
	if canWrite(cur) {
		for j := idx + 1; j < len(perm); j++ {
			if !canWrite(perm[j]) {
				cl["demoted-after-cited-record"] = true
				if j <= h.local {
					cl["demoted-after-cited-record-locally-known"] = true
				}
				break
			}
		}
	} else {
		for j := idx + 1; j < len(perm); j++ {
			if canWrite(perm[j]) {
				cl["promoted-after-cited-record"] = true
				if j <= h.local {
					cl["promoted-after-cited-record-locally-known"] = true
				}
				break
			}
		}
	}
	if idx > 0 && !canWrite(perm[idx-1]) && canWrite(cur) {
		cl["promoted-at-cited-record"] = true
	}
}

// ---- the case ---------------------------------------------------------------------------------

func run(c Case) (out vstat.Outcome, err error) {
	if c.N < 3 || len(c.Steps) == 0 {
		return out, nil
	}
	h := &H{c: c, pool: map[string]*built{}, verdicts: map[string]verdict{}, classes: map[string]bool{}}
	sc, err := dbutil.New("c02-")
	if err != nil {
		return out, err
	}
	defer sc.Remove()
	db, err := h.setup(sc)
	if db != nil {
		defer db.Close()
	}
	if err != nil {
		return out, err
	}
	nrec := len(h.recs)
	if debug {
		fmt.Printf("case: n=%d nrec=%d local=%d rootAt=%d derived=%v\n", c.N, nrec, h.local, h.rootAt, c.Derived)
		for a := 0; a < c.N; a++ {
			fmt.Printf("  perm[%d]=%v\n", a, h.w.M.PermAt[a])
		}
	}
	if h.snap, err = h.observe(); err != nil {
		return out, err
	}
	if err := h.onlyIf(h.snap, nil, "freshly built tree"); err != nil {
		return out, err
	}
	if c.Derived {
		h.classes["derived-tree"] = true
	}
	if h.local < nrec-1 {
		h.classes["acl-prefix-only"] = true
	}
	if c.CV {
		h.classes["content-validator-tree"] = true
	}

	for si, st := range c.Steps {
		// the local ACL list learns more of the history
		for g := 0; g < st.Grow && h.local < nrec-1; g++ {
			h.local++
			if err := h.acl.AddRawRecord(aclgen.CloneRec(h.recs[h.local])); err != nil {
				return out, fmt.Errorf("local ACL list rejects record %d of the history: %w", h.local, err)
			}
			h.classes["acl-grows-mid-run"] = true
		}
		if mustAccept && si > 0 {
			if err := h.reopen(); err != nil {
				return out, fmt.Errorf("step %d: reopening the tree after the ACL list grew to record %d: %w", si, h.local, err)
			}
		}
		p := h.planFor(st.V)
		if p.lo > h.local {
			// a parent cites a record the local list lacks: cannot happen, parents are attached
			return out, fmt.Errorf("step %d: an attached parent cites record %d beyond the local prefix %d", si, p.lo, h.local)
		}
		vAcl := p.lo + st.V.Acl%(h.local-p.lo+1)
		ws := h.writersAt(vAcl)
		if len(ws) == 0 {
			return out, fmt.Errorf("reference model has no writer at record %d (the owner always is)", vAcl)
		}
		vAuthor := ws[st.V.Author%len(ws)]
		V, err := h.build(vAuthor, h.recId(vAcl), p.parents, p.base, st.V.Snap, "valid")
		if err != nil {
			return out, err
		}
		if jv := h.judge(V.raw.Id, V.raw.RawChange, h.snap.byId); !jv.ok {
			return out, fmt.Errorf("harness bug: change built valid is judged invalid: %s", jv.why)
		}
		if st.V.Snap {
			h.classes["valid-snapshot"] = true
		}
		if len(p.parents) > 1 {
			h.classes["valid-merge"] = true
		}
		if st.V.Par != 0 {
			h.classes["valid-on-older-change"] = true
		}
		if debug {
			fmt.Printf("step %d: V=%s author=%d acl=%d parents=%s base=%s lo=%d\n", si, short(V.raw.Id), vAuthor, vAcl, shorts(p.parents), short(p.base), p.lo)
		}

		// ---- candidates: validly built, differing in authorisation dimensions ----
		for ci, cd := range st.Cands {
			author, aclSel := vAuthor, vAcl
			if cd.Dim == "author" || cd.Dim == "both" {
				author = cd.Author % c.N
			}
			if cd.Dim == "acl" || cd.Dim == "both" {
				aclSel = cd.Acl % (nrec + 2)
			}
			if cd.Dim == "backdate" {
				// a writer that lost write permission by the parents' record cites an older
				// record where it still had it (interpreted modulo the pairs the model offers)
				type pair struct{ a, i int }
				var pairs []pair
				for a := 1; a < c.N; a++ {
					for i := 0; i < p.lo; i++ {
						if canWrite(h.w.M.PermAt[a][i]) && !canWrite(h.w.M.PermAt[a][p.lo]) {
							pairs = append(pairs, pair{a, i})
						}
					}
				}
				if len(pairs) == 0 {
					continue
				}
				pr := pairs[(cd.Author+cd.Acl)%len(pairs)]
				author, aclSel = pr.a, pr.i
				h.classes["backdated-acl-head-by-demoted-writer"] = true
				if c.CV {
					h.classes["cv-backdated-acl-head-by-demoted-writer"] = true
				}
			}
			if author == vAuthor && aclSel == vAcl {
				continue
			}
			var aclHead string
			switch {
			case aclSel < nrec:
				aclHead = h.recId(aclSel)
			case aclSel == nrec:
				aclHead = h.recId(0)[:len(h.recId(0))-4] + "aaaa" // no such record
				if _, exists := h.recIdx[aclHead]; exists {
					aclHead = "bafyreiunknownaclrecord"
				}
			default:
				aclHead = ""
			}
			X, err := h.build(author, aclHead, p.parents, p.base, false, "cand")
			if err != nil {
				return out, err
			}
			jx := h.judge(X.raw.Id, X.raw.RawChange, h.snap.byId)
			h.nCands++
			h.classify(author, X.aclIdx, jx, p.lo)
			for _, r := range jx.reasons {
				h.classes["cand-"+r] = true
				if c.CV {
					h.classes["cv-cand-"+r] = true
				}
			}
			if jx.ok {
				h.classes["cand-valid"] = true
			}
			// exactly one authorisation dimension differs from the valid change and it fails for one reason
			if (author == vAuthor) != (aclSel == vAcl) && len(jx.reasons) == 1 {
				h.singleDim++
			}
			payload := []*raw{X.raw}
			if cd.Batch > 0 {
				comp, err := h.company(cd.Batch, p, vAcl, 0, cd.Desc, X) // by the owner, whose permission never changes
				if err != nil {
					return out, err
				}
				pos := cd.Pos
				if cd.Desc {
					// the child must come after its parent to be a well-formed batch; both orders are legal input
					h.classes["batch-with-descendant"] = true
				}
				payload = insertAt(comp, X.raw, pos)
				if !jx.ok {
					h.classes["invalid-mid-batch"] = true
					if pp := pos % (len(comp) + 1); pp > 0 && pp < len(comp) {
						h.classes["invalid-strictly-inside-batch"] = true
					}
				}
			}
			what := fmt.Sprintf("step %d candidate %d (author %d, cited %s, batch of %d)", si, ci, author, h.describeAcl(aclSel), len(payload))
			_, callErr, err := h.deliver(payload, what)
			if err != nil {
				return out, err
			}
			if jx.ok {
				if !h.inTree(X.raw.Id) {
					h.unexpectedReject(what, callErr, X)
				} else {
					h.nAccepted++
				}
			}
		}

		// ---- mutants of V delivered to a tree that does not hold V ----
		muts, err := h.mutants(V, st.Muts, vAcl)
		if err != nil {
			return out, err
		}
		for _, phase := range []string{"fresh", "held"} {
			if phase == "held" {
				_, callErr, err := h.deliver([]*raw{V.raw}, fmt.Sprintf("step %d valid change", si))
				if err != nil {
					return out, err
				}
				if !h.inTree(V.raw.Id) {
					if mustAccept {
						return out, fmt.Errorf("step %d: valid change by account %d citing record %d was not accepted: %s", si, vAuthor, vAcl, clean(callErr))
					}
					h.unexpectedReject(fmt.Sprintf("step %d valid change %s", si, short(V.raw.Id)), callErr, V)
					break // the mutants were already delivered to a tree without the original
				}
				h.nAccepted++
			}
			for mi, m := range muts {
				spec := st.Muts[m.spec]
				payload := []*raw{m.raw}
				if spec.Batch > 0 {
					pp := h.planFor(Spec{Par: 0})
					cacl := pp.lo
					comp, err := h.company(spec.Batch, pp, cacl, 0, false, nil)
					if err != nil {
						return out, err
					}
					payload = insertAt(comp, m.raw, spec.Pos)
					h.classes["mutant-in-batch"] = true
				}
				jm := h.judge(m.raw.Id, m.raw.RawChange, h.snap.byId)
				h.nMuts++
				h.classes["mut-"+m.class] = true
				h.classes["mut-"+phase] = true
				if m.inSigned {
					h.byteMut++
				}
				if jm.ok {
					h.classes["mutant-still-valid"] = true
				}
				what := fmt.Sprintf("step %d mutant %d (%s) of %s, tree %s the original", si, mi, m.desc, short(V.raw.Id), map[string]string{"fresh": "does not hold", "held": "holds"}[phase])
				if _, _, err := h.deliver(payload, what); err != nil {
					return out, err
				}
			}
		}
		// ---- orphan first, then a variant carrying the same id ----
		for oi, o := range st.Orphans {
			if err := h.orphanShape(si, oi, o); err != nil {
				return out, err
			}
		}
	}

	// ---- outcome ----
	out.Sig = vstat.HashJSON(c)
	out.NonTrivial = h.singleDim > 0 || h.byteMut > 0
	out.Classes = classList(h.classes)
	vstat.Count("deliveries", int64(h.nDeliveries))
	vstat.Count("candidates", int64(h.nCands))
	vstat.Count("candidates_single_dimension_invalid", int64(h.singleDim))
	vstat.Count("mutants", int64(h.nMuts))
	vstat.Count("mutants_inside_signed_bytes", int64(h.byteMut))
	vstat.Count("rejected_batches", int64(h.nRejectedBatches))
	vstat.Count("accepted_valid", int64(h.nAccepted))
	vstat.Count("unexpected_reject", 0)
	return out, nil
}

func (h *H) describeAcl(sel int) string {
	nrec := len(h.recs)
	switch {
	case sel < nrec:
		return fmt.Sprintf("record %d", sel)
	case sel == nrec:
		return "an unknown id"
	}
	return "an empty id"
}

// unexpectedReject: the converse direction (valid => accepted) is generator health, not C02.
func (h *H) unexpectedReject(what string, callErr error, b *built) {
	vstat.Count("unexpected_reject", 1)
	if debug || os.Getenv("C02_HEALTH") != "" {
		cj, _ := json.Marshal(h.c)
		msg := fmt.Sprintf("UNEXPECTED REJECT: %s: err=%s\nCASE %s\n", what, clean(callErr), cj)
		fmt.Print(msg)
		if f, err := os.OpenFile(os.Getenv("C02_HEALTH"), os.O_APPEND|os.O_CREATE|os.O_WRONLY, 0o644); err == nil {
			f.WriteString(msg)
			f.Close()
		}
	}
}

// clean renders an error of the code under test as valid UTF-8 (it may quote corrupted input).
func clean(err error) string {
	if err == nil {
		return "<nil>"
	}
	return strings.ToValidUTF8(err.Error(), "?")
}

// mustAccept makes run fail when a step's valid change is not accepted and reopens the
// tree from storage after every step (regressions of converse-direction defects only).
var mustAccept bool

func runMustAccept(c Case) (vstat.Outcome, error) {
	mustAccept = true
	defer func() { mustAccept = false }()
	return run(c)
}

func (h *H) reopen() error {
	st, err := h.space.TreeStorage(context.Background(), h.root.Id)
	if err != nil {
		return err
	}
	t, err := h.buildTree(st)
	if err != nil {
		return fmt.Errorf("BuildObjectTree over the stored tree: %w", err)
	}
	h.tree = t
	h.snap, err = h.observe()
	return err
}

// orphanShape: a fresh valid chain P -> X by the owner on the current heads. X (or its variant)
// is delivered while P is withheld, then the variant (same id, other bytes) arrives with,
// after or before P; finally the genuine pair, which must be accepted.
func (h *H) orphanShape(si, oi int, o Orph) error {
	pp := h.planFor(Spec{Par: 0})
	P, err := h.build(0, h.recId(pp.lo), pp.parents, pp.base, false, "orphan-parent")
	if err != nil {
		return err
	}
	X, err := h.build(0, h.recId(pp.lo), []string{P.raw.Id}, pp.base, false, "orphan")
	if err != nil {
		return err
	}
	m := o.M
	m.Keep = true
	vs, err := h.mutants(X, []Mut{m}, pp.lo)
	if err != nil {
		return err
	}
	if len(vs) == 0 {
		return nil
	}
	v := vs[0]
	what := func(s string) string {
		return fmt.Sprintf("step %d orphan shape %d/%d (%s): %s", si, oi, o.Shape%4, v.desc, s)
	}
	first := X.raw
	if o.First%2 == 1 {
		first = v.raw
		h.classes["orphan-first-variant"] = true
	} else {
		h.classes["orphan-first-genuine"] = true
	}
	h.classes["orphan-then-same-id-variant"] = true
	h.classes["orphan-"+v.class] = true
	h.classes[fmt.Sprintf("orphan-shape-%d", o.Shape%4)] = true
	h.nMuts++
	h.byteMut++
	if _, _, err := h.deliver([]*raw{first}, what("orphan delivered, parent withheld")); err != nil {
		return err
	}
	var seq [][]*raw
	switch o.Shape % 4 {
	case 0:
		seq = [][]*raw{{P.raw, v.raw}}
	case 1:
		seq = [][]*raw{{v.raw}, {P.raw, v.raw}}
	case 2:
		seq = [][]*raw{{P.raw}, {v.raw}}
	default:
		seq = [][]*raw{{v.raw, P.raw}}
	}
	for k, payload := range seq {
		if _, _, err := h.deliver(payload, what(fmt.Sprintf("delivery %d of %d with the same-id variant", k+1, len(seq)))); err != nil {
			return err
		}
	}
	_, callErr, err := h.deliver([]*raw{P.raw, X.raw}, what("the genuine pair"))
	if err != nil {
		return err
	}
	if !h.inTree(X.raw.Id) {
		if mustAccept {
			return fmt.Errorf("%s: not accepted: %s", what("the genuine pair"), clean(callErr))
		}
		h.unexpectedReject(what("the genuine pair"), callErr, X)
	} else {
		h.nAccepted++
	}
	return nil
}

// buildTree: the default verifying tree, or the verifying tree with a content validator
// (how the settings tree is built); the validator accepts everything, so every
// authorisation rule of the statement must hold unchanged.
func (h *H) buildTree(st objecttree.Storage) (objecttree.ObjectTree, error) {
	if h.c.CV {
		return objecttree.BuildObjectTreeWithContentValidator(func(*objecttree.Change, list.AclList) error { return nil })(st, h.acl)
	}
	return objecttree.BuildObjectTree(st, h.acl)
}
