package c02

import (
	"bytes"
	"crypto/sha256"
	"encoding/base32"
	"encoding/hex"
	"fmt"
	"math/big"
	"sort"
	"strings"

	"github.com/anyproto/any-sync/commonspace/object/tree/treechangeproto"
)

type mutant struct {
	raw      *raw
	desc     string
	class    string
	inSigned bool // the alteration lies inside the payload or the signature (not just the id)
	spec     int
}

func wrap(payload, sig []byte) ([]byte, error) {
	return (&treechangeproto.RawTreeChange{Payload: payload, Signature: sig}).MarshalVT()
}

// mutants derives the alterations of the valid change V named by specs.
func (h *H) mutants(V *built, specs []Mut, vAcl int) ([]mutant, error) {
	orig := V.raw.RawChange
	rtc := &treechangeproto.RawTreeChange{}
	if err := rtc.UnmarshalVT(orig); err != nil {
		return nil, err
	}
	tc := &treechangeproto.TreeChange{}
	if err := tc.UnmarshalVT(rtc.Payload); err != nil {
		return nil, err
	}
	pOff := bytes.Index(orig, rtc.Payload)
	sOff := bytes.LastIndex(orig, rtc.Signature)
	inSigned := func(off int) bool {
		return (off >= pOff && off < pOff+len(rtc.Payload)) || (off >= sOff && off < sOff+len(rtc.Signature))
	}
	var poolIds []string
	for id := range h.pool {
		if id != V.raw.Id {
			poolIds = append(poolIds, id)
		}
	}
	sort.Strings(poolIds)

	var out []mutant
	add := func(i int, data []byte, id, class, desc string, signed bool) {
		if specs[i].Keep && specs[i].Kind != "reenc" {
			id = V.raw.Id
			class += "-same-id"
			desc += " (carrying the original's id)"
		}
		if bytes.Equal(data, orig) && id == V.raw.Id {
			return // byte-identical to the original: not an alteration
		}
		out = append(out, mutant{raw: &raw{RawChange: data, Id: id}, desc: desc, class: class, inSigned: signed, spec: i})
	}
	for i, m := range specs {
		mask := byte(m.B)
		if mask == 0 {
			mask = 1
		}
		switch m.Kind {
		case "flip", "flip_rehash":
			off := m.A
			if m.Abs {
				if off >= len(orig) {
					continue
				}
			} else {
				off %= len(orig)
			}
			d := append([]byte(nil), orig...)
			d[off] ^= mask
			if m.Kind == "flip" {
				add(i, d, V.raw.Id, "byte-mutation-id-kept", fmt.Sprintf("byte %d xor %#02x, id kept", off, mask), inSigned(off))
			} else {
				add(i, d, cidOf(d), "byte-mutation-id-recomputed", fmt.Sprintf("byte %d xor %#02x, id recomputed", off, mask), inSigned(off))
			}
		case "trunc":
			n := m.A % len(orig)
			d := append([]byte(nil), orig[:n]...)
			add(i, d, cidOf(d), "truncated", fmt.Sprintf("truncated to %d bytes, id recomputed", n), true)
		case "id":
			var id, how string
			switch m.B % 4 {
			case 0:
				if len(poolIds) == 0 {
					continue
				}
				id, how = poolIds[m.A%len(poolIds)], "the id of another change"
			case 1:
				id, how = V.raw.Id[:len(V.raw.Id)-3]+"aaa", "a near-miss id"
				if id == V.raw.Id {
					id = V.raw.Id[:len(V.raw.Id)-3] + "bbb"
				}
			case 2:
				id, how = h.root.Id, "the root id"
			default:
				id, how = cidOf(rtc.Payload), "the hash of the payload alone"
			}
			add(i, append([]byte(nil), orig...), id, "id-replaced", "id replaced by "+how, false)
		case "reenc":
			// the genuine bytes under another ENCODING of the genuine id (same sha2-256 digest)
			id, how := reencode(orig, m.B)
			add(i, append([]byte(nil), orig...), id, "id-reencoded", "id re-encoded as "+how+" (same digest)", false)
		case "sig":
			s := append([]byte(nil), rtc.Signature...)
			s[m.A%len(s)] ^= mask
			d, err := wrap(rtc.Payload, s)
			if err != nil {
				return nil, err
			}
			add(i, d, cidOf(d), "signature-flipped", fmt.Sprintf("signature byte %d xor %#02x, id recomputed", m.A%len(s), mask), true)
		case "nosig":
			d, err := wrap(rtc.Payload, nil)
			if err != nil {
				return nil, err
			}
			add(i, d, cidOf(d), "unsigned-non-root", "signature removed, id recomputed", true)
		case "ident":
			other := (V.author + 1 + m.A%(h.c.N-1)) % h.c.N
			ob, err := h.w.Keys[other].SignKey.GetPublic().Marshall()
			if err != nil {
				return nil, err
			}
			t2 := &treechangeproto.TreeChange{}
			if err := t2.UnmarshalVT(rtc.Payload); err != nil {
				return nil, err
			}
			t2.Identity = ob
			p2, err := t2.MarshalVT()
			if err != nil {
				return nil, err
			}
			d, err := wrap(p2, rtc.Signature)
			if err != nil {
				return nil, err
			}
			add(i, d, cidOf(d), "identity-swap", fmt.Sprintf("identity swapped to account %d, signature kept, id recomputed", other), true)
		case "field":
			t2 := &treechangeproto.TreeChange{}
			if err := t2.UnmarshalVT(rtc.Payload); err != nil {
				return nil, err
			}
			var how string
			switch m.A % 8 {
			case 0:
				t2.Timestamp++
				how = "timestamp+1"
			case 1:
				t2.AclHeadId = h.recId((vAcl + 1 + m.B%len(h.recs)) % len(h.recs))
				if t2.AclHeadId == tc.AclHeadId {
					t2.AclHeadId = "bafyreiother"
				}
				how = "cited ACL record replaced"
			case 2:
				t2.TreeHeadIds = []string{h.root.Id + "x"}
				if len(poolIds) > 0 {
					t2.TreeHeadIds = []string{poolIds[m.B%len(poolIds)]}
				}
				how = "parents replaced"
			case 3:
				t2.ChangesData = append(append([]byte(nil), t2.ChangesData...), 'x')
				how = "content extended"
			case 4:
				t2.IsSnapshot = !t2.IsSnapshot
				how = "snapshot flag toggled"
			case 5:
				t2.SnapshotBaseId = V.raw.Id
				how = "snapshot base replaced"
			case 6:
				t2.DataType = "other"
				how = "data type replaced"
			default:
				t2.ReadKeyId = "k"
				how = "read key id set"
			}
			p2, err := t2.MarshalVT()
			if err != nil {
				return nil, err
			}
			d, err := wrap(p2, rtc.Signature)
			if err != nil {
				return nil, err
			}
			add(i, d, cidOf(d), "field-changed-old-signature", how+", payload re-encoded, signature kept, id recomputed", true)
		case "other":
			// the bytes of another genuine change
			if len(poolIds) == 0 {
				continue
			}
			o := h.pool[poolIds[m.A%len(poolIds)]]
			add(i, append([]byte(nil), o.raw.RawChange...), o.raw.Id, "other-change-bytes", "the bytes of another valid change", true)
		case "fake_derived":
			rc := &treechangeproto.RootChange{ChangeType: "verif.derived", ChangePayload: []byte(fmt.Sprintf("p%d", m.A)), SpaceId: h.w.SpaceId, IsDerived: true}
			p2, err := rc.MarshalVT()
			if err != nil {
				return nil, err
			}
			d, err := wrap(p2, nil)
			if err != nil {
				return nil, err
			}
			add(i, d, cidOf(d), "fake-derived-root", "an unsigned derived-root body delivered as a non-root change", true)
		default:
			return nil, fmt.Errorf("unknown mutation kind %q", m.Kind)
		}
	}
	return out, nil
}

const b58 = "123456789ABCDEFGHJKLMNPQRSTUVWXYZabcdefghijkmnopqrstuvwxyz"

// base58 (bitcoin alphabet), written here so the harness does not lean on the cid libraries.
func base58(in []byte) string {
	n := new(big.Int).SetBytes(in)
	radix, zero, mod := big.NewInt(58), big.NewInt(0), new(big.Int)
	var out []byte
	for n.Cmp(zero) > 0 {
		n.DivMod(n, radix, mod)
		out = append(out, b58[mod.Int64()])
	}
	for _, b := range in {
		if b != 0 {
			break
		}
		out = append(out, b58[0])
	}
	for i, j := 0, len(out)-1; i < j; i, j = i+1, j-1 {
		out[i], out[j] = out[j], out[i]
	}
	return string(out)
}

// reencode renders the content id of data in another codec / multibase / cid version.
func reencode(data []byte, sel int) (string, string) {
	sum := sha256.Sum256(data)
	mhash := append([]byte{0x12, 0x20}, sum[:]...)
	v1 := func(codec byte) []byte { return append([]byte{0x01, codec}, mhash...) }
	b32 := base32.StdEncoding.WithPadding(base32.NoPadding)
	switch sel % 6 {
	case 0:
		return "b" + strings.ToLower(b32.EncodeToString(v1(0x55))), "CIDv1 raw codec, base32 (bafkrei...)"
	case 1:
		return "z" + base58(v1(0x71)), "CIDv1 dag-cbor, base58btc"
	case 2:
		return base58(mhash), "CIDv0 (Qm...)"
	case 3:
		return "B" + b32.EncodeToString(v1(0x71)), "CIDv1 dag-cbor, upper-case base32"
	case 4:
		return "f" + hex.EncodeToString(v1(0x71)), "CIDv1 dag-cbor, base16"
	default:
		return "b" + strings.ToLower(b32.EncodeToString(v1(0x70))), "CIDv1 dag-pb codec, base32"
	}
}
