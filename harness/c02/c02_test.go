// Package c02 decides property C02: a change becomes part of a tree (in memory or on
// disk) only if its id is the content hash of its bytes, its signature verifies under the
// identity it names (unsigned root of a derived tree excepted), that identity held write
// permission at the ACL record the change cites, and that record exists locally and is not
// older than the records cited by the change's parents; every alteration of an accepted
// change is rejected, and a rejected batch leaves heads, iteration and storage untouched.
//
// One verifying tree (objecttree.BuildObjectTree on a real any-store space storage) over a
// generated ACL history; candidate changes are forged with the exported ChangeBuilder and
// delivered through AddRawChanges. The verdict is the ONLY-IF direction: whatever is
// attached or stored after a call is judged by an independent predicate (own CID, std-lib
// Ed25519, harness-side permission model computed from the generated ACL ops).
package c02

import (
	"os"
	"sort"
	"strconv"
	"strings"
	"testing"

	"github.com/anyproto/any-sync/app/logger"
	"pgregory.net/rapid"

	"verif/harness/internal/aclgen"
	"verif/harness/internal/vstat"
)

const prop = "C02"

var outerT *testing.T

func TestMain(m *testing.M) {
	// the tree logs ids and errors taken from (deliberately corrupted) input bytes
	logger.Config{Production: true, DefaultLevel: "fatal", DisableStdErr: true}.ApplyGlobal()
	vstat.Main(m, prop)
}

// Spec describes a change that is VALID by construction: every selector is interpreted
// modulo the set of valid choices in the current state.
type Spec struct {
	Author int  `json:"au"`   // among the accounts the reference model lets write at the cited record
	Acl    int  `json:"acl"`  // among the local records not older than any parent's
	Par    int  `json:"par"`  // 0: all current heads; k>0: the single stored change number k-1 (fork / older change)
	Snap   bool `json:"snap"` // the change is a snapshot
}

// Cand is a validly built and signed change that differs from the step's valid change in
// the authorisation dimensions named by Dim.
type Cand struct {
	Dim    string `json:"dim"` // author | acl | both | backdate (demoted writer citing an older record where it could write)
	Author int    `json:"au"`  // any account, modulo N (N-1 is never a member)
	Acl    int    `json:"acl"` // modulo nrec+2: a record of the history, nrec = unknown id, nrec+1 = empty id
	Batch  int    `json:"batch"`
	Pos    int    `json:"pos"`
	Desc   bool   `json:"desc"` // one of the batch's valid changes is a child of the candidate
}

// Mut is an alteration of the step's valid change.
type Mut struct {
	Kind  string `json:"k"`
	A     int    `json:"a"`
	B     int    `json:"b"`
	Abs   bool   `json:"abs,omitempty"` // A is an absolute byte offset: skip when beyond the end (enumeration)
	Keep  bool   `json:"keep,omitempty"` // whatever the kind, the variant carries the original's id
	Batch int    `json:"batch,omitempty"`
	Pos   int    `json:"pos,omitempty"`
}

// Orph is a two-delivery shape on a fresh valid chain P -> X: first X (or a variant of X
// carrying X's id) is delivered as an ORPHAN (its parent P withheld), then the variant is
// delivered together with / after / before P.
type Orph struct {
	M     Mut `json:"m"`     // the alteration (always carrying X's id)
	First int `json:"first"` // 0: the genuine X is the orphan; 1: the variant is
	Shape int `json:"shape"` // 0: [P, variant]; 1: [variant] then [P, variant]; 2: [P] then [variant]; 3: [variant, P]
}

type Step struct {
	Grow    int    `json:"grow"` // ACL records fed to the local list before the step
	V       Spec   `json:"v"`
	Cands   []Cand `json:"cands"`
	Muts    []Mut  `json:"muts"`
	Orphans []Orph `json:"orphans,omitempty"`
}

type Case struct {
	Seed     uint64      `json:"seed"`
	N        int         `json:"n"`
	Ops      []aclgen.Op `json:"ops"`
	Observer int         `json:"observer"`
	RootAt   int         `json:"root_at"` // the tree root cites record RootAt mod (prefix+1)
	Prefix   int         `json:"prefix"`  // local ACL list starts with records[0..Prefix mod nrec]; <0: all
	Derived  bool        `json:"derived"`
	CV       bool        `json:"cv,omitempty"` // tree built with a content validator (accept-all), as the settings tree is
	Steps    []Step      `json:"steps"`
}

var mutKinds = []string{"flip", "flip", "flip_rehash", "flip_rehash", "id", "reenc", "reenc", "sig", "ident", "field", "nosig", "fake_derived", "trunc"}

// every alteration kind that can keep the original's id
var orphKinds = []string{"flip", "reenc", "reenc", "sig", "ident", "field", "nosig", "trunc", "fake_derived", "other"}

// genOps draws an ACL history over the unambiguous alphabet {add writer/reader/admin,
// permission change, remove, re-add}, every op issued by the owner (account 0) and legal
// in the state reached so far. Account n-1 is never touched (never a member).
func genOps(rt *rapid.T, n int) []aclgen.Op {
	var ops []aclgen.Op
	guess := make([]int, n)
	guess[0] = aclgen.Owner
	perms := []int{aclgen.Writer, aclgen.Writer, aclgen.Reader, aclgen.Admin}
	target := rapid.IntRange(2, 9).Draw(rt, "nops")
	for len(ops) < target {
		var members, outsiders []int
		for i := 1; i < n-1; i++ {
			if guess[i] == aclgen.None {
				outsiders = append(outsiders, i)
			} else {
				members = append(members, i)
			}
		}
		shape := rapid.IntRange(0, 9).Draw(rt, "shape")
		switch {
		case len(members) == 0 || (shape <= 3 && len(outsiders) > 0): // add / re-add
			t := outsiders[rapid.IntRange(0, len(outsiders)-1).Draw(rt, "t")]
			p := rapid.SampledFrom(perms).Draw(rt, "p")
			ops = append(ops, aclgen.Op{Kind: "add", Actor: 0, Target: t, Perm: p})
			guess[t] = p
		case shape <= 7: // promote / demote
			t := members[rapid.IntRange(0, len(members)-1).Draw(rt, "t")]
			var other []int
			for _, p := range []int{aclgen.Writer, aclgen.Reader, aclgen.Admin} {
				if p != guess[t] {
					other = append(other, p)
				}
			}
			p := rapid.SampledFrom(other).Draw(rt, "p")
			ops = append(ops, aclgen.Op{Kind: "perm_change", Actor: 0, Target: t, Perm: p})
			guess[t] = p
		default:
			t := members[rapid.IntRange(0, len(members)-1).Draw(rt, "t")]
			ops = append(ops, aclgen.Op{Kind: "remove", Actor: 0, Target: t})
			guess[t] = aclgen.None
		}
	}
	return ops
}

func genSpec(rt *rapid.T) Spec {
	return Spec{
		Author: rapid.IntRange(0, 7).Draw(rt, "vau"),
		Acl:    rapid.IntRange(0, 11).Draw(rt, "vacl"),
		Par:    rapid.SampledFrom([]int{0, 0, 0, 0, 1, 2, 3, 4, 5, 6, 7, 8}).Draw(rt, "vpar"),
		Snap:   rapid.IntRange(0, 5).Draw(rt, "vsnap") == 0,
	}
}

func genCase(rt *rapid.T) Case {
	n := rapid.IntRange(3, 5).Draw(rt, "n")
	c := Case{
		Seed:     rapid.Uint64Range(1, 1<<40).Draw(rt, "seed"),
		N:        n,
		Ops:      genOps(rt, n),
		Observer: rapid.IntRange(0, n-1).Draw(rt, "observer"),
		RootAt:   rapid.SampledFrom([]int{0, 0, 0, 1, 2, 3, 5}).Draw(rt, "root_at"),
		Prefix:   rapid.SampledFrom([]int{-1, -1, -1, -1, 1, 2, 3, 4, 5, 6, 7}).Draw(rt, "prefix"),
		Derived:  rapid.IntRange(0, 7).Draw(rt, "derived") == 0,
		CV:       rapid.IntRange(0, 2).Draw(rt, "cv") == 0,
	}
	ns := rapid.IntRange(2, vstat.Pick(5, 8)).Draw(rt, "nsteps")
	for s := 0; s < ns; s++ {
		st := Step{Grow: rapid.SampledFrom([]int{0, 0, 0, 1, 2}).Draw(rt, "grow"), V: genSpec(rt)}
		nc := rapid.IntRange(1, vstat.Pick(6, 10)).Draw(rt, "ncands")
		for i := 0; i < nc; i++ {
			st.Cands = append(st.Cands, Cand{
				Dim:    rapid.SampledFrom([]string{"author", "author", "author", "acl", "acl", "acl", "both", "backdate"}).Draw(rt, "dim"),
				Author: rapid.IntRange(0, n-1).Draw(rt, "cau"),
				Acl:    rapid.IntRange(0, 12).Draw(rt, "cacl"),
				Batch:  rapid.SampledFrom([]int{0, 0, 1, 2, 3}).Draw(rt, "cbatch"),
				Pos:    rapid.IntRange(0, 3).Draw(rt, "cpos"),
				Desc:   rapid.IntRange(0, 3).Draw(rt, "cdesc") == 0,
			})
		}
		nm := rapid.IntRange(1, vstat.Pick(8, 16)).Draw(rt, "nmuts")
		for i := 0; i < nm; i++ {
			st.Muts = append(st.Muts, Mut{
				Kind:  rapid.SampledFrom(mutKinds).Draw(rt, "mk"),
				A:     rapid.IntRange(0, 4000).Draw(rt, "ma"),
				B:     rapid.IntRange(1, 255).Draw(rt, "mb"),
				Batch: rapid.SampledFrom([]int{0, 0, 0, 1, 2}).Draw(rt, "mbatch"),
				Pos:   rapid.IntRange(0, 2).Draw(rt, "mpos"),
			})
		}
		no := rapid.IntRange(0, 2).Draw(rt, "norph")
		for i := 0; i < no; i++ {
			st.Orphans = append(st.Orphans, Orph{
				M: Mut{
					Kind: rapid.SampledFrom(orphKinds).Draw(rt, "ok"),
					A:    rapid.IntRange(0, 4000).Draw(rt, "oa"),
					B:    rapid.IntRange(1, 255).Draw(rt, "ob"),
					Keep: true,
				},
				First: rapid.SampledFrom([]int{0, 0, 0, 1}).Draw(rt, "ofirst"),
				Shape: rapid.IntRange(0, 3).Draw(rt, "oshape"),
			})
		}
		c.Steps = append(c.Steps, st)
	}
	return c
}

func TestRandom(t *testing.T) {
	outerT = t
	vstat.Check(t, prop, genCase, run)
}

// ---- small-scope enumeration: every byte of three accepted changes ---------------------

// byteScenario is a fixed history: account 1 writer then demoted, account 2 reader then
// promoted, account 3 never a member. The three swept changes are a plain change, a
// snapshot and a merge of two heads.
func byteScenario() Case {
	return Case{
		Seed: 7, N: 4, Observer: 0, RootAt: 0, Prefix: -1,
		Ops: []aclgen.Op{
			{Kind: "add", Actor: 0, Target: 1, Perm: aclgen.Writer},
			{Kind: "add", Actor: 0, Target: 2, Perm: aclgen.Reader},
			{Kind: "perm_change", Actor: 0, Target: 2, Perm: aclgen.Writer},
			{Kind: "perm_change", Actor: 0, Target: 1, Perm: aclgen.Reader},
		},
		Steps: []Step{
			{V: Spec{Author: 1, Acl: 1, Par: 0}},             // plain change on the root
			{V: Spec{Author: 0, Acl: 0, Par: 1}},             // fork: second child of the root
			{V: Spec{Author: 1, Acl: 1, Par: 0}},             // merge of the two heads
			{V: Spec{Author: 2, Acl: 0, Par: 0, Snap: true}}, // snapshot on top
		},
	}
}

var sweepSteps = []int{0, 2, 3}

const sweepChunk = 8
const sweepMaxLen = 420

func sweepMasks() []int {
	if vstat.Thorough() {
		m := []int{1, 2, 4, 8, 16, 32, 64, 128, 255}
		for i := 3; i < 255; i += 8 {
			m = append(m, i)
		}
		return m
	}
	return []int{0x01, 0x80, 0xff}
}

func sweepTargets() []int {
	if vstat.Thorough() {
		return []int{0, 1, 2, 3}
	}
	return sweepSteps
}

func enumerateBytes(yield func(Case) bool) {
	shard, _ := strconv.Atoi(os.Getenv("VERIF_SHARD"))
	shards, _ := strconv.Atoi(os.Getenv("VERIF_SHARDS"))
	if shards <= 0 {
		shards = 1
	}
	masks := sweepMasks()
	k := 0
	for _, si := range sweepTargets() {
		for off := 0; off < sweepMaxLen; off += sweepChunk {
			k++
			if k%shards != shard {
				continue
			}
			c := byteScenario()
			var muts []Mut
			for o := off; o < off+sweepChunk; o++ {
				for _, m := range masks {
					muts = append(muts, Mut{Kind: "flip", A: o, B: m, Abs: true}, Mut{Kind: "flip_rehash", A: o, B: m, Abs: true})
				}
			}
			c.Steps[si].Muts = muts
			if !yield(c) {
				return
			}
		}
	}
}

func TestBytes(t *testing.T) {
	outerT = t
	vstat.Enumerate(t, prop, enumerateBytes, run)
}

func TestReplay(t *testing.T) {
	outerT = t
	t.Run("TestRandom", func(t *testing.T) { vstat.Replay(t, prop, "TestRandom", run) })
	t.Run("TestBytes", func(t *testing.T) { vstat.Replay(t, prop, "TestBytes", run) })
}

// ---- hand-picked corner cases -----------------------------------------------------------

// TestRegRoles: one history with every role the statement names, every account x every
// record as candidate on a small tree.
func TestRegRoles(t *testing.T) {
	outerT = t
	c := Case{
		Seed: 3, N: 5, Observer: 0, RootAt: 0, Prefix: -1,
		Ops: []aclgen.Op{
			{Kind: "add", Actor: 0, Target: 1, Perm: aclgen.Writer},
			{Kind: "add", Actor: 0, Target: 2, Perm: aclgen.Reader},
			{Kind: "perm_change", Actor: 0, Target: 1, Perm: aclgen.Reader},
			{Kind: "add", Actor: 0, Target: 3, Perm: aclgen.Writer},
			{Kind: "remove", Actor: 0, Target: 3},
			{Kind: "perm_change", Actor: 0, Target: 2, Perm: aclgen.Writer},
			{Kind: "add", Actor: 0, Target: 3, Perm: aclgen.Writer},
		},
	}
	for s := 0; s < 3; s++ {
		st := Step{V: Spec{Author: s, Acl: 2 * s, Par: 0}}
		for a := 0; a < 5; a++ {
			for r := 0; r < 10; r++ {
				st.Cands = append(st.Cands, Cand{Dim: "both", Author: a, Acl: r, Batch: (a + r) % 3, Pos: r % 3, Desc: (a+r)%5 == 0})
			}
		}
		for i, k := range []string{"reenc", "reenc", "reenc", "reenc", "reenc", "id", "id", "id", "sig", "ident", "ident", "field", "field", "field", "field", "field", "field", "field", "field", "nosig", "fake_derived", "trunc"} {
			st.Muts = append(st.Muts, Mut{Kind: k, A: i, B: 1 + i, Batch: i % 3, Pos: i % 2})
		}
		c.Steps = append(c.Steps, st)
	}
	vstat.One(t, prop, c, run)
	c.Derived = true
	vstat.One(t, prop, c, run)
	c.Derived = false
	c.CV = true
	vstat.One(t, prop, c, run)
	c.CV = false
	c.Prefix = 3
	c.Steps[1].Grow = 2
	vstat.One(t, prop, c, run)
}

// TestRegReaddHistory: found as generator-health noise by this package and fixed in /repo
// ("fix: re-adding an account with AccountsAdd erased its permission history"): a valid change
// by a writer that was removed and directly re-added, citing a record of its FIRST
// membership, must be accepted by a tree whose ACL list knows the re-add, and a tree that
// stored it before learning the re-add must still open afterwards. (Converse direction of
// C02 — kept as a regression at the lead's request.)
func TestRegReaddHistory(t *testing.T) {
	outerT = t
	ops := []aclgen.Op{
		{Kind: "add", Actor: 0, Target: 1, Perm: aclgen.Writer},
		{Kind: "remove", Actor: 0, Target: 1},
		{Kind: "add", Actor: 0, Target: 1, Perm: aclgen.Writer},
	}
	// (a) list knows the whole history; the valid change is by account 1 citing record 1
	vstat.One(t, prop, Case{Seed: 1, N: 3, Ops: ops, Prefix: -1, Steps: []Step{{V: Spec{Author: 1, Acl: 1}}}}, runMustAccept)
	// (b) list knows records 0..2 when the change is stored, learns the re-add, tree is reopened
	vstat.One(t, prop, Case{Seed: 1, N: 3, Ops: ops, Prefix: 2, Steps: []Step{{V: Spec{Author: 1, Acl: 1}}, {Grow: 1, V: Spec{Author: 0, Acl: 0}}}}, runMustAccept)
}

// TestRegOrphanThenVariant: the shape of an independently seeded defect (orphans kept in
// Tree.unAttached across calls are matched by id only, so a later variant with the same id
// skips the id and signature check): every id-keeping alteration kind x every delivery shape.
func TestRegOrphanThenVariant(t *testing.T) {
	outerT = t
	c := Case{Seed: 5, N: 3, Prefix: -1, Ops: []aclgen.Op{{Kind: "add", Actor: 0, Target: 1, Perm: aclgen.Writer}}}
	st := Step{V: Spec{Author: 1, Acl: 1}}
	for i, k := range orphKinds {
		for shape := 0; shape < 4; shape++ {
			for first := 0; first < 2; first++ {
				st.Orphans = append(st.Orphans, Orph{M: Mut{Kind: k, A: 40 + 7*i, B: 1 + i, Keep: true}, First: first, Shape: shape})
			}
		}
	}
	c.Steps = []Step{st, {V: Spec{Author: 0, Acl: 0, Snap: true}, Orphans: st.Orphans[:16]}}
	vstat.One(t, prop, c, run)
}

// ---- helpers ------------------------------------------------------------------------------

func short(id string) string {
	if len(id) > 6 {
		return id[len(id)-6:]
	}
	return id
}

func shorts(ids []string) string {
	out := make([]string, len(ids))
	for i, id := range ids {
		out[i] = short(id)
	}
	return strings.Join(out, ",")
}

func sortedCopy(s []string) []string {
	out := append([]string(nil), s...)
	sort.Strings(out)
	return out
}

func classList(m map[string]bool) []string {
	var out []string
	for k := range m {
		out = append(out, k)
	}
	sort.Strings(out)
	return out
}

