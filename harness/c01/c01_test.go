// Package c01 decides property C01: replicas of an object tree converge under any
// message schedule, and never hold or advertise a change whose ancestors they lack.
package c01

import (
	"context"
	"fmt"
	"os"
	"sort"
	"strings"
	"testing"

	"pgregory.net/rapid"

	"verif/harness/internal/treesim"
	"verif/harness/internal/vstat"
)

const prop = "C01"

var outerT *testing.T

func TestMain(m *testing.M) { vstat.Main(m, prop) }

type Op struct {
	K string `json:"k"`
	A int    `json:"a,omitempty"`
	B int    `json:"b,omitempty"`
	C int    `json:"c,omitempty"`
}

type Case struct {
	Seed    uint64 `json:"seed"`
	N       int    `json:"n"`
	Holders int    `json:"holders"`
	Big     bool   `json:"big"` // 200-400 KB payloads: multi-batch response streams
	Ops     []Op   `json:"ops"`
	Pairs   []int  `json:"pairs"` // order / initiator choices of the anti-entropy phase
}

func genCase(rt *rapid.T) Case {
	n := rapid.IntRange(2, 4).Draw(rt, "n")
	c := Case{
		Seed:    rapid.Uint64Range(1, 1<<40).Draw(rt, "seed"),
		N:       n,
		Holders: rapid.SampledFrom([]int{n, n, n, n - 1, 1}).Draw(rt, "holders"),
		Big:     rapid.IntRange(0, 7).Draw(rt, "big") == 0,
	}
	if c.Holders < 1 {
		c.Holders = 1
	}
	maxOps := vstat.Pick(45, 120)
	if c.Big {
		maxOps = 25
	}
	nops := rapid.IntRange(4, maxOps).Draw(rt, "nops")
	for i := 0; i < nops; i++ {
		var op Op
		switch rapid.IntRange(0, 19).Draw(rt, "kind") {
		case 0, 1, 2, 3, 4, 5:
			op = Op{K: "edit", A: rapid.IntRange(0, n-1).Draw(rt, "r"), B: rapid.IntRange(0, 5).Draw(rt, "snap"), C: rapid.IntRange(0, 3).Draw(rt, "size")}
		case 6, 7, 8, 9, 10, 11, 12, 13:
			op = Op{K: "deliver", A: rapid.IntRange(0, 12).Draw(rt, "idx"), B: rapid.SampledFrom([]int{0, 0, 0, 0, 0, 1, 2}).Draw(rt, "fate")}
		case 14:
			op = Op{K: "truncate", A: rapid.IntRange(0, 12).Draw(rt, "idx"), B: rapid.IntRange(1, 3).Draw(rt, "k")}
		case 15:
			op = Op{K: "join", A: rapid.IntRange(0, n-1).Draw(rt, "r"), B: rapid.IntRange(0, n-1).Draw(rt, "p"), C: rapid.IntRange(0, 2).Draw(rt, "trunc")}
		case 16:
			op = Op{K: "sync", A: rapid.IntRange(0, n-1).Draw(rt, "r"), B: rapid.IntRange(0, n-1).Draw(rt, "p")}
		case 17:
			op = Op{K: rapid.SampledFrom([]string{"reopen", "blackout", "blackout", "request", "request", "request"}).Draw(rt, "k17"), A: rapid.IntRange(0, n-1+6).Draw(rt, "r"), B: rapid.SampledFrom([]int{0, 0, 0, 1, 2}).Draw(rt, "fate")}
		default:
			// a burst: one replica edits twice, another edits concurrently (fork), then a snapshot
			op = Op{K: "fork", A: rapid.IntRange(0, n-1).Draw(rt, "r"), B: rapid.IntRange(0, n-1).Draw(rt, "r2"), C: rapid.IntRange(0, 2).Draw(rt, "snapAfter")}
		}
		c.Ops = append(c.Ops, op)
	}
	c.Pairs = rapid.SliceOfN(rapid.IntRange(0, 1000), 12, 12).Draw(rt, "pairs")
	return c
}

type checker struct {
	s       *treesim.Sim
	classes map[string]bool
}

// safety: at no moment does a replica hold or advertise a change whose ancestors it does not hold.
func (c *checker) safety(step string) error {
	ctx := context.Background()
	for _, rep := range c.s.Replicas {
		adv := c.s.TakeAdvertised(rep.Idx)
		if rep.Tree == nil {
			continue
		}
		stored, _, err := rep.Stored()
		if err != nil {
			return fmt.Errorf("%s: replica %d: storage scan: %v", step, rep.Idx, err)
		}
		for id, ch := range stored {
			for _, p := range ch.PrevIds {
				if _, ok := stored[p]; !ok {
					return fmt.Errorf("%s: replica %d stores change %s whose parent %s it does not store", step, rep.Idx, id, p)
				}
			}
			if ch.SnapshotId != "" {
				if _, ok := stored[ch.SnapshotId]; !ok {
					return fmt.Errorf("%s: replica %d stores change %s whose snapshot base %s it does not store", step, rep.Idx, id, ch.SnapshotId)
				}
			}
		}
		rep.Tree.Lock()
		heads := append([]string(nil), rep.Tree.Heads()...)
		has := rep.Tree.HasChanges(heads...)
		rep.Tree.Unlock()
		for _, h := range heads {
			if _, ok := stored[h]; !ok {
				return fmt.Errorf("%s: replica %d has head %s that is not stored", step, rep.Idx, h)
			}
		}
		if !has {
			return fmt.Errorf("%s: replica %d: HasChanges(heads) is false for its own heads %v", step, rep.Idx, heads)
		}
		entry, err := rep.Space.HeadStorage().GetEntry(ctx, c.s.Root.Id)
		if err != nil {
			return fmt.Errorf("%s: replica %d: heads entry: %v", step, rep.Idx, err)
		}
		if !sameSet(entry.Heads, heads) {
			return fmt.Errorf("%s: replica %d: durable heads entry %v differs from tree heads %v", step, rep.Idx, treesim.Short(entry.Heads), treesim.Short(heads))
		}
		for _, hs := range adv {
			for _, h := range hs {
				if _, ok := stored[h]; !ok {
					return fmt.Errorf("%s: replica %d advertised change %s (as a head or carried in a head update) in an outgoing message without storing it", step, rep.Idx, h)
				}
			}
		}
	}
	return nil
}

func sameSet(a, b []string) bool {
	if len(a) != len(b) {
		return false
	}
	x := append([]string(nil), a...)
	y := append([]string(nil), b...)
	sort.Strings(x)
	sort.Strings(y)
	for i := range x {
		if x[i] != y[i] {
			return false
		}
	}
	return true
}

func run(c Case) (out vstat.Outcome, err error) {
	s, err := treesim.New(outerT, treesim.Options{N: c.N, Seed: c.Seed, Holders: c.Holders})
	if err != nil {
		return out, fmt.Errorf("setup: %w", err)
	}
	defer s.Close()
	ck := &checker{s: s, classes: map[string]bool{}}
	size := func(k int) int {
		if c.Big {
			return 200_000 + 70_000*k
		}
		return 8 + 20*k
	}
	edits := 0
	snapshotAfterEdit := false
	headsBefore := func(r int) string {
		if s.Replicas[r].Tree == nil {
			return ""
		}
		return treesim.Short(s.Replicas[r].Tree.Heads())
	}
	lastEditHeads := map[string]int{} // heads signature -> replica that edited from it (fork detection)
	fork := false
	doEdit := func(r int, snap bool, sz int) error {
		if s.Replicas[r].Tree == nil {
			return nil
		}
		hb := headsBefore(r)
		if prev, ok := lastEditHeads[hb]; ok && prev != r {
			fork = true
		}
		lastEditHeads[hb] = r
		if _, err := s.Edit(r, snap, sz); err != nil {
			return fmt.Errorf("local edit on replica %d failed: %v", r, err)
		}
		edits++
		if snap {
			ck.classes["snapshot"] = true
			if len(s.InFlight) > 0 {
				snapshotAfterEdit = true
			}
		}
		return nil
	}
	for i, op := range c.Ops {
		step := fmt.Sprintf("op %d %+v", i, op)
		var err error
		switch op.K {
		case "edit":
			err = doEdit(op.A%c.N, op.B == 0, size(op.C))
		case "fork":
			a, b := op.A%c.N, op.B%c.N
			if err = doEdit(a, false, size(0)); err == nil {
				if err = doEdit(b, false, size(1)); err == nil && op.C == 0 {
					err = doEdit(a, true, size(0))
				}
			}
		case "deliver":
			err = s.Step(op.A, treesim.Fate(op.B), 0)
		case "truncate":
			// the op.A-th response stream in flight, cut after op.B batches
			idx, seen := -1, 0
			for j, m := range s.InFlight {
				if m.Kind == treesim.ResponseStream {
					if idx < 0 || seen <= op.A%3 {
						idx = j
					}
					seen++
				}
			}
			if idx >= 0 {
				err = s.Step(idx, treesim.Deliver, op.B)
			}
		case "blackout":
			// lose the op.A+1 oldest messages (a peer was offline)
			for k := 0; k <= op.A && len(s.InFlight) > 0 && err == nil; k++ {
				err = s.Step(0, treesim.Drop, 0)
			}
		case "request":
			// deliver the oldest request / response stream first (they queue behind head updates)
			for j, m := range s.InFlight {
				if m.Kind != treesim.HeadUpdate {
					err = s.Step(j, treesim.Fate(op.B), 0)
					break
				}
			}
		case "join":
			if s.Replicas[op.A%c.N].Tree == nil && s.Replicas[op.B%c.N].Tree != nil {
				err = s.Fetch(op.A%c.N, op.B%c.N, op.C)
			}
		case "sync":
			err = s.SyncWithPeer(op.A%c.N, op.B%c.N)
		case "reopen":
			if s.Replicas[op.A%c.N].Tree == nil {
				break
			}
			if err = s.Replicas[op.A%c.N].Reopen(); err != nil {
				err = fmt.Errorf("replica %d could not be reopened from its own storage: %v", op.A%c.N, err)
			} else {
				ck.classes["reopen"] = true
			}
		}
		if err != nil {
			return out, fmt.Errorf("%s: %v\nlog tail:\n%s", step, err, tail(s.Log))
		}
		if err := ck.safety(step); err != nil {
			return out, fmt.Errorf("%v\nlog tail:\n%s", err, tail(s.Log))
		}
	}
	// ---- tail: drain, then one anti-entropy exchange per pair (generated order and initiator) ----
	if err := s.Drain(20000); err != nil {
		return out, err
	}
	if err := ck.safety("drain"); err != nil {
		return out, err
	}
	var pairs [][2]int
	for a := 0; a < c.N; a++ {
		for b := a + 1; b < c.N; b++ {
			pairs = append(pairs, [2]int{a, b})
		}
	}
	// generated permutation + initiator
	for i := range pairs {
		j := i + c.Pairs[i%len(c.Pairs)]%(len(pairs)-i)
		pairs[i], pairs[j] = pairs[j], pairs[i]
	}
	for i, p := range pairs {
		a, b := p[0], p[1]
		if c.Pairs[(i+6)%len(c.Pairs)]%2 == 1 {
			a, b = b, a
		}
		if err := s.SyncWithPeer(a, b); err != nil {
			return out, fmt.Errorf("anti-entropy %d->%d: %v", a, b, err)
		}
		if err := s.Drain(20000); err != nil {
			return out, err
		}
		if err := ck.safety(fmt.Sprintf("anti-entropy %d->%d", a, b)); err != nil {
			return out, err
		}
	}
	// ---- convergence ----
	var refHeads []string
	var refIds map[string]bool
	for _, rep := range s.Replicas {
		if rep.Tree == nil {
			return out, fmt.Errorf("replica %d still has no tree after the anti-entropy phase\nlog tail:\n%s", rep.Idx, tail(s.Log))
		}
		stored, _, err := rep.Stored()
		if err != nil {
			return out, err
		}
		ids := map[string]bool{}
		for id := range stored {
			ids[id] = true
		}
		heads := rep.Tree.Heads()
		if refIds == nil {
			refHeads, refIds = heads, ids
			continue
		}
		if !sameSet(heads, refHeads) {
			return out, fmt.Errorf("after drain + anti-entropy replica %d has heads %s, replica 0 has %s\nlog tail:\n%s", rep.Idx, treesim.Short(heads), treesim.Short(refHeads), tail(s.Log))
		}
		if len(ids) != len(refIds) {
			return out, fmt.Errorf("after drain + anti-entropy replica %d stores %d changes, replica 0 stores %d\nlog tail:\n%s", rep.Idx, len(ids), len(refIds), tail(s.Log))
		}
		for id := range ids {
			if !refIds[id] {
				return out, fmt.Errorf("after drain + anti-entropy replica %d stores %s which replica 0 lacks", rep.Idx, id)
			}
		}
	}
	// every locally produced change must be somewhere (nothing invented, nothing lost entirely)
	for id := range s.Produced {
		if !refIds[id] {
			return out, fmt.Errorf("change %s produced by a replica is missing everywhere after convergence", id)
		}
	}
	// ---- classification ----
	cnt := s.Counters
	lossy := cnt["dropped-head-update"]+cnt["dropped-request"]+cnt["dropped-response-stream"]+cnt["duplicated-head-update"]+cnt["duplicated-request"]+cnt["duplicated-response-stream"]+cnt["out-of-order"]+cnt["stream-truncated"] > 0
	for k, v := range cnt {
		if v > 0 && (strings.HasPrefix(k, "dropped") || strings.HasPrefix(k, "duplicated") || k == "out-of-order" || k == "stream-truncated" || k == "late-join" || k == "multi-batch-stream" || k == "handler-error" || k == "fetch-truncated") {
			ck.classes[k] = true
		}
	}
	if fork {
		ck.classes["fork"] = true
	}
	if snapshotAfterEdit {
		ck.classes["snapshot-with-messages-in-flight"] = true
	}
	out.Sig = vstat.Hash(strings.Join(sortedKeys(refIds), ","), c.N, len(c.Ops))
	out.NonTrivial = fork && lossy
	for k := range ck.classes {
		out.Classes = append(out.Classes, k)
	}
	vstat.Count("edits", int64(edits))
	vstat.Count("deliveries", int64(cnt["delivered-head-update"]+cnt["delivered-request"]+cnt["delivered-response-stream"]))
	vstat.Count("handler_errors", int64(cnt["handler-error"]))
	if os.Getenv("VERIF_DEBUG") != "" {
		for _, e := range s.HandlerErrs {
			fmt.Println("HANDLER-ERR:", e)
		}
	}
	return out, nil
}

func sortedKeys(m map[string]bool) []string {
	var k []string
	for id := range m {
		k = append(k, id)
	}
	sort.Strings(k)
	return k
}

func tail(log []string) string {
	if len(log) > 60 {
		log = log[len(log)-60:]
	}
	return strings.Join(log, "\n")
}

func TestRandom(t *testing.T) {
	outerT = t
	vstat.Check(t, prop, genCase, run)
}

func TestReplay(t *testing.T) {
	outerT = t
	t.Run("TestRandom", func(t *testing.T) { vstat.Replay(t, prop, "TestRandom", run) })
}
