package c11

// Target 11: pubsub frames -> the serving side of a real pubsub engine (node role: relay stub,
// membership stub), through its real HandleMessage entry. The input is a SEQUENCE of frames on
// one or two streams (repeated field 1: byte 0 = stream index, rest = PubSubMessage bytes).
// The streams are real streams of the engine's private pool (served by HandleStream over an
// in-memory drpc stream); the context the pool delivers frames with (stream id, peer identity)
// is captured from a bootstrap Subscribe, and the hostile frames are then handed to
// HandleMessage with that context in the test goroutine, where a panic can be attributed
// (in production it would happen in the pool's read loop and take the process down).

import (
	"context"
	"encoding/binary"
	"fmt"
	"io"
	"strings"
	"sync"
	"time"

	"storj.io/drpc"

	"github.com/anyproto/any-sync/app"
	"github.com/anyproto/any-sync/commonspace/pubsub"
	"github.com/anyproto/any-sync/commonspace/pubsub/pubsubproto"
	"github.com/anyproto/any-sync/net/peer"
	"github.com/anyproto/any-sync/testutil/accounttest"
	"github.com/anyproto/any-sync/util/crypto"

	"verif/harness/internal/accounts"
	"verif/harness/internal/mutate"
)

var pubsubVariants = []string{"HandleMessage-sequence"}

func init() {
	register(&target{Name: "pubsub", Variants: pubsubVariants, Fixes: 1, Build: func(fix uint64) (fixture, error) { return newPubsubFixture() }})
}

type psStreamKey struct{}

// psStream is the serving end of an in-memory stream: frames pushed by the harness are read by
// the pool's read loop; what the engine sends back is counted.
type psStream struct {
	ctx    context.Context
	in     chan []byte
	closed chan struct{}
	once   sync.Once
	mu     sync.Mutex
	out    int
}

func (s *psStream) Context() context.Context { return s.ctx }
func (s *psStream) CloseSend() error         { return nil }
func (s *psStream) Close() error             { s.once.Do(func() { close(s.closed) }); return nil }
func (s *psStream) MsgSend(msg drpc.Message, _ drpc.Encoding) error {
	if m, ok := msg.(*pubsubproto.PubSubMessage); ok {
		s.mu.Lock()
		s.out += m.SizeVT()
		s.mu.Unlock()
	}
	return nil
}
func (s *psStream) MsgRecv(msg drpc.Message, _ drpc.Encoding) error {
	select {
	case b := <-s.in:
		return msg.(*pubsubproto.PubSubMessage).UnmarshalVT(b)
	case <-s.closed:
		return io.EOF
	}
}

type psMembership struct {
	mu  sync.Mutex
	ctx map[*psStream]context.Context
}

func (m *psMembership) CheckMember(ctx context.Context, spaceId string, identity crypto.PubKey) error {
	if st, ok := ctx.Value(psStreamKey{}).(*psStream); ok {
		m.mu.Lock()
		m.ctx[st] = ctx
		m.mu.Unlock()
	}
	if strings.HasPrefix(spaceId, "denied") {
		return fmt.Errorf("not a member")
	}
	return nil
}

type psRelay struct{}

func (psRelay) IsResponsible(spaceId string) bool             { return !strings.HasPrefix(spaceId, "foreign") }
func (psRelay) IsResponsibleNode(spaceId, peerId string) bool { return peerId == "other-node" }
func (psRelay) OtherResponsiblePeers(context.Context, string) ([]peer.Peer, error) {
	return nil, nil
}

// messageHandler is the engine's frame entry (the pool's StreamHandler calls it for every frame).
type messageHandler interface {
	HandleMessage(ctx context.Context, peerId string, msg drpc.Message) error
}

type pubsubFixture struct {
	app     *app.App
	svc     pubsub.Service
	hm      messageHandler
	dead    bool
	streams [2]*psStream
	ctxs    [2]context.Context
	peers   [2]string
	wg      sync.WaitGroup
}

var psSpaces = []string{"spaceA", "spaceB", "boot1", "", "denied-space", "foreign-space", "with/slash", "never-seen"}

func psSub(space string, topics ...string) *pubsubproto.PubSubMessage {
	return &pubsubproto.PubSubMessage{Content: &pubsubproto.PubSubMessage_Subscribe{Subscribe: &pubsubproto.Subscribe{SpaceId: space, Topics: topics}}}
}
func psUnsub(space string, topics ...string) *pubsubproto.PubSubMessage {
	return &pubsubproto.PubSubMessage{Content: &pubsubproto.PubSubMessage_Unsubscribe{Unsubscribe: &pubsubproto.Unsubscribe{SpaceId: space, Topics: topics}}}
}

func psSignData(p *pubsubproto.Publish) []byte {
	buf := []byte("anysync:pubsub:v1")
	for _, f := range [][]byte{[]byte(p.SpaceId), []byte(p.Topic), p.MsgId, []byte(p.KeyId)} {
		buf = binary.LittleEndian.AppendUint32(buf, uint32(len(f)))
		buf = append(buf, f...)
	}
	buf = binary.LittleEndian.AppendUint64(buf, uint64(p.TimestampMilli))
	return append(buf, p.Payload...)
}

func psPub(acc int, space, topic string, n int, payload []byte) *pubsubproto.PubSubMessage {
	k := accounts.Get(acc).SignKey
	p := &pubsubproto.Publish{SpaceId: space, Topic: topic, MsgId: []byte(fmt.Sprintf("c11-msg-%08d", n)), Payload: payload, TimestampMilli: time.Now().UnixMilli()}
	p.Identity, _ = k.GetPublic().Marshall()
	p.Signature, _ = k.Sign(psSignData(p))
	return &pubsubproto.PubSubMessage{Content: &pubsubproto.PubSubMessage_Publish{Publish: p}}
}

func psFrame(stream int, m *pubsubproto.PubSubMessage) []byte {
	b, _ := m.MarshalVT()
	return mutate.EncodeBytesField(1, append([]byte{byte(stream)}, b...))
}

func psSeq(frames ...[]byte) []byte {
	var out []byte
	for _, f := range frames {
		out = append(out, f...)
	}
	return out
}

func newPubsubFixture() (*pubsubFixture, error) {
	f := &pubsubFixture{}
	mem := &psMembership{ctx: map[*psStream]context.Context{}}
	f.svc = pubsub.New(pubsub.Deps{Membership: mem, Relay: psRelay{}, Config: pubsub.Config{PublishRps: 1e6, PublishBurst: 1 << 20}})
	var ok bool
	if f.hm, ok = f.svc.(messageHandler); !ok {
		return nil, fmt.Errorf("pubsub fixture: the service has no HandleMessage entry")
	}
	f.app = new(app.App)
	f.app.Register(accounttest.NewWithAcc(accounts.Named("pubsub-node", 0))).Register(f.svc)
	if err := f.app.Start(context.Background()); err != nil {
		return nil, fmt.Errorf("pubsub fixture: app start: %w", err)
	}
	for i := range f.streams {
		acc := accounts.Get(i)
		f.peers[i] = acc.PeerId
		ident, _ := acc.SignKey.GetPublic().Marshall()
		st := &psStream{in: make(chan []byte, 8), closed: make(chan struct{})}
		ctx := context.WithValue(context.Background(), psStreamKey{}, st)
		st.ctx = peer.CtxWithIdentity(peer.CtxWithPeerId(ctx, acc.PeerId), ident)
		f.streams[i] = st
		f.wg.Add(1)
		go func() {
			defer f.wg.Done()
			f.svc.HandleStream(st)
		}()
		// bootstrap: one accepted Subscribe through the pool's read loop gives us the delivery context
		b, _ := psSub(fmt.Sprintf("boot%d", i), "boot/>").MarshalVT()
		st.in <- b
		deadline := time.Now().Add(10 * time.Second)
		for {
			mem.mu.Lock()
			c := mem.ctx[st]
			mem.mu.Unlock()
			if c != nil {
				f.ctxs[i] = c
				break
			}
			if time.Now().After(deadline) {
				f.Close()
				return nil, fmt.Errorf("pubsub fixture: the bootstrap subscribe never reached the engine")
			}
			time.Sleep(time.Millisecond)
		}
	}
	time.Sleep(2 * time.Millisecond)
	// stream 0 goes back to "no interest at all"; stream 1 keeps its bootstrap interest (boot1)
	if err := f.hm.HandleMessage(f.ctxs[0], f.peers[0], psUnsub("boot0", "boot/>")); err != nil {
		f.Close()
		return nil, err
	}
	return f, nil
}

func (f *pubsubFixture) Close() {
	if f.dead {
		return // closing would block on the locks the panicking handler left held; the goroutines are abandoned
	}
	for _, st := range f.streams {
		if st != nil {
			st.Close()
		}
	}
	if f.app != nil {
		ctx, cancel := context.WithTimeout(context.Background(), 10*time.Second)
		f.app.Close(ctx)
		cancel()
	}
	f.wg.Wait()
}

func (f *pubsubFixture) Digest() (string, error)                     { return "", nil }
func (f *pubsubFixture) Repair(v int, data []byte, flags int) []byte { return data }

var psSeedsOnce sync.Once
var psSeeds []seed

func (f *pubsubFixture) Seeds() []seed {
	psSeedsOnce.Do(func() {
		add := func(name string, frames ...[]byte) {
			psSeeds = append(psSeeds, seed{V: 0, Name: name, Data: psSeq(frames...)})
		}
		add("sub-unsub", psFrame(0, psSub("spaceA", "chat/>", "doc/*/cursor")), psFrame(0, psUnsub("spaceA", "chat/>")), psFrame(0, psUnsub("spaceA", "doc/*/cursor")))
		add("sub-pub", psFrame(0, psSub("spaceA", "chat/>")), psFrame(1, psPub(1, "spaceA", "chat/room", 1, []byte("hello"))), psFrame(0, psPub(0, "spaceA", "chat/room", 2, nil)))
		add("two-streams", psFrame(0, psSub("spaceA", ">")), psFrame(1, psSub("spaceA", "chat/x")), psFrame(1, psSub("spaceB", "a/b")), psFrame(0, psUnsub("spaceA")), psFrame(1, psUnsub("spaceB", "a/b")))
		add("own-topic", psFrame(1, psSub("spaceB", "acc/>")), psFrame(0, psPub(0, "spaceB", "acc/presence/"+accounts.Get(0).SignKey.GetPublic().Account(), 3, []byte("p"))))
		add("status", psFrame(0, &pubsubproto.PubSubMessage{Content: &pubsubproto.PubSubMessage_Status{Status: &pubsubproto.Status{SpaceId: "spaceA", Topics: []string{"x"}, Code: pubsubproto.ErrCodes_NotAMember}}}))
	})
	return psSeeds
}

func (f *pubsubFixture) Semantic() []string {
	return []string{"unsub-other-space", "sub-spaces", "topic-lists", "unsub-all", "pub-odd", "interleave", "empty-message"}
}

func (f *pubsubFixture) Mutate(in In, base seed) ([]byte, bool) {
	sp := func(i int) string { return psSpaces[mutate.Mod(i, len(psSpaces))] }
	st := mutate.Mod(in.C, 2)
	switch in.Kind {
	case "unsub-other-space":
		// an accepted subscribe for one space, then an unsubscribe naming another one
		topics := [][]string{nil, {"chat/>"}, {"no/such/topic"}, {""}, {">", ">"}}[mutate.Mod(in.B, 5)]
		return psSeq(psFrame(st, psSub(sp(in.A), "chat/>")), psFrame(st, psUnsub(sp(in.A+1+in.B), topics...))), true
	case "sub-spaces":
		var fr [][]byte
		for i := 0; i < 1+mutate.Mod(in.B, 5); i++ {
			fr = append(fr, psFrame((st+i)%2, psSub(sp(in.A+i), "t/>")))
		}
		return psSeq(fr...), true
	case "topic-lists":
		lists := [][]string{nil, {""}, {">"}, {"*"}, {"a//b"}, {"a/>/b"}, {"/"}, {strings.Repeat("seg/", 5000) + "x"}, {"dup", "dup", "dup"}, {"a/*/>", "a/b/c", ">"}, {"acc/>", "acc/*"}}
		l := lists[mutate.Mod(in.A, len(lists))]
		if mutate.Mod(in.A, 13) == 12 {
			for i := 0; i < 3000; i++ {
				l = append(l, fmt.Sprintf("many/%d", i))
			}
		}
		return psSeq(psFrame(st, psSub(sp(in.B), l...)), psFrame(st, psUnsub(sp(in.B), l...)), psFrame(st, psUnsub(sp(in.B), l...))), true
	case "unsub-all":
		// unsubscribe first, twice, for everything, on the stream that holds bootstrap interest and on the one that holds none
		return psSeq(psFrame(st, psUnsub(sp(in.A))), psFrame(1-st, psUnsub(sp(in.A), ">")), psFrame(st, psUnsub(sp(in.A)))), true
	case "pub-odd":
		m := psPub(mutate.Mod(in.B, 3), sp(in.A), []string{"chat/room", "", ">", "acc/presence/someone-else", "a/*/b", strings.Repeat("x/", 300)}[mutate.Mod(in.B, 6)], in.A, make([]byte, []int{0, 1, 64 << 10, 64<<10 + 1}[mutate.Mod(in.C, 4)]))
		p := m.GetPublish()
		switch mutate.Mod(in.A, 6) {
		case 0:
			p.Signature = nil
		case 1:
			p.Identity = nil
		case 2:
			p.MsgId = nil
		case 3:
			p.TimestampMilli = []int64{0, -1, 1<<63 - 1}[mutate.Mod(in.B, 3)]
		case 4:
			p.Relayed = true
		}
		return psSeq(psFrame(0, psSub(sp(in.A), ">")), psFrame(st, m), psFrame(st, m)), true
	case "interleave":
		a, b := sp(in.A), sp(in.B)
		return psSeq(psFrame(0, psSub(a, "x/>")), psFrame(1, psSub(a, "x/>")), psFrame(0, psUnsub(a, "x/>")), psFrame(1, psUnsub(b, "x/>")), psFrame(1, psUnsub(a)), psFrame(0, psUnsub(a))), true
	case "empty-message":
		return psSeq(psFrame(st, &pubsubproto.PubSubMessage{}), mutate.EncodeBytesField(1, []byte{byte(st)}), psFrame(st, psSub(sp(in.A)))), true
	}
	return nil, false
}

func (f *pubsubFixture) Exec(v int, data []byte) (res execResult) {
	res.NoState = true
	defer func() {
		if r := recover(); r != nil {
			// the engine may have panicked with its locks held: never touch this engine again
			f.dead = true
			panic(r)
		}
	}()
	fs, ok := mutate.Parse(data)
	if !ok {
		res.Err = fmt.Errorf("not a frame sequence")
		return
	}
	n := 0
	for _, fl := range fs {
		if fl.Num != 1 || fl.Wire != mutate.WireBytes || fl.End <= fl.ValStart || n >= 12 {
			continue
		}
		e := data[fl.ValStart:fl.End]
		si := int(e[0]) % 2
		m := &pubsubproto.PubSubMessage{}
		if err := m.UnmarshalVT(e[1:]); err != nil {
			res.Err = err // the transport would fail the stream here
			continue
		}
		n++
		res.Gate = true
		if err := f.hm.HandleMessage(f.ctxs[si], f.peers[si], m); err != nil {
			res.Err = err
		}
	}
	if n > 0 {
		res.Classes = append(res.Classes, "pubsub-frames")
	}
	for _, st := range f.streams {
		st.mu.Lock()
		res.Out += st.out
		st.out = 0
		st.mu.Unlock()
	}
	return
}
