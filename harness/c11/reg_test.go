package c11

// Regressions: the minimised inputs of the defects this check found (all fixed in /repo by
// `fix:` commits; see known_findings.json), plus harness self-checks. Every case here must pass.

import (
	"bytes"
	"os"
	"testing"

	"verif/harness/internal/vstat"
)

func reg(t *testing.T, c Case) {
	t.Helper()
	recordAs = t.Name()
	vstat.One(t, prop, c, run)
}

// raw builds an input delivered verbatim to entry-point variant v.
func raw(v int, b []byte) In { return In{V: v, Kind: "raw", Raw: b} }

// 561e791: DecryptX25519 sliced encrypted[:32] / [32:] without a length check.
func TestRegShortX25519Ciphertext(t *testing.T) {
	var ins []In
	for _, n := range []int{0, 1, 31, 32, 33, 47} {
		ins = append(ins, raw(0, bytes.Repeat([]byte{7}, n)))
	}
	reg(t, Case{Target: "crypto", Ins: ins})
	// the same through ACL records: a read key of 0 / 31 / 32 bytes addressed to the local
	// identity (accounts add, request accept, read key change, account remove, invite join),
	// under both verifiers (Base 0 = full list, Base 1 = client list), for each local identity
	for fix := uint64(0); fix < 3; fix++ {
		var ins []In
		for base := 0; base < 2; base++ {
			for a := 0; a < 5; a++ {
				for _, b := range []int{0, 1, 7, 8} {
					ins = append(ins, In{Base: base, Kind: "enc-key-len", A: a, B: b, C: 1})
				}
			}
			// and request / member metadata shorter than the sealed-box header, decrypted by the owner's application
			for a := 0; a < 3; a++ {
				ins = append(ins, In{Base: base, Kind: "short-metadata", A: a, B: 1}, In{Base: base, Kind: "short-metadata", A: a, B: 7})
			}
		}
		reg(t, Case{Target: "acl", Fix: fix, Ins: ins})
	}
}

// c11886b: AccountRemove without the nested ReadKeyChange (validly signed by the owner).
func TestRegAccountRemoveWithoutReadKeyChange(t *testing.T) {
	var ins []In
	for base := 0; base < 4; base++ { // full / client AddRawRecord, full / client ValidateRawRecord
		ins = append(ins, In{Base: base, Kind: "nil-nested", A: 0}, In{Base: base, Kind: "nil-nested", A: 1})
	}
	ins = append(ins, In{Base: 96, Kind: "nil-nested", A: 0}, In{Base: 97, Kind: "nil-nested", A: 0}) // AddRawRecords
	reg(t, Case{Target: "acl", Ins: ins})
}

// 3a483e8: request accept / decline / cancel naming a request that does not exist, applied
// without content validation (client verifier).
func TestRegUnknownRequestId(t *testing.T) {
	var ins []In
	for a := 0; a < 3; a++ {
		for b := 0; b < 5; b++ {
			ins = append(ins, In{Base: 1, Kind: "bad-ref", A: a, B: b}, In{Base: 0, Kind: "bad-ref", A: a, B: b})
		}
	}
	reg(t, Case{Target: "acl", Ins: ins})
}

// 95bd482: InviteChange naming an unknown invite was accepted and stored a zero invite.
func TestRegUnknownInviteId(t *testing.T) {
	var ins []In
	for b := 0; b < 5; b++ {
		ins = append(ins, In{Base: 1, Kind: "bad-ref", A: 4, B: b}, In{Base: 1, Kind: "bad-ref", A: 3, B: b})
	}
	reg(t, Case{Target: "acl", Ins: ins})
}

// 7c35b65: permission / ownership change naming an identity that never was an account was
// accepted and stored an account without a public key.
func TestRegUnknownAccountIdentity(t *testing.T) {
	var ins []In
	for a := 0; a < 4; a++ {
		ins = append(ins, In{Base: 1, Kind: "unknown-identity", A: a}, In{Base: 0, Kind: "unknown-identity", A: a}, In{Base: 97, Kind: "unknown-identity", A: a})
	}
	reg(t, Case{Target: "acl", Ins: ins})
	// the 42-byte AclData the byte-level search found: a permission change for an unknown identity
	reg(t, Case{Target: "acldecode", Ins: []In{raw(1, []byte{0x0a, 0x28, 0x2a, 0x26, 0x0a, 0x22, 0x12, 0x20, 0x02, 0x66, 0x17, 0xe4, 0x93, 0xc9, 0xf5, 0x41, 0x51, 0x3c, 0x04, 0xba, 0x28, 0x4e, 0xfd, 0xec, 0xa8, 0x1d, 0xd2, 0xc5, 0xe0, 0x58, 0x17, 0x85, 0x25, 0x42, 0x81, 0xdd, 0x39, 0x5e, 0xf4, 0x9e, 0x10, 0x04})}})
}

// 068cbfd: a new-tree response without a root change dereferenced nil in ValidateRawTreeDefault.
func TestRegNewTreeResponseWithoutRoot(t *testing.T) {
	for fix := uint64(0); fix < 2; fix++ {
		// treesync seeds: the last ones are the new-tree responses (variant 3); tree seeds: the new-tree payloads (variant 2)
		var ins, ins2 []In
		for base := 0; base < 16; base++ {
			ins = append(ins, In{Base: base, Kind: "no-root", A: 0}, In{Base: base, Kind: "no-root", A: 1})
			ins2 = append(ins2, In{Base: base, Kind: "no-root", A: 0}, In{Base: base, Kind: "no-root", A: 1}, In{Base: base, Kind: "bad-root", A: base})
		}
		reg(t, Case{Target: "treesync", Fix: fix, Ins: ins})
		reg(t, Case{Target: "tree", Fix: fix, Ins: ins2})
	}
	// minimal: an object sync message whose tree message has a full sync response and nothing else
	reg(t, Case{Target: "treesync", Ins: []In{raw(3, []byte{0x22, 0x04, 0x0a, 0x02, 0x1a, 0x00})}})
}

// 87756ad: the snappy encoding sized its buffer by the decoded length the block header claims.
func TestRegSnappyClaimedLength(t *testing.T) {
	var ins []In
	for a := 0; a < 7; a++ {
		ins = append(ins, In{Base: 0, Kind: "claimed-len", A: a}, In{Base: 1, Kind: "claimed-len", A: a, B: 3, C: 1})
	}
	// five bytes claiming 64 MiB, and the 4 GiB - 1 maximum of the format
	ins = append(ins, raw(0, []byte{0x80, 0x80, 0x80, 0x20, 0x00}), raw(1, []byte{0xff, 0xff, 0xff, 0xff, 0x0f, 0x00}))
	reg(t, Case{Target: "snappy", Ins: ins})
}

// 3baf36a: Diff / CompareDiff kept asking a remote that withholds the elements it was asked for.
func TestRegLdiffRemoteNeverConverges(t *testing.T) {
	var ins []In
	for base := 0; base < 2; base++ {
		for a := 0; a < 8; a++ {
			ins = append(ins, In{Base: base, Kind: "never-equal", A: a, B: a}, In{Base: base, Kind: "elements-forever", A: a}, In{Base: base, Kind: "count-lies", A: a}, In{Base: base, Kind: "honest-then-lie", A: a})
		}
	}
	// the 29-byte script: every round, for every range, "hash x, 88 elements, none listed"
	script := []byte{0x0a, 0x1b, 0x01, 0x0a, 0x18, 0x0a, 0x14, 'n', 'e', 'v', 'e', 'r', '-', 'e', 'q', 'u', 'a', 'l', '-', 'h', 'a', 's', 'h', '-', '8', '-', '0', 0x18, 0x58}
	ins = append(ins, raw(0, script), raw(1, script))
	reg(t, Case{Target: "ldiff", Ins: ins})
}

// Latent hazard (not reachable today): AclState.applyReadKeyChange ignores the error of
// PubKeyFromProto(accKey.Identity) and calls st.pubKey.Equals(nil). Under the fully validating
// verifier validateReadKeyChange rejects an undecodable identity first; under a non-validating
// verifier the record builder always decodes with keep-only-our-identity, which drops every entry
// whose identity does not decode. These cases pin that: garbage / empty / wrong-key-type identities
// in AccountKeys and InviteKeys of a ReadKeyChange and of an AccountRemove, every entry point,
// every local identity. sens/s17 shows the panic appears as soon as the partial decoder is bypassed.
func TestRegGarbageIdentityInKeyLists(t *testing.T) {
	for fix := uint64(0); fix < 3; fix++ {
		var ins []In
		for base := 0; base < 4; base++ {
			for a := 0; a < 2; a++ {
				for b := 0; b < 5; b++ {
					ins = append(ins, In{Base: base, Kind: "bad-identity-entry", A: a, B: b, C: 0}, In{Base: base, Kind: "bad-identity-entry", A: a, B: b, C: 1})
				}
			}
			for b := 0; b < 23; b++ {
				ins = append(ins, In{Base: base, Kind: "wrong-key-type", A: 4, B: b, C: b}, In{Base: base, Kind: "wrong-key-type", A: 8, B: b}, In{Base: base, Kind: "wrong-key-type", A: 3, B: b})
			}
		}
		for _, base := range []int{96, 97} {
			for b := 0; b < 5; b++ {
				ins = append(ins, In{Base: base, Kind: "bad-identity-entry", A: b, B: b, C: b})
			}
		}
		reg(t, Case{Target: "acl", Fix: fix, Ins: ins})
	}
}

// Pubsub: an accepted Subscribe for space A, then an Unsubscribe naming a space B the engine holds
// no interest in (never subscribed / already dropped), any topic list: a no-op, never a crash
// (seeded change C11-a5 made it dereference a nil *spaceInterest in the pool's read loop).
func TestRegPubsubUnsubscribeUnknownSpace(t *testing.T) {
	var ins []In
	for a := 0; a < 8; a++ {
		for b := 0; b < 5; b++ {
			ins = append(ins, In{Kind: "unsub-other-space", A: a, B: b, C: 0}, In{Kind: "unsub-other-space", A: a, B: b, C: 1})
		}
		ins = append(ins, In{Kind: "unsub-all", A: a, C: a}, In{Kind: "interleave", A: a, B: a + 3})
	}
	// verbatim: stream 0: Subscribe{spaceA, [chat/>]} then Unsubscribe{some-other-space, []}
	ins = append(ins, raw(0, psSeq(psFrame(0, psSub("spaceA", "chat/>")), psFrame(0, psUnsub("some-other-space")))))
	reg(t, Case{Target: "pubsub", Ins: ins})
}

// Harness self-check: fixtures are a function of the code (two builds give the same valid
// messages), and every valid message is accepted by the entry point it was made for.
func TestRegFixturesReproducibleAndValid(t *testing.T) {
	recordAs = t.Name()
	for _, name := range targetNames {
		tg := targets[name]
		for fix := 0; fix < max(tg.Fixes, 1); fix++ {
			a, err := tg.Build(uint64(fix))
			if err != nil {
				t.Fatalf("%s/%d: %v", name, fix, err)
			}
			seedsA := a.Seeds()
			a.Close()
			heavy := name == "tree" || name == "treesync" || name == "snappy"
			if heavy && !vstat.Thorough() {
				// quick tier: the world behind the tree fixtures is built once per run; only deliver its valid messages
				var ins []In
				for i := range seedsA {
					ins = append(ins, In{Base: i, Kind: "valid"})
				}
				if _, err := run(Case{Target: name, Fix: uint64(fix), Ins: ins}); err != nil {
					t.Errorf("%s/%d: delivering the valid messages: %v", name, fix, err)
				}
				continue
			}
			if heavy {
				// the template is cached per process; rebuild it from scratch for the comparison
				treeTplMu.Lock()
				for k, tp := range treeTpl {
					if !tp.shared {
						os.RemoveAll(tp.dir)
					}
					delete(treeTpl, k)
				}
				treeTplMu.Unlock()
				os.Setenv("C11_PRIVATE_TEMPLATE", "1") // the second build must really be a second build
				defer os.Unsetenv("C11_PRIVATE_TEMPLATE")
				if name == "snappy" {
					continue // derived from the tree template, encoded once per process
				}
			}
			b, err := tg.Build(uint64(fix))
			if err != nil {
				t.Fatalf("%s/%d: %v", name, fix, err)
			}
			seedsB := b.Seeds()
			b.Close()
			if len(seedsA) != len(seedsB) || len(seedsA) == 0 {
				t.Fatalf("%s/%d: %d vs %d valid messages", name, fix, len(seedsA), len(seedsB))
			}
			var ins []In
			for i := range seedsA {
				if !bytes.Equal(seedsA[i].Data, seedsB[i].Data) {
					t.Errorf("%s/%d: valid message %d (%s) differs between two builds of the fixture", name, fix, i, seedsA[i].Name)
				}
				ins = append(ins, In{Base: i, Kind: "valid"})
			}
			if _, err := run(Case{Target: name, Fix: uint64(fix), Ins: ins}); err != nil {
				t.Errorf("%s/%d: delivering the valid messages: %v", name, fix, err)
			}
		}
	}
}
