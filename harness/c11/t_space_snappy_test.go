package c11

// Target 9: space payloads -> spacepayloads.ValidateSpaceStorageCreatePayload / ValidateSpaceHeader.
// Input = spacesyncproto.SpacePayload bytes (what SpacePush / SpacePull carry); the storage
// payload is assembled exactly like spaceService.AddSpace / addSpaceFromRemote do.
//
// Target 10: rpc encoding -> the snappy encoding's Unmarshal(buf, msg), reached through the
// exported wrappers (encoding.WrapHandler on a stream whose context asks for snappy).

import (
	"context"
	"encoding/binary"
	"fmt"
	"sync"

	"storj.io/drpc"

	"github.com/anyproto/any-sync/commonspace/spacepayloads"
	"github.com/anyproto/any-sync/commonspace/spacestorage"
	"github.com/anyproto/any-sync/commonspace/spacesyncproto"
	"github.com/anyproto/any-sync/commonspace/sync/objectsync/objectmessages"
	"github.com/anyproto/any-sync/consensus/consensusproto"
	"github.com/anyproto/any-sync/commonspace/object/tree/treechangeproto"
	"github.com/anyproto/any-sync/net/rpc/encoding"
	"github.com/anyproto/any-sync/util/cidutil"
	"github.com/anyproto/any-sync/util/crypto"

	"verif/harness/internal/accounts"
	"verif/harness/internal/detrand"
	"verif/harness/internal/mutate"
)

// ---- space ------------------------------------------------------------------------------

var spaceVariants = []string{"ValidateSpaceStorageCreatePayload", "ValidateSpaceHeader"}

func init() {
	register(&target{Name: "space", Variants: spaceVariants, Fixes: 1, Build: func(fix uint64) (fixture, error) { return newSpaceFixture() }})
	register(&target{Name: "snappy", Variants: snappyVariants, Fixes: 1, Build: func(fix uint64) (fixture, error) { return newSnappyFixture() }})
}

type spaceFixture struct{ seeds []seed }

var (
	spaceOnce  sync.Once
	spaceSeeds []seed
	spaceErr   error
)

func payloadBytes(p spacestorage.SpaceStorageCreatePayload) []byte {
	b, _ := (&spacesyncproto.SpacePayload{
		SpaceHeader:            p.SpaceHeaderWithId,
		AclPayload:             p.AclWithId.Payload,
		AclPayloadId:           p.AclWithId.Id,
		SpaceSettingsPayload:   p.SpaceSettingsWithId.RawChange,
		SpaceSettingsPayloadId: p.SpaceSettingsWithId.Id,
	}).MarshalVT()
	return b
}

func newSpaceFixture() (*spaceFixture, error) {
	spaceOnce.Do(func() {
		detrand.Seed(909)
		owner := accounts.Get(0)
		mk := func() spacepayloads.SpaceCreatePayload {
			return spacepayloads.SpaceCreatePayload{
				SigningKey: owner.SignKey, SpaceType: "verif.space", ReplicationKey: 77, SpacePayload: []byte("payload"),
				MasterKey: accounts.Key("master", 0), ReadKey: crypto.NewAES(), MetadataKey: accounts.Key("meta", 0), Metadata: []byte("meta"),
			}
		}
		type ctor struct {
			name string
			f    func() (spacestorage.SpaceStorageCreatePayload, error)
		}
		for _, c := range []ctor{
			{"create-v0", func() (spacestorage.SpaceStorageCreatePayload, error) { return spacepayloads.StoragePayloadForSpaceCreate(mk()) }},
			{"create-v1", func() (spacestorage.SpaceStorageCreatePayload, error) { return spacepayloads.StoragePayloadForSpaceCreateV1(mk()) }},
			{"derive-v0", func() (spacestorage.SpaceStorageCreatePayload, error) {
				return spacepayloads.StoragePayloadForSpaceDerive(spacepayloads.SpaceDerivePayload{SigningKey: owner.SignKey, MasterKey: accounts.Key("master", 0), SpaceType: "verif.space", SpacePayload: []byte("p")})
			}},
			{"derive-v1", func() (spacestorage.SpaceStorageCreatePayload, error) {
				return spacepayloads.StoragePayloadForSpaceDeriveV1(spacepayloads.SpaceDerivePayload{SigningKey: owner.SignKey, MasterKey: accounts.Key("master", 0), SpaceType: "verif.space", SpacePayload: []byte("p")})
			}},
			{"one-to-one", func() (spacestorage.SpaceStorageCreatePayload, error) {
				return spacepayloads.StoragePayloadForOneToOneSpace(owner.SignKey, accounts.Get(1).SignKey.GetPublic())
			}},
		} {
			p, err := c.f()
			if err != nil {
				spaceErr = fmt.Errorf("space fixture %s: %w", c.name, err)
				return
			}
			if err := spacepayloads.ValidateSpaceStorageCreatePayload(p); err != nil {
				spaceErr = fmt.Errorf("space fixture %s: valid payload rejected: %w", c.name, err)
				return
			}
			b := payloadBytes(p)
			spaceSeeds = append(spaceSeeds, seed{V: 0, Name: c.name, Data: b}, seed{V: 1, Name: c.name, Data: b})
		}
	})
	return &spaceFixture{seeds: spaceSeeds}, spaceErr
}

func (f *spaceFixture) Seeds() []seed           { return f.seeds }
func (f *spaceFixture) Close()                  {}
func (f *spaceFixture) Digest() (string, error) { return "", nil }
func (f *spaceFixture) Semantic() []string {
	return []string{"nil-header", "empty-parts", "header-id", "cross-parts"}
}

// Repair recomputes the content ids of the three parts (bit0); signatures are C13's subject.
func (f *spaceFixture) Repair(v int, data []byte, flags int) []byte {
	if flags&1 == 0 {
		return data
	}
	sp := &spacesyncproto.SpacePayload{}
	if sp.UnmarshalVT(data) != nil {
		return data
	}
	if id, err := cidutil.NewCidFromBytes(sp.AclPayload); err == nil {
		sp.AclPayloadId = id
	}
	if id, err := cidutil.NewCidFromBytes(sp.SpaceSettingsPayload); err == nil {
		sp.SpaceSettingsPayloadId = id
	}
	if h := sp.SpaceHeader; h != nil {
		if id, err := cidutil.NewCidFromBytes(h.RawHeader); err == nil {
			suffix := ""
			for i := 0; i < len(h.Id); i++ {
				if h.Id[i] == '.' {
					suffix = h.Id[i:]
					break
				}
			}
			h.Id = id + suffix
		}
	}
	b, _ := sp.MarshalVT()
	return b
}

func (f *spaceFixture) Mutate(in In, base seed) ([]byte, bool) {
	sp := &spacesyncproto.SpacePayload{}
	if sp.UnmarshalVT(base.Data) != nil {
		return nil, false
	}
	switch in.Kind {
	case "nil-header":
		sp.SpaceHeader = nil
		if in.A%2 == 1 {
			sp.SpaceHeader = &spacesyncproto.RawSpaceHeaderWithId{}
		}
	case "empty-parts":
		switch mutate.Mod(in.A, 4) {
		case 0:
			sp.AclPayload = nil
		case 1:
			sp.SpaceSettingsPayload = nil
		case 2:
			sp.AclPayload, sp.SpaceSettingsPayload = []byte{}, []byte{}
		default:
			sp.SpaceHeader.RawHeader = nil
		}
	case "header-id":
		id := sp.SpaceHeader.Id
		sp.SpaceHeader.Id = []string{"", ".", id + ".", "." + id, id[:len(id)/2], "no-dot", id + ".zz.1", ".0"}[mutate.Mod(in.A, 8)]
	case "cross-parts":
		o := &spacesyncproto.SpacePayload{}
		if o.UnmarshalVT(f.seeds[mutate.Mod(in.B, len(f.seeds))].Data) != nil {
			return nil, false
		}
		switch mutate.Mod(in.A, 3) {
		case 0:
			sp.AclPayload, sp.AclPayloadId = o.AclPayload, o.AclPayloadId
		case 1:
			sp.SpaceSettingsPayload, sp.SpaceSettingsPayloadId = o.SpaceSettingsPayload, o.SpaceSettingsPayloadId
		default:
			sp.SpaceHeader = o.SpaceHeader
		}
	default:
		return nil, false
	}
	b, _ := sp.MarshalVT()
	return b, true
}

func (f *spaceFixture) Exec(v int, data []byte) (res execResult) {
	res.Pure, res.NoState = true, true
	sp := &spacesyncproto.SpacePayload{}
	if res.Err = sp.UnmarshalVT(data); res.Err != nil {
		return
	}
	res.Gate = sp.SpaceHeader != nil && cidutil.VerifyCid(sp.SpaceHeader.RawHeader, headerCid(sp.SpaceHeader.Id))
	if v == 0 {
		res.Err = spacepayloads.ValidateSpaceStorageCreatePayload(spacestorage.SpaceStorageCreatePayload{
			AclWithId:           &consensusproto.RawRecordWithId{Payload: sp.AclPayload, Id: sp.AclPayloadId},
			SpaceHeaderWithId:   sp.SpaceHeader,
			SpaceSettingsWithId: &treechangeproto.RawTreeChangeWithId{RawChange: sp.SpaceSettingsPayload, Id: sp.SpaceSettingsPayloadId},
		})
		return
	}
	_, res.Err = spacepayloads.ValidateSpaceHeader(sp.SpaceHeader, accounts.Get(0).SignKey.GetPublic(), sp.AclPayload, sp.SpaceSettingsPayload)
	if res.Err == nil {
		_, res.Err = spacepayloads.ValidateSpaceHeader(sp.SpaceHeader, nil, nil, nil)
	}
	return
}

func headerCid(id string) string {
	for i := 0; i < len(id); i++ {
		if id[i] == '.' {
			return id[:i]
		}
	}
	return id
}

// ---- snappy -----------------------------------------------------------------------------

var snappyVariants = []string{"snappy->ObjectSyncMessage", "snappy->HeadUpdate", "proto->ObjectSyncMessage"}

type snappyFixture struct{ seeds []seed }

var (
	snappyOnce  sync.Once
	snappySeeds []seed
	snappyErr   error
)

// codecStream is the transport under the encoding wrappers: MsgSend / MsgRecv hand the
// message to whatever encoding the wrapper chose, like drpc streams do.
type codecStream struct {
	ctx  context.Context
	wire []byte
}

func (s *codecStream) Context() context.Context { return s.ctx }
func (s *codecStream) MsgSend(msg drpc.Message, enc drpc.Encoding) (err error) {
	s.wire, err = enc.Marshal(msg)
	return
}
func (s *codecStream) MsgRecv(msg drpc.Message, enc drpc.Encoding) error {
	return enc.Unmarshal(s.wire, msg)
}
func (s *codecStream) CloseSend() error { return nil }
func (s *codecStream) Close() error     { return nil }

type handlerFunc func(stream drpc.Stream, rpc string) error

func (h handlerFunc) HandleRPC(stream drpc.Stream, rpc string) error { return h(stream, rpc) }

func viaWrapper(snappy bool, wire []byte, f func(stream drpc.Stream) error) ([]byte, error) {
	ctx := context.Background()
	if snappy {
		ctx = encoding.CtxWithSnappy(ctx)
	}
	cs := &codecStream{ctx: ctx, wire: wire}
	err := encoding.WrapHandler(handlerFunc(func(stream drpc.Stream, rpc string) error { return f(stream) })).HandleRPC(cs, "rpc")
	return cs.wire, err
}

func newSnappyFixture() (*snappyFixture, error) {
	snappyOnce.Do(func() {
		tpl, err := getTreeTemplate(0)
		if err != nil {
			snappyErr = err
			return
		}
		for i, s := range tpl.seeds[1] {
			msg := &spacesyncproto.ObjectSyncMessage{}
			if err := msg.UnmarshalVT(s.Data); err != nil {
				snappyErr = err
				return
			}
			for _, sn := range []bool{true, false} {
				wire, err := viaWrapper(sn, nil, func(stream drpc.Stream) error { return stream.MsgSend(msg, nil) })
				if err != nil {
					snappyErr = err
					return
				}
				if sn {
					snappySeeds = append(snappySeeds, seed{V: i % 2, Name: s.Name, Data: wire})
				} else {
					snappySeeds = append(snappySeeds, seed{V: 2, Name: s.Name, Data: wire})
				}
			}
		}
		// a highly compressible message (long runs): large decoded length from few bytes, legitimately
		big := &spacesyncproto.ObjectSyncMessage{SpaceId: "s", ObjectId: "o", Payload: make([]byte, 300_000)}
		wire, err := viaWrapper(true, nil, func(stream drpc.Stream) error { return stream.MsgSend(big, nil) })
		if err != nil {
			snappyErr = err
			return
		}
		snappySeeds = append(snappySeeds, seed{V: 0, Name: "compressible-300k", Data: wire})
	})
	return &snappyFixture{seeds: snappySeeds}, snappyErr
}

func (f *snappyFixture) Seeds() []seed                               { return f.seeds }
func (f *snappyFixture) Close()                                      {}
func (f *snappyFixture) Digest() (string, error)                     { return "", nil }
func (f *snappyFixture) Repair(v int, data []byte, flags int) []byte { return data }
func (f *snappyFixture) Semantic() []string                          { return []string{"claimed-len", "copy-offset"} }

// claimedLens are the decoded lengths a hostile block header claims. Kept at or below
// 64 MiB so that a shared machine survives the search; snappy accepts up to 4 GiB - 1.
var claimedLens = []uint64{0, 1, 1 << 16, 1 << 20, 8 << 20, 8 << 20, 64 << 20}

func (f *snappyFixture) Mutate(in In, base seed) ([]byte, bool) {
	if base.V == 2 {
		return nil, false
	}
	_, n := binary.Uvarint(base.Data)
	if n <= 0 {
		return nil, false
	}
	body := base.Data[n:]
	switch in.Kind {
	case "claimed-len":
		// the block's length header edited, the body untouched (or cut short)
		l := claimedLens[mutate.Mod(in.A, len(claimedLens))]
		if in.C&1 == 1 {
			body = body[:mutate.Mod(in.B, len(body)+1)]
		}
		return append(binary.AppendUvarint(nil, l), body...), true
	case "copy-offset":
		// a copy element that points before the start of the output / far ahead
		l := uint64(64)
		el := [][]byte{{0x01 | 7<<2, 0xff}, {0x02 | 63<<2, 0xff, 0xff}, {0x03 | 63<<2, 0xff, 0xff, 0xff, 0x7f}, {0xfc, 0xff, 0xff, 0xff, 0xff}}[mutate.Mod(in.A, 4)]
		return append(append(binary.AppendUvarint(nil, l), el...), body[:min(len(body), 8)]...), true
	}
	return nil, false
}

func (f *snappyFixture) Exec(v int, data []byte) (res execResult) {
	res.Pure, res.NoState = true, true
	if v < 2 {
		l, n := binary.Uvarint(data)
		res.Gate = n > 0 && l <= 1<<32-1
	} else {
		res.Gate = (&spacesyncproto.ObjectSyncMessage{}).UnmarshalVT(data) == nil
	}
	_, res.Err = viaWrapper(v < 2, data, func(stream drpc.Stream) error {
		if v == 1 {
			return stream.MsgRecv(&objectmessages.HeadUpdate{}, nil)
		}
		return stream.MsgRecv(&spacesyncproto.ObjectSyncMessage{}, nil)
	})
	return
}
