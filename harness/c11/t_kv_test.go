package c11

// Target 6: key-value entries -> innerstorage.KeyValueFromProto and keyvaluestorage.Storage.SetRaw.
//
// A producer store (account 1, own database) makes valid entries with the real Set; the
// marshalled StoreKeyValue / StoreKeyValues bytes it broadcasts are the valid messages. The
// victim is another store (account 0, own database, same ACL).

import (
	"context"
	"fmt"
	"sort"
	"strings"
	"sync"
	"testing"

	anystore "github.com/anyproto/any-store"

	"github.com/anyproto/any-sync/commonspace/headsync/headstorage"
	"github.com/anyproto/any-sync/commonspace/object/accountdata"
	"github.com/anyproto/any-sync/commonspace/object/acl/list"
	"github.com/anyproto/any-sync/commonspace/object/acl/recordverifier"
	"github.com/anyproto/any-sync/commonspace/object/keyvalue/keyvaluestorage"
	"github.com/anyproto/any-sync/commonspace/object/keyvalue/keyvaluestorage/innerstorage"
	"github.com/anyproto/any-sync/commonspace/spacesyncproto"
	"github.com/anyproto/any-sync/consensus/consensusproto"
	"github.com/anyproto/any-sync/util/crypto"
	"github.com/anyproto/any-sync/util/crypto/cryptoproto"

	"verif/harness/internal/aclgen"
	"verif/harness/internal/dbutil"
	"verif/harness/internal/mutate"
)

var kvVariants = []string{"KeyValueFromProto-verify", "KeyValueFromProto-noverify", "SetRaw"}

func init() {
	register(&target{Name: "kv", Variants: kvVariants, Fixes: 1, Build: func(fix uint64) (fixture, error) { return newKvFixture() }})
}

type kvWorld struct {
	records []*consensusproto.RawRecordWithId
	keys    []*accountdata.AccountKeys
	seeds   []seed
	aclHead string
	aclRoot string
	valid   []*spacesyncproto.StoreKeyValue
}

var (
	kvOnce sync.Once
	kvW    *kvWorld
	kvErr  error
)

type captureClient struct {
	got []innerstorage.KeyValue
	n   int
}

func (c *captureClient) Broadcast(ctx context.Context, objectId string, kvs ...innerstorage.KeyValue) error {
	c.got = append(c.got, kvs...)
	c.n += len(kvs)
	return nil
}

// decryptingIndexer does what an application indexer does: decrypt every stored value.
type decryptingIndexer struct {
	keyvaluestorage.NoOpIndexer
	errs int
}

func (d *decryptingIndexer) Index(dec keyvaluestorage.Decryptor, kvs ...innerstorage.KeyValue) error {
	for _, kv := range kvs {
		if _, err := dec(kv); err != nil {
			d.errs++
		}
	}
	return nil
}

type kvStore struct {
	scratch *dbutil.Scratch
	db      anystore.DB
	hs      headstorage.HeadStorage
	acl     list.AclList
	st      keyvaluestorage.Storage
	client  *captureClient
	idx     *decryptingIndexer
	w       *kvWorld
	acc     int
}

const kvStorageId = "kvstore.verif"

// reset empties the store and builds the storage object again on the same (open) database:
// opening and closing a database costs more than everything else a case does.
func (s *kvStore) reset() error {
	ctx := context.Background()
	coll, err := s.db.Collection(ctx, kvStorageId)
	if err != nil {
		return err
	}
	if _, err := coll.Find(nil).Delete(ctx); err != nil {
		return err
	}
	s.client.got, s.client.n, s.idx.errs = nil, 0, 0
	if s.st, err = keyvaluestorage.New(ctx, kvStorageId, s.db, s.hs, s.w.keys[s.acc], s.client, s.acl, s.idx); err != nil {
		return err
	}
	return s.st.Prepare()
}

func openKvStore(w *kvWorld, acc int) (*kvStore, error) {
	ctx := context.Background()
	s := &kvStore{client: &captureClient{}, idx: &decryptingIndexer{}, w: w, acc: acc}
	var err error
	if s.scratch, err = dbutil.New("c11-kv-"); err != nil {
		return nil, err
	}
	fail := func(err error) (*kvStore, error) { s.close(); return nil, err }
	if s.db, err = s.scratch.Open("kv.db"); err != nil {
		return fail(err)
	}
	hs, err := headstorage.New(ctx, s.db)
	if err != nil {
		return fail(err)
	}
	s.hs = hs
	if s.acl, err = aclgen.NewList(w.keys[acc], w.records, recordverifier.NewValidateFull()); err != nil {
		return fail(err)
	}
	if s.st, err = keyvaluestorage.New(ctx, kvStorageId, s.db, hs, w.keys[acc], s.client, s.acl, s.idx); err != nil {
		return fail(err)
	}
	if err = s.st.Prepare(); err != nil {
		return fail(err)
	}
	return s, nil
}

func (s *kvStore) close() {
	if s.db != nil {
		s.db.Close()
	}
	if s.scratch != nil {
		s.scratch.Remove()
	}
}

func getKvWorld() (*kvWorld, error) {
	kvOnce.Do(func() {
		w := &kvWorld{}
		kvErr = aclgen.Bubble(&testing.T{}, func() error {
			aw, err := aclgen.NewWorld(3, 2222, false)
			if err != nil {
				return err
			}
			for _, op := range []aclgen.Op{{Kind: "add", Actor: 0, Target: 1, Perm: aclgen.Writer}, {Kind: "add", Actor: 0, Target: 2, Perm: aclgen.Reader}} {
				if st, err := aw.Apply(op); err != nil || !st.Accepted {
					return fmt.Errorf("kv fixture: %v %s", err, st.BuildErr)
				}
			}
			w.records, w.keys = aw.Records, aw.Keys
			w.aclHead, w.aclRoot = aw.Head(), aw.Records[0].Id
			return nil
		})
		if kvErr != nil {
			return
		}
		prod, err := openKvStore(w, 1)
		if err != nil {
			kvErr = err
			return
		}
		defer prod.close()
		for i, k := range []string{"alpha", "beta", "alpha", "gamma/with/slashes"} {
			if err := prod.st.Set(context.Background(), k, []byte(fmt.Sprintf("value-%d", i))); err != nil {
				kvErr = err
				return
			}
		}
		var batch []*spacesyncproto.StoreKeyValue
		for i, kv := range prod.client.got {
			p := kv.Proto()
			w.valid = append(w.valid, p)
			b, _ := p.MarshalVT()
			w.seeds = append(w.seeds, seed{V: i % 2, Name: "entry", Data: b})
			batch = append(batch, p)
			bb, _ := (&spacesyncproto.StoreKeyValues{KeyValues: []*spacesyncproto.StoreKeyValue{p}}).MarshalVT()
			w.seeds = append(w.seeds, seed{V: 2, Name: "single", Data: bb})
		}
		bb, _ := (&spacesyncproto.StoreKeyValues{KeyValues: batch}).MarshalVT()
		w.seeds = append(w.seeds, seed{V: 2, Name: "batch", Data: bb})
		if len(w.valid) < 3 {
			kvErr = fmt.Errorf("kv fixture: producer broadcast only %d entries", len(w.valid))
		}
		kvW = w
	})
	return kvW, kvErr
}

type kvFixture struct {
	w *kvWorld
	v *kvStore
}

func newKvFixture() (*kvFixture, error) {
	w, err := getKvWorld()
	if err != nil {
		return nil, err
	}
	v, err := openKvStore(w, 0)
	if err != nil {
		return nil, err
	}
	return &kvFixture{w: w, v: v}, nil
}

func (f *kvFixture) Seeds() []seed { return f.w.seeds }
func (f *kvFixture) Reset() error  { return f.v.reset() }
func (f *kvFixture) Close()        { f.v.close() }
func (f *kvFixture) Semantic() []string {
	return []string{"short-cipher", "acl-head", "key-type", "timestamp", "key-peer-id", "long-key", "empty-inner", "many"}
}

func (f *kvFixture) Digest() (string, error) {
	var lines []string
	err := f.v.st.InnerStorage().IterateValues(context.Background(), func(kv innerstorage.KeyValue) (bool, error) {
		lines = append(lines, fmt.Sprintf("%s|%s|%s|%d|%s|%s|%x", kv.KeyPeerId, kv.Key, kv.ReadKeyId, kv.TimestampMicro, kv.Identity, kv.PeerId, kv.Value.Value))
		return true, nil
	})
	sort.Strings(lines)
	return fmt.Sprintf("n=%d hash=%s\n%s", len(lines), f.v.st.InnerStorage().Diff().Hash(), strings.Join(lines, "\n")), err
}

func (f *kvFixture) keyFor(proto []byte, peer bool) crypto.PrivKey {
	for _, k := range f.w.keys {
		sk := k.SignKey
		if peer {
			sk = k.PeerKey
		}
		if b, _ := sk.GetPublic().Marshall(); string(b) == string(proto) {
			return sk
		}
	}
	return nil
}

func (f *kvFixture) resign(p *spacesyncproto.StoreKeyValue) {
	in := &spacesyncproto.StoreKeyInner{}
	if in.UnmarshalVT(p.Value) != nil {
		return
	}
	if k := f.keyFor(in.Identity, false); k != nil {
		p.IdentitySignature, _ = k.Sign(p.Value)
	}
	if k := f.keyFor(in.Peer, true); k != nil {
		p.PeerSignature, _ = k.Sign(p.Value)
	}
}

func (f *kvFixture) Repair(v int, data []byte, flags int) []byte {
	if flags&2 == 0 {
		return data
	}
	if v == 2 {
		kvs := &spacesyncproto.StoreKeyValues{}
		if kvs.UnmarshalVT(data) != nil {
			return data
		}
		for _, p := range kvs.KeyValues {
			f.resign(p)
		}
		b, _ := kvs.MarshalVT()
		return b
	}
	p := &spacesyncproto.StoreKeyValue{}
	if p.UnmarshalVT(data) != nil {
		return data
	}
	f.resign(p)
	b, _ := p.MarshalVT()
	return b
}

func (f *kvFixture) Mutate(in In, base seed) ([]byte, bool) {
	src := f.w.valid[mutate.Mod(in.Base, len(f.w.valid))]
	inner := &spacesyncproto.StoreKeyInner{}
	if inner.UnmarshalVT(src.Value) != nil {
		return nil, false
	}
	p := &spacesyncproto.StoreKeyValue{KeyPeerId: src.KeyPeerId}
	inner.TimestampMicro += 1000 + int64(in.B) // newer than what the victim may hold
	n := 1
	consistent := true
	switch in.Kind {
	case "short-cipher":
		l := []int{0, 1, 11, 12, 13, 27, 28}[mutate.Mod(in.A, 7)]
		v := make([]byte, l)
		copy(v, inner.Value)
		inner.Value = v
	case "acl-head":
		inner.AclHeadId = []string{"", "no-such-record", f.w.aclRoot, f.w.aclHead + "x"}[mutate.Mod(in.A, 4)]
	case "key-type":
		bad := keyProto([]cryptoproto.KeyType{cryptoproto.KeyType_AES, cryptoproto.KeyType_Ed25519Private, 3, cryptoproto.KeyType_Ed25519Public}[mutate.Mod(in.A, 4)], []int{32, 64, 31, 0}[mutate.Mod(in.B, 4)], 9)
		if in.C&1 == 0 {
			inner.Identity = bad
		} else {
			inner.Peer = bad
		}
	case "timestamp":
		inner.TimestampMicro = []int64{0, -1, -1 << 63, 1<<63 - 1, 1 << 53}[mutate.Mod(in.A, 5)]
	case "key-peer-id":
		consistent = false
		p.KeyPeerId = []string{"", "other-key-other-peer", strings.Repeat("k", 70000), src.KeyPeerId + "\x00"}[mutate.Mod(in.A, 4)]
	case "long-key":
		// a key of arbitrary content and length, filed under the slot it names
		n := []int{0, 1, 300, 70000}[mutate.Mod(in.A, 4)]
		inner.Key = strings.Repeat(string(rune('a'+in.B%26)), n)
		if in.C&1 == 1 {
			inner.Key += "\x00-\xff/../"
		}
	case "empty-inner":
		inner = &spacesyncproto.StoreKeyInner{}
		if in.A%2 == 1 {
			inner.Identity, inner.Peer = src.Value[:0], nil
		}
	case "many":
		n = []int{50, 1000}[mutate.Mod(in.A, 2)]
	default:
		return nil, false
	}
	if consistent {
		if pk, err := crypto.UnmarshalEd25519PublicKeyProto(inner.Peer); err == nil {
			p.KeyPeerId = inner.Key + "-" + pk.PeerId()
		}
	}
	p.Value, _ = inner.MarshalVT()
	f.resign(p)
	if base.V != 2 {
		b, _ := p.MarshalVT()
		return b, true
	}
	kvs := &spacesyncproto.StoreKeyValues{}
	for i := 0; i < n; i++ {
		kvs.KeyValues = append(kvs.KeyValues, p)
	}
	b, _ := kvs.MarshalVT()
	return b, true
}

func kvAuthentic(p *spacesyncproto.StoreKeyValue) bool {
	in := &spacesyncproto.StoreKeyInner{}
	return in.UnmarshalVT(p.Value) == nil
}

func (f *kvFixture) Exec(v int, data []byte) (res execResult) {
	ctx := context.Background()
	switch v {
	case 0, 1:
		res.Pure = true
		p := &spacesyncproto.StoreKeyValue{}
		if res.Err = p.UnmarshalVT(data); res.Err != nil {
			return
		}
		res.Gate = kvAuthentic(p)
		var kv innerstorage.KeyValue
		kv, res.Err = innerstorage.KeyValueFromProto(p, v == 0)
		if res.Err == nil {
			kv.Proto()
		}
	default:
		kvs := &spacesyncproto.StoreKeyValues{}
		if res.Err = kvs.UnmarshalVT(data); res.Err != nil {
			return
		}
		for _, p := range kvs.KeyValues {
			if kvAuthentic(p) {
				res.Gate = true
			}
		}
		f.v.client.n = 0
		res.Err = f.v.st.SetRaw(ctx, kvs.KeyValues...)
		res.Out = f.v.client.n * 256
		res.After = func(r *execResult) {
			// the application reads everything back and decrypts it
			f.v.st.Iterate(ctx, func(dec keyvaluestorage.Decryptor, key string, values []innerstorage.KeyValue) (bool, error) {
				for _, kv := range values {
					dec(kv)
				}
				return true, nil
			})
			f.v.st.GetAll(ctx, "alpha", func(dec keyvaluestorage.Decryptor, values []innerstorage.KeyValue) error {
				for _, kv := range values {
					dec(kv)
				}
				return nil
			})
		}
	}
	return
}
