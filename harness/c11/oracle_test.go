package c11

import (
	"bufio"
	"encoding/json"
	"fmt"
	"os"
	"os/exec"
	"path/filepath"
	"regexp"
	"runtime/debug"
	"runtime/metrics"
	"strconv"
	"strings"
	"sync"
	"sync/atomic"
	"syscall"
	"testing"
	"time"

	"verif/harness/internal/mutate"
)

// ---- guarded call: panic, allocation -------------------------------------------------

type guardResult struct {
	panicked any
	stack    string
	alloc    uint64
	dur      time.Duration
}

var allocSample = []metrics.Sample{{Name: "/gc/heap/allocs:bytes"}}

func heapAllocs() uint64 {
	metrics.Read(allocSample)
	return allocSample[0].Value.Uint64()
}

var guardMu sync.Mutex

// guardedExec runs fx.Exec in the calling goroutine, converting a panic into data and
// measuring the bytes allocated (process-wide counter; the test binary runs one case at a time).
func guardedExec(fx fixture, v int, data []byte) (res execResult, g guardResult) {
	guardMu.Lock()
	defer guardMu.Unlock()
	in := append([]byte(nil), data...) // the callee may keep or scribble on the slice
	start := time.Now()
	before := heapAllocs()
	func() {
		defer func() {
			if r := recover(); r != nil {
				g.panicked = r
				g.stack = string(debug.Stack())
			}
		}()
		res = fx.Exec(v, in)
	}()
	g.alloc = heapAllocs() - before
	g.dur = time.Since(start)
	if g.panicked == nil && res.After != nil {
		func() {
			defer func() {
				if r := recover(); r != nil {
					g.panicked = r
					g.stack = string(debug.Stack())
				}
			}()
			res.After(&res)
		}()
	}
	res.After = nil
	return
}

// topFrame returns the first two any-sync functions on the panicking stack (below the
// runtime's panic frames), "callee<caller": the key findings are grouped by. Two frames
// because the innermost one is often a tiny shared helper.
func topFrame(stack string) string {
	sc := bufio.NewScanner(strings.NewReader(stack))
	seenPanic := false
	var frames []string
	for sc.Scan() {
		line := sc.Text()
		if strings.HasPrefix(line, "panic(") || strings.HasPrefix(line, "runtime.panic") || strings.HasPrefix(line, "runtime.goPanic") || strings.HasPrefix(line, "runtime.sigpanic") {
			seenPanic = true
			continue
		}
		if !seenPanic {
			continue
		}
		if strings.HasPrefix(line, "github.com/anyproto/any-sync/") {
			fn := line
			if i := strings.LastIndex(fn, "("); i > 0 {
				fn = fn[:i]
			}
			fn = strings.TrimPrefix(fn, "github.com/anyproto/any-sync/")
			// generic instantiation suffixes and closures are noise
			fn = reGeneric.ReplaceAllString(fn, "")
			fn = reClosure.ReplaceAllString(fn, "")
			if i := strings.LastIndex(fn, "/"); i >= 0 {
				fn = fn[i+1:]
			}
			if len(frames) == 0 || frames[len(frames)-1] != fn {
				frames = append(frames, fn)
			}
			if len(frames) == 2 {
				break
			}
		}
	}
	if len(frames) == 0 {
		return "unknown"
	}
	return strings.Join(frames, "<")
}

var (
	reGeneric = regexp.MustCompile(`\[\.\.\.\]`)
	reClosure = regexp.MustCompile(`\.func\d+(\.\d+)*$`)
)

func trimStack(stack string) string {
	lines := strings.Split(stack, "\n")
	// drop the harness frames above the panic
	for i, l := range lines {
		if strings.HasPrefix(l, "panic(") {
			lines = lines[i:]
			break
		}
	}
	if len(lines) > 36 {
		lines = lines[:36]
	}
	return strings.Join(lines, "\n")
}

// ---- current case / watchdog ----------------------------------------------------------

type replayDoc struct {
	Property string `json:"property"`
	Test     string `json:"test"`
	Error    string `json:"error"`
	Case     Case   `json:"case"`
}

// writeCurrentCase records the running case for the driver's fatal_patterns handling:
// a process-fatal condition (runtime "fatal error", out of memory, stack overflow) kills
// the binary before any verdict can be written.
func writeCurrentCase(c Case) {
	dir := os.Getenv("VERIF_REPLAY_OUT")
	if dir == "" || replayMode {
		return
	}
	os.MkdirAll(dir, 0o755)
	b, err := json.Marshal(replayDoc{Property: prop, Test: recordAs, Error: "process-fatal condition while this case was running", Case: c})
	if err != nil {
		return
	}
	tmp := filepath.Join(dir, ".current-case.tmp")
	if os.WriteFile(tmp, b, 0o644) == nil {
		os.Rename(tmp, filepath.Join(dir, "current-case.json"))
	}
}

// removeCurrentCase is called when the binary is about to exit normally with a verdict.
func removeCurrentCase() {
	if dir := os.Getenv("VERIF_REPLAY_OUT"); dir != "" {
		os.Remove(filepath.Join(dir, "current-case.json"))
	}
}

// A call is taken for hung when it has burnt hangLimit of CPU time (a loop that does not end) or
// has not returned after stallLimit of wall-clock time (blocked for ever). Wall-clock time alone is
// no evidence on a shared machine: a 0.5 s call was seen to take more than 20 s under load.
const hangLimit = 20 * time.Second
const stallLimit = 240 * time.Second

func cpuTime() time.Duration {
	var ru syscall.Rusage
	if syscall.Getrusage(syscall.RUSAGE_SELF, &ru) != nil {
		return 0
	}
	return time.Duration(ru.Utime.Nano() + ru.Stime.Nano())
}

var slowCalls atomic.Int64

var (
	replayMode bool
	wdMu       sync.Mutex
	wdStart    time.Time
	wdCPU      time.Duration
	wdCase     Case
	wdIdx      int
	wdArmed    bool
)

func armWatchdog(c Case, idx int) {
	wdMu.Lock()
	wdStart, wdCPU, wdCase, wdIdx, wdArmed = time.Now(), cpuTime(), c, idx, true
	wdMu.Unlock()
}

func disarmWatchdog() {
	wdMu.Lock()
	wdArmed = false
	wdMu.Unlock()
}

// startWatchdog: the call under test runs in the test goroutine; if it does not return
// within hangLimit, the input is saved alone and re-run in a child process. Only a hang
// that reproduces there is reported as a violation; otherwise the run ends inconclusive.
func startWatchdog() {
	limit := hangLimit
	if s := os.Getenv("C11_HANG_LIMIT_MS"); s != "" {
		if ms, err := strconv.Atoi(s); err == nil {
			limit = time.Duration(ms) * time.Millisecond
		}
	}
	go func() {
		for {
			time.Sleep(250 * time.Millisecond)
			wdMu.Lock()
			armed, start, cpu0, c, idx := wdArmed, wdStart, wdCPU, wdCase, wdIdx
			wdMu.Unlock()
			if !armed || time.Since(start) < limit {
				continue
			}
			if cpuTime()-cpu0 < limit && time.Since(start) < stallLimit*limit/hangLimit {
				continue // waiting for the processor, not looping
			}
			one := Case{Target: c.Target, Fix: c.Fix}
			if idx < len(c.Ins) {
				in := c.Ins[idx]
				in.Hang = true
				one.Ins = []In{in}
			}
			if replayMode || os.Getenv("C11_HANG_CHILD") != "" {
				fmt.Printf("REPLAY-FAILED property=%s test=%s (call did not return after %v of CPU time)\n", prop, recordAs, limit)
				os.Exit(3)
			}
			dir := os.Getenv("VERIF_REPLAY_OUT")
			if dir == "" {
				dir = os.TempDir()
			}
			os.MkdirAll(dir, 0o755)
			path := filepath.Join(dir, strings.ReplaceAll(recordAs, "/", "_")+"-hang.json")
			b, _ := json.MarshalIndent(replayDoc{Property: prop, Test: recordAs, Error: fmt.Sprintf("hang: the call did not return after %v of CPU time / %v of wall-clock time (reproduced when the input was re-run alone in a fresh process)", limit, stallLimit), Case: one}, "", " ")
			os.WriteFile(path, b, 0o644)
			cmd := exec.Command(os.Args[0], "-test.run", "^TestReplay$", "-test.timeout", "120s")
			cmd.Env = append(os.Environ(), "VERIF_REPLAY="+path, "C11_HANG_CHILD=1", "VERIF_STATS=", "VERIF_REPLAY_OUT=")
			outp, _ := cmd.CombinedOutput()
			removeCurrentCase()
			if strings.Contains(string(outp), "REPLAY-FAILED") {
				fmt.Printf("property %s violated (replay %s): hang reproduced alone\n", prop, path)
				os.Exit(3)
			}
			os.Remove(path)
			// slow (a stalled machine), not hung: give the call ten more limits, then give up without a verdict
			fmt.Printf("NOTE: a call exceeded %v but the input returns in time when re-run alone; waiting on\n", limit)
			for i := 0; i < 40*int(limit/time.Second+1); i++ {
				time.Sleep(250 * time.Millisecond)
				wdMu.Lock()
				still := wdArmed && wdStart.Equal(start)
				wdMu.Unlock()
				if !still {
					break
				}
			}
			wdMu.Lock()
			still := wdArmed && wdStart.Equal(start)
			wdMu.Unlock()
			if still {
				fmt.Printf("INCONCLUSIVE: a call exceeded %v ten times over but the input returns in time when re-run alone:\n%s\n", limit, string(outp))
				os.Exit(4)
			}
			slowCalls.Add(1)
		}
	}()
}

// ---- replay of native fuzz crashers ------------------------------------------------------

// parseFuzzFile decodes a "go test fuzz v1" corpus file into its values.
func parseFuzzFile(b []byte) (vals []any, err error) {
	lines := strings.Split(strings.TrimSpace(string(b)), "\n")
	for _, l := range lines[1:] {
		l = strings.TrimSpace(l)
		switch {
		case strings.HasPrefix(l, "[]byte(") && strings.HasSuffix(l, ")"):
			s, err := strconv.Unquote(l[len("[]byte(") : len(l)-1])
			if err != nil {
				return nil, err
			}
			vals = append(vals, []byte(s))
		case strings.HasPrefix(l, "string(") && strings.HasSuffix(l, ")"):
			s, err := strconv.Unquote(l[len("string(") : len(l)-1])
			if err != nil {
				return nil, err
			}
			vals = append(vals, s)
		case strings.HasPrefix(l, "byte(") && strings.HasSuffix(l, ")"):
			inner := l[len("byte(") : len(l)-1]
			if strings.HasPrefix(inner, "'") {
				r, _, _, err := strconv.UnquoteChar(inner[1:len(inner)-1], '\'')
				if err != nil {
					return nil, err
				}
				vals = append(vals, byte(r))
			} else {
				n, err := strconv.ParseUint(inner, 0, 8)
				if err != nil {
					return nil, err
				}
				vals = append(vals, byte(n))
			}
		case strings.HasPrefix(l, "uint64(") || strings.HasPrefix(l, "int(") || strings.HasPrefix(l, "uint32("):
			inner := l[strings.Index(l, "(")+1 : len(l)-1]
			n, err := strconv.ParseInt(inner, 0, 64)
			if err != nil {
				return nil, err
			}
			vals = append(vals, n)
		default:
			return nil, fmt.Errorf("unsupported corpus line %q", l)
		}
	}
	return vals, nil
}

// replayFuzzFile re-executes a crasher saved by a native fuzz target. The file name the
// driver gives it is fuzz-<FuzzTarget>-<hash>.
func replayFuzzFile(t *testing.T, path string, b []byte) {
	vals, err := parseFuzzFile(b)
	if err != nil {
		t.Fatalf("decode fuzz corpus file: %v", err)
	}
	name := filepath.Base(path)
	var ft *fuzzTarget
	for _, f := range fuzzTargets {
		if strings.Contains(name, f.Fuzz) {
			ft = f
		}
	}
	if ft == nil || len(vals) != 2 {
		t.Fatalf("cannot tell which fuzz target %s belongs to (want fuzz-<FuzzName>-<hash>) or unexpected arity %d", name, len(vals))
	}
	sel, _ := vals[0].(byte)
	data, _ := vals[1].([]byte)
	c := fuzzCase(ft, sel, data)
	if _, err := run(c); err != nil {
		fmt.Printf("REPLAY-FAILED property=%s test=%s\n", prop, ft.Fuzz)
		t.Fatalf("replayed fuzz input violates %s: %v", prop, err)
	}
	fmt.Printf("REPLAY-PASSED property=%s test=%s\n", prop, ft.Fuzz)
}

var _ = mutate.Mod
