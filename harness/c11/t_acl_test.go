package c11

// Target 3: ACL records -> AclList.AddRawRecord / AddRawRecords / ValidateRawRecord under
// both verifier kinds (fully validating; client = acceptor signature only).
//
// Fixture: an aclgen world (5 accounts, every record acceptor-signed by the network key)
// with a rich state: owner, writer, admin, a request-to-join invite with a pending join
// request, an anyone-can-join invite, two read-key generations, a pending leave request.
// The victim is a list with a LOCAL identity (fix 0: a writer member, fix 1: the outsider
// whose join request is pending, fix 2: the owner) built from the accepted log.

import (
	"context"
	"fmt"
	"sync"
	"testing"

	"github.com/anyproto/any-sync/commonspace/object/acl/aclrecordproto"
	"github.com/anyproto/any-sync/commonspace/object/acl/list"
	"github.com/anyproto/any-sync/commonspace/object/acl/recordverifier"
	"github.com/anyproto/any-sync/consensus/consensusproto"
	"github.com/anyproto/any-sync/util/cidutil"
	"github.com/anyproto/any-sync/util/crypto"
	"github.com/anyproto/any-sync/util/crypto/cryptoproto"

	"verif/harness/internal/accounts"
	"verif/harness/internal/aclgen"
	"verif/harness/internal/detrand"
	"verif/harness/internal/mutate"
)

var aclVariants = []string{
	"full/AddRawRecord", "client/AddRawRecord",
	"full/ValidateRawRecord", "client/ValidateRawRecord",
	"full/AddRawRecords", "client/AddRawRecords",
}

func init() {
	register(&target{Name: "acl", Variants: aclVariants, Fixes: 3, Build: func(fix uint64) (fixture, error) { return newAclFixture(fix) }})
}

// aclWorld is the immutable part of the fixture (shared by all fixtures of a process).
type aclWorld struct {
	w      *aclgen.World
	seeds  []seed
	victim [3]int
}

var (
	aclWorldOnce sync.Once
	aclWorldVal  *aclWorld
	aclWorldErr  error
)

const aclN = 5

func getAclWorld() (*aclWorld, error) {
	aclWorldOnce.Do(func() {
		aw := &aclWorld{victim: [3]int{1, 3, 0}}
		aclWorldErr = aclgen.Bubble(&testing.T{}, func() error {
			w, err := aclgen.NewWorld(aclN, 1111, true)
			if err != nil {
				return err
			}
			aw.w = w
			for _, op := range []aclgen.Op{
				{Kind: "add", Actor: 0, Target: 1, Perm: aclgen.Writer},
				{Kind: "add", Actor: 0, Target: 2, Perm: aclgen.Admin},
				{Kind: "invite", Actor: 0},
				{Kind: "request_join", Actor: 3, Ref: -1},
				{Kind: "invite_anyone", Actor: 0, Perm: aclgen.Writer},
				{Kind: "read_key_change", Actor: 0}, // forged below: the builder's key fan-out follows Go map order (bytes not reproducible)
				{Kind: "request_remove", Actor: 2},
				{Kind: "options", Actor: 0, Flag: true},
			} {
				if op.Kind == "read_key_change" {
					ok, rej, err := w.ApplyForge(aclgen.Forge{Author: 0, Contents: []aclgen.FContent{{Kind: "read_key_change"}}})
					if err != nil || !ok {
						return fmt.Errorf("acl fixture: forged read key change refused: %v %v", rej, err)
					}
					continue
				}
				st, err := w.Apply(op)
				if err != nil {
					return err
				}
				if !st.Accepted {
					return fmt.Errorf("acl fixture: op %+v refused: %s", op, st.BuildErr)
				}
			}
			return aw.makeSeeds()
		})
		aclWorldVal = aw
	})
	return aclWorldVal, aclWorldErr
}

// forged is one valid next record: author and contents.
type forged struct {
	name   string
	author int
	fc     []aclgen.FContent
}

var aclValid = []forged{
	{"perm_change", 0, []aclgen.FContent{{Kind: "perm_change", Target: 1, Perm: aclgen.Reader}}},
	{"perm_changes", 0, []aclgen.FContent{{Kind: "perm_changes", Target: 1, T2: 2, Perm: aclgen.Reader, Variant: 0}}},
	{"ownership", 0, []aclgen.FContent{{Kind: "ownership", Target: 2, Perm: aclgen.Admin}}},
	{"accounts_add", 0, []aclgen.FContent{{Kind: "accounts_add", Target: 4, Perm: aclgen.Writer}}},
	{"accounts_add_victim3", 0, []aclgen.FContent{{Kind: "accounts_add", Target: 3, Perm: aclgen.Writer}}},
	{"invite", 0, []aclgen.FContent{{Kind: "invite", Perm: aclgen.Reader, Variant: 0}}},
	{"invite_anyone", 0, []aclgen.FContent{{Kind: "invite", Perm: aclgen.Reader, Variant: 1}}},
	{"invite_change", 0, []aclgen.FContent{{Kind: "invite_change", Ref: 0, Perm: aclgen.Reader}}},
	{"invite_change2", 0, []aclgen.FContent{{Kind: "invite_change", Ref: 1, Perm: aclgen.Reader}}},
	{"invite_revoke", 0, []aclgen.FContent{{Kind: "invite_revoke", Ref: 0}}},
	{"request_join", 4, []aclgen.FContent{{Kind: "request_join", Ref: 0}}},
	{"request_join2", 4, []aclgen.FContent{{Kind: "request_join", Ref: 1}}},
	{"invite_join", 4, []aclgen.FContent{{Kind: "invite_join", Ref: 0, Perm: aclgen.Reader}}},
	{"invite_join_victim3", 3, []aclgen.FContent{{Kind: "invite_join", Ref: 0, Perm: aclgen.Reader}}},
	{"request_accept", 0, []aclgen.FContent{{Kind: "request_accept", Ref: 0, Perm: aclgen.Writer, Variant: 1}}},
	{"request_decline", 0, []aclgen.FContent{{Kind: "request_decline", Ref: 0, Variant: 1}}},
	{"request_cancel", 3, []aclgen.FContent{{Kind: "request_cancel", Ref: 0}}},
	{"request_cancel2", 2, []aclgen.FContent{{Kind: "request_cancel", Ref: 1}}},
	{"account_remove", 0, []aclgen.FContent{{Kind: "account_remove", Target: 2}}},
	{"account_remove_victim1", 0, []aclgen.FContent{{Kind: "account_remove", Target: 1}}},
	{"request_remove", 1, []aclgen.FContent{{Kind: "request_remove"}}},
	{"read_key_change", 0, []aclgen.FContent{{Kind: "read_key_change"}}},
	{"options", 0, []aclgen.FContent{{Kind: "options", Variant: 1}}},
	{"batch", 0, []aclgen.FContent{{Kind: "perm_change", Target: 1, Perm: aclgen.Reader}, {Kind: "invite_revoke", Ref: 0}, {Kind: "options", Variant: 0}}},
}

func (aw *aclWorld) makeSeeds() error {
	w := aw.w
	accepted := 0
	var chain []*consensusproto.RawRecordWithId
	for _, fg := range aclValid {
		rec, err := aw.forge(fg.author, w.Head(), fg.fc, nil)
		if err != nil {
			return err
		}
		// a seed is "valid" iff a fresh fully validating list accepts it
		l, err := aclgen.NewList(w.Keys[4], w.Records, recordverifier.NewValidateFull())
		if err != nil {
			return err
		}
		if err := l.AddRawRecord(aclgen.CloneRec(rec)); err != nil {
			continue
		}
		accepted++
		b, _ := rec.MarshalVT()
		for _, v := range []int{0, 1, 2, 3} {
			aw.seeds = append(aw.seeds, seed{V: v, Name: fg.name, Data: b})
		}
		if len(chain) == 0 {
			chain = append(chain, rec)
		}
	}
	if accepted < 18 {
		return fmt.Errorf("acl fixture: only %d of %d hand-made valid records were accepted (harness regression)", accepted, len(aclValid))
	}
	// batches: one valid record followed by another one built on top of it
	l, err := aclgen.NewList(w.Keys[0], w.Records, recordverifier.NewValidateFull())
	if err != nil {
		return err
	}
	if err := l.AddRawRecord(aclgen.CloneRec(chain[0])); err != nil {
		return err
	}
	second, err := aw.forge(0, chain[0].Id, []aclgen.FContent{{Kind: "options", Variant: 0}}, nil)
	if err != nil {
		return err
	}
	if err := l.AddRawRecord(aclgen.CloneRec(second)); err != nil {
		return fmt.Errorf("acl fixture: second record of the batch rejected: %w", err)
	}
	hu := &consensusproto.LogHeadUpdate{Head: second.Id, Records: []*consensusproto.RawRecordWithId{chain[0], second}}
	b, _ := hu.MarshalVT()
	aw.seeds = append(aw.seeds, seed{V: 4, Name: "batch2", Data: b}, seed{V: 5, Name: "batch2", Data: b})
	// a batch that re-sends the known tail of the log plus one new record
	hu = &consensusproto.LogHeadUpdate{Head: chain[0].Id, Records: append(append([]*consensusproto.RawRecordWithId(nil), w.Records[len(w.Records)-2:]...), chain[0])}
	b, _ = hu.MarshalVT()
	aw.seeds = append(aw.seeds, seed{V: 4, Name: "batch-overlap", Data: b}, seed{V: 5, Name: "batch-overlap", Data: b})
	return nil
}

// forge builds the contents (structurally valid, real encryptions), lets edit tamper with
// them, then signs with the author's key, acceptor-signs with the network key and CIDs.
func (aw *aclWorld) forge(author int, prev string, fcs []aclgen.FContent, edit func(cs []*aclrecordproto.AclContentValue) []*aclrecordproto.AclContentValue) (*consensusproto.RawRecordWithId, error) {
	var cs []*aclrecordproto.AclContentValue
	for _, fc := range fcs {
		c, err := aw.w.BuildContent(author, fc)
		if err != nil {
			return nil, err
		}
		cs = append(cs, c)
	}
	if edit != nil {
		cs = edit(cs)
	}
	return aw.w.Forge(author, prev, cs)
}

type aclFixture struct {
	aw      *aclWorld
	fix     int
	d0      string
	lists   [2]list.AclList // full, client
	stores  [2]list.Storage
	digests [2]string
	dirty   [2]bool
	meProto []byte
}

func newAclFixture(fix uint64) (*aclFixture, error) {
	aw, err := getAclWorld()
	if err != nil {
		return nil, err
	}
	f := &aclFixture{aw: aw, fix: int(fix % 3)}
	f.meProto, _ = aw.w.Keys[aw.victim[f.fix]].SignKey.GetPublic().Marshall()
	for i := range f.lists {
		if err := f.buildList(i); err != nil {
			return nil, err
		}
	}
	f.d0, err = f.Digest()
	return f, err
}

func (f *aclFixture) buildList(i int) error {
	aw := f.aw
	keys := aw.w.Keys[aw.victim[f.fix]]
	v := recordverifier.NewValidateFull()
	if i == 1 {
		v = recordverifier.New(aw.w.NetKey.GetPublic())
	}
	recs := make([]*consensusproto.RawRecordWithId, len(aw.w.Records))
	for j, r := range aw.w.Records {
		recs[j] = aclgen.CloneRec(r)
	}
	st, err := list.NewInMemoryStorage(recs[0].Id, recs)
	if err != nil {
		return err
	}
	l, err := list.BuildAclListWithIdentity(keys, st, v)
	if err != nil {
		return fmt.Errorf("victim list %d: %w", i, err)
	}
	f.lists[i], f.stores[i], f.dirty[i], f.digests[i] = l, st, false, ""
	return nil
}

// Reset rebuilds only the lists an input was delivered to.
func (f *aclFixture) Reset() error {
	for i := range f.lists {
		if f.dirty[i] {
			if err := f.buildList(i); err != nil {
				return err
			}
		}
	}
	return nil
}

func (f *aclFixture) Seeds() []seed { return f.aw.seeds }
func (f *aclFixture) Close()        {}

func (f *aclFixture) Digest() (string, error) {
	out := ""
	for i, l := range f.lists {
		if f.digests[i] == "" || f.dirty[i] {
			sc, err := aclgen.StorageScan(f.stores[i])
			if err != nil {
				return "", err
			}
			f.digests[i] = fmt.Sprintf("== list %d\n%s%s", i, safeAclDigest(l), sc)
		}
		out += f.digests[i]
	}
	return out, nil
}

// safeAclDigest: the harness' digest dereferences every key of the state; a state poisoned by an
// accepted hostile record (entries without keys) must show up as a difference, not as a harness crash.
func safeAclDigest(l list.AclList) (d string) {
	defer func() {
		if r := recover(); r != nil {
			d = fmt.Sprintf("UNREADABLE STATE: %v", r)
		}
	}()
	return aclgen.Digest(l)
}

// poisonCheck reports entries without keys left behind by an accepted record.
func poisonCheck(l list.AclList, res *execResult) bool {
	st := l.AclState()
	for _, a := range st.CurrentAccounts() {
		if a.PubKey == nil {
			res.violate("poison:acl-account-without-key", "accepted record left an account entry without a public key in the ACL state")
			return true
		}
	}
	for _, inv := range st.Invites() {
		if inv.Key == nil {
			res.violate("poison:acl-invite-without-key", "accepted record left an invite entry without a key in the ACL state")
			return true
		}
	}
	return false
}

func (f *aclFixture) Semantic() []string {
	return []string{"nil-nested", "enc-key-len", "bad-ref", "wrong-key-type", "enc-meta-len", "prev-id", "author", "many-contents", "bad-identity-entry", "short-metadata", "unknown-identity"}
}

// ---- authentication probe / repair ----------------------------------------------------

// aclAuthentic: the record decodes down to Record and carries a valid author signature and CID.
func aclAuthentic(rec *consensusproto.RawRecordWithId) bool {
	raw := &consensusproto.RawRecord{}
	if raw.UnmarshalVT(rec.Payload) != nil {
		return false
	}
	r := &consensusproto.Record{}
	if r.UnmarshalVT(raw.Payload) != nil {
		return false
	}
	pk, err := crypto.UnmarshalEd25519PublicKeyProto(r.Identity)
	if err != nil {
		return false
	}
	ok, _ := pk.Verify(raw.Payload, raw.Signature)
	return ok && cidutil.VerifyCid(rec.Payload, rec.Id)
}

func (f *aclFixture) signerFor(identity []byte) crypto.PrivKey {
	for _, k := range f.aw.w.Keys {
		if b, _ := k.SignKey.GetPublic().Marshall(); string(b) == string(identity) {
			return k.SignKey
		}
	}
	return nil
}

func (f *aclFixture) repairRec(rec *consensusproto.RawRecordWithId, flags int) {
	if flags&2 != 0 {
		raw := &consensusproto.RawRecord{}
		if raw.UnmarshalVT(rec.Payload) == nil {
			r := &consensusproto.Record{}
			if r.UnmarshalVT(raw.Payload) == nil {
				if k := f.signerFor(r.Identity); k != nil {
					raw.Signature, _ = k.Sign(raw.Payload)
				}
			}
			raw.AcceptorIdentity, _ = f.aw.w.NetKey.GetPublic().Marshall()
			raw.AcceptorSignature, _ = f.aw.w.NetKey.Sign(raw.Payload)
			rec.Payload, _ = raw.MarshalVT()
		}
	}
	if flags&1 != 0 {
		if id, err := cidutil.NewCidFromBytes(rec.Payload); err == nil {
			rec.Id = id
		}
	}
}

func (f *aclFixture) Repair(v int, data []byte, flags int) []byte {
	if v >= 4 {
		hu := &consensusproto.LogHeadUpdate{}
		if hu.UnmarshalVT(data) != nil {
			return data
		}
		for _, r := range hu.Records {
			f.repairRec(r, flags)
		}
		b, _ := hu.MarshalVT()
		return b
	}
	rec := &consensusproto.RawRecordWithId{}
	if rec.UnmarshalVT(data) != nil {
		return data
	}
	f.repairRec(rec, flags)
	b, _ := rec.MarshalVT()
	return b
}

// ---- semantic mutations ---------------------------------------------------------------

func keyProto(t cryptoproto.KeyType, n int, fill byte) []byte {
	d := make([]byte, n)
	for i := range d {
		d[i] = fill + byte(i)
	}
	b, _ := (&cryptoproto.Key{Type: t, Data: d}).MarshalVT()
	return b
}

func shortBlob(sel int, valid []byte) []byte {
	lens := []int{0, 1, 11, 12, 16, 27, 28, 31, 32, 33, 47, 48}
	n := lens[mutate.Mod(sel, len(lens))]
	out := make([]byte, n)
	copy(out, valid)
	if n == 0 && sel%2 == 1 {
		return nil
	}
	return out
}

func (f *aclFixture) Mutate(in In, base seed) ([]byte, bool) {
	aw := f.aw
	w := aw.w
	me := aw.victim[f.fix]
	meProto := f.meProto
	head := w.Head()
	wrap := func(rec *consensusproto.RawRecordWithId, err error) ([]byte, bool) {
		if err != nil {
			return nil, false
		}
		if base.V >= 4 {
			b, _ := (&consensusproto.LogHeadUpdate{Head: rec.Id, Records: []*consensusproto.RawRecordWithId{rec}}).MarshalVT()
			return b, true
		}
		b, _ := rec.MarshalVT()
		return b, true
	}
	one := func(author int, fc aclgen.FContent, edit func(c *aclrecordproto.AclContentValue)) ([]byte, bool) {
		return wrap(aw.forge(author, head, []aclgen.FContent{fc}, func(cs []*aclrecordproto.AclContentValue) []*aclrecordproto.AclContentValue {
			edit(cs[0])
			return cs
		}))
	}
	switch in.Kind {
	case "nil-nested":
		// validly signed records whose content lacks a nested message / carries empty members
		switch mutate.Mod(in.A, 9) {
		case 0:
			return one(0, aclgen.FContent{Kind: "account_remove", Target: 2}, func(c *aclrecordproto.AclContentValue) { c.GetAccountRemove().ReadKeyChange = nil })
		case 1:
			return one(0, aclgen.FContent{Kind: "account_remove", Target: 2}, func(c *aclrecordproto.AclContentValue) {
				c.Value = &aclrecordproto.AclContentValue_AccountRemove{AccountRemove: &aclrecordproto.AclAccountRemove{}}
			})
		case 2:
			return one(0, aclgen.FContent{Kind: "read_key_change"}, func(c *aclrecordproto.AclContentValue) {
				c.Value = &aclrecordproto.AclContentValue_ReadKeyChange{ReadKeyChange: &aclrecordproto.AclReadKeyChange{}}
			})
		case 3:
			return one(0, aclgen.FContent{Kind: "options"}, func(c *aclrecordproto.AclContentValue) { c.GetSpaceOptionsChange().Options = nil })
		case 4:
			return one(0, aclgen.FContent{Kind: "accounts_add", Target: 4, Perm: aclgen.Writer}, func(c *aclrecordproto.AclContentValue) {
				c.GetAccountsAdd().Additions = []*aclrecordproto.AclAccountAdd{{}}
			})
		case 5:
			return one(0, aclgen.FContent{Kind: "perm_changes", Target: 1, T2: 2, Perm: aclgen.Reader}, func(c *aclrecordproto.AclContentValue) {
				c.GetPermissionChanges().Changes = []*aclrecordproto.AclAccountPermissionChange{{}}
			})
		case 6:
			return one(0, aclgen.FContent{Kind: "request_accept", Ref: 0, Perm: aclgen.Writer, Variant: 1}, func(c *aclrecordproto.AclContentValue) {
				c.Value = &aclrecordproto.AclContentValue_RequestAccept{RequestAccept: &aclrecordproto.AclAccountRequestAccept{}}
			})
		case 7:
			return one(0, aclgen.FContent{Kind: "read_key_change"}, func(c *aclrecordproto.AclContentValue) {
				rk := c.GetReadKeyChange()
				rk.AccountKeys = append(rk.AccountKeys, &aclrecordproto.AclEncryptedReadKey{})
				rk.InviteKeys = append(rk.InviteKeys, &aclrecordproto.AclEncryptedReadKey{})
			})
		default:
			// a content value with no member of the oneof set at all, between two valid ones
			return wrap(aw.forge(0, head, []aclgen.FContent{{Kind: "options"}, {Kind: "options", Variant: 1}}, func(cs []*aclrecordproto.AclContentValue) []*aclrecordproto.AclContentValue {
				return []*aclrecordproto.AclContentValue{cs[0], {}, cs[1]}
			}))
		}
	case "enc-key-len":
		// encrypted read key of a short length addressed to the LOCAL identity
		switch mutate.Mod(in.A, 5) {
		case 0:
			return one(0, aclgen.FContent{Kind: "accounts_add", Target: 4, Perm: aclgen.Writer}, func(c *aclrecordproto.AclContentValue) {
				a := c.GetAccountsAdd().Additions[0]
				a.Identity = meProto
				a.EncryptedReadKey = shortBlob(in.B, a.EncryptedReadKey)
			})
		case 1:
			return one(0, aclgen.FContent{Kind: "request_accept", Ref: 0, Perm: aclgen.Writer, Variant: 1}, func(c *aclrecordproto.AclContentValue) {
				a := c.GetRequestAccept()
				if in.C&1 == 1 {
					a.Identity = meProto
				}
				a.EncryptedReadKey = shortBlob(in.B, a.EncryptedReadKey)
			})
		case 2, 3:
			kind := "read_key_change"
			if mutate.Mod(in.A, 5) == 3 {
				kind = "account_remove"
			}
			return one(0, aclgen.FContent{Kind: kind, Target: 2}, func(c *aclrecordproto.AclContentValue) {
				rk := c.GetReadKeyChange()
				if rk == nil {
					rk = c.GetAccountRemove().GetReadKeyChange()
				}
				found := false
				for _, k := range rk.AccountKeys {
					if string(k.Identity) == string(meProto) {
						k.EncryptedReadKey = shortBlob(in.B, k.EncryptedReadKey)
						found = true
					}
				}
				if !found {
					rk.AccountKeys = append(rk.AccountKeys, &aclrecordproto.AclEncryptedReadKey{Identity: meProto, EncryptedReadKey: shortBlob(in.B, nil)})
				}
			})
		default:
			return one(me, aclgen.FContent{Kind: "invite_join", Ref: 0, Perm: aclgen.Reader}, func(c *aclrecordproto.AclContentValue) {
				j := c.GetInviteJoin()
				j.EncryptedReadKey = shortBlob(in.B, j.EncryptedReadKey)
			})
		}
	case "enc-meta-len":
		// the victim gets a valid read key, but the metadata key / previous read key blobs are short
		kind := []string{"read_key_change", "account_remove"}[mutate.Mod(in.A, 2)]
		return one(0, aclgen.FContent{Kind: kind, Target: 2}, func(c *aclrecordproto.AclContentValue) {
			rk := c.GetReadKeyChange()
			if rk == nil {
				rk = c.GetAccountRemove().GetReadKeyChange()
			}
			if in.C&1 == 0 {
				rk.EncryptedMetadataPrivKey = shortBlob(in.B, rk.EncryptedMetadataPrivKey)
			} else {
				rk.EncryptedOldReadKey = shortBlob(in.B, rk.EncryptedOldReadKey)
			}
		})
	case "bad-ref":
		id := []string{"", "no-such-id", w.Records[0].Id, head, w.Records[3].Id}[mutate.Mod(in.B, 5)]
		switch mutate.Mod(in.A, 7) {
		case 0:
			return one(0, aclgen.FContent{Kind: "request_decline", Ref: 0, Variant: 1}, func(c *aclrecordproto.AclContentValue) { c.GetRequestDecline().RequestRecordId = id })
		case 1:
			return one(3, aclgen.FContent{Kind: "request_cancel", Ref: 0}, func(c *aclrecordproto.AclContentValue) { c.GetRequestCancel().RecordId = id })
		case 2:
			return one(0, aclgen.FContent{Kind: "request_accept", Ref: 0, Perm: aclgen.Writer, Variant: 1}, func(c *aclrecordproto.AclContentValue) { c.GetRequestAccept().RequestRecordId = id })
		case 3:
			return one(0, aclgen.FContent{Kind: "invite_revoke", Ref: 0}, func(c *aclrecordproto.AclContentValue) { c.GetInviteRevoke().InviteRecordId = id })
		case 4:
			return one(0, aclgen.FContent{Kind: "invite_change", Ref: 0, Perm: aclgen.Reader}, func(c *aclrecordproto.AclContentValue) { c.GetInviteChange().InviteRecordId = id })
		case 5:
			return one(4, aclgen.FContent{Kind: "request_join", Ref: 0}, func(c *aclrecordproto.AclContentValue) { c.GetRequestJoin().InviteRecordId = id })
		default:
			return one(4, aclgen.FContent{Kind: "invite_join", Ref: 0, Perm: aclgen.Reader}, func(c *aclrecordproto.AclContentValue) { c.GetInviteJoin().InviteRecordId = id })
		}
	case "wrong-key-type":
		types := []cryptoproto.KeyType{cryptoproto.KeyType_AES, cryptoproto.KeyType_Ed25519Private, cryptoproto.KeyType_Ed25519Public, 3}
		sizes := []int{32, 64, 31, 0, 33}
		bad := keyProto(types[mutate.Mod(in.B, 4)], sizes[mutate.Mod(in.B/4, 5)], byte(in.B))
		if mutate.Mod(in.B, 23) == 22 {
			bad = nil
		}
		switch mutate.Mod(in.A, 9) {
		case 0:
			return one(0, aclgen.FContent{Kind: "perm_change", Target: 1, Perm: aclgen.Reader}, func(c *aclrecordproto.AclContentValue) { c.GetPermissionChange().Identity = bad })
		case 1:
			return one(0, aclgen.FContent{Kind: "accounts_add", Target: 4, Perm: aclgen.Writer}, func(c *aclrecordproto.AclContentValue) { c.GetAccountsAdd().Additions[0].Identity = bad })
		case 2:
			return one(0, aclgen.FContent{Kind: "invite", Perm: aclgen.Reader, Variant: in.C & 1}, func(c *aclrecordproto.AclContentValue) { c.GetInvite().InviteKey = bad })
		case 3:
			return one(0, aclgen.FContent{Kind: "read_key_change"}, func(c *aclrecordproto.AclContentValue) { c.GetReadKeyChange().MetadataPubKey = bad })
		case 4:
			return one(0, aclgen.FContent{Kind: "read_key_change"}, func(c *aclrecordproto.AclContentValue) {
				ks := c.GetReadKeyChange().AccountKeys
				ks[mutate.Mod(in.C, len(ks))].Identity = bad
			})
		case 5:
			return one(0, aclgen.FContent{Kind: "ownership", Target: 2, Perm: aclgen.Admin}, func(c *aclrecordproto.AclContentValue) { c.GetOwnershipChange().NewOwnerIdentity = bad })
		case 6:
			return one(0, aclgen.FContent{Kind: "request_accept", Ref: 0, Perm: aclgen.Writer, Variant: 1}, func(c *aclrecordproto.AclContentValue) { c.GetRequestAccept().Identity = bad })
		case 7:
			return one(0, aclgen.FContent{Kind: "account_remove", Target: 2}, func(c *aclrecordproto.AclContentValue) {
				c.GetAccountRemove().Identities = append(c.GetAccountRemove().Identities, bad)
			})
		default:
			return one(0, aclgen.FContent{Kind: "read_key_change"}, func(c *aclrecordproto.AclContentValue) {
				rk := c.GetReadKeyChange()
				rk.InviteKeys = append(rk.InviteKeys, &aclrecordproto.AclEncryptedReadKey{Identity: bad, EncryptedReadKey: []byte("x")})
			})
		}
	case "unknown-identity":
		// a well-formed identity that never was an account of this ACL
		stranger, _ := accounts.Key("stranger", in.B%3).GetPublic().Marshall()
		switch mutate.Mod(in.A, 4) {
		case 0:
			return one(0, aclgen.FContent{Kind: "perm_change", Target: 1, Perm: aclgen.Reader}, func(c *aclrecordproto.AclContentValue) { c.GetPermissionChange().Identity = stranger })
		case 1:
			return one(0, aclgen.FContent{Kind: "ownership", Target: 2, Perm: aclgen.Admin}, func(c *aclrecordproto.AclContentValue) { c.GetOwnershipChange().NewOwnerIdentity = stranger })
		case 2:
			return one(0, aclgen.FContent{Kind: "account_remove", Target: 2}, func(c *aclrecordproto.AclContentValue) { c.GetAccountRemove().Identities = [][]byte{stranger} })
		default:
			return one(0, aclgen.FContent{Kind: "perm_changes", Target: 1, T2: 2, Perm: aclgen.Reader}, func(c *aclrecordproto.AclContentValue) {
				c.GetPermissionChanges().Changes[0].Identity = stranger
			})
		}
	case "bad-identity-entry":
		// read key change whose key list carries an undecodable identity next to the local one
		kind := []string{"read_key_change", "account_remove"}[mutate.Mod(in.A, 2)]
		return one(0, aclgen.FContent{Kind: kind, Target: 2}, func(c *aclrecordproto.AclContentValue) {
			rk := c.GetReadKeyChange()
			if rk == nil {
				rk = c.GetAccountRemove().GetReadKeyChange()
			}
			junk := [][]byte{nil, {}, []byte("junk"), keyProto(cryptoproto.KeyType_Ed25519Public, 31, 1), keyProto(cryptoproto.KeyType_AES, 32, 1)}[mutate.Mod(in.B, 5)]
			e := &aclrecordproto.AclEncryptedReadKey{Identity: junk, EncryptedReadKey: []byte("k")}
			if in.C&1 == 0 {
				rk.AccountKeys = append([]*aclrecordproto.AclEncryptedReadKey{e}, rk.AccountKeys...)
			} else {
				rk.AccountKeys = append(rk.AccountKeys, e)
			}
		})
	case "short-metadata":
		// request / member metadata that the application later decrypts with the metadata key
		meta := shortBlob(in.B, nil)
		switch mutate.Mod(in.A, 3) {
		case 0:
			return one(4, aclgen.FContent{Kind: "request_join", Ref: 0}, func(c *aclrecordproto.AclContentValue) { c.GetRequestJoin().Metadata = meta })
		case 1:
			return one(0, aclgen.FContent{Kind: "accounts_add", Target: 4, Perm: aclgen.Writer}, func(c *aclrecordproto.AclContentValue) { c.GetAccountsAdd().Additions[0].Metadata = meta })
		default:
			return one(4, aclgen.FContent{Kind: "invite_join", Ref: 0, Perm: aclgen.Reader}, func(c *aclrecordproto.AclContentValue) { c.GetInviteJoin().Metadata = meta })
		}
	case "prev-id":
		prev := []string{"", "dangling", w.Records[0].Id, w.Records[len(w.Records)-2].Id, head + "x"}[mutate.Mod(in.A, 5)]
		return wrap(aw.forge(0, prev, []aclgen.FContent{{Kind: "options", Variant: in.B}}, nil))
	case "author":
		// signed by a key that is not a member / by the network key / an identity of the wrong key type
		cs := []*aclrecordproto.AclContentValue{{Value: &aclrecordproto.AclContentValue_SpaceOptionsChange{SpaceOptionsChange: &aclrecordproto.AclSpaceOptionsChange{Options: &aclrecordproto.AclSpaceOptions{}}}}}
		switch mutate.Mod(in.A, 3) {
		case 0:
			return wrap(w.ForgeWithKey(w.Keys[4].SignKey, head, cs))
		case 1:
			return wrap(w.ForgeWithKey(w.NetKey, head, cs))
		default:
			rec, err := w.Forge(0, head, cs)
			if err != nil {
				return nil, false
			}
			raw := &consensusproto.RawRecord{}
			raw.UnmarshalVT(rec.Payload)
			r := &consensusproto.Record{}
			r.UnmarshalVT(raw.Payload)
			r.Identity = keyProto(cryptoproto.KeyType(mutate.Mod(in.B, 4)), []int{32, 64, 0}[mutate.Mod(in.C, 3)], 3)
			raw.Payload, _ = r.MarshalVT()
			raw.Signature, _ = w.Keys[0].SignKey.Sign(raw.Payload)
			raw.AcceptorSignature, _ = w.NetKey.Sign(raw.Payload)
			rec.Payload, _ = raw.MarshalVT()
			rec.Id, _ = cidutil.NewCidFromBytes(rec.Payload)
			return wrap(rec, nil)
		}
	case "many-contents":
		n := []int{50, 400, 2000}[mutate.Mod(in.A, 3)]
		return wrap(aw.forge(0, head, []aclgen.FContent{{Kind: "perm_change", Target: 1, Perm: aclgen.Reader}}, func(cs []*aclrecordproto.AclContentValue) []*aclrecordproto.AclContentValue {
			out := make([]*aclrecordproto.AclContentValue, 0, n)
			for i := 0; i < n; i++ {
				out = append(out, cs[0])
			}
			return out
		}))
	}
	return nil, false
}

// ---- exec -----------------------------------------------------------------------------

func (f *aclFixture) Exec(v int, data []byte) (res execResult) {
	li := v & 1
	l := f.lists[li]
	f.dirty[li] = true
	readBack := func(res *execResult) {
		// what happens after a record was accepted: the application reads the state and
		// decrypts metadata, and the next honest record arrives (here: the owner rotates the
		// read key on top of the new head; validated, not applied)
		st := l.AclState()
		detrand.Seed(77)
		st.GetInviteIdByPrivKey(f.aw.w.NetKey)
		st.JoinRecords(true)
		for _, a := range st.CurrentAccounts() {
			if a.PubKey != nil {
				st.GetMetadata(a.PubKey, true)
			}
		}
		l.RecordsAfter(context.Background(), "")
		if next, err := f.aw.forge(0, l.Head().Id, []aclgen.FContent{{Kind: "read_key_change"}}, nil); err == nil {
			raw := &consensusproto.RawRecord{}
			if raw.UnmarshalVT(next.Payload) == nil {
				l.ValidateRawRecord(raw, nil)
			}
		}
		if poisonCheck(l, res) {
			return
		}
		aclgen.Digest(l)
	}
	switch v / 2 {
	case 0: // AddRawRecord
		rec := &consensusproto.RawRecordWithId{}
		if res.Err = rec.UnmarshalVT(data); res.Err != nil {
			return
		}
		res.Gate = aclAuthentic(rec)
		l.Lock()
		res.Err = l.AddRawRecord(rec)
		l.Unlock()
		if res.Err == nil {
			res.After = readBack
		}
	case 1: // ValidateRawRecord (what a coordinator does with a proposed record)
		rec := &consensusproto.RawRecordWithId{}
		if res.Err = rec.UnmarshalVT(data); res.Err != nil {
			return
		}
		res.Gate = aclAuthentic(rec)
		raw := &consensusproto.RawRecord{}
		if res.Err = raw.UnmarshalVT(rec.Payload); res.Err != nil {
			return
		}
		res.Pure = true
		l.RLock()
		res.Err = l.ValidateRawRecord(raw, func(st *list.AclState) error { return nil })
		l.RUnlock()
		if res.Err == nil {
			// validation must not have touched the list
			res.Classes = append(res.Classes, "validate-accepted")
			if d, err := f.Digest(); err != nil || d != f.d0 {
				res.violate("state:acl-validate", "ValidateRawRecord accepted the record and changed the list: %v\n%s\n---\n%s", err, f.d0, d)
			}
		}
	default: // AddRawRecords
		hu := &consensusproto.LogHeadUpdate{}
		if res.Err = hu.UnmarshalVT(data); res.Err != nil {
			return
		}
		for _, r := range hu.Records {
			if aclAuthentic(r) {
				res.Gate = true
			}
		}
		res.NoState = true // a batch is applied record by record: a prefix may stay applied
		l.Lock()
		res.Err = l.AddRawRecords(hu.Records)
		l.Unlock()
		readBack(&res)
		// whatever happened, memory and storage must still agree on the head
		if h, err := f.stores[li].Head(context.Background()); err != nil || h != l.Head().Id {
			res.violate("state:acl-batch", "list head %s and storage head %s (%v) disagree after AddRawRecords", l.Head().Id, h, err)
		}
	}
	return
}
