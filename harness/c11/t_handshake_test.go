package c11

// Target 8 (crash-only; the protocol properties of the handshake are C14's subject): the
// credential and proto handshakes fed a hostile frame stream over an in-memory connection.
// These functions run the exchange in a goroutine of their own: a panic there cannot be
// recovered by anybody and kills the process, which the driver reports through
// current-case.json / fatal_patterns.

import (
	"bytes"
	"context"
	"encoding/binary"
	"io"
	"net"
	"sync"
	"time"

	"github.com/anyproto/any-sync/net/secureservice/handshake"
	"github.com/anyproto/any-sync/net/secureservice/handshake/handshakeproto"

	"verif/harness/internal/mutate"
)

var handshakeVariants = []string{"IncomingProtoHandshake", "OutgoingProtoHandshake", "IncomingHandshake", "OutgoingHandshake"}

func init() {
	register(&target{Name: "handshake", Variants: handshakeVariants, Fixes: 1, Build: func(fix uint64) (fixture, error) { return newHandshakeFixture() }})
}

// memConn delivers a fixed byte stream and swallows what is written to it.
type memConn struct {
	r   *bytes.Reader
	out int
}

func (c *memConn) Read(p []byte) (int, error)         { return c.r.Read(p) }
func (c *memConn) Write(p []byte) (int, error)        { c.out += len(p); return len(p), nil }
func (c *memConn) Close() error                       { return nil }
func (c *memConn) LocalAddr() net.Addr                { return &net.TCPAddr{} }
func (c *memConn) RemoteAddr() net.Addr               { return &net.TCPAddr{} }
func (c *memConn) SetDeadline(t time.Time) error      { return nil }
func (c *memConn) SetReadDeadline(t time.Time) error  { return nil }
func (c *memConn) SetWriteDeadline(t time.Time) error { return nil }

// tapConn records what one side of a real handshake sends.
type tapConn struct {
	net.Conn
	mu   sync.Mutex
	sent []byte
}

func (t *tapConn) Write(p []byte) (int, error) {
	t.mu.Lock()
	t.sent = append(t.sent, p...)
	t.mu.Unlock()
	return t.Conn.Write(p)
}

type stubChecker struct{}

func (stubChecker) MakeCredentials(remotePeerId string) *handshakeproto.Credentials {
	return &handshakeproto.Credentials{Type: handshakeproto.CredentialsType_SkipVerify, Version: 7, ClientVersion: "verif"}
}
func (stubChecker) CheckCredential(remotePeerId string, cred *handshakeproto.Credentials) (handshake.Result, error) {
	if cred.Version != 7 {
		return handshake.Result{}, handshake.ErrIncompatibleVersion
	}
	return handshake.Result{Identity: cred.Payload, ProtoVersion: cred.Version, ClientVersion: cred.ClientVersion}, nil
}

var protoChecker = handshake.ProtoChecker{AllowedProtoTypes: []handshakeproto.ProtoType{handshakeproto.ProtoType_DRPC}, SupportedEncodings: []handshakeproto.Encoding{handshakeproto.Encoding_Snappy, handshakeproto.Encoding_None}}

type handshakeFixture struct{ seeds []seed }

var (
	hsSeedOnce sync.Once
	hsSeeds    []seed
	hsSeedErr  error
)

func newHandshakeFixture() (*handshakeFixture, error) {
	hsSeedOnce.Do(func() {
		ctx, cancel := context.WithTimeout(context.Background(), 10*time.Second)
		defer cancel()
		for _, enc := range [][]handshakeproto.Encoding{{handshakeproto.Encoding_Snappy, handshakeproto.Encoding_None}, nil} {
			a, b := net.Pipe()
			ta, tb := &tapConn{Conn: a}, &tapConn{Conn: b}
			errc := make(chan error, 1)
			go func() {
				_, err := handshake.IncomingProtoHandshake(ctx, tb, protoChecker)
				errc <- err
			}()
			if _, err := handshake.OutgoingProtoHandshake(ctx, ta, &handshakeproto.Proto{Proto: handshakeproto.ProtoType_DRPC, Encodings: enc}); err != nil {
				hsSeedErr = err
				return
			}
			if err := <-errc; err != nil {
				hsSeedErr = err
				return
			}
			hsSeeds = append(hsSeeds, seed{V: 0, Name: "proto-dialer", Data: ta.sent}, seed{V: 1, Name: "proto-acceptor", Data: tb.sent})
			a.Close()
			b.Close()
		}
		a, b := net.Pipe()
		ta, tb := &tapConn{Conn: a}, &tapConn{Conn: b}
		errc := make(chan error, 1)
		go func() {
			_, err := handshake.IncomingHandshake(ctx, tb, "peer-a", stubChecker{})
			errc <- err
		}()
		if _, err := handshake.OutgoingHandshake(ctx, ta, "peer-b", stubChecker{}); err != nil {
			hsSeedErr = err
			return
		}
		if err := <-errc; err != nil {
			hsSeedErr = err
			return
		}
		hsSeeds = append(hsSeeds, seed{V: 2, Name: "cred-dialer", Data: ta.sent}, seed{V: 3, Name: "cred-acceptor", Data: tb.sent})
		a.Close()
		b.Close()
	})
	return &handshakeFixture{seeds: hsSeeds}, hsSeedErr
}

func (f *handshakeFixture) Seeds() []seed                               { return f.seeds }
func (f *handshakeFixture) Close()                                      {}
func (f *handshakeFixture) Digest() (string, error)                     { return "", nil }
func (f *handshakeFixture) Repair(v int, data []byte, flags int) []byte { return data }
func (f *handshakeFixture) Semantic() []string {
	return []string{"frame-type", "frame-first", "frame-len", "frame-order"}
}

func frame(typ byte, body []byte) []byte {
	out := []byte{typ, 0, 0, 0, 0}
	binary.LittleEndian.PutUint32(out[1:], uint32(len(body)))
	return append(out, body...)
}

// frames splits a stream into well-formed frames (type, body).
func frames(b []byte) (out [][]byte) {
	for len(b) >= 5 {
		n := int(binary.LittleEndian.Uint32(b[1:5]))
		if n > len(b)-5 {
			break
		}
		out = append(out, b[:5+n])
		b = b[5+n:]
	}
	return
}

func (f *handshakeFixture) Mutate(in In, base seed) ([]byte, bool) {
	fr := frames(base.Data)
	if len(fr) == 0 {
		return nil, false
	}
	k := mutate.Mod(in.B, len(fr))
	join := func(fs [][]byte) []byte { return bytes.Join(fs, nil) }
	switch in.Kind {
	case "frame-type":
		// a well-formed frame of another type in place of the expected one (body kept or replaced by a valid body of that type)
		cp := append([][]byte(nil), fr...)
		typ := byte(mutate.Mod(in.A, 6))
		body := cp[k][5:]
		if in.C&1 == 1 {
			switch typ {
			case 2:
				body, _ = (&handshakeproto.Ack{Error: handshakeproto.Error(mutate.Mod(in.A/6, 8))}).MarshalVT()
			case 3:
				body, _ = (&handshakeproto.Proto{Encodings: []handshakeproto.Encoding{handshakeproto.Encoding_Snappy}}).MarshalVT()
			case 1:
				body, _ = stubChecker{}.MakeCredentials("").MarshalVT()
			default:
				body = nil
			}
		}
		cp[k] = frame(typ, body)
		return join(cp), true
	case "frame-first":
		// the stream opens with an extra frame: empty ack, error ack, proto, credentials
		ack0, _ := (&handshakeproto.Ack{}).MarshalVT()
		ack7, _ := (&handshakeproto.Ack{Error: handshakeproto.Error_IncompatibleProto}).MarshalVT()
		pr, _ := (&handshakeproto.Proto{}).MarshalVT()
		extra := [][]byte{frame(2, ack0), frame(2, ack7), frame(3, pr), frame(1, nil), frame(0, nil), frame(2, nil)}[mutate.Mod(in.A, 6)]
		if in.C&1 == 1 {
			return extra, true
		}
		return append(append([]byte(nil), extra...), base.Data...), true
	case "frame-len":
		cp := append([]byte(nil), fr[k]...)
		binary.LittleEndian.PutUint32(cp[1:5], []uint32{0, 1, 200 * 1024, 200*1024 + 1, 1 << 31, 0xffffffff}[mutate.Mod(in.A, 6)])
		cpf := append([][]byte(nil), fr...)
		cpf[k] = cp
		return join(cpf), true
	case "frame-order":
		cp := append([][]byte(nil), fr...)
		if len(cp) > 1 {
			cp[0], cp[len(cp)-1] = cp[len(cp)-1], cp[0]
		}
		return join(append(cp, fr...)), true
	}
	return nil, false
}

func (f *handshakeFixture) Exec(v int, data []byte) (res execResult) {
	res.Pure, res.NoState = true, true
	res.Gate = len(frames(data)) > 0
	ctx, cancel := context.WithTimeout(context.Background(), 15*time.Second)
	defer cancel()
	conn := &memConn{r: bytes.NewReader(data)}
	switch v {
	case 0:
		_, res.Err = handshake.IncomingProtoHandshake(ctx, conn, protoChecker)
	case 1:
		_, res.Err = handshake.OutgoingProtoHandshake(ctx, conn, &handshakeproto.Proto{Proto: handshakeproto.ProtoType_DRPC, Encodings: protoChecker.SupportedEncodings})
	case 2:
		_, res.Err = handshake.IncomingHandshake(ctx, conn, "peer-a", stubChecker{})
	default:
		_, res.Err = handshake.OutgoingHandshake(ctx, conn, "peer-b", stubChecker{})
	}
	res.Out = conn.out
	if res.Err == io.EOF {
		res.Err = io.ErrUnexpectedEOF
	}
	return
}
