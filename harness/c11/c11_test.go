// Package c11 decides property C11 (hostile or malformed peer input is rejected with an
// error, never a crash): one in-process entry function per network-facing parser, driven
// with structure-aware mutations of VALID messages made by the real constructors (rapid,
// quick + thorough) and with native coverage-guided fuzzing seeded by the same messages
// (thorough). The oracle lives inside every call: no panic, error-or-success, state
// unchanged on error where the API promises it, bounded allocation, termination.
package c11

import (
	"encoding/json"
	"fmt"
	"os"
	"os/exec"
	"path/filepath"
	"sort"
	"strconv"
	"strings"
	"testing"

	"github.com/anyproto/any-sync/app/logger"
	"pgregory.net/rapid"

	"verif/harness/internal/detrand"
	"verif/harness/internal/mutate"
	"verif/harness/internal/vstat"
)

const prop = "C11"

func TestMain(m *testing.M) {
	logger.Config{Production: true, DefaultLevel: "fatal", DisableStdErr: true}.ApplyGlobal()
	// native fuzz workers: the driver hands a directory, every process writes its own file
	if d := os.Getenv("VERIF_STATS_DIR"); d != "" {
		os.Setenv("VERIF_STATS", filepath.Join(d, "stats-"+strconv.Itoa(os.Getpid())+".json"))
	}
	startWatchdog()
	// (vstat.Main would exit before the templates are removed; it does nothing but run, flush, exit)
	code := m.Run()
	cleanupTemplates()
	vstat.Flush()
	os.Exit(code)
}

// cleanupTemplates removes the frozen database templates of the tree fixtures.
func cleanupTemplates() {
	pendingClose.Wait()
	treeTplMu.Lock()
	defer treeTplMu.Unlock()
	for _, t := range treeTpl {
		if !t.shared {
			os.RemoveAll(t.dir)
		}
	}
}

// ---- case (plain data) -------------------------------------------------------------

// In is one hostile input: either a verbatim byte string (Raw) or a mutation of the
// Base-th valid message of the target's fixture.
type In struct {
	V    int    `json:"v"`              // entry-point variant (mod the target's variant count)
	Base int    `json:"base"`           // valid message index (mod number of seeds)
	Kind string `json:"kind"`           // mutation kind (see genericKinds and the target's semantic kinds)
	A    int    `json:"a,omitempty"`    // position / path selector
	B    int    `json:"b,omitempty"`    // field / mask selector
	C    int    `json:"c,omitempty"`    // repair flags (bit0 recompute ids, bit1 re-sign) / variant
	Raw  []byte `json:"raw,omitempty"`  // Kind == "raw": the input itself
	Hang bool   `json:"hang,omitempty"` // set by the watchdog on the input that did not return
}

// Case: one fixture (built fresh from Fix), a sequence of inputs delivered to it. The
// fixture is rebuilt whenever an input was accepted or changed anything observable, so
// every input meets the state the valid messages were made for.
type Case struct {
	Target string `json:"target"`
	Fix    uint64 `json:"fix"`
	Ins    []In   `json:"ins"`
}

// genericKinds are the structure-blind / wire-level mutation kinds every target supports.
var genericKinds = []string{"valid", "trunc", "flip", "del-byte", "ins-byte", "op", "op-top", "splice", "dup-tail", "zero-run", "raw-junk", "cross"}

// seed is one valid message of a fixture.
type seed struct {
	V    int    // the entry-point variant it is valid for
	Name string // label (class)
	Data []byte
}

// execResult is what one call into the real entry point reported.
type execResult struct {
	Err     error
	Gate    bool     // input passed the first gate of its parser (target-specific depth probe)
	Out     int      // bytes produced for the peer (responses): part of the allocation budget
	Classes []string // extra class labels
	NoState bool     // the API makes no "unchanged on error" promise for this variant
	Pure    bool     // the call is read-only by contract (validators, decoders)
	// After, if set, is what the application / the next sync round does with the result (reads,
	// decryption, serving the data on): run under the same panic and hang guard, but outside
	// the allocation measurement, which is about parsing and applying the input itself.
	After func(r *execResult)
	// Viol: a violation the target-specific part of the oracle detected (differential mismatch,
	// inconsistent state after an accepted input); ViolSig is its stable signature.
	Viol, ViolSig string
}

func (r *execResult) violate(sig, format string, a ...any) {
	if r.Viol == "" {
		r.Viol, r.ViolSig = fmt.Sprintf(format, a...), sig
	}
}

// fixture is the per-target state under attack.
type fixture interface {
	Seeds() []seed
	// Semantic lists the target-specific mutation kinds.
	Semantic() []string
	// Mutate materialises a semantic mutation; generic kinds are handled by the framework,
	// which calls Repair afterwards when flags ask for it.
	Mutate(in In, base seed) (data []byte, ok bool)
	// Repair re-establishes ids / signatures of a wire-mutated message (flags: bit0 ids,
	// bit1 signatures). Returns data unchanged if not applicable.
	Repair(v int, data []byte, flags int) []byte
	// Exec delivers the input to the real entry point.
	Exec(v int, data []byte) execResult
	// Digest renders the observable state.
	Digest() (string, error)
	Close()
}

// resetter is implemented by fixtures that can return to their pristine state cheaply
// (e.g. by rebuilding only the list that was touched) instead of being rebuilt from scratch.
type resetter interface{ Reset() error }

type target struct {
	Name     string
	Variants []string
	Build    func(fix uint64) (fixture, error)
	// FixSeeds: the fixture variants worth exploring (Case.Fix is taken modulo).
	Fixes int
	// Heavy: every state-changing input costs a database reopen (~30 ms): the quick tier draws fewer.
	Heavy bool
	// AllocFactor: bytes of allocation allowed per byte of input + reply on top of the 4 MiB base (default 64).
	AllocFactor int
}

var targets = map[string]*target{}
var targetNames []string

func register(t *target) {
	targets[t.Name] = t
	targetNames = append(targetNames, t.Name)
	sort.Strings(targetNames)
}

// ---- materialising an input ---------------------------------------------------------

func materialise(fx fixture, in In) (v int, data []byte, label string, ok bool) {
	seeds := fx.Seeds()
	if in.Kind == "raw" {
		return in.V, in.Raw, "raw", true
	}
	if len(seeds) == 0 {
		return 0, nil, "", false
	}
	base := seeds[mutate.Mod(in.Base, len(seeds))]
	v = base.V
	detrand.Seed(vstat.HashJSON(in)) // signatures / encryptions made while building the mutant are a function of the input description
	b := base.Data
	switch in.Kind {
	case "valid":
		return v, b, in.Kind, true
	case "trunc":
		data, ok = mutate.Truncate(b, in.A)
	case "flip":
		data, ok = mutate.XorByte(b, in.A, mutate.BitPatterns[mutate.Mod(in.B, 3)])
	case "del-byte":
		data, ok = mutate.DeleteByte(b, in.A)
	case "ins-byte":
		data, ok = mutate.InsertByte(b, in.A, byte(in.B)), true
	case "op-top":
		ops := mutate.Ops(b)
		if len(ops) == 0 {
			return v, nil, "", false
		}
		data, ok = mutate.Apply(b, ops[mutate.Mod(in.B, len(ops))])
	case "op":
		// a single-field wire edit somewhere inside the nesting (outer prefixes re-encoded)
		paths := mutate.IdxPaths(b, 6, 400)
		if len(paths) == 0 {
			return v, nil, "", false
		}
		p := paths[mutate.Mod(in.A, len(paths))]
		data, ok = mutate.EditAtIdx(b, p, func(inner []byte) ([]byte, bool) {
			ops := mutate.Ops(inner)
			if len(ops) == 0 {
				return nil, false
			}
			return mutate.Apply(inner, ops[mutate.Mod(in.B, len(ops))])
		})
		if ok {
			label = fmt.Sprintf("op-depth%d", len(p))
		}
	case "splice":
		// head of this message + tail of another valid message
		o := seeds[mutate.Mod(in.B, len(seeds))].Data
		if len(b) == 0 || len(o) == 0 {
			return v, nil, "", false
		}
		cut := mutate.Mod(in.A, len(b))
		cut2 := mutate.Mod(in.C>>2, len(o))
		data, ok = append(append([]byte(nil), b[:cut]...), o[cut2:]...), true
	case "dup-tail":
		if len(b) == 0 {
			return v, nil, "", false
		}
		cut := mutate.Mod(in.A, len(b))
		data, ok = append(append([]byte(nil), b...), b[cut:]...), true
	case "zero-run":
		if len(b) == 0 {
			return v, nil, "", false
		}
		data = append([]byte(nil), b...)
		p := mutate.Mod(in.A, len(b))
		for i := p; i < len(b) && i < p+1+mutate.Mod(in.B, 16); i++ {
			data[i] = 0
		}
		ok = string(data) != string(b)
	case "cross":
		// a valid message of ANOTHER entry point delivered here (a request where an update is expected, ...)
		o := seeds[mutate.Mod(in.B, len(seeds))]
		if o.V == v {
			return v, nil, "", false
		}
		return v, o.Data, "cross", true
	case "raw-junk":
		n := mutate.Mod(in.A, 96)
		data = make([]byte, n)
		x := uint32(in.B)*2654435761 + 1
		for i := range data {
			x = x*1664525 + 1013904223
			data[i] = byte(x >> 24)
		}
		ok = true
	default:
		data, ok = fx.Mutate(in, base)
		if ok {
			return v, data, in.Kind, true
		}
		return v, nil, "", false
	}
	if !ok {
		return v, nil, "", false
	}
	if label == "" {
		label = in.Kind
	}
	if in.C&3 != 0 && in.Kind != "raw-junk" {
		r := fx.Repair(v, data, in.C&3)
		if string(r) != string(data) {
			data = r
			label += "+repair" + strconv.Itoa(in.C&3)
		}
	}
	return v, data, label, true
}

// ---- the property -------------------------------------------------------------------

// recordAs is the name of the generating test (per-input statistics are recorded under it).
var recordAs = "TestRandom"

type liveFixture struct {
	t      *target
	fix    uint64
	fx     fixture
	digest string
	fresh  bool
}

func (l *liveFixture) ensure() error {
	if l.fx != nil {
		return nil
	}
	fx, err := l.t.Build(l.fix)
	if err != nil {
		return fmt.Errorf("harness: building the %s fixture: %w", l.t.Name, err)
	}
	d, err := fx.Digest()
	if err != nil {
		fx.Close()
		return fmt.Errorf("harness: digest of a fresh %s fixture: %w", l.t.Name, err)
	}
	l.fx, l.digest, l.fresh = fx, d, true
	vstat.Count("fixtures_built_"+l.t.Name, 1)
	return nil
}

func (l *liveFixture) drop() {
	if l.fx != nil {
		l.fx.Close()
		l.fx = nil
	}
}

// renew gives the next input a pristine fixture: a cheap reset where the fixture offers one.
func (l *liveFixture) renew() {
	if l.fx == nil {
		return
	}
	if r, ok := l.fx.(resetter); ok {
		if err := r.Reset(); err == nil {
			if d, err := l.fx.Digest(); err == nil && d == l.digest {
				l.fresh = true
				vstat.Count("fixtures_reset_"+l.t.Name, 1)
				return
			}
		}
	}
	l.drop()
}

func run(c Case) (vstat.Outcome, error) {
	var out vstat.Outcome
	t := targets[c.Target]
	if t == nil {
		return out, fmt.Errorf("harness: unknown target %q", c.Target)
	}
	writeCurrentCase(c)
	defer removeCurrentCase() // a verdict (pass or violation) follows: no longer 'the case that killed the process'
	l := &liveFixture{t: t, fix: c.Fix % uint64(max(t.Fixes, 1))}
	defer l.drop()
	for i, in := range c.Ins {
		if err := l.ensure(); err != nil {
			return out, err
		}
		v, data, label, ok := materialise(l.fx, in)
		if !ok {
			vstat.Count("mutations_not_applicable", 1)
			continue
		}
		v = mutate.Mod(v, len(t.Variants))
		if err := checkInput(l, c, i, v, data, label); err != nil {
			return out, err
		}
	}
	out.Sig = vstat.HashJSON(c)
	out.Classes = []string{"case"}
	return out, nil
}

// checkInput delivers one input and applies the oracle. A suspected violation observed on
// a fixture that already served other inputs is re-examined on a fresh fixture, alone.
func checkInput(l *liveFixture, c Case, idx, v int, data []byte, label string) error {
	t := l.t
	vname := t.Variants[v]
	fail := func(format string, a ...any) error {
		return fmt.Errorf("target %s/%s input #%d {%s, %d bytes} %s: %s", t.Name, vname, idx, label, len(data), short(data), fmt.Sprintf(format, a...))
	}
	armWatchdog(c, idx)
	res, g := guardedExec(l.fx, v, data)
	disarmWatchdog()
	verdict, sig := judge(l, res, g, data)
	if verdict != "" && strings.HasPrefix(sig, "alloc:") {
		// the allocation counter is process-wide (database background work, finalisers of earlier
		// fixtures): re-measure twice on pristine fixtures and keep the minimum
		for k := 0; k < 2 && verdict != ""; k++ {
			l.drop()
			if err := l.ensure(); err != nil {
				return err
			}
			armWatchdog(c, idx)
			resk, gk := guardedExec(l.fx, v, data)
			disarmWatchdog()
			if gk.alloc < g.alloc {
				g.alloc = gk.alloc
			}
			if gk.panicked != nil {
				res, g = resk, gk
			}
			verdict, sig = judge(l, res, g, data)
		}
		if verdict == "" {
			vstat.Count("alloc_noise_dismissed", 1)
		}
	} else if verdict != "" && !l.fresh {
		// re-run alone on a fresh fixture: the finding must not depend on earlier inputs
		l.drop()
		if err := l.ensure(); err != nil {
			return err
		}
		armWatchdog(c, idx)
		res2, g2 := guardedExec(l.fx, v, data)
		disarmWatchdog()
		verdict2, sig2 := judge(l, res2, g2, data)
		if verdict2 == "" {
			vstat.Count("suspicion_not_reproduced_on_fresh_fixture", 1)
			return fail("violation only after earlier inputs of the same case (fixture state corrupted by them?): %s", verdict)
		}
		res, g, verdict, sig = res2, g2, verdict2, sig2
	}
	classes := []string{"t-" + t.Name, "v-" + t.Name + "/" + vname, "m-" + t.Name + "/" + label}
	classes = append(classes, res.Classes...)
	excluded := ""
	if verdict != "" {
		if vstat.KnownSignature(prop, sig) {
			excluded = sig
			classes = append(classes, "known-finding-hit")
		} else if collectMode {
			// builder's survey mode (C11_COLLECT=1): list every distinct signature instead of stopping at the first
			excluded = sig
			vstat.Count("finding "+sig+" via "+t.Name+"/"+vname+" "+label, 1)
			if _, seen := collected[sig]; !seen {
				collected[sig] = struct{}{}
				fmt.Printf("COLLECT %s\n  %s\n", sig, strings.ReplaceAll(fail("%s", verdict).Error(), "\n", "\n  "))
			}
		} else {
			return fail("%s\n  signature: %s", verdict, sig)
		}
	}
	switch {
	case g.panicked != nil:
	case res.Err != nil:
		classes = append(classes, "rejected")
		if label == "valid" {
			classes = append(classes, "valid-rejected-"+t.Name)
		}
	default:
		classes = append(classes, "accepted")
		if label == "valid" {
			classes = append(classes, "valid-accepted")
		}
	}
	if res.Gate {
		classes = append(classes, "gate-"+t.Name)
	}
	vstat.Record(recordAs, vstat.Outcome{
		Sig:        vstat.Hash(t.Name, v, data),
		NonTrivial: res.Gate,
		Classes:    classes,
		Excluded:   excluded,
	}, func() any { return map[string]any{"target": t.Name, "variant": vname, "mutation": label, "len": len(data)} })

	// keep or renew the fixture: the next input must meet the pristine state. Whether the call
	// reported success or an error, an unchanged observable state means nothing was applied.
	l.fresh = false
	if g.panicked != nil {
		l.renew() // possibly half-applied
		return nil
	}
	d, err := l.fx.Digest()
	if err != nil || d != l.digest {
		l.renew()
	}
	return nil
}

// judge applies the oracle to one executed call. It returns a non-empty verdict (and a
// stable signature naming the root cause candidate) iff the property is violated.
func judge(l *liveFixture, res execResult, g guardResult, data []byte) (verdict, sig string) {
	if g.panicked != nil {
		frame := topFrame(g.stack)
		return fmt.Sprintf("PANIC: %v\n%s", g.panicked, trimStack(g.stack)), "panic:" + frame
	}
	if res.Viol != "" {
		return res.Viol, res.ViolSig
	}
	factor := uint64(l.t.AllocFactor)
	if factor == 0 {
		factor = 64
	}
	budget := uint64(allocBase) + factor*uint64(len(data)+res.Out)
	if g.alloc > budget {
		return fmt.Sprintf("allocated %d bytes during the call; budget %d (4 MiB + %d x (%d input + %d reply bytes))", g.alloc, budget, factor, len(data), res.Out), "alloc:" + l.t.Name
	}
	if res.Err != nil && !res.NoState {
		d, err := l.fx.Digest()
		if err != nil {
			return fmt.Sprintf("input rejected (%v) but the fixture state can no longer be read: %v", res.Err, err), "state:" + l.t.Name
		}
		if d != l.digest {
			return fmt.Sprintf("input rejected (%v) but the observable state changed:\n--- before\n%s\n--- after\n%s", res.Err, l.digest, d), "state:" + l.t.Name
		}
	}
	return "", ""
}

const allocBase = 4 << 20

var (
	collectMode = os.Getenv("C11_COLLECT") != ""
	collected   = map[string]struct{}{}
)

func short(b []byte) string {
	if len(b) > 48 {
		return fmt.Sprintf("%x…", b[:48])
	}
	return fmt.Sprintf("%x", b)
}

// ---- generators ---------------------------------------------------------------------

func genIn(rt *rapid.T, t *target, semantic []string) In {
	in := In{
		V:    rapid.IntRange(0, len(t.Variants)-1).Draw(rt, "v"),
		Base: rapid.IntRange(0, 63).Draw(rt, "base"),
		A:    rapid.IntRange(0, 1<<16).Draw(rt, "a"),
		B:    rapid.IntRange(0, 1<<12).Draw(rt, "b"),
	}
	// half of the inputs: semantic ("structurally valid but malicious") where the target has them
	if len(semantic) > 0 && rapid.IntRange(0, 9).Draw(rt, "sem") < 5 {
		in.Kind = rapid.SampledFrom(semantic).Draw(rt, "skind")
		in.C = rapid.IntRange(0, 63).Draw(rt, "c")
		return in
	}
	in.Kind = rapid.SampledFrom(genericKinds[1:]).Draw(rt, "kind")
	// repair flags: none / ids / ids+signature (wire mutants that reach the logic behind authentication)
	in.C = rapid.SampledFrom([]int{0, 0, 1, 3, 3}).Draw(rt, "repair") | rapid.IntRange(0, 63).Draw(rt, "c")<<2
	return in
}

func genCase(rt *rapid.T) Case {
	name := rapid.SampledFrom(targetNames).Draw(rt, "target")
	if only := os.Getenv("C11_TARGET"); only != "" {
		name = only
	}
	t := targets[name]
	c := Case{Target: name, Fix: uint64(rapid.IntRange(0, max(t.Fixes, 1)-1).Draw(rt, "fix"))}
	maxN := vstat.Pick(24, 40)
	if t.Heavy {
		maxN = vstat.Pick(12, 30)
	}
	n := rapid.IntRange(6, maxN).Draw(rt, "n")
	sem := semanticKinds(t)
	for i := 0; i < n; i++ {
		c.Ins = append(c.Ins, genIn(rt, t, sem))
	}
	return c
}

var semCache = map[string][]string{}

func semanticKinds(t *target) []string {
	if s, ok := semCache[t.Name]; ok {
		return s
	}
	fx, err := t.Build(0)
	if err != nil {
		panic(fmt.Sprintf("harness: building %s fixture: %v", t.Name, err))
	}
	defer fx.Close()
	s := fx.Semantic()
	semCache[t.Name] = s
	return s
}

// ---- tests --------------------------------------------------------------------------

func TestRandom(t *testing.T) {
	recordAs = t.Name()
	vstat.Check(t, prop, genCase, run)
}

// TestSweep enumerates, per target and per valid message, every truncation offset, three bit
// patterns at every byte (sampled for long messages), every single-field wire edit at every
// nesting level with and without repair, and every semantic mutation with a range of
// arguments. Sharded over (target, seed) pairs.
func TestSweep(t *testing.T) {
	recordAs = t.Name()
	shard, _ := strconv.Atoi(os.Getenv("VERIF_SHARD"))
	shards, _ := strconv.Atoi(os.Getenv("VERIF_SHARDS"))
	if shards <= 0 {
		shards = 1
	}
	vstat.Enumerate(t, prop, func(yield func(Case) bool) {
		k := 0
		for _, name := range targetNames {
			if only := os.Getenv("C11_TARGET"); only != "" && only != name {
				continue
			}
			tg := targets[name]
			for fix := 0; fix < max(tg.Fixes, 1); fix++ {
				fx, err := tg.Build(uint64(fix))
				if err != nil {
					t.Fatalf("harness: %v", err)
				}
				seeds := fx.Seeds()
				sem := fx.Semantic()
				fx.Close()
				seen := map[uint64]bool{}
				seenV := map[int]bool{}
				for si, s := range seeds {
					h := vstat.Hash(s.Data)
					first := !seen[h] && fix == 0 // other fixture variants see the same bytes: sparser byte-level sweep there
					seen[h] = true
					firstV := !seenV[s.V]
					seenV[s.V] = true
					k++
					if k%shards != shard {
						continue
					}
					semHere := sem
					if !firstV {
						semHere = nil // semantic mutants depend on the entry-point variant of the base, not on its bytes
					}
					for _, c := range sweepCases(name, uint64(fix), si, s, semHere, first) {
						if !yield(c) {
							return
						}
					}
				}
			}
		}
	}, run)
}

func sweepCases(name string, fix uint64, si int, s seed, sem []string, firstOfData bool) []Case {
	var ins []In
	heavy := targets[name].Heavy && !vstat.Thorough()
	n := len(s.Data)
	ins = append(ins, In{Base: si, Kind: "valid"})
	// truncation at every offset (sampled above a cap); bit patterns at sampled offsets
	step := 1
	if maxPos := vstat.Pick(160, 2000); n > maxPos {
		step = (n + maxPos - 1) / maxPos
	}
	fstep := 1
	if maxPos := vstat.Pick(24, 300); n > maxPos {
		fstep = (n + maxPos - 1) / maxPos
	}
	if !firstOfData {
		step, fstep = step*8, fstep*8 // the same bytes were swept through another entry-point variant already
	}
	if heavy {
		step, fstep = step*2, fstep*2
	}
	for pos := 0; pos < n; pos += step {
		ins = append(ins, In{Base: si, Kind: "trunc", A: pos})
	}
	for pos := 0; pos < n; pos += fstep {
		for m := 0; m < 3; m++ {
			ins = append(ins, In{Base: si, Kind: "flip", A: pos, B: m})
		}
	}
	if firstOfData {
		for b := 0; b < 24; b++ {
			ins = append(ins, In{Base: si, Kind: "cross", B: b})
		}
	}
	paths := mutate.IdxPaths(s.Data, 6, 400)
	maxOps := vstat.Pick(80, 1000)
	if heavy {
		maxOps = 30
	}
	var opIns []In
	for pi, p := range paths {
		inner, _ := mutate.GetAtIdx(s.Data, p)
		for oi := range mutate.Ops(inner) {
			for _, rep := range []int{0, 3} {
				opIns = append(opIns, In{Base: si, Kind: "op", A: pi, B: oi, C: rep})
			}
		}
	}
	if len(opIns) > maxOps {
		st := (len(opIns) + maxOps - 1) / maxOps
		var cut []In
		for i := 0; i < len(opIns); i += st {
			cut = append(cut, opIns[i])
		}
		opIns = cut
	}
	ins = append(ins, opIns...)
	for _, k := range sem {
		na := vstat.Pick(9, 24)
		if heavy {
			na = 5
		}
		for a := 0; a < na; a++ {
			for cc := 0; cc < vstat.Pick(2, 4); cc++ {
				ins = append(ins, In{Base: si, Kind: k, A: a, B: a*7 + cc, C: cc})
			}
		}
	}
	var out []Case
	const per = 64
	for i := 0; i < len(ins); i += per {
		out = append(out, Case{Target: name, Fix: fix, Ins: ins[i:min(i+per, len(ins))]})
	}
	return out
}

func TestReplay(t *testing.T) {
	recordAs = "TestReplay"
	replayMode = true
	if os.Getenv("VERIF_REPLAY") != "" && os.Getenv("C11_REPLAY_CHILD") == "" {
		// A saved case may kill the process (stack overflow, out of memory): replay it in a child so
		// that its death is reported as a failed replay instead of leaving no verdict.
		cmd := exec.Command(os.Args[0], "-test.run", "^TestReplay$", "-test.v", "-test.timeout", "560s")
		cmd.Env = append(os.Environ(), "C11_REPLAY_CHILD=1")
		out, err := cmd.CombinedOutput()
		text := string(out)
		if len(text) > 6000 {
			text = text[len(text)-6000:]
		}
		fmt.Println(text)
		switch {
		case strings.Contains(string(out), "REPLAY-FAILED"):
			t.Fatalf("replayed case violates %s", prop)
		case strings.Contains(string(out), "REPLAY-PASSED") && err == nil:
			return
		default:
			fmt.Printf("REPLAY-FAILED property=%s test=TestReplay (the replaying process died: %v)\n", prop, err)
			t.Fatalf("replayed case kills the process: %v", err)
		}
	}
	if p := os.Getenv("VERIF_REPLAY"); p != "" {
		if b, err := os.ReadFile(p); err == nil && strings.HasPrefix(string(b), "go test fuzz v1") {
			replayFuzzFile(t, p, b)
			return
		}
	}
	for _, name := range []string{"TestRandom", "TestSweep"} {
		t.Run(name, func(t *testing.T) { vstat.Replay(t, prop, name, run) })
	}
	// fatal / hang replays are written under the name of the test that was running; regressions too
	t.Run("Other", func(t *testing.T) {
		p := os.Getenv("VERIF_REPLAY")
		if p == "" {
			t.Skip("no VERIF_REPLAY")
		}
		b, _ := os.ReadFile(p)
		var hdr struct {
			Test string `json:"test"`
		}
		json.Unmarshal(b, &hdr)
		base := hdr.Test
		if i := strings.Index(base, "/"); i >= 0 {
			base = base[:i]
		}
		if base == "TestRandom" || base == "TestSweep" {
			t.Skip("handled above")
		}
		vstat.Replay(t, prop, hdr.Test, run)
	})
}
