package c11

// Native coverage-guided fuzz targets (thorough tier only): one per target, seeded with the
// valid messages of the fixture and with their semantic ("structurally valid but
// malicious") mutants. Input shape: a selector byte (fixture variant and entry-point
// variant) and the wire bytes delivered to the entry point. The oracle is the same
// checkInput the rapid tests use.

import (
	"sync/atomic"
	"testing"

	"verif/harness/internal/mutate"
	"verif/harness/internal/vstat"
)

type fuzzTarget struct {
	Fuzz   string
	Target string
}

var fuzzTargets = []*fuzzTarget{
	{"FuzzCrypto", "crypto"},
	{"FuzzAclRecord", "acl"},
	{"FuzzAclDecode", "acldecode"},
	{"FuzzTreeChanges", "tree"},
	{"FuzzTreeSync", "treesync"},
	{"FuzzKeyValue", "kv"},
	{"FuzzHeadSync", "headsync"},
	{"FuzzLdiffRemote", "ldiff"},
	{"FuzzSpacePayload", "space"},
	{"FuzzSnappy", "snappy"},
	{"FuzzHandshake", "handshake"},
	{"FuzzPubsub", "pubsub"},
}

// selector byte: low 5 bits entry-point variant, high 3 bits fixture variant
func selByte(fix uint64, v int) byte { return byte(fix&7)<<5 | byte(v&31) }

func fuzzCase(ft *fuzzTarget, sel byte, data []byte) Case {
	t := targets[ft.Target]
	return Case{Target: ft.Target, Fix: uint64(sel>>5) % uint64(max(t.Fixes, 1)), Ins: []In{{V: mutate.Mod(int(sel&31), len(t.Variants)), Kind: "raw", Raw: data}}}
}

var (
	fuzzExecs atomic.Int64
	fuzzLive  = map[string]*liveFixture{}
)

func fuzzRun(f *testing.F, ft *fuzzTarget) {
	t := targets[ft.Target]
	if t == nil {
		f.Skipf("target %s not built", ft.Target)
	}
	recordAs = ft.Fuzz
	// corpus: every distinct valid message once per entry-point variant and fixture variant, and a
	// sample of the semantic mutants; capped, because the fuzzing engine replays the whole corpus in
	// every worker before it starts mutating
	const maxCorpus = 240
	added := 0
	seen := map[uint64]bool{}
	add := func(sel byte, data []byte) {
		h := vstat.Hash(int(sel), data)
		if seen[h] || added >= maxCorpus || len(data) > 64<<10 {
			return
		}
		seen[h] = true
		added++
		f.Add(sel, data)
	}
	for fix := 0; fix < max(t.Fixes, 1); fix++ {
		fx, err := t.Build(uint64(fix))
		if err != nil {
			f.Fatalf("harness: %v", err)
		}
		seeds := fx.Seeds()
		for _, s := range seeds {
			add(selByte(uint64(fix), s.V), s.Data)
		}
		sem := fx.Semantic()
		for a := 0; a < 2; a++ {
			for ki, k := range sem {
				si := (ki*7 + a*3 + fix) % len(seeds)
				if v, data, _, ok := materialise(fx, In{Base: si, Kind: k, A: a + fix, B: a * 5, C: a}); ok {
					add(selByte(uint64(fix), v), data)
				}
			}
		}
		fx.Close()
	}
	f.Fuzz(func(tt *testing.T, sel byte, data []byte) {
		if len(data) > 1<<20 {
			return
		}
		c := fuzzCase(ft, sel, data)
		key := ft.Target + "/" + string(rune('0'+c.Fix))
		l := fuzzLive[key]
		if l == nil {
			l = &liveFixture{t: t, fix: c.Fix}
			fuzzLive[key] = l
		}
		writeCurrentCase(c)
		if err := l.ensure(); err != nil {
			tt.Fatal(err)
		}
		err := checkInput(l, c, 0, c.Ins[0].V, data, "fuzz")
		removeCurrentCase()
		if err != nil {
			l.drop()
			tt.Fatalf("property %s violated: %v", prop, err)
		}
		// workers are killed, not exited: write the counters every so often
		if n := fuzzExecs.Add(1); n%500 == 0 {
			vstat.Flush()
		}
	})
}

func FuzzCrypto(f *testing.F)       { fuzzRun(f, fuzzTargets[0]) }
func FuzzAclRecord(f *testing.F)    { fuzzRun(f, fuzzTargets[1]) }
func FuzzAclDecode(f *testing.F)    { fuzzRun(f, fuzzTargets[2]) }
func FuzzTreeChanges(f *testing.F)  { fuzzRun(f, fuzzTargets[3]) }
func FuzzTreeSync(f *testing.F)     { fuzzRun(f, fuzzTargets[4]) }
func FuzzKeyValue(f *testing.F)     { fuzzRun(f, fuzzTargets[5]) }
func FuzzHeadSync(f *testing.F)     { fuzzRun(f, fuzzTargets[6]) }
func FuzzLdiffRemote(f *testing.F)  { fuzzRun(f, fuzzTargets[7]) }
func FuzzSpacePayload(f *testing.F) { fuzzRun(f, fuzzTargets[8]) }
func FuzzSnappy(f *testing.F)       { fuzzRun(f, fuzzTargets[9]) }
func FuzzHandshake(f *testing.F)    { fuzzRun(f, fuzzTargets[10]) }
func FuzzPubsub(f *testing.F)       { fuzzRun(f, fuzzTargets[11]) }
