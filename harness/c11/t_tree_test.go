package c11

// Targets 1 and 2: tree changes and tree sync messages.
//
// A treesim world (3 accounts: owner, writer, reader; real any-store databases, real ACL,
// real SyncTrees) produces an honest history and, as marshalled bytes, everything an honest
// peer sends: head updates, a full-sync request, response streams, a new-tree response.
// The world is then frozen into a template (database files); every fixture is a copy of it:
//
//	victim A: replica 0, holds the tree (root .. snapshot s1 .. head c6), behind the peer
//	victim B: replica 2, does not hold the tree (new-tree path)

import (
	"context"
	"crypto/sha256"
	"encoding/json"
	"fmt"
	"os"
	"path/filepath"
	"sort"
	"strings"
	"sync"
	"testing"
	"time"

	anystore "github.com/anyproto/any-store"
	"google.golang.org/protobuf/proto"

	"github.com/anyproto/any-sync/commonspace/object/accountdata"
	"github.com/anyproto/any-sync/commonspace/object/acl/list"
	"github.com/anyproto/any-sync/commonspace/object/acl/recordverifier"
	"github.com/anyproto/any-sync/commonspace/object/tree/objecttree"
	"github.com/anyproto/any-sync/commonspace/object/tree/synctree"
	"github.com/anyproto/any-sync/commonspace/object/tree/treechangeproto"
	"github.com/anyproto/any-sync/commonspace/object/tree/treestorage"
	"github.com/anyproto/any-sync/commonspace/spacestorage"
	"github.com/anyproto/any-sync/commonspace/spacesyncproto"
	"github.com/anyproto/any-sync/commonspace/sync/objectsync/objectmessages"
	"github.com/anyproto/any-sync/commonspace/sync/syncdeps"
	"github.com/anyproto/any-sync/commonspace/syncstatus"
	"github.com/anyproto/any-sync/net/peer"
	"github.com/anyproto/any-sync/protobuf"
	"github.com/anyproto/any-sync/util/cidutil"
	"github.com/anyproto/any-sync/util/crypto"
	"github.com/anyproto/any-sync/util/crypto/cryptoproto"

	"verif/harness/internal/accounts"
	"verif/harness/internal/aclgen"
	"verif/harness/internal/mutate"
	"verif/harness/internal/treesim"
)

var treeVariants = []string{"AddRawChanges", "AddRawChanges+iterate", "ValidateRawTreeDefault"}
var treeSyncVariants = []string{"HandleHeadUpdate", "HandleStreamRequest", "HandleResponse", "NewTreeResponse"}

func init() {
	register(&target{Name: "tree", Variants: treeVariants, Fixes: 2, Heavy: true, Build: func(fix uint64) (fixture, error) { return newTreeFixture(fix, false) }})
	register(&target{Name: "treesync", Variants: treeSyncVariants, Fixes: 2, Heavy: true, Build: func(fix uint64) (fixture, error) { return newTreeFixture(fix, true) }})
}

// ---- template ---------------------------------------------------------------------------

type treeTemplate struct {
	dir       string
	shared    bool // lives in the run's scratch directory, shared with other processes: not removed here
	spaceId   string
	root      *treechangeproto.RawTreeChangeWithId
	keys      []*accountdata.AccountKeys
	encrypted bool
	seeds     [2][]seed // [0] target tree, [1] target treesync
	// what the victim knows (for building "structurally valid but malicious" changes)
	heads       []string
	snapshotId  string // root of the victim's in-memory tree (s1)
	oldChange   string // stored, but before the snapshot (trimmed from memory)
	plainChange string // in the in-memory tree, not a snapshot
	peerOnly    string // a change only the honest peer has
	aclHead     string
	aclRoot     string
	readKeyId   string
	honestData  []byte // ChangesData of an honest change (valid ciphertext when encrypted)
}

var (
	treeTplMu sync.Mutex
	treeTpl   = map[uint64]*treeTemplate{}
)

func peerName(i int) string { return fmt.Sprintf("peer-%d", i) }

func getTreeTemplate(fix uint64) (*treeTemplate, error) {
	treeTplMu.Lock()
	defer treeTplMu.Unlock()
	if t, ok := treeTpl[fix]; ok {
		return t, nil
	}
	t, err := sharedTreeTemplate(fix)
	if err != nil {
		return nil, err
	}
	treeTpl[fix] = t
	return t, nil
}

// templateDoc is the on-disk form of a template (next to the frozen database files), so that the
// shards of one run and the workers of a native fuzz campaign build the world once, not once each.
type templateDoc struct {
	SpaceId, RootId                                       string
	RootRaw                                               []byte
	Encrypted                                             bool
	SeedsTree, SeedsSync                                  []seedDoc
	Heads                                                 []string
	SnapshotId, OldChange, PlainChange, PeerOnly, AclHead string
	AclRoot, ReadKeyId                                    string
	HonestData                                            []byte
}

type seedDoc struct {
	V    int
	Name string
	Data []byte
}

func toDocs(ss []seed) (out []seedDoc) {
	for _, s := range ss {
		out = append(out, seedDoc{s.V, s.Name, s.Data})
	}
	return
}

func fromDocs(ds []seedDoc) (out []seed) {
	for _, d := range ds {
		out = append(out, seed{V: d.V, Name: d.Name, Data: d.Data})
	}
	return
}

func loadTemplate(dir string) (*treeTemplate, error) {
	b, err := os.ReadFile(filepath.Join(dir, "template.json"))
	if err != nil {
		return nil, err
	}
	var d templateDoc
	if err := json.Unmarshal(b, &d); err != nil {
		return nil, err
	}
	t := &treeTemplate{dir: dir, shared: true, spaceId: d.SpaceId, root: &treechangeproto.RawTreeChangeWithId{RawChange: d.RootRaw, Id: d.RootId}, encrypted: d.Encrypted,
		heads: d.Heads, snapshotId: d.SnapshotId, oldChange: d.OldChange, plainChange: d.PlainChange, peerOnly: d.PeerOnly, aclHead: d.AclHead, aclRoot: d.AclRoot,
		readKeyId: d.ReadKeyId, honestData: d.HonestData}
	t.seeds[0], t.seeds[1] = fromDocs(d.SeedsTree), fromDocs(d.SeedsSync)
	for i := 0; i < 3; i++ {
		t.keys = append(t.keys, accounts.Get(i)) // the accounts treesim gives its replicas
	}
	return t, nil
}

func saveTemplate(t *treeTemplate) error {
	d := templateDoc{SpaceId: t.spaceId, RootId: t.root.Id, RootRaw: t.root.RawChange, Encrypted: t.encrypted, SeedsTree: toDocs(t.seeds[0]), SeedsSync: toDocs(t.seeds[1]),
		Heads: t.heads, SnapshotId: t.snapshotId, OldChange: t.oldChange, PlainChange: t.plainChange, PeerOnly: t.peerOnly, AclHead: t.aclHead, AclRoot: t.aclRoot,
		ReadKeyId: t.readKeyId, HonestData: t.honestData}
	b, err := json.Marshal(d)
	if err != nil {
		return err
	}
	return os.WriteFile(filepath.Join(t.dir, "template.json"), b, 0o644)
}

// sharedTreeTemplate builds the template once per scratch directory: the first process takes a
// lock directory and builds, the others wait for the result (or build privately after 3 minutes).
func sharedTreeTemplate(fix uint64) (*treeTemplate, error) {
	if os.Getenv("C11_PRIVATE_TEMPLATE") != "" {
		return buildTreeTemplate(fix)
	}
	final := filepath.Join(os.TempDir(), fmt.Sprintf("c11-shared-tree-template-%d", fix))
	if t, err := loadTemplate(final); err == nil {
		return t, nil
	}
	lock := final + ".lock"
	if os.Mkdir(lock, 0o755) == nil {
		defer os.Remove(lock)
		t, err := buildTreeTemplate(fix)
		if err != nil {
			return nil, err
		}
		if err := saveTemplate(t); err != nil {
			return nil, err
		}
		if err := os.Rename(t.dir, final); err != nil {
			return t, nil // somebody else was faster: keep the private copy
		}
		t.dir, t.shared = final, true
		return t, nil
	}
	for i := 0; i < 1800; i++ {
		time.Sleep(100 * time.Millisecond)
		if t, err := loadTemplate(final); err == nil {
			return t, nil
		}
		if _, err := os.Stat(lock); err != nil {
			if t, err := loadTemplate(final); err == nil {
				return t, nil
			}
			break // the builder died without a result
		}
	}
	return buildTreeTemplate(fix)
}

func copyFiles(src, dst, prefix string) error {
	ents, err := os.ReadDir(src)
	if err != nil {
		return err
	}
	for _, e := range ents {
		if !strings.HasPrefix(e.Name(), prefix) || e.IsDir() {
			continue
		}
		b, err := os.ReadFile(filepath.Join(src, e.Name()))
		if err != nil {
			return err
		}
		if err := os.WriteFile(filepath.Join(dst, e.Name()), b, 0o644); err != nil {
			return err
		}
	}
	return nil
}

func buildTreeTemplate(fix uint64) (tpl *treeTemplate, err error) {
	enc := fix%2 == 1
	s, err := treesim.New(&testing.T{}, treesim.Options{N: 3, Seed: 4242 + fix, Encrypted: enc, Holders: 2, Perms: []int{aclgen.Writer, aclgen.Reader}})
	if err != nil {
		return nil, err
	}
	closed := false
	defer func() {
		if !closed {
			s.Close()
		}
	}()
	tpl = &treeTemplate{spaceId: s.SpaceId, root: s.Root, encrypted: enc}
	for _, r := range s.Replicas {
		tpl.keys = append(tpl.keys, r.Keys)
	}
	edit := func(r int, snap bool) (string, error) {
		res, err := s.Edit(r, snap, 40)
		if err != nil {
			return "", err
		}
		if len(res.Heads) != 1 {
			return "", fmt.Errorf("tree fixture: edit produced heads %v", res.Heads)
		}
		return res.Heads[0], nil
	}
	// deliver everything except what is addressed to the late joiner
	drain := func() error {
		for n := 0; n < 400; n++ {
			idx := -1
			for i, m := range s.InFlight {
				if m.To != 2 {
					idx = i
					break
				}
			}
			if idx < 0 {
				s.InFlight = nil
				return nil
			}
			if err := s.Step(idx, treesim.Deliver, 0); err != nil {
				return err
			}
		}
		return fmt.Errorf("tree fixture: network did not drain")
	}
	steps := []struct {
		r    int
		snap bool
		into *string
	}{{0, false, &tpl.oldChange}, {0, false, nil}, {1, false, nil}}
	for _, st := range steps {
		id, err := edit(st.r, st.snap)
		if err != nil {
			return nil, err
		}
		if st.into != nil {
			*st.into = id
		}
		if err := drain(); err != nil {
			return nil, err
		}
	}
	if tpl.snapshotId, err = edit(0, true); err != nil {
		return nil, err
	}
	if err = drain(); err != nil {
		return nil, err
	}
	// a fork and a merge
	if tpl.plainChange, err = edit(0, false); err != nil {
		return nil, err
	}
	if _, err = edit(1, false); err != nil {
		return nil, err
	}
	if err = drain(); err != nil {
		return nil, err
	}
	if _, err = edit(0, false); err != nil {
		return nil, err
	}
	if err = drain(); err != nil {
		return nil, err
	}
	v := s.Replicas[0]
	if len(s.HandlerErrs) != 0 {
		return nil, fmt.Errorf("tree fixture: honest history produced handler errors: %v", s.HandlerErrs)
	}
	tpl.heads = append([]string(nil), v.Tree.Heads()...)
	if got := v.Tree.Root().Id; got != tpl.snapshotId {
		return nil, fmt.Errorf("tree fixture: victim's in-memory root is %s, expected the snapshot %s", got, tpl.snapshotId)
	}
	tpl.aclHead = v.Acl.Head().Id
	tpl.aclRoot = v.Acl.Id()
	tpl.readKeyId = v.Acl.AclState().CurrentReadKeyId()

	// --- from here on the victim receives nothing: the peer moves ahead
	var ids []string
	for _, snap := range []bool{false, false, true, false} {
		id, err := edit(1, snap)
		if err != nil {
			return nil, err
		}
		ids = append(ids, id)
	}
	tpl.peerOnly = ids[1]
	addSeed := func(tgt, v int, name string, data []byte) {
		tpl.seeds[tgt] = append(tpl.seeds[tgt], seed{V: v, Name: name, Data: data})
	}
	innerOf := func(osm []byte) (*spacesyncproto.ObjectSyncMessage, *treechangeproto.TreeSyncMessage, error) {
		m := &spacesyncproto.ObjectSyncMessage{}
		if err := m.UnmarshalVT(osm); err != nil {
			return nil, nil, err
		}
		tm := &treechangeproto.TreeSyncMessage{}
		if err := tm.UnmarshalVT(m.Payload); err != nil {
			return nil, nil, err
		}
		return m, tm, nil
	}
	nHU := 0
	for _, m := range s.InFlight {
		if m.To != 0 || m.Kind != treesim.HeadUpdate {
			continue
		}
		_, tm, err := innerOf(m.Payload)
		if err != nil {
			return nil, err
		}
		hu := tm.GetContent().GetHeadUpdate()
		if hu == nil {
			return nil, fmt.Errorf("tree fixture: in-flight head update without head update content")
		}
		if len(hu.Changes) > 0 && tpl.honestData == nil {
			raw := &treechangeproto.RawTreeChange{}
			tc := &treechangeproto.TreeChange{}
			if raw.UnmarshalVT(hu.Changes[0].RawChange) == nil && tc.UnmarshalVT(raw.Payload) == nil {
				tpl.honestData = tc.ChangesData
			}
		}
		b, _ := hu.MarshalVT()
		addSeed(0, nHU%2, fmt.Sprintf("head-update-%d", nHU), b)
		addSeed(1, 0, fmt.Sprintf("head-update-%d", nHU), m.Payload)
		nHU++
	}
	if nHU < 3 {
		return nil, fmt.Errorf("tree fixture: only %d head updates in flight to the victim", nHU)
	}
	// the peer asks the victim for a full sync (request the victim must serve)
	s.InFlight = nil
	if err := s.SyncWithPeer(1, 0); err != nil {
		return nil, err
	}
	for _, m := range s.InFlight {
		if m.To == 0 && m.Kind == treesim.Request {
			addSeed(1, 1, "full-sync-request", m.Payload)
		}
	}
	// the victim asks the peer: the peer's response stream
	s.InFlight = nil
	if err := s.SyncWithPeer(0, 1); err != nil {
		return nil, err
	}
	for i, m := range s.InFlight {
		if m.To == 1 && m.Kind == treesim.Request {
			if err := s.Step(i, treesim.Deliver, 0); err != nil {
				return nil, err
			}
			break
		}
	}
	nResp := 0
	for _, m := range s.InFlight {
		if m.To == 0 && m.Kind == treesim.ResponseStream {
			for bi, b := range m.Stream {
				addSeed(1, 2, fmt.Sprintf("response-batch-%d", bi), b)
				_, tm, err := innerOf(b)
				if err != nil {
					return nil, err
				}
				if fr := tm.GetContent().GetFullSyncResponse(); fr != nil && len(fr.Changes) > 0 {
					hb, _ := (&treechangeproto.TreeHeadUpdate{Heads: fr.Heads, Changes: fr.Changes, SnapshotPath: fr.SnapshotPath}).MarshalVT()
					addSeed(0, 1, fmt.Sprintf("response-changes-%d", bi), hb)
				}
				nResp++
			}
		}
	}
	if nResp == 0 {
		return nil, fmt.Errorf("tree fixture: the peer served no response stream")
	}
	// also a request the way a peer with nothing sends it (empty heads) and a probe
	rf := synctree.NewRequestFactory(s.SpaceId)
	newTreeReq := rf.CreateNewTreeRequest(peerName(0), s.Root.Id)
	if pm, err := newTreeReq.Proto(); err == nil {
		b, _ := pm.(*spacesyncproto.ObjectSyncMessage).MarshalVT()
		addSeed(1, 1, "new-tree-request", b)
	}
	if pm, err := synctree.NewProbeRequest(peerName(0), s.SpaceId, s.Root.Id).Proto(); err == nil {
		b, _ := pm.(*spacesyncproto.ObjectSyncMessage).MarshalVT()
		addSeed(1, 1, "probe-request", b)
	}
	// the peer's answer to a new-tree request (what the late joiner would receive)
	{
		pm, err := rf.CreateNewTreeRequest(peerName(1), s.Root.Id).Proto()
		if err != nil {
			return nil, err
		}
		osm := pm.(*spacesyncproto.ObjectSyncMessage)
		rq := objectmessages.NewByteRequest(peerName(2), osm.SpaceId, osm.ObjectId, osm.Payload)
		var stream [][]byte
		_, err = s.Replicas[1].Tree.HandleStreamRequest(peer.CtxWithPeerId(context.Background(), peerName(2)), rq, noopUpdater{}, func(resp proto.Message) error {
			b, err := resp.(*spacesyncproto.ObjectSyncMessage).MarshalVT()
			stream = append(stream, b)
			return err
		})
		if err != nil || len(stream) == 0 {
			return nil, fmt.Errorf("tree fixture: peer did not serve the new-tree request: %v", err)
		}
		for bi, b := range stream {
			addSeed(1, 3, fmt.Sprintf("new-tree-response-%d", bi), b)
			_, tm, err := innerOf(b)
			if err != nil {
				return nil, err
			}
			tb, _ := tm.MarshalVT()
			addSeed(0, 2, fmt.Sprintf("new-tree-payload-%d", bi), tb)
		}
	}
	// freeze: close the databases and keep the files
	tpl.dir, err = os.MkdirTemp("", "c11-tree-template-")
	if err != nil {
		return nil, err
	}
	for _, r := range s.Replicas {
		if r.Tree != nil {
			r.Tree.Close()
		}
		r.DB.Close()
	}
	closed = true
	for _, i := range []int{0, 2} {
		if err := copyFiles(s.Scratch.Dir, tpl.dir, fmt.Sprintf("replica-%d.db", i)); err != nil {
			return nil, err
		}
	}
	s.Scratch.Remove()
	return tpl, nil
}

type noopUpdater struct{}

func (noopUpdater) UpdateQueueSize(size uint64, msgType int, add bool) {}

// ---- victims ----------------------------------------------------------------------------

// hostileClient is the victim's SyncClient: outgoing traffic is only counted; a tree request
// is answered with the stream the test wants the victim to receive.
type hostileClient struct {
	synctree.RequestFactory
	out    int
	stream [][]byte
}

func (c *hostileClient) Broadcast(ctx context.Context, hu *objectmessages.HeadUpdate) error {
	cp := hu.Copy().(*objectmessages.HeadUpdate)
	cp.SetPeerId("peer-x")
	if pm, err := cp.ProtoMessage(); err == nil {
		c.out += pm.(*spacesyncproto.ObjectSyncMessage).SizeVT()
	}
	return nil
}

func (c *hostileClient) QueueRequest(ctx context.Context, req syncdeps.Request) error {
	c.out += int(req.MsgSize())
	return nil
}

type protoSettable interface {
	SetProtoMessage(protobuf.Message) error
}

// SendTreeRequest mirrors sync.requestManager.SendRequest over a stream that yields c.stream.
func (c *hostileClient) SendTreeRequest(ctx context.Context, req syncdeps.Request, collector syncdeps.ResponseCollector) error {
	c.out += int(req.MsgSize())
	called := false
	for _, b := range c.stream {
		resp := collector.NewResponse()
		msg := &spacesyncproto.ObjectSyncMessage{}
		if err := msg.UnmarshalVT(b); err != nil {
			return err
		}
		if err := resp.(protoSettable).SetProtoMessage(msg); err != nil {
			return err
		}
		if err := collector.CollectResponse(ctx, req.PeerId(), req.ObjectId(), resp); err != nil {
			return err
		}
		called = true
	}
	if !called {
		return fmt.Errorf("EOF")
	}
	return nil
}

type victim struct {
	idx    int
	dir    string
	db     anystore.DB
	space  spacestorage.SpaceStorage
	acl    list.AclList
	tree   synctree.SyncTree
	client *hostileClient
}

func (f *treeFixture) openVictim(idx int) (*victim, error) {
	ctx := context.Background()
	dir, err := os.MkdirTemp("", "c11-victim-")
	if err != nil {
		return nil, err
	}
	v := &victim{idx: idx, dir: dir, client: &hostileClient{RequestFactory: synctree.NewRequestFactory(f.tpl.spaceId)}}
	fail := func(err error) (*victim, error) {
		v.close()
		return nil, err
	}
	name := fmt.Sprintf("replica-%d.db", idx)
	if err := copyFiles(f.tpl.dir, dir, name); err != nil {
		return fail(err)
	}
	if v.db, err = anystore.Open(ctx, filepath.Join(dir, name), nil); err != nil {
		return fail(err)
	}
	if v.space, err = spacestorage.New(ctx, f.tpl.spaceId, v.db); err != nil {
		return fail(err)
	}
	aclSt, err := v.space.AclStorage()
	if err != nil {
		return fail(err)
	}
	if v.acl, err = list.BuildAclListWithIdentity(f.tpl.keys[idx], aclSt, recordverifier.NewValidateFull()); err != nil {
		return fail(err)
	}
	if idx == 0 {
		if v.tree, err = synctree.BuildSyncTreeOrGetRemote(ctx, f.tpl.root.Id, v.deps(f.tpl.spaceId)); err != nil {
			return fail(fmt.Errorf("victim tree: %w", err))
		}
	}
	v.client.out = 0
	return v, nil
}

func (v *victim) deps(spaceId string) synctree.BuildDeps {
	return synctree.BuildDeps{
		SpaceId:         spaceId,
		SyncClient:      v.client,
		AclList:         v.acl,
		SpaceStorage:    v.space,
		OnClose:         func(string) {},
		SyncStatus:      syncstatus.NewNoOpSyncStatus(),
		BuildObjectTree: objecttree.BuildObjectTree,
	}
}

func (v *victim) close() {
	if v.tree != nil {
		v.tree.Close()
	}
	if v.db != nil {
		v.db.Close()
	}
	os.RemoveAll(v.dir)
}

// closeLater closes a used victim off the critical path (closing a database takes as long
// as opening the next one); pendingClose.Wait() is called at the end of every case.
var pendingClose sync.WaitGroup

func (v *victim) closeLater() {
	pendingClose.Add(1)
	go func() {
		defer pendingClose.Done()
		v.close()
	}()
}

func (v *victim) digest(rootId string) (string, error) {
	ctx := context.Background()
	if v.tree == nil {
		st, err := v.space.TreeStorage(ctx, rootId)
		if err == nil {
			st.Close()
		}
		return fmt.Sprintf("victim %d: tree-storage-err=%v\n", v.idx, err != nil), nil
	}
	var b strings.Builder
	heads := append([]string(nil), v.tree.Heads()...)
	sort.Strings(heads)
	fmt.Fprintf(&b, "victim %d: heads=%v root=%s len=%d\n", v.idx, heads, v.tree.Root().Id, v.tree.Len())
	st := v.tree.Storage()
	sh, err := st.Heads(ctx)
	if err != nil {
		return "", err
	}
	sort.Strings(sh)
	cs, err := st.CommonSnapshot(ctx)
	if err != nil {
		return "", err
	}
	fmt.Fprintf(&b, "storage heads=%v common=%s\n", sh, cs)
	err = st.GetAfterOrder(ctx, "", func(ctx context.Context, c objecttree.StorageChange) (bool, error) {
		fmt.Fprintf(&b, " %s %s sc=%d sn=%s %x\n", c.OrderId, c.Id, c.SnapshotCounter, c.SnapshotId, sha256.Sum256(c.RawChange))
		return true, nil
	})
	return b.String(), err
}

// ---- fixture ----------------------------------------------------------------------------

type treeFixture struct {
	tpl   *treeTemplate
	sync  bool // target treesync (else tree)
	a, b  *victim
	dirty [2]bool
}

func newTreeFixture(fix uint64, syncTarget bool) (*treeFixture, error) {
	tpl, err := getTreeTemplate(fix % 2)
	if err != nil {
		return nil, err
	}
	f := &treeFixture{tpl: tpl, sync: syncTarget}
	if f.a, err = f.openVictim(0); err != nil {
		return nil, err
	}
	if f.b, err = f.openVictim(2); err != nil {
		f.a.close()
		return nil, err
	}
	return f, nil
}

func (f *treeFixture) Seeds() []seed {
	if f.sync {
		return f.tpl.seeds[1]
	}
	return f.tpl.seeds[0]
}

func (f *treeFixture) Close() {
	f.a.close()
	f.b.close()
	pendingClose.Wait()
}

func (f *treeFixture) Reset() (err error) {
	if f.dirty[0] {
		f.a.closeLater()
		if f.a, err = f.openVictim(0); err != nil {
			return err
		}
	}
	if f.dirty[1] {
		f.b.closeLater()
		if f.b, err = f.openVictim(2); err != nil {
			return err
		}
	}
	f.dirty = [2]bool{}
	return nil
}

func (f *treeFixture) Digest() (string, error) {
	da, err := f.a.digest(f.tpl.root.Id)
	if err != nil {
		return "", err
	}
	db, err := f.b.digest(f.tpl.root.Id)
	return da + db, err
}

// ---- authentication probe / repair -------------------------------------------------------

func (f *treeFixture) signerFor(identity []byte) crypto.PrivKey {
	for _, k := range f.tpl.keys {
		if b, _ := k.SignKey.GetPublic().Marshall(); string(b) == string(identity) {
			return k.SignKey
		}
	}
	return nil
}

// changeAuthentic: CID and author signature hold (what changeBuilder.Unmarshall(verify) demands).
func changeAuthentic(ch *treechangeproto.RawTreeChangeWithId) bool {
	if ch == nil || !cidutil.VerifyCid(ch.RawChange, ch.Id) {
		return false
	}
	raw := &treechangeproto.RawTreeChange{}
	if raw.UnmarshalVT(ch.RawChange) != nil {
		return false
	}
	tc := &treechangeproto.TreeChange{}
	if tc.UnmarshalVT(raw.Payload) != nil {
		return false
	}
	pk, err := crypto.UnmarshalEd25519PublicKeyProto(tc.Identity)
	if err != nil {
		return false
	}
	ok, _ := pk.Verify(raw.Payload, raw.Signature)
	return ok
}

// repairChanges re-signs (bit1) and re-ids (bit0) the changes of a message in order,
// rewriting references to re-id'd changes in later changes and in the head list, so that
// a wire-mutated message is again internally consistent.
func (f *treeFixture) repairChanges(changes []*treechangeproto.RawTreeChangeWithId, heads []string, flags int) []string {
	renamed := map[string]string{}
	for _, ch := range changes {
		if ch == nil || ch.Id == f.tpl.root.Id {
			continue
		}
		raw := &treechangeproto.RawTreeChange{}
		if raw.UnmarshalVT(ch.RawChange) != nil {
			continue
		}
		tc := &treechangeproto.TreeChange{}
		if tc.UnmarshalVT(raw.Payload) == nil {
			touched := false
			for i, p := range tc.TreeHeadIds {
				if n, ok := renamed[p]; ok {
					tc.TreeHeadIds[i] = n
					touched = true
				}
			}
			if n, ok := renamed[tc.SnapshotBaseId]; ok {
				tc.SnapshotBaseId = n
				touched = true
			}
			if touched {
				raw.Payload, _ = tc.MarshalVT()
			}
			if flags&2 != 0 {
				if k := f.signerFor(tc.Identity); k != nil {
					raw.Signature, _ = k.Sign(raw.Payload)
				}
			}
			ch.RawChange, _ = raw.MarshalVT()
		}
		if flags&1 != 0 {
			if id, err := cidutil.NewCidFromBytes(ch.RawChange); err == nil && id != ch.Id {
				renamed[ch.Id] = id
				ch.Id = id
			}
		}
	}
	for i, h := range heads {
		if n, ok := renamed[h]; ok {
			heads[i] = n
		}
	}
	return heads
}

func (f *treeFixture) Repair(v int, data []byte, flags int) []byte {
	if !f.sync {
		if v == 2 {
			tm := &treechangeproto.TreeSyncMessage{}
			if tm.UnmarshalVT(data) != nil {
				return data
			}
			if fr := tm.GetContent().GetFullSyncResponse(); fr != nil {
				fr.Heads = f.repairChanges(fr.Changes, fr.Heads, flags)
			}
			b, _ := tm.MarshalVT()
			return b
		}
		hu := &treechangeproto.TreeHeadUpdate{}
		if hu.UnmarshalVT(data) != nil {
			return data
		}
		hu.Heads = f.repairChanges(hu.Changes, hu.Heads, flags)
		b, _ := hu.MarshalVT()
		return b
	}
	osm := &spacesyncproto.ObjectSyncMessage{}
	if osm.UnmarshalVT(data) != nil {
		return data
	}
	tm := &treechangeproto.TreeSyncMessage{}
	if tm.UnmarshalVT(osm.Payload) != nil {
		return data
	}
	switch {
	case tm.GetContent().GetHeadUpdate() != nil:
		x := tm.GetContent().GetHeadUpdate()
		x.Heads = f.repairChanges(x.Changes, x.Heads, flags)
	case tm.GetContent().GetFullSyncResponse() != nil:
		x := tm.GetContent().GetFullSyncResponse()
		x.Heads = f.repairChanges(x.Changes, x.Heads, flags)
	case tm.GetContent().GetFullSyncRequest() != nil:
		x := tm.GetContent().GetFullSyncRequest()
		x.Heads = f.repairChanges(x.Changes, x.Heads, flags)
	default:
		return data
	}
	osm.Payload, _ = tm.MarshalVT()
	b, _ := osm.MarshalVT()
	return b
}

// ---- semantic mutations ------------------------------------------------------------------

func (f *treeFixture) Semantic() []string {
	return []string{"dangling-parent", "dup-parent", "snapshot-base", "short-cipher", "unknown-read-key", "huge-prev", "acl-head", "signer", "identity-type", "chain", "no-root", "bad-root", "heads-lie", "snapshot-path", "request-heads"}
}

func fakeCid(n int) string {
	id, _ := cidutil.NewCidFromBytes([]byte(fmt.Sprintf("no-such-change-%d", n)))
	return id
}

// forge signs and ids a tree change the way changeBuilder.Build does.
func forgeChange(tc *treechangeproto.TreeChange, key crypto.PrivKey) *treechangeproto.RawTreeChangeWithId {
	if tc.Identity == nil {
		tc.Identity, _ = key.GetPublic().Marshall()
	}
	payload, _ := tc.MarshalVT()
	sig, _ := key.Sign(payload)
	rawB, _ := (&treechangeproto.RawTreeChange{Payload: payload, Signature: sig}).MarshalVT()
	id, _ := cidutil.NewCidFromBytes(rawB)
	return &treechangeproto.RawTreeChangeWithId{RawChange: rawB, Id: id}
}

// honest returns a template for a change an honest writer would put on the victim's heads.
func (f *treeFixture) honest(n int) *treechangeproto.TreeChange {
	t := f.tpl
	tc := &treechangeproto.TreeChange{
		TreeHeadIds:    append([]string(nil), t.heads...),
		AclHeadId:      t.aclHead,
		SnapshotBaseId: t.snapshotId,
		ChangesData:    []byte(fmt.Sprintf("hostile-%d", n)),
		Timestamp:      1_700_001_000 + int64(n),
		DataType:       "t",
	}
	if t.encrypted {
		tc.ReadKeyId = t.readKeyId
		tc.ChangesData = append([]byte(nil), t.honestData...)
	}
	return tc
}

// wrap puts changes into the container the base seed's entry point expects.
func (f *treeFixture) wrap(base seed, heads []string, changes []*treechangeproto.RawTreeChangeWithId, snapshotPath []string, root *treechangeproto.RawTreeChangeWithId) []byte {
	t := f.tpl
	if !f.sync {
		if base.V == 2 {
			b, _ := treechangeproto.WrapFullResponse(&treechangeproto.TreeFullSyncResponse{Heads: heads, Changes: changes, SnapshotPath: snapshotPath}, root).MarshalVT()
			return b
		}
		b, _ := (&treechangeproto.TreeHeadUpdate{Heads: heads, Changes: changes, SnapshotPath: snapshotPath}).MarshalVT()
		return b
	}
	var tm *treechangeproto.TreeSyncMessage
	switch base.V {
	case 0:
		tm = treechangeproto.WrapHeadUpdate(&treechangeproto.TreeHeadUpdate{Heads: heads, Changes: changes, SnapshotPath: snapshotPath}, root)
	case 1:
		tm = treechangeproto.WrapFullRequest(&treechangeproto.TreeFullSyncRequest{Heads: heads, Changes: changes, SnapshotPath: snapshotPath}, root)
	default:
		tm = treechangeproto.WrapFullResponse(&treechangeproto.TreeFullSyncResponse{Heads: heads, Changes: changes, SnapshotPath: snapshotPath}, root)
	}
	payload, _ := tm.MarshalVT()
	b, _ := (&spacesyncproto.ObjectSyncMessage{SpaceId: t.spaceId, ObjectId: t.root.Id, Payload: payload}).MarshalVT()
	return b
}

func (f *treeFixture) Mutate(in In, base seed) ([]byte, bool) {
	t := f.tpl
	writer, reader := t.keys[1].SignKey, t.keys[2].SignKey
	tc := f.honest(in.B)
	key := writer
	root := t.root
	var path []string
	single := func() ([]byte, bool) {
		ch := forgeChange(tc, key)
		return f.wrap(base, []string{ch.Id}, []*treechangeproto.RawTreeChangeWithId{ch}, path, root), true
	}
	newTree := (f.sync && base.V == 3) || (!f.sync && base.V == 2)
	if newTree {
		// the victim has nothing: hostile changes sit directly on the root
		tc.TreeHeadIds = []string{t.root.Id}
		tc.SnapshotBaseId = t.root.Id
	}
	switch in.Kind {
	case "dangling-parent":
		switch mutate.Mod(in.A, 4) {
		case 0:
			tc.TreeHeadIds = []string{fakeCid(in.B)}
		case 1:
			tc.TreeHeadIds = append(tc.TreeHeadIds, fakeCid(in.B))
		case 2:
			tc.TreeHeadIds = []string{""}
		default:
			tc.TreeHeadIds = nil // a non-root change without parents
		}
		return single()
	case "dup-parent":
		h := tc.TreeHeadIds[0]
		switch mutate.Mod(in.A, 3) {
		case 0:
			tc.TreeHeadIds = []string{h, h}
		case 1:
			tc.TreeHeadIds = []string{h, h, h}
		default:
			tc.TreeHeadIds = []string{h, t.snapshotId, h, t.snapshotId}
		}
		return single()
	case "snapshot-base":
		tc.SnapshotBaseId = []string{t.plainChange, fakeCid(in.B), t.oldChange, "", t.heads[0], t.root.Id, t.peerOnly}[mutate.Mod(in.A, 7)]
		tc.IsSnapshot = in.C&1 == 1
		return single()
	case "short-cipher":
		tc.ReadKeyId = t.readKeyId
		n := []int{0, 1, 11, 12, 13, 27, 28}[mutate.Mod(in.A, 7)]
		tc.ChangesData = make([]byte, n)
		copy(tc.ChangesData, t.honestData)
		if n == 0 && in.C&1 == 1 {
			tc.ChangesData = nil
		}
		return single()
	case "unknown-read-key":
		tc.ReadKeyId = []string{"no-such-key", t.aclRoot + "x", fakeCid(1)}[mutate.Mod(in.A, 3)]
		return single()
	case "huge-prev":
		n := []int{300, 300, 3000, 300, 3000, 20000}[mutate.Mod(in.A, 6)]
		for i := 0; i < n; i++ {
			if in.C&1 == 1 {
				tc.TreeHeadIds = append(tc.TreeHeadIds, t.heads[0])
			} else {
				tc.TreeHeadIds = append(tc.TreeHeadIds, fakeCid(i))
			}
		}
		return single()
	case "acl-head":
		tc.AclHeadId = []string{"", fakeCid(in.B), t.aclRoot, "x"}[mutate.Mod(in.A, 4)]
		return single()
	case "signer":
		switch mutate.Mod(in.A, 3) {
		case 0:
			key = reader // a member without write permission
		case 1:
			key = aclgenStranger(in.B) // never a member
		default:
			// identity says writer, signature is somebody else's
			tc.Identity, _ = writer.GetPublic().Marshall()
			key = reader
		}
		return single()
	case "identity-type":
		types := []cryptoproto.KeyType{cryptoproto.KeyType_AES, cryptoproto.KeyType_Ed25519Private, cryptoproto.KeyType_Ed25519Public, 3}
		tc.Identity = keyProto(types[mutate.Mod(in.A, 4)], []int{32, 64, 31, 0}[mutate.Mod(in.B, 4)], byte(in.B))
		if in.C&1 == 1 {
			tc.Identity = []byte{}
		}
		return single()
	case "chain":
		// several hostile changes in one message: c1 fine, c2 on (c1,c1) or on a sibling that is withheld
		c1 := forgeChange(tc, key)
		tc2 := f.honest(in.B + 1)
		tc2.SnapshotBaseId = tc.SnapshotBaseId
		switch mutate.Mod(in.A, 4) {
		case 0:
			tc2.TreeHeadIds = []string{c1.Id, c1.Id}
		case 1:
			tc2.TreeHeadIds = []string{c1.Id, fakeCid(in.B)}
		case 2:
			tc2.TreeHeadIds = []string{c1.Id}
			tc2.IsSnapshot = true
			tc2.SnapshotBaseId = c1.Id // snapshot based on a non-snapshot sent along
		default:
			tc2.TreeHeadIds = []string{c1.Id}
		}
		c2 := forgeChange(tc2, key)
		chs := []*treechangeproto.RawTreeChangeWithId{c1, c2}
		switch mutate.Mod(in.C, 4) {
		case 1:
			chs = []*treechangeproto.RawTreeChangeWithId{c2, c1} // children first
		case 2:
			chs = []*treechangeproto.RawTreeChangeWithId{c1, c2, c1, c2} // every change twice
		case 3:
			chs = []*treechangeproto.RawTreeChangeWithId{c2} // parent withheld
		}
		return f.wrap(base, []string{c2.Id}, chs, path, root), true
	case "no-root":
		root = nil
		if in.A%2 == 1 {
			root = &treechangeproto.RawTreeChangeWithId{}
		}
		return single()
	case "bad-root":
		switch mutate.Mod(in.A, 4) {
		case 0:
			root = &treechangeproto.RawTreeChangeWithId{RawChange: t.root.RawChange, Id: fakeCid(in.B)}
		case 1:
			root = &treechangeproto.RawTreeChangeWithId{RawChange: []byte("junk"), Id: t.root.Id}
		case 2:
			root = &treechangeproto.RawTreeChangeWithId{RawChange: nil, Id: t.root.Id}
		default:
			// somebody else's validly signed root
			other := forgeRoot(&treechangeproto.RootChange{AclHeadId: t.aclHead, SpaceId: t.spaceId, ChangeType: "x", Timestamp: 1, Seed: []byte{byte(in.B)}}, writer)
			root = other
			tc.TreeHeadIds = []string{other.Id}
			tc.SnapshotBaseId = other.Id
		}
		return single()
	case "heads-lie":
		ch := forgeChange(tc, key)
		heads := [][]string{nil, {fakeCid(in.B)}, {ch.Id, ch.Id}, {t.heads[0]}, {""}, {t.root.Id}}[mutate.Mod(in.A, 6)]
		return f.wrap(base, heads, []*treechangeproto.RawTreeChangeWithId{ch}, path, root), true
	case "snapshot-path":
		path = [][]string{{fakeCid(1)}, {t.plainChange}, {t.snapshotId, t.snapshotId}, {"", ""}, {t.root.Id, t.snapshotId}, {t.oldChange, t.root.Id}}[mutate.Mod(in.A, 6)]
		if in.C&1 == 1 {
			tc.SnapshotBaseId = t.oldChange // forces the rebuild-from-storage path that consults the path
		}
		return single()
	case "request-heads":
		// requests / empty updates that only talk about heads
		heads := [][]string{{fakeCid(in.B)}, {t.oldChange}, {t.heads[0], t.heads[0]}, {""}, append(append([]string(nil), t.heads...), fakeCid(2)), {t.plainChange, t.oldChange}}[mutate.Mod(in.A, 6)]
		path = [][]string{nil, {fakeCid(3)}, {t.snapshotId, t.root.Id}, {t.root.Id}, {t.plainChange}}[mutate.Mod(in.B, 5)]
		return f.wrap(base, heads, nil, path, root), true
	}
	return nil, false
}

func aclgenStranger(n int) crypto.PrivKey {
	return accounts.Key("tree-stranger", n%3)
}

func forgeRoot(rc *treechangeproto.RootChange, key crypto.PrivKey) *treechangeproto.RawTreeChangeWithId {
	rc.Identity, _ = key.GetPublic().Marshall()
	payload, _ := rc.MarshalVT()
	sig, _ := key.Sign(payload)
	rawB, _ := (&treechangeproto.RawTreeChange{Payload: payload, Signature: sig}).MarshalVT()
	id, _ := cidutil.NewCidFromBytes(rawB)
	return &treechangeproto.RawTreeChangeWithId{RawChange: rawB, Id: id}
}

// ---- exec ---------------------------------------------------------------------------------

func anyAuthentic(chs []*treechangeproto.RawTreeChangeWithId) bool {
	for _, c := range chs {
		if changeAuthentic(c) {
			return true
		}
	}
	return false
}

func convertLen(ch *objecttree.Change, decrypted []byte) (any, error) { return len(decrypted), nil }

// afterAccept: what the application and the next sync round do with an accepted input.
func (f *treeFixture) afterAccept(t synctree.SyncTree, res *execResult) {
	t.Lock()
	defer t.Unlock()
	if err := t.IterateRoot(convertLen, func(*objecttree.Change) bool { return true }); err != nil {
		res.Classes = append(res.Classes, "accepted-but-unreadable")
	}
	t.SnapshotPath()
	if it, err := t.ChangesAfterCommonSnapshotLoader(nil, nil); err == nil {
		for i := 0; i < 64; i++ {
			b, err := it.NextBatch(1 << 20)
			if err != nil || len(b.Batch) == 0 {
				break
			}
		}
	}
}

// newTreeLeftovers: ValidateRawTreeDefault stores the verified changes of a response before
// it compares the resulting heads with the announced ones, so a REJECTED new-tree response
// can leave (authentic) changes stored. That is a durability question (C10), not a crash /
// hang / allocation question; it is counted, and the stored tree must at least be loadable.
func (f *treeFixture) newTreeLeftovers(res *execResult) {
	if res.Err == nil {
		return
	}
	ctx := context.Background()
	st, err := f.b.space.TreeStorage(ctx, f.tpl.root.Id)
	if err != nil {
		return
	}
	res.Classes = append(res.Classes, "newtree-rejected-but-stored")
	defer st.Close()
	ot, err := objecttree.BuildObjectTree(st, f.b.acl)
	if err != nil {
		res.Classes = append(res.Classes, "newtree-leftover-unloadable")
		return
	}
	ot.Lock()
	ot.IterateRoot(convertLen, func(*objecttree.Change) bool { return true })
	ot.Unlock()
}

func (f *treeFixture) Exec(v int, data []byte) (res execResult) {
	ctx := peer.CtxWithPeerId(context.Background(), peerName(1))
	f.a.client.out, f.b.client.out = 0, 0
	defer func() { res.Out += f.a.client.out + f.b.client.out }()
	if !f.sync {
		switch v {
		case 0, 1:
			hu := &treechangeproto.TreeHeadUpdate{}
			if res.Err = hu.UnmarshalVT(data); res.Err != nil {
				return
			}
			res.Gate = anyAuthentic(hu.Changes)
			f.dirty[0] = true
			t := f.a.tree
			t.Lock()
			_, res.Err = t.AddRawChanges(ctx, objecttree.RawChangesPayload{NewHeads: hu.Heads, RawChanges: hu.Changes, SnapshotPath: hu.SnapshotPath})
			t.Unlock()
			if res.Err == nil && v == 1 {
				res.After = func(r *execResult) { f.afterAccept(t, r) }
			}
		default:
			tm := &treechangeproto.TreeSyncMessage{}
			if res.Err = tm.UnmarshalVT(data); res.Err != nil {
				return
			}
			fr := tm.GetContent().GetFullSyncResponse()
			if fr == nil {
				res.Err = fmt.Errorf("not a full sync response")
				return
			}
			res.Gate = anyAuthentic(fr.Changes) || (tm.RootChange != nil && cidutil.VerifyCid(tm.RootChange.RawChange, tm.RootChange.Id))
			f.dirty[1] = true
			res.NoState = true // see newTreeLeftovers
			f.b.acl.RLock()
			var ot objecttree.ObjectTree
			ot, res.Err = objecttree.ValidateRawTreeDefault(treestorage.TreeStorageCreatePayload{RootRawChange: tm.RootChange, Changes: fr.Changes, Heads: fr.Heads}, f.b.space, f.b.acl)
			f.b.acl.RUnlock()
			res.After = func(r *execResult) {
				if r.Err == nil && ot != nil {
					ot.Lock()
					ot.IterateRoot(convertLen, func(*objecttree.Change) bool { return true })
					ot.Unlock()
				}
				f.newTreeLeftovers(r)
			}
		}
		return
	}
	osm := &spacesyncproto.ObjectSyncMessage{}
	if res.Err = osm.UnmarshalVT(data); res.Err != nil {
		return
	}
	tm := &treechangeproto.TreeSyncMessage{}
	res.Gate = tm.UnmarshalVT(osm.Payload) == nil
	switch v {
	case 0:
		f.dirty[0] = true
		hu := &objectmessages.HeadUpdate{}
		if res.Err = hu.SetProtoMessage(osm); res.Err != nil {
			return
		}
		_, res.Err = f.a.tree.HandleHeadUpdate(ctx, syncstatus.NewNoOpSyncStatus(), hu)
		if res.Err == nil {
			res.After = func(r *execResult) { f.afterAccept(f.a.tree, r) }
		}
	case 1:
		res.Pure = true
		f.dirty[0] = true
		rq := objectmessages.NewByteRequest(peerName(1), osm.SpaceId, osm.ObjectId, osm.Payload)
		_, res.Err = f.a.tree.HandleStreamRequest(ctx, rq, noopUpdater{}, func(resp proto.Message) error {
			m, ok := resp.(*spacesyncproto.ObjectSyncMessage)
			if !ok {
				return fmt.Errorf("unexpected response type %T", resp)
			}
			b, err := m.MarshalVT()
			res.Out += len(b)
			return err
		})
	case 2:
		f.dirty[0] = true
		col := f.a.tree.ResponseCollector()
		resp := col.NewResponse()
		if res.Err = resp.(protoSettable).SetProtoMessage(osm); res.Err != nil {
			return
		}
		res.Err = col.CollectResponse(ctx, peerName(1), osm.ObjectId, resp)
		if res.Err == nil {
			res.After = func(r *execResult) { f.afterAccept(f.a.tree, r) }
		}
	default:
		// the victim lacks the tree and fetches it: the peer answers with this message
		f.dirty[1] = true
		res.NoState = true // see newTreeLeftovers
		f.b.client.stream = [][]byte{data}
		var t synctree.SyncTree
		t, res.Err = synctree.BuildSyncTreeOrGetRemote(ctx, f.tpl.root.Id, f.b.deps(f.tpl.spaceId))
		res.After = func(r *execResult) {
			if r.Err == nil {
				f.afterAccept(t, r)
				t.Close()
			}
			f.newTreeLeftovers(r)
		}
	}
	return
}
