package c11

// Target 5: encrypted key / metadata blobs and key encodings received from peers.

import (
	"bytes"
	"errors"
	"fmt"

	"github.com/anyproto/any-sync/util/crypto"
	"github.com/anyproto/any-sync/util/crypto/cryptoproto"

	"verif/harness/internal/accounts"
	"verif/harness/internal/detrand"
	"verif/harness/internal/mutate"
)

var cryptoVariants = []string{
	"privkey-decrypt", "aes-decrypt", "aes-decrypt-reuse",
	"ed25519-pub-proto", "ed25519-priv-proto", "aes-proto",
	"account-address", "peer-id", "network-id", "key-from-string", "pubkey-verify", "aes-key-string",
}

func init() {
	register(&target{Name: "crypto", Variants: cryptoVariants, Fixes: 1, Build: func(fix uint64) (fixture, error) {
		return newCryptoFixture()
	}})
}

type cryptoFixture struct {
	priv  crypto.PrivKey
	aes   *crypto.AESKey
	reuse []byte
	seeds []seed
}

func newCryptoFixture() (*cryptoFixture, error) {
	detrand.Seed(11)
	f := &cryptoFixture{priv: accounts.Get(0).SignKey}
	var err error
	if f.aes, err = crypto.NewRandomAES(); err != nil {
		return nil, err
	}
	pub := f.priv.GetPublic()
	add := func(v int, name string, data []byte, err error) {
		if err != nil {
			panic(err)
		}
		f.seeds = append(f.seeds, seed{V: v, Name: name, Data: data})
	}
	aesProto, err := f.aes.Marshall()
	add(5, "aes-proto", aesProto, err)
	ct, err := pub.Encrypt(aesProto) // an encrypted read key, as ACL records carry it
	add(0, "x25519-read-key", ct, err)
	ct, err = pub.Encrypt(nil)
	add(0, "x25519-empty-plaintext", ct, err)
	privProto, err := accounts.Key("meta", 1).Marshall()
	add(4, "priv-proto", privProto, err)
	ct, err = f.aes.Encrypt(privProto) // an encrypted metadata key
	add(1, "aes-metadata-key", ct, err)
	add(2, "aes-metadata-key", ct, nil)
	ct, err = f.aes.Encrypt(nil)
	add(1, "aes-empty-plaintext", ct, err)
	add(2, "aes-empty-plaintext", ct, nil)
	pubProto, err := pub.Marshall()
	add(3, "pub-proto", pubProto, err)
	add(6, "account-address", []byte(pub.Account()), nil)
	add(7, "peer-id", []byte(pub.PeerId()), nil)
	add(8, "network-id", []byte(pub.Network()), nil)
	s, err := crypto.EncodeKeyToString(f.priv)
	add(9, "priv-base64", []byte(s), err)
	sig, err := f.priv.Sign([]byte("message"))
	add(10, "signature", sig, err)
	add(11, "aes-string", []byte(f.aes.String()), nil)
	return f, nil
}

func (f *cryptoFixture) Seeds() []seed { return f.seeds }
func (f *cryptoFixture) Semantic() []string {
	return []string{"ct-len", "wrong-key-type", "key-data-len", "str-edit"}
}
func (f *cryptoFixture) Digest() (string, error)                     { return "", nil }
func (f *cryptoFixture) Close()                                      {}
func (f *cryptoFixture) Repair(v int, data []byte, flags int) []byte { return data }

func (f *cryptoFixture) Mutate(in In, base seed) ([]byte, bool) {
	switch in.Kind {
	case "ct-len":
		// ciphertext of every short length around the fixed header (32-byte ephemeral key + 16 tag; 12-byte nonce + 16 tag)
		n := mutate.Mod(in.A, 66)
		if in.C&1 == 0 {
			if n > len(base.Data) {
				n = len(base.Data)
			}
			return append([]byte(nil), base.Data[:n]...), true
		}
		return bytes.Repeat([]byte{byte(in.B)}, n), true
	case "wrong-key-type", "key-data-len":
		k := &cryptoproto.Key{}
		if err := k.UnmarshalVT(base.Data); err != nil || len(k.Data) == 0 {
			// not a key proto: make one from scratch
			raw, _ := f.priv.Raw()
			k = &cryptoproto.Key{Type: cryptoproto.KeyType_Ed25519Private, Data: raw}
		}
		if in.Kind == "wrong-key-type" {
			k.Type = cryptoproto.KeyType(mutate.Mod(int(k.Type)+1+mutate.Mod(in.A, 3), 4)) // incl. the undefined type 3
		} else {
			n := []int{0, 1, 31, 32, 33, 63, 64, 65, 95, 96, 97, 128}[mutate.Mod(in.A, 12)]
			d := make([]byte, n)
			copy(d, k.Data)
			k.Data = d
		}
		b, _ := k.MarshalVT()
		return b, true
	case "str-edit":
		eds := mutate.StringEdits(string(base.Data), in.A)
		if len(eds) == 0 {
			return nil, false
		}
		return []byte(eds[mutate.Mod(in.B, len(eds))]), true
	}
	return nil, false
}

var errHarness = errors.New("harness")

func (f *cryptoFixture) Exec(v int, data []byte) (res execResult) {
	res.NoState = true
	keyGate := func() bool {
		k := &cryptoproto.Key{}
		return k.UnmarshalVT(data) == nil
	}
	switch cryptoVariants[v] {
	case "privkey-decrypt":
		res.Gate = len(data) >= 32+16
		_, res.Err = f.priv.Decrypt(data)
	case "aes-decrypt":
		res.Gate = len(data) >= crypto.NonceBytes+16
		_, res.Err = f.aes.Decrypt(data)
	case "aes-decrypt-reuse":
		res.Gate = len(data) >= crypto.NonceBytes+16
		var out []byte
		out, res.Err = f.aes.DecryptReuse(f.reuse, data)
		if res.Err == nil {
			f.reuse = out
		}
	case "ed25519-pub-proto":
		res.Gate = keyGate()
		var pk crypto.PubKey
		pk, res.Err = crypto.UnmarshalEd25519PublicKeyProto(data)
		if res.Err == nil {
			// whatever was accepted must be usable the way ACL / tree code uses it
			pk.Verify([]byte("m"), data)
			pk.Encrypt([]byte("x"))
			pk.Account()
			pk.PeerId()
			pk.Network()
			pk.Marshall()
			pk.Equals(f.priv.GetPublic())
			f.priv.GetPublic().Equals(pk)
		}
	case "ed25519-priv-proto":
		res.Gate = keyGate()
		var sk crypto.PrivKey
		sk, res.Err = crypto.UnmarshalEd25519PrivateKeyProto(data)
		if res.Err == nil {
			sk.Sign([]byte("m"))
			sk.GetPublic().Account()
			sk.Decrypt(f.seeds[1].Data)
			sk.Marshall()
			sk.Equals(f.priv)
		}
	case "aes-proto":
		res.Gate = keyGate()
		var k *crypto.AESKey
		k, res.Err = crypto.UnmarshallAESKeyProto(data)
		if res.Err == nil {
			ct, err := k.Encrypt([]byte("x"))
			if err == nil {
				k.Decrypt(ct)
			}
			k.Decrypt(f.seeds[4].Data)
		}
	case "account-address":
		res.Gate = len(data) > 3
		_, res.Err = crypto.DecodeAccountAddress(string(data))
	case "peer-id":
		res.Gate = len(data) > 3
		_, res.Err = crypto.DecodePeerId(string(data))
	case "network-id":
		res.Gate = len(data) > 3
		_, res.Err = crypto.DecodeNetworkId(string(data))
	case "key-from-string":
		_, berr := crypto.DecodeBytesFromString(string(data))
		res.Gate = berr == nil
		var sk crypto.PrivKey
		sk, res.Err = crypto.DecodeKeyFromString(string(data), crypto.UnmarshalEd25519PrivateKey, nil)
		if res.Err == nil {
			sk.Sign([]byte("m"))
			sk.Decrypt(f.seeds[1].Data)
		}
		if pk, err := crypto.DecodeKeyFromString(string(data), crypto.UnmarshalEd25519PublicKey, nil); err == nil {
			pk.Verify([]byte("m"), data)
			pk.Encrypt([]byte("x"))
		}
	case "pubkey-verify":
		res.Gate = len(data) == 64
		ok, err := f.priv.GetPublic().Verify([]byte("message"), data)
		if err == nil && !ok {
			err = fmt.Errorf("bad signature")
		}
		res.Err = err
	case "aes-key-string":
		res.Gate = len(data) > 1
		var k *crypto.AESKey
		k, res.Err = crypto.UnmarshallAESKeyString(string(data))
		if res.Err == nil {
			k.Decrypt(f.seeds[4].Data)
		}
	default:
		res.Err = errHarness
	}
	return
}
