package c11

// Target 7: head-sync.
//
//	headsync : headsync.HandleRangeRequest / keyvalue.HandleRangeRequest on hostile requests
//	           (inverted / zero-width / overlapping ranges, huge limits, many ranges)
//	ldiff    : the local side of Diff / CompareDiff against a HOSTILE Remote. The input is a
//	           script of HeadSyncResponse messages the remote answers with, round after round
//	           (through the real headsync / keyvalue RemoteDiff conversion). The local diff must
//	           terminate: an honest exchange over a 64-bit key space needs a few dozen rounds;
//	           maxRounds remote calls without an end is reported as non-termination.

import (
	"context"
	"errors"
	"fmt"
	"math"
	"sync"

	"github.com/anyproto/any-sync/app/ldiff"
	"github.com/anyproto/any-sync/commonspace/headsync"
	"github.com/anyproto/any-sync/commonspace/object/keyvalue"
	"github.com/anyproto/any-sync/commonspace/spacesyncproto"

	"verif/harness/internal/mutate"
)

var headSyncVariants = []string{"headsync.HandleRangeRequest", "keyvalue.HandleRangeRequest"}
var ldiffVariants = []string{"Diff/headsync-remote", "CompareDiff/keyvalue-remote"}

const maxRounds = 400

func init() {
	// a range is 4-10 bytes on the wire and costs about 1.1 KB to answer (a 16-element buffer plus the
	// result structs): linear in the request, with a constant above the default 64
	register(&target{Name: "headsync", Variants: headSyncVariants, Fixes: 1, AllocFactor: 256, Build: func(fix uint64) (fixture, error) { return newHeadSyncFixture(false) }})
	register(&target{Name: "ldiff", Variants: ldiffVariants, Fixes: 1, Build: func(fix uint64) (fixture, error) { return newHeadSyncFixture(true) }})
}

type headSyncWorld struct {
	local, peer ldiff.Diff
	reqSeeds    []seed // requests an honest initiator sends
	respSeeds   []seed // scripts of the responses an honest peer gives
}

var (
	hsOnce sync.Once
	hsW    *headSyncWorld
	hsErr  error
)

func newLdiff(n, shift int) ldiff.Diff {
	d := ldiff.New(16, 16)
	var els []ldiff.Element
	for i := 0; i < n; i++ {
		head := fmt.Sprintf("head-%d", i)
		if i%7 == shift {
			head += "-changed"
		}
		if i%11 == shift+1 {
			continue
		}
		els = append(els, ldiff.Element{Id: fmt.Sprintf("object-%04d", i), Head: head})
	}
	d.Set(els...)
	return d
}

// recordingClient serves HeadSync / StoreDiff from a real peer diff and records the traffic.
type recordingClient struct {
	peer  ldiff.Diff
	reqs  [][]byte
	resps [][]byte
}

func (c *recordingClient) HeadSync(ctx context.Context, in *spacesyncproto.HeadSyncRequest) (*spacesyncproto.HeadSyncResponse, error) {
	b, _ := in.MarshalVT()
	c.reqs = append(c.reqs, b)
	resp, err := headsync.HandleRangeRequest(ctx, c.peer, in)
	if err == nil {
		rb, _ := resp.MarshalVT()
		c.resps = append(c.resps, rb)
	}
	return resp, err
}

func (c *recordingClient) StoreDiff(ctx context.Context, in *spacesyncproto.StoreDiffRequest) (*spacesyncproto.StoreDiffResponse, error) {
	b, _ := in.MarshalVT()
	c.reqs = append(c.reqs, b)
	resp, err := keyvalue.HandleRangeRequest(ctx, c.peer, in)
	if err == nil {
		rb, _ := (&spacesyncproto.HeadSyncResponse{Results: resp.Results}).MarshalVT()
		c.resps = append(c.resps, rb)
	}
	return resp, err
}

// script: repeated field 1 = one scripted round: byte 0 = mode (bit0: fit the number of
// results to the number of ranges asked by cycling), rest = HeadSyncResponse bytes.
func encodeScript(rounds [][]byte, mode byte) []byte {
	var out []byte
	for _, r := range rounds {
		out = append(out, mutate.EncodeBytesField(1, append([]byte{mode}, r...))...)
	}
	return out
}

func decodeScript(data []byte) (rounds [][]byte) {
	fs, ok := mutate.Parse(data)
	if !ok {
		return nil
	}
	for _, f := range fs {
		if f.Num == 1 && f.Wire == mutate.WireBytes && f.End > f.ValStart {
			rounds = append(rounds, data[f.ValStart:f.End])
		}
	}
	return
}

func getHeadSyncWorld() (*headSyncWorld, error) {
	hsOnce.Do(func() {
		w := &headSyncWorld{local: newLdiff(400, 0), peer: newLdiff(400, 2)}
		ctx := context.Background()
		rc := &recordingClient{peer: w.peer}
		if _, _, _, err := w.local.Diff(ctx, headsync.NewRemoteDiff("space", rc)); err != nil {
			hsErr = err
			return
		}
		for i, b := range rc.reqs {
			w.reqSeeds = append(w.reqSeeds, seed{V: 0, Name: fmt.Sprintf("diff-round-%d", i), Data: b})
		}
		w.respSeeds = append(w.respSeeds, seed{V: 0, Name: "honest-diff", Data: encodeScript(rc.resps, 0)})
		rc2 := &recordingClient{peer: w.peer}
		if _, _, _, _, err := w.local.(ldiff.CompareDiff).CompareDiff(ctx, keyvalue.NewRemoteDiff("space", rc2)); err != nil {
			hsErr = err
			return
		}
		for i, b := range rc2.reqs {
			w.reqSeeds = append(w.reqSeeds, seed{V: 1, Name: fmt.Sprintf("compare-round-%d", i), Data: b})
		}
		w.respSeeds = append(w.respSeeds, seed{V: 1, Name: "honest-compare", Data: encodeScript(rc2.resps, 0)})
		if len(rc.reqs) < 2 || len(rc2.reqs) < 2 {
			hsErr = fmt.Errorf("headsync fixture: honest exchange took %d / %d rounds (too few to be interesting)", len(rc.reqs), len(rc2.reqs))
		}
		hsW = w
	})
	return hsW, hsErr
}

type headSyncFixture struct {
	w     *headSyncWorld
	ldiff bool
}

func newHeadSyncFixture(isLdiff bool) (*headSyncFixture, error) {
	w, err := getHeadSyncWorld()
	if err != nil {
		return nil, err
	}
	return &headSyncFixture{w: w, ldiff: isLdiff}, nil
}

func (f *headSyncFixture) Seeds() []seed {
	if f.ldiff {
		return f.w.respSeeds
	}
	return f.w.reqSeeds
}
func (f *headSyncFixture) Close()                                      {}
func (f *headSyncFixture) Repair(v int, data []byte, flags int) []byte { return data }
func (f *headSyncFixture) Digest() (string, error) {
	return fmt.Sprintf("%s/%d", f.w.local.Hash(), f.w.local.Len()), nil
}

func (f *headSyncFixture) Semantic() []string {
	if f.ldiff {
		return []string{"never-equal", "count-lies", "wrong-result-count", "elements-forever", "huge-elements", "honest-then-lie"}
	}
	return []string{"inverted", "zero-width", "overlapping", "huge-limit", "many-ranges", "elements-everywhere"}
}

func (f *headSyncFixture) Mutate(in In, base seed) ([]byte, bool) {
	if !f.ldiff {
		var rs []*spacesyncproto.HeadSyncRange
		switch in.Kind {
		case "inverted":
			rs = []*spacesyncproto.HeadSyncRange{{From: math.MaxUint64, To: 0, Elements: in.C&1 == 1}, {From: uint64(in.A) + 10, To: uint64(in.A), Elements: true}}
		case "zero-width":
			x := []uint64{0, math.MaxUint64, 1 << 63, uint64(in.B)}[mutate.Mod(in.A, 4)]
			rs = []*spacesyncproto.HeadSyncRange{{From: x, To: x, Elements: in.C&1 == 1}}
		case "overlapping":
			for i := 0; i < 8; i++ {
				rs = append(rs, &spacesyncproto.HeadSyncRange{From: uint64(i) << 58, To: math.MaxUint64 - uint64(i), Elements: i%2 == in.C&1})
			}
		case "huge-limit":
			rs = []*spacesyncproto.HeadSyncRange{{From: 0, To: math.MaxUint64, Limit: math.MaxUint32, Elements: true}, {From: 0, To: math.MaxUint64, Limit: 1}}
		case "many-ranges":
			n := []int{100, 2000, 20000}[mutate.Mod(in.A, 3)]
			for i := 0; i < n; i++ {
				rs = append(rs, &spacesyncproto.HeadSyncRange{From: uint64(i), To: uint64(i) + uint64(in.B)})
			}
		case "elements-everywhere":
			n := []int{4, 64, 512}[mutate.Mod(in.A, 3)]
			for i := 0; i < n; i++ {
				rs = append(rs, &spacesyncproto.HeadSyncRange{From: 0, To: math.MaxUint64, Elements: true})
			}
		default:
			return nil, false
		}
		if base.V == 0 {
			b, _ := (&spacesyncproto.HeadSyncRequest{SpaceId: "space", Ranges: rs, DiffType: spacesyncproto.DiffType_V3}).MarshalVT()
			return b, true
		}
		b, _ := (&spacesyncproto.StoreDiffRequest{SpaceId: "space", Ranges: rs}).MarshalVT()
		return b, true
	}
	junkHash := func(i int) []byte { return []byte(fmt.Sprintf("never-equal-hash-%d-%d", in.B, i)) }
	var rounds [][]byte
	mode := byte(1)
	switch in.Kind {
	case "never-equal":
		// every range: a hash that never matches, a count that says "too many to list"
		r := &spacesyncproto.HeadSyncResponse{Results: []*spacesyncproto.HeadSyncResult{{Hash: junkHash(0), Count: uint32(17 + in.A%1000)}}}
		b, _ := r.MarshalVT()
		rounds = [][]byte{b}
	case "count-lies":
		// count and elements disagree
		els := []*spacesyncproto.HeadSyncResultElement{{Id: "object-0001", Head: "x"}, {Id: "ghost", Head: "y"}}
		r := &spacesyncproto.HeadSyncResponse{Results: []*spacesyncproto.HeadSyncResult{{Hash: junkHash(1), Count: uint32([]int{0, 1, 3, 1 << 30}[mutate.Mod(in.A, 4)]), Elements: els}}}
		b, _ := r.MarshalVT()
		rounds = [][]byte{b}
	case "wrong-result-count":
		mode = 0
		n := []int{0, 1, 15, 17, 300}[mutate.Mod(in.A, 5)]
		r := &spacesyncproto.HeadSyncResponse{}
		for i := 0; i < n; i++ {
			r.Results = append(r.Results, &spacesyncproto.HeadSyncResult{Hash: junkHash(i), Count: 100})
		}
		b, _ := r.MarshalVT()
		rounds = [][]byte{b}
	case "elements-forever":
		// asked for elements, the remote keeps answering with a count only (or with zero of N)
		r := &spacesyncproto.HeadSyncResponse{Results: []*spacesyncproto.HeadSyncResult{{Hash: junkHash(2), Count: uint32(1 + in.A%16)}}}
		b, _ := r.MarshalVT()
		r2 := &spacesyncproto.HeadSyncResponse{Results: []*spacesyncproto.HeadSyncResult{{Hash: nil, Count: 5}}}
		b2, _ := r2.MarshalVT()
		rounds = [][]byte{b, b2}
	case "huge-elements":
		n := []int{100, 5000}[mutate.Mod(in.A, 2)]
		res := &spacesyncproto.HeadSyncResult{Hash: junkHash(3), Count: uint32(n)}
		for i := 0; i < n; i++ {
			res.Elements = append(res.Elements, &spacesyncproto.HeadSyncResultElement{Id: fmt.Sprintf("ghost-%d", i), Head: "h"})
		}
		b, _ := (&spacesyncproto.HeadSyncResponse{Results: []*spacesyncproto.HeadSyncResult{res}}).MarshalVT()
		rounds = [][]byte{b}
	case "honest-then-lie":
		honest := decodeScript(base.Data)
		k := mutate.Mod(in.A, len(honest)+1)
		for _, h := range honest[:k] {
			rounds = append(rounds, h[1:])
		}
		r := &spacesyncproto.HeadSyncResponse{Results: []*spacesyncproto.HeadSyncResult{{Hash: junkHash(4), Count: 40}}}
		b, _ := r.MarshalVT()
		out := encodeScript(rounds, 0)
		return append(out, encodeScript([][]byte{b}, 1)...), true
	default:
		return nil, false
	}
	return encodeScript(rounds, mode), true
}

var errTooManyRounds = errors.New("harness: remote was asked more than maxRounds times")

// scriptedClient answers round k with script[k] (the last entry repeats for ever).
type scriptedClient struct {
	script [][]byte
	round  int
	in     int
}

func (c *scriptedClient) next(nRanges int) (*spacesyncproto.HeadSyncResponse, error) {
	if c.round >= maxRounds {
		return nil, errTooManyRounds
	}
	if len(c.script) == 0 {
		return nil, fmt.Errorf("empty script")
	}
	e := c.script[min(c.round, len(c.script)-1)]
	c.round++
	resp := &spacesyncproto.HeadSyncResponse{}
	if err := resp.UnmarshalVT(e[1:]); err != nil {
		return nil, err
	}
	if e[0]&1 == 1 && len(resp.Results) > 0 {
		fit := make([]*spacesyncproto.HeadSyncResult, nRanges)
		for i := range fit {
			fit[i] = resp.Results[i%len(resp.Results)]
		}
		resp.Results = fit
	}
	// what the remote puts on the wire in this round: in "fit" mode one scripted result is repeated
	// for every range the local side asked about (16, then 256, ... per round), so the bytes received
	// are a multiple of the script entry; the allocation budget is about bytes actually received
	c.in += resp.SizeVT()
	return resp, nil
}

func (c *scriptedClient) HeadSync(ctx context.Context, in *spacesyncproto.HeadSyncRequest) (*spacesyncproto.HeadSyncResponse, error) {
	resp, err := c.next(len(in.Ranges))
	if err == nil {
		resp.DiffType = spacesyncproto.DiffType_V3
	}
	return resp, err
}

func (c *scriptedClient) StoreDiff(ctx context.Context, in *spacesyncproto.StoreDiffRequest) (*spacesyncproto.StoreDiffResponse, error) {
	resp, err := c.next(len(in.Ranges))
	if err != nil {
		return nil, err
	}
	return &spacesyncproto.StoreDiffResponse{Results: resp.Results}, nil
}

func (f *headSyncFixture) Exec(v int, data []byte) (res execResult) {
	ctx := context.Background()
	res.Pure = true
	if !f.ldiff {
		if v == 0 {
			req := &spacesyncproto.HeadSyncRequest{}
			if res.Err = req.UnmarshalVT(data); res.Err != nil {
				return
			}
			res.Gate = true
			var resp *spacesyncproto.HeadSyncResponse
			resp, res.Err = headsync.HandleRangeRequest(ctx, f.w.local, req)
			if resp != nil {
				res.Out = resp.SizeVT()
			}
			return
		}
		req := &spacesyncproto.StoreDiffRequest{}
		if res.Err = req.UnmarshalVT(data); res.Err != nil {
			return
		}
		res.Gate = true
		var resp *spacesyncproto.StoreDiffResponse
		resp, res.Err = keyvalue.HandleRangeRequest(ctx, f.w.local, req)
		if resp != nil {
			res.Out = resp.SizeVT()
		}
		return
	}
	sc := &scriptedClient{script: decodeScript(data)}
	res.Gate = len(sc.script) > 0
	if v == 0 {
		_, _, _, res.Err = f.w.local.Diff(ctx, headsync.NewRemoteDiff("space", sc))
	} else {
		_, _, _, _, res.Err = f.w.local.(ldiff.CompareDiff).CompareDiff(ctx, keyvalue.NewRemoteDiff("space", sc))
	}
	// what the remote sent over all rounds is input too (the script's last entry repeats)
	res.Out = sc.in
	res.Classes = append(res.Classes, fmt.Sprintf("ldiff-rounds-%s", bucket(sc.round)))
	if errors.Is(res.Err, errTooManyRounds) {
		res.violate("hang:ldiff-remote-rounds", "the local diff is still asking the remote after %d rounds (an honest exchange over this store takes %d): a remote that never reports equal hashes keeps it busy for ever", maxRounds, len(decodeScript(f.w.respSeeds[0].Data)))
	}
	return
}

func bucket(n int) string {
	switch {
	case n <= 1:
		return "1"
	case n <= 4:
		return "2-4"
	case n <= 16:
		return "5-16"
	case n <= 64:
		return "17-64"
	case n < maxRounds:
		return "65+"
	}
	return "max"
}
