package c11

// Target 4: the partial ("keep only our identity") AclData decoder used under the client
// verifier versus the generated full decoder, on arbitrary AclData bytes. Reached through
// the exported API only: the bytes are put into a Record that the owner signs (and the
// network key acceptor-signs), then
//
//	clientList.RecordBuilder().UnmarshallWithId(rec)   -> partial decode (list/keepidentity.go)
//	fullList.RecordBuilder().UnmarshallWithId(rec)     -> AclData.UnmarshalVT
//
// Oracle (differential, reference = generated decoder + filter written here): both accept or
// both reject; on accept the client's Model equals the full Model with every read-key entry
// not addressed to the local identity removed; AddRawRecord on both lists never panics.

import (
	"bytes"

	"github.com/anyproto/any-sync/commonspace/object/acl/aclrecordproto"
	"github.com/anyproto/any-sync/consensus/consensusproto"
	"github.com/anyproto/any-sync/util/cidutil"
	"github.com/anyproto/any-sync/util/crypto"
	"github.com/anyproto/any-sync/util/crypto/cryptoproto"

	"verif/harness/internal/mutate"
)

var aclDecodeVariants = []string{"UnmarshallWithId-differential", "AddRawRecord-both"}

func init() {
	register(&target{Name: "acldecode", Variants: aclDecodeVariants, Fixes: 1, Build: func(fix uint64) (fixture, error) { return newAclDecodeFixture() }})
}

type aclDecodeFixture struct {
	*aclFixture
	seeds []seed
	mePub crypto.PubKey
}

func newAclDecodeFixture() (*aclDecodeFixture, error) {
	af, err := newAclFixture(0)
	if err != nil {
		return nil, err
	}
	f := &aclDecodeFixture{aclFixture: af, mePub: af.aw.w.Keys[af.aw.victim[0]].SignKey.GetPublic()}
	seen := map[string]bool{}
	for _, s := range af.aw.seeds {
		if s.V != 0 {
			continue
		}
		rec := &consensusproto.RawRecordWithId{}
		raw := &consensusproto.RawRecord{}
		r := &consensusproto.Record{}
		if rec.UnmarshalVT(s.Data) != nil || raw.UnmarshalVT(rec.Payload) != nil || r.UnmarshalVT(raw.Payload) != nil || seen[string(r.Data)] {
			continue
		}
		seen[string(r.Data)] = true
		for v := range aclDecodeVariants {
			f.seeds = append(f.seeds, seed{V: v, Name: s.Name, Data: r.Data})
		}
	}
	return f, nil
}

func (f *aclDecodeFixture) Seeds() []seed { return f.seeds }
func (f *aclDecodeFixture) Semantic() []string {
	return []string{"ours-noncanonical", "split-submessage", "dup-scalar", "fanout", "mixed-contents"}
}
func (f *aclDecodeFixture) Repair(v int, data []byte, flags int) []byte { return data }

// wrapData signs a record carrying data as its AclData bytes on top of the current head.
func (f *aclDecodeFixture) wrapData(data []byte) *consensusproto.RawRecordWithId {
	w := f.aw.w
	key := w.Keys[0].SignKey
	identity, _ := key.GetPublic().Marshall()
	payload, _ := (&consensusproto.Record{PrevId: w.Head(), Identity: identity, Data: data, Timestamp: 946684800}).MarshalVT()
	sig, _ := key.Sign(payload)
	accId, _ := w.NetKey.GetPublic().Marshall()
	accSig, _ := w.NetKey.Sign(payload)
	rawB, _ := (&consensusproto.RawRecord{Payload: payload, Signature: sig, AcceptorIdentity: accId, AcceptorSignature: accSig, AcceptorTimestamp: 946684900}).MarshalVT()
	id, _ := cidutil.NewCidFromBytes(rawB)
	return &consensusproto.RawRecordWithId{Payload: rawB, Id: id}
}

func (f *aclDecodeFixture) isOurs(identity []byte) bool {
	pk, err := crypto.UnmarshalEd25519PublicKeyProto(identity)
	return err == nil && pk.Equals(f.mePub)
}

// reference: the generated decoder, then the filter the statement of the optimisation describes.
func (f *aclDecodeFixture) reference(data []byte) ([]byte, error) {
	d := &aclrecordproto.AclData{}
	if err := d.UnmarshalVT(data); err != nil {
		return nil, err
	}
	filter := func(rk *aclrecordproto.AclReadKeyChange) {
		if rk == nil {
			return
		}
		var keep []*aclrecordproto.AclEncryptedReadKey
		for _, k := range rk.AccountKeys {
			if f.isOurs(k.Identity) {
				keep = append(keep, k)
			}
		}
		rk.AccountKeys = keep
	}
	for _, c := range d.AclContent {
		filter(c.GetReadKeyChange())
		if ar := c.GetAccountRemove(); ar != nil {
			filter(ar.ReadKeyChange)
		}
	}
	return d.MarshalVT()
}

func (f *aclDecodeFixture) Mutate(in In, base seed) ([]byte, bool) {
	d := &aclrecordproto.AclData{}
	if d.UnmarshalVT(base.Data) != nil {
		return nil, false
	}
	rkOf := func() *aclrecordproto.AclReadKeyChange {
		for _, c := range d.AclContent {
			if rk := c.GetReadKeyChange(); rk != nil {
				return rk
			}
			if ar := c.GetAccountRemove(); ar != nil && ar.ReadKeyChange != nil {
				return ar.ReadKeyChange
			}
		}
		return nil
	}
	rk := rkOf()
	if rk == nil {
		// take the read key change of another seed
		for _, s := range f.seeds {
			if s.Name == "read_key_change" || s.Name == "account_remove" {
				if d.UnmarshalVT(s.Data) == nil {
					if rk = rkOf(); rk != nil {
						break
					}
				}
			}
		}
		if rk == nil {
			return nil, false
		}
	}
	raw, _ := f.mePub.Raw()
	switch in.Kind {
	case "ours-noncanonical":
		// our identity, encoded differently from the canonical marshalling (must still be kept)
		var enc []byte
		switch mutate.Mod(in.A, 4) {
		case 0: // explicit zero Type field before Data
			enc = append(mutate.EncodeVarintField(1, 0), mutate.EncodeBytesField(2, raw)...)
		case 1: // Data first, then an unknown field
			enc = append(mutate.EncodeBytesField(2, raw), mutate.EncodeVarintField(9, 1)...)
		case 2: // Data given twice (last wins)
			enc = append(mutate.EncodeBytesField(2, []byte("x")), mutate.EncodeBytesField(2, raw)...)
		default: // non-minimal length prefix
			enc = append([]byte{0x12, 0xa0, 0x00}, raw...)
		}
		for _, k := range rk.AccountKeys {
			if f.isOurs(k.Identity) {
				k.Identity = enc
			}
		}
		if in.C&1 == 1 {
			rk.AccountKeys = append(rk.AccountKeys, &aclrecordproto.AclEncryptedReadKey{Identity: enc, EncryptedReadKey: []byte("second entry for us")})
		}
		b, _ := d.MarshalVT()
		return b, true
	case "split-submessage":
		// the nested read key change (or a key entry) split over two occurrences of its field: the
		// generated decoder merges them
		b, _ := d.MarshalVT()
		paths := mutate.IdxPaths(b, 5, 200)
		if len(paths) < 2 {
			return nil, false
		}
		p := paths[1+mutate.Mod(in.A, len(paths)-1)]
		out, ok := mutate.EditAtIdx(b, p[:len(p)-1], func(parent []byte) ([]byte, bool) {
			fs, ok := mutate.Parse(parent)
			if !ok {
				return nil, false
			}
			fld := fs[p[len(p)-1]]
			val := parent[fld.ValStart:fld.End]
			ifs, ok := mutate.Parse(val)
			if !ok || len(ifs) < 2 {
				return nil, false
			}
			cut := ifs[1+mutate.Mod(in.B, len(ifs)-1)].Start
			two := append(mutate.EncodeBytesField(fld.Num, val[:cut]), mutate.EncodeBytesField(fld.Num, val[cut:])...)
			return append(append(append([]byte(nil), parent[:fld.Start]...), two...), parent[fld.End:]...), true
		})
		return out, ok
	case "dup-scalar":
		switch mutate.Mod(in.A, 3) {
		case 0:
			rk.MetadataPubKey = append([]byte(nil), rk.MetadataPubKey...)
		}
		b, _ := d.MarshalVT()
		// append a second occurrence of a scalar bytes field of the read key change
		paths := mutate.IdxPaths(b, 5, 200)
		for _, p := range paths {
			inner, _ := mutate.GetAtIdx(b, p)
			if mutate.CountField(inner, 2, mutate.WireBytes) == 1 && mutate.CountField(inner, 3, mutate.WireBytes) == 1 && mutate.CountField(inner, 4, mutate.WireBytes) == 1 {
				num := 2 + mutate.Mod(in.A, 3)
				return mutate.EditAtIdx(b, p, func(m []byte) ([]byte, bool) {
					return append(append([]byte(nil), m...), mutate.EncodeBytesField(num, []byte("again"))...), true
				})
			}
		}
		return nil, false
	case "fanout":
		// many entries for other members around ours
		n := []int{10, 200, 3000}[mutate.Mod(in.A, 3)]
		other := keyProto(cryptoproto.KeyType_Ed25519Public, 32, 7)
		var ks []*aclrecordproto.AclEncryptedReadKey
		for i := 0; i < n; i++ {
			ks = append(ks, &aclrecordproto.AclEncryptedReadKey{Identity: other, EncryptedReadKey: bytes.Repeat([]byte{byte(i)}, 80)})
			if i == n/2 {
				ks = append(ks, rk.AccountKeys...)
			}
		}
		rk.AccountKeys = ks
		b, _ := d.MarshalVT()
		return b, true
	case "mixed-contents":
		// a read key change next to other content kinds in one record (fast path must defer)
		extra := &aclrecordproto.AclContentValue{Value: &aclrecordproto.AclContentValue_SpaceOptionsChange{SpaceOptionsChange: &aclrecordproto.AclSpaceOptionsChange{Options: &aclrecordproto.AclSpaceOptions{}}}}
		if in.A%2 == 0 {
			d.AclContent = append(d.AclContent, extra)
		} else {
			d.AclContent = append([]*aclrecordproto.AclContentValue{extra}, d.AclContent...)
		}
		b, _ := d.MarshalVT()
		return b, true
	}
	return nil, false
}

func (f *aclDecodeFixture) Exec(v int, data []byte) (res execResult) {
	rec := f.wrapData(data)
	ref, refErr := f.reference(data)
	res.Gate = refErr == nil
	f.dirty = [2]bool{true, true}
	if v == 0 {
		res.Pure = true
		full, errF := f.lists[0].RecordBuilder().UnmarshallWithId(cloneRec(rec))
		part, errP := f.lists[1].RecordBuilder().UnmarshallWithId(cloneRec(rec))
		res.Err = errP
		if (errF == nil) != (refErr == nil) {
			res.violate("harness:acldecode-reference", "harness reference and the full decode disagree: %v vs %v", refErr, errF)
			return
		}
		if (errP == nil) != (errF == nil) {
			res.violate("diff:acldecode-accept", "partial decode and full decode disagree on accept/reject: partial err=%v, full err=%v", errP, errF)
			return
		}
		if errP == nil {
			_ = full
			got, err := part.Model.(*aclrecordproto.AclData).MarshalVT()
			if err != nil {
				res.violate("diff:acldecode-model", "partial model does not marshal: %v", err)
			} else if !bytes.Equal(got, ref) {
				res.violate("diff:acldecode-model", "partial decode differs from full decode + filter:\n partial %x\n want    %x", got, ref)
			}
			res.Classes = append(res.Classes, "decode-agree-accept")
		}
		return
	}
	// both lists apply the record
	var errs [2]error
	for i, l := range f.lists {
		l.Lock()
		errs[i] = l.AddRawRecord(cloneRec(rec))
		l.Unlock()
		if errs[i] == nil {
			poisonCheck(l, &res)
		}
	}
	res.Err = errs[1]
	if refErr != nil && errs[1] == nil {
		res.violate("diff:acldecode-accept", "client list accepted a record whose AclData the generated decoder rejects (%v)", refErr)
	}
	res.NoState = errs[0] == nil || errs[1] == nil // one of the lists may legitimately have moved on
	return
}

func cloneRec(r *consensusproto.RawRecordWithId) *consensusproto.RawRecordWithId {
	return &consensusproto.RawRecordWithId{Payload: append([]byte(nil), r.Payload...), Id: r.Id}
}
