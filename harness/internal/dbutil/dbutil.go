// Package dbutil opens scratch any-store databases under os.TempDir().
package dbutil

import (
	"context"
	"os"
	"path/filepath"

	anystore "github.com/anyproto/any-store"
)

// Scratch is a scratch directory holding one or more databases.
type Scratch struct{ Dir string }

// New creates a scratch directory.
func New(prefix string) (*Scratch, error) {
	d, err := os.MkdirTemp("", prefix)
	if err != nil {
		return nil, err
	}
	return &Scratch{Dir: d}, nil
}

// Remove deletes the scratch directory.
func (s *Scratch) Remove() { os.RemoveAll(s.Dir) }

// Path returns the path of a named database inside the scratch dir.
func (s *Scratch) Path(name string) string { return filepath.Join(s.Dir, name) }

// Open opens (creating if needed) the named database.
func (s *Scratch) Open(name string) (anystore.DB, error) {
	return anystore.Open(context.Background(), s.Path(name), nil)
}
