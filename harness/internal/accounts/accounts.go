// Package accounts provides a fixed pool of deterministic account / device / network keys.
package accounts

import (
	"fmt"
	"sync"

	"github.com/anyproto/any-sync/commonspace/object/accountdata"
	"github.com/anyproto/any-sync/util/crypto"

	"verif/harness/internal/detrand"
)

var (
	mu    sync.Mutex
	cache = map[string]*accountdata.AccountKeys{}
)

// Get returns the i-th deterministic account (sign key + peer key).
func Get(i int) *accountdata.AccountKeys { return Named("acc", i) }

// Named returns the i-th deterministic account of a named family (e.g. "device").
func Named(family string, i int) *accountdata.AccountKeys {
	k := fmt.Sprintf("%s-%d", family, i)
	mu.Lock()
	defer mu.Unlock()
	if a, ok := cache[k]; ok {
		return a
	}
	sign, _, err := crypto.GenerateEd25519Key(detrand.Reader("sign-"+family, uint64(i)))
	if err != nil {
		panic(err)
	}
	peer, _, err := crypto.GenerateEd25519Key(detrand.Reader("peer-"+family, uint64(i)))
	if err != nil {
		panic(err)
	}
	a := accountdata.New(peer, sign)
	cache[k] = a
	return a
}

// Key returns a stand-alone deterministic Ed25519 key (network key, master key, ...).
func Key(label string, i int) crypto.PrivKey {
	k, _, err := crypto.GenerateEd25519Key(detrand.Reader("key-"+label, uint64(i)))
	if err != nil {
		panic(err)
	}
	return k
}

// Index returns the pool index of the account with this public sign key, or -1.
func Index(pk crypto.PubKey, n int) int {
	for i := 0; i < n; i++ {
		if Get(i).SignKey.GetPublic().Equals(pk) {
			return i
		}
	}
	return -1
}
