// Package detrand replaces crypto/rand.Reader with a deterministic generator so that
// everything any-sync derives from randomness (AES nonces, X25519 ephemeral keys, fresh
// Ed25519 keys, hence record and change ids and sibling order) is a function of the
// case. Seed must be called at the start of every case.
package detrand

import (
	crand "crypto/rand"
	"encoding/binary"
	"io"
	mrand "math/rand/v2"
	"sync"
)

type reader struct {
	mu sync.Mutex
	c  *mrand.ChaCha8
}

func (r *reader) Read(p []byte) (int, error) {
	r.mu.Lock()
	defer r.mu.Unlock()
	return r.c.Read(p)
}

var (
	global   = &reader{c: mrand.NewChaCha8([32]byte{1})}
	original io.Reader
)

// Install swaps crypto/rand.Reader for the deterministic reader (idempotent).
func Install() {
	if original == nil {
		original = crand.Reader
		crand.Reader = global
	}
}

// Seed reseeds the deterministic reader and installs it if needed.
func Seed(seed uint64) {
	Install()
	var s [32]byte
	binary.LittleEndian.PutUint64(s[:], seed)
	copy(s[8:], "verif-detrand-seed")
	global.mu.Lock()
	global.c = mrand.NewChaCha8(s)
	global.mu.Unlock()
}

// Reader returns an independent deterministic stream (for key derivation).
func Reader(label string, n uint64) io.Reader {
	var s [32]byte
	binary.LittleEndian.PutUint64(s[:], n)
	copy(s[8:], label)
	return &reader{c: mrand.NewChaCha8(s)}
}
