package treesim

import (
	"context"
	"errors"
	"fmt"

	anystore "github.com/anyproto/any-store"

	"github.com/anyproto/any-sync/commonspace/object/acl/list"
	"github.com/anyproto/any-sync/commonspace/object/acl/recordverifier"
	"github.com/anyproto/any-sync/commonspace/object/tree/synctree"
	"github.com/anyproto/any-sync/commonspace/object/tree/treestorage"
	"github.com/anyproto/any-sync/commonspace/spacestorage"
	"github.com/anyproto/any-sync/commonspace/spacesyncproto"
	"github.com/anyproto/any-sync/commonspace/sync/objectsync/objectmessages"
	"github.com/anyproto/any-sync/commonspace/syncstatus"
	"github.com/anyproto/any-sync/net/peer"
)

// DBPath returns the path of replica i's database file.
func (s *Sim) DBPath(i int) string { return s.Scratch.Path(fmt.Sprintf("replica-%d.db", i)) }

// Detach closes the replica's tree object and database (the files stay).
func (r *Replica) Detach() error {
	if r.Tree != nil {
		r.Tree.Close()
		r.Tree = nil
	}
	r.Acl, r.Space = nil, nil
	if r.DB != nil {
		err := r.DB.Close()
		r.DB = nil
		return err
	}
	return nil
}

// ReplicaOn opens a replica for account idx on an already opened (possibly wrapped)
// database that holds a space created earlier: the real spacestorage.New, the ACL list
// rebuilt from storage, and — if the tree is stored — the tree via the verifying builder.
// The replica is not registered in s.Replicas; messages it broadcasts land in s.InFlight.
func (s *Sim) ReplicaOn(idx int, db anystore.DB) (*Replica, error) {
	ctx := context.Background()
	ss, err := spacestorage.New(ctx, s.SpaceId, db)
	if err != nil {
		return nil, fmt.Errorf("spacestorage.New: %w", err)
	}
	aclSt, err := ss.AclStorage()
	if err != nil {
		return nil, err
	}
	acl, err := list.BuildAclListWithIdentity(s.Replicas[idx].Keys, aclSt, recordverifier.NewValidateFull())
	if err != nil {
		return nil, fmt.Errorf("BuildAclListWithIdentity: %w", err)
	}
	r := &Replica{Idx: idx, Keys: s.Replicas[idx].Keys, DB: db, Space: ss, Acl: acl, sim: s}
	if _, err := ss.TreeStorage(ctx, s.Root.Id); err == nil {
		t, err := synctree.BuildSyncTreeOrGetRemote(ctx, s.Root.Id, r.deps())
		if err != nil {
			return nil, fmt.Errorf("build tree from storage: %w", err)
		}
		r.Tree = t
	} else if !errors.Is(err, treestorage.ErrUnknownTreeId) {
		return nil, fmt.Errorf("TreeStorage: %w", err)
	}
	return r, nil
}

// Attach re-opens the registered replica i on db (after Detach).
func (s *Sim) Attach(i int, db anystore.DB) error {
	r, err := s.ReplicaOn(i, db)
	if err != nil {
		return err
	}
	s.Replicas[i] = r
	return nil
}

// Deps exposes the build dependencies of a replica (harness SyncClient included).
func (r *Replica) Deps() synctree.BuildDeps { return r.deps() }

// PutTree creates the tree (root only) on this replica through synctree.PutSyncTree.
func (r *Replica) PutTree() error { return r.putTree() }

// HandleHeadUpdateOn delivers a head-update message to a specific replica object (which may
// live on a scratch copy of a database) and returns the handler's error verbatim.
func (s *Sim) HandleHeadUpdateOn(rep *Replica, m *Msg) error {
	if m.Kind != HeadUpdate {
		return fmt.Errorf("not a head update")
	}
	msg := &spacesyncproto.ObjectSyncMessage{}
	if err := msg.UnmarshalVT(m.Payload); err != nil {
		return err
	}
	if rep.Tree == nil {
		return fmt.Errorf("replica has no tree")
	}
	hu := &objectmessages.HeadUpdate{}
	if err := hu.SetProtoMessage(msg); err != nil {
		return err
	}
	ctx := peer.CtxWithPeerId(context.Background(), peerName(m.From))
	_, err := rep.Tree.HandleHeadUpdate(ctx, syncstatus.NewNoOpSyncStatus(), hu)
	return err
}

// FetchOn makes a tree-less replica object fetch the tree from registered replica p.
func (s *Sim) FetchOn(rep *Replica, p int) error {
	ctx := peer.CtxWithPeerId(context.Background(), peerName(p))
	t, err := synctree.BuildSyncTreeOrGetRemote(ctx, s.Root.Id, rep.deps())
	if err != nil {
		return err
	}
	rep.Tree = t
	return nil
}

// DeliverStreamOn feeds a response stream to a specific replica object through its real
// response collector (as the request manager does: it stops at the first collector error)
// and returns that error verbatim.
func (s *Sim) DeliverStreamOn(rep *Replica, m *Msg) error {
	if m.Kind != ResponseStream {
		return fmt.Errorf("not a response stream")
	}
	if rep.Tree == nil {
		return fmt.Errorf("replica has no tree")
	}
	collector := rep.Tree.ResponseCollector()
	ctx := peer.CtxWithPeerId(context.Background(), peerName(m.From))
	for _, b := range m.Stream {
		resp := collector.NewResponse()
		msg := &spacesyncproto.ObjectSyncMessage{}
		if err := msg.UnmarshalVT(b); err != nil {
			return err
		}
		if err := resp.(protoSettable).SetProtoMessage(msg); err != nil {
			return err
		}
		if err := collector.CollectResponse(ctx, peerName(m.From), m.ObjectId, resp); err != nil {
			return err
		}
	}
	return nil
}
