package treesim

// Additions for C09 (full-sync responses). Nothing here changes the behaviour of the
// functions C01 drives: clones and detached replicas live outside Sim.Replicas and never
// leave messages in the in-flight pool.

import (
	"context"
	"fmt"

	anystore "github.com/anyproto/any-store"
	"google.golang.org/protobuf/proto"

	"github.com/anyproto/any-sync/commonspace/object/acl/list"
	"github.com/anyproto/any-sync/commonspace/object/acl/recordverifier"
	"github.com/anyproto/any-sync/commonspace/object/tree/objecttree"
	"github.com/anyproto/any-sync/commonspace/object/tree/synctree"
	"github.com/anyproto/any-sync/commonspace/spacestorage"
	"github.com/anyproto/any-sync/commonspace/spacesyncproto"
	"github.com/anyproto/any-sync/commonspace/sync/objectsync/objectmessages"
	"github.com/anyproto/any-sync/commonspace/sync/syncdeps"
	"github.com/anyproto/any-sync/net/peer"
)

// Clone is a detached copy of a replica's durable state: a backup of its database
// (sqlite online backup, the source stays open and untouched) opened as a new database,
// with its own space storage, ACL list and an object tree built by the verifying
// objecttree.BuildObjectTree. Whatever is done to a clone is invisible to the simulation.
type Clone struct {
	Of    int
	DB    anystore.DB
	Space spacestorage.SpaceStorage
	Acl   list.AclList
	Tree  objecttree.ObjectTree
}

// Clone copies the replica (which must hold the tree).
func (r *Replica) Clone() (*Clone, error) {
	if r.Tree == nil {
		return nil, fmt.Errorf("treesim: replica %d has no tree to clone", r.Idx)
	}
	s := r.sim
	ctx := context.Background()
	s.seq++
	name := fmt.Sprintf("clone-%d-of-%d.db", s.seq, r.Idx)
	if err := r.DB.Backup(ctx, s.Scratch.Path(name)); err != nil {
		return nil, fmt.Errorf("treesim: backup of replica %d: %w", r.Idx, err)
	}
	db, err := s.Scratch.Open(name)
	if err != nil {
		return nil, err
	}
	c := &Clone{Of: r.Idx, DB: db}
	fail := func(err error) (*Clone, error) {
		db.Close()
		return nil, err
	}
	if c.Space, err = spacestorage.New(ctx, s.SpaceId, db); err != nil {
		return fail(err)
	}
	aclSt, err := c.Space.AclStorage()
	if err != nil {
		return fail(err)
	}
	if c.Acl, err = list.BuildAclListWithIdentity(r.Keys, aclSt, recordverifier.NewValidateFull()); err != nil {
		return fail(err)
	}
	ts, err := c.Space.TreeStorage(ctx, s.Root.Id)
	if err != nil {
		return fail(err)
	}
	if c.Tree, err = objecttree.BuildObjectTree(ts, c.Acl); err != nil {
		return fail(err)
	}
	return c, nil
}

// Stored returns id -> StorageChange of everything the clone has stored for the tree.
func (c *Clone) Stored() (map[string]objecttree.StorageChange, error) {
	return storedOf(c.Tree)
}

func storedOf(t objecttree.ObjectTree) (map[string]objecttree.StorageChange, error) {
	out := map[string]objecttree.StorageChange{}
	err := t.Storage().GetAfterOrder(context.Background(), "", func(ctx context.Context, c objecttree.StorageChange) (bool, error) {
		c.RawChange = nil
		out[c.Id] = c
		return true, nil
	})
	return out, err
}

// Close releases the clone's database (the file goes with the scratch directory).
func (c *Clone) Close() {
	if c.Tree != nil {
		c.Tree.Close()
	}
	if c.DB != nil {
		c.DB.Close()
	}
}

// Detached is a fresh participant outside Sim.Replicas: own database, space storage and
// ACL view (account 0's keys: only used to read), no tree.
type Detached struct {
	*Replica
}

// NewDetached creates a fresh replica that is not part of the simulated network.
func (s *Sim) NewDetached() (*Detached, error) {
	s.seq++
	r, err := s.newReplica(len(s.Replicas)+s.seq, s.Replicas[0].Keys)
	if err != nil {
		return nil, err
	}
	return &Detached{Replica: r}, nil
}

// Close releases the detached replica.
func (d *Detached) Close() {
	if d.Tree != nil {
		d.Tree.Close()
	}
	if d.DB != nil {
		d.DB.Close()
	}
}

// Fetch makes the detached replica build the tree from peer p exactly as the tree manager
// does for an unknown tree (new-tree request with empty heads, real HandleStreamRequest on
// the responder with the production batch size, real full response collector). The
// broadcast-after-build of the detached replica is discarded. It returns the marshalled
// response stream the responder produced.
func (d *Detached) Fetch(p int) (stream [][]byte, err error) {
	s := d.sim
	before := len(s.InFlight)
	defer func() {
		if len(s.InFlight) > before {
			s.InFlight = s.InFlight[:before]
		}
		delete(s.advertised, d.Idx)
	}()
	deps := d.deps()
	cl := deps.SyncClient.(*simClient)
	tap := &tapClient{simClient: cl}
	deps.SyncClient = tap
	ctx := peer.CtxWithPeerId(context.Background(), peerName(p))
	t, err := synctree.BuildSyncTreeOrGetRemote(ctx, s.Root.Id, deps)
	if err != nil {
		return tap.stream, err
	}
	d.Tree = t
	return tap.stream, nil
}

// tapClient records the response stream of the synchronous fetch.
type tapClient struct {
	*simClient
	stream [][]byte
}

func (c *tapClient) SendTreeRequest(ctx context.Context, req syncdeps.Request, collector syncdeps.ResponseCollector) error {
	s := c.sim
	m, err := s.requestMsg(c.me, req)
	if err != nil {
		return err
	}
	stream, err := s.ServeDetached(m)
	if err != nil {
		return err
	}
	c.stream = stream
	if len(stream) == 0 {
		return fmt.Errorf("empty response stream")
	}
	for _, b := range stream {
		resp := collector.NewResponse()
		msg := &spacesyncproto.ObjectSyncMessage{}
		if err := msg.UnmarshalVT(b); err != nil {
			return err
		}
		if err := resp.(protoSettable).SetProtoMessage(msg); err != nil {
			return err
		}
		if err := collector.CollectResponse(ctx, peerName(m.To), m.ObjectId, resp); err != nil {
			return err
		}
	}
	return nil
}

// ServeDetached runs the real responder side (HandleStreamRequest, production batch
// size) for request m and returns the marshalled stream. Unlike the delivery path of the
// network it pushes nothing in flight: a counter-request is only reported in the log.
func (s *Sim) ServeDetached(m *Msg) (stream [][]byte, err error) {
	if m.To < 0 || m.To >= len(s.Replicas) || s.Replicas[m.To].Tree == nil {
		return nil, fmt.Errorf("treesim: responder %d has no tree", m.To)
	}
	rep := s.Replicas[m.To]
	msg := &spacesyncproto.ObjectSyncMessage{}
	if err := msg.UnmarshalVT(m.Payload); err != nil {
		return nil, err
	}
	rq := objectmessages.NewByteRequest(peerName(m.From), msg.SpaceId, msg.ObjectId, msg.Payload)
	ctx := peer.CtxWithPeerId(context.Background(), peerName(m.From))
	send := func(resp proto.Message) error {
		osm, ok := resp.(*spacesyncproto.ObjectSyncMessage)
		if !ok {
			return fmt.Errorf("unexpected response type %T", resp)
		}
		b, err := osm.MarshalVT()
		if err != nil {
			return err
		}
		stream = append(stream, b)
		return nil
	}
	counter, err := rep.Tree.HandleStreamRequest(ctx, rq, noopUpdater{}, send)
	s.logf("detached request %d->%d served: %d batches counter=%v err=%v", m.From, m.To, len(stream), counter != nil, err)
	return stream, err
}

// FullSyncRequest builds the full-sync request replica r would queue for peer p (its
// current heads and snapshot path) without putting it in flight.
func (s *Sim) FullSyncRequest(r, p int) (*Msg, error) {
	rep := s.Replicas[r]
	if rep.Tree == nil {
		return nil, fmt.Errorf("treesim: replica %d has no tree", r)
	}
	rep.Tree.Lock()
	req, err := synctree.NewRequestFactory(s.SpaceId).CreateFullSyncRequest(peerName(p), rep.Tree)
	rep.Tree.Unlock()
	if err != nil {
		return nil, err
	}
	adv := s.advertised[r]
	m, err := s.requestMsg(r, req)
	s.advertised[r] = adv // a probe is not an advertisement of the simulated history
	return m, err
}

// NewTreeRequest builds the empty-heads (new tree) request a participant without the tree
// sends to peer p, without putting it in flight.
func (s *Sim) NewTreeRequest(from, p int) (*Msg, error) {
	req := synctree.NewRequestFactory(s.SpaceId).CreateNewTreeRequest(peerName(p), s.Root.Id)
	return s.requestMsg(from, req)
}
