package treesim

// Additions for C06 (change order is a function of the change set). Nothing here changes
// the behaviour of the functions C01 drives. Extra replicas live outside Sim.Replicas;
// the head updates they broadcast land in Sim.InFlight and are meant to be discarded
// with DiscardInFlight (the C06 harness feeds them by hand after the network is drained).

import (
	"context"
	"fmt"

	"github.com/anyproto/any-sync/commonspace/object/accountdata"
	"github.com/anyproto/any-sync/commonspace/object/acl/list"
	"github.com/anyproto/any-sync/commonspace/object/acl/recordverifier"
	"github.com/anyproto/any-sync/commonspace/object/tree/objecttree"
	"github.com/anyproto/any-sync/commonspace/object/tree/synctree"
	"github.com/anyproto/any-sync/commonspace/spacestorage"
)

// NewEmptyTreeReplica creates an extra replica for the same space and ACL on a fresh
// database, holding the root-only tree (real space storage, ACL list built with the keys
// of the given account, SyncTree over the verifying objecttree.BuildObjectTree). It is
// not registered in s.Replicas.
func (s *Sim) NewEmptyTreeReplica(account int) (*Replica, error) {
	if account < 0 || account >= len(s.Replicas) {
		return nil, fmt.Errorf("treesim: no account %d", account)
	}
	s.seq++
	r, err := s.newReplica(1000+s.seq, s.Replicas[account].Keys)
	if err != nil {
		return nil, err
	}
	if err := r.putTree(); err != nil {
		r.Shutdown()
		return nil, fmt.Errorf("treesim: extra replica: put tree: %w", err)
	}
	return r, nil
}

// Duplicate copies the replica's database (sqlite online backup; the source stays open)
// and opens the copy as a new extra replica: real spacestorage.New, the ACL list rebuilt
// from the copied storage, the tree rebuilt from the copied storage by the verifying builder.
func (r *Replica) Duplicate() (*Replica, error) {
	s := r.sim
	ctx := context.Background()
	s.seq++
	name := fmt.Sprintf("copy-%d-of-%d.db", s.seq, r.Idx)
	if err := r.DB.Backup(ctx, s.Scratch.Path(name)); err != nil {
		return nil, fmt.Errorf("treesim: backup: %w", err)
	}
	db, err := s.Scratch.Open(name)
	if err != nil {
		return nil, err
	}
	c, err := s.openExtra(2000+s.seq, r.Keys, func() (spacestorage.SpaceStorage, error) { return spacestorage.New(ctx, s.SpaceId, db) })
	if err != nil {
		db.Close()
		return nil, err
	}
	c.DB = db
	t, err := synctree.BuildSyncTreeOrGetRemote(ctx, s.Root.Id, c.deps())
	if err != nil {
		db.Close()
		return nil, fmt.Errorf("treesim: tree could not be built from the copied database: %w", err)
	}
	c.Tree = t
	return c, nil
}

func (s *Sim) openExtra(idx int, keys *accountdata.AccountKeys, open func() (spacestorage.SpaceStorage, error)) (*Replica, error) {
	ss, err := open()
	if err != nil {
		return nil, err
	}
	aclSt, err := ss.AclStorage()
	if err != nil {
		return nil, err
	}
	acl, err := list.BuildAclListWithIdentity(keys, aclSt, recordverifier.NewValidateFull())
	if err != nil {
		return nil, err
	}
	return &Replica{Idx: idx, Keys: keys, Space: ss, Acl: acl, sim: s}, nil
}

// Shutdown closes an extra replica (tree object and database; the files go with the scratch directory).
func (r *Replica) Shutdown() {
	if r.Tree != nil {
		r.Tree.Close()
		r.Tree = nil
	}
	if r.DB != nil {
		r.DB.Close()
		r.DB = nil
	}
}

// DiscardInFlight drops everything in the in-flight pool (broadcasts of extra replicas).
func (s *Sim) DiscardInFlight() int {
	n := len(s.InFlight)
	s.InFlight = nil
	return n
}

// RootId is the id of the tree every replica replicates.
func (s *Sim) RootId() string { return s.Root.Id }

// EditAs makes replica r add a local change with exactly the given data and timestamp,
// signed with the key of account signer (the same account on a second device). Two
// replicas doing this on the same heads produce byte-identical changes, hence the same id.
func (s *Sim) EditAs(r, signer int, data []byte, timestamp int64, snapshot bool) (objecttree.AddResult, error) {
	rep := s.Replicas[r]
	if rep.Tree == nil {
		return objecttree.AddResult{}, nil
	}
	rep.Tree.Lock()
	res, err := rep.Tree.AddContent(context.Background(), objecttree.SignableChangeContent{
		Data: data, Key: s.Replicas[signer].Keys.SignKey, IsSnapshot: snapshot, ShouldBeEncrypted: s.Encrypted, Timestamp: timestamp, DataType: "t",
	})
	rep.Tree.Unlock()
	if err != nil {
		return res, err
	}
	for _, a := range res.Added {
		s.Produced[a.Id] = true
	}
	s.logf("edit-as r%d signer=%d snapshot=%v -> %v", r, signer, snapshot, short(res.Heads))
	return res, nil
}

// Clock returns the simulation's logical clock (timestamps of edits).
func (s *Sim) Clock() int64 { return s.clock }
