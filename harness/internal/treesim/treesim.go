// Package treesim is engine A of DESIGN.md: several replicas of one object tree, each
// on its own any-store database with a real space storage, head storage, ACL list and a
// real SyncTree built with the verifying BuildObjectTree. The only fake is the transport:
// the harness implements synctree.SyncClient (embedding the real request factory), so
// every broadcast head update, queued request and streamed response exists in a harness
// owned in-flight pool as the marshalled bytes the real code produced. Delivery re-parses
// the bytes and calls the real handlers the way commonspace/sync does.
package treesim

import (
	"context"
	"errors"
	"fmt"
	"sort"
	"strings"
	"testing"

	anystore "github.com/anyproto/any-store"
	"google.golang.org/protobuf/proto"

	"github.com/anyproto/any-sync/commonspace/object/accountdata"
	"github.com/anyproto/any-sync/commonspace/object/acl/list"
	"github.com/anyproto/any-sync/commonspace/object/acl/recordverifier"
	"github.com/anyproto/any-sync/commonspace/object/tree/objecttree"
	"github.com/anyproto/any-sync/commonspace/object/tree/synctree"
	"github.com/anyproto/any-sync/commonspace/object/tree/treechangeproto"
	"github.com/anyproto/any-sync/commonspace/object/tree/treestorage"
	"github.com/anyproto/any-sync/commonspace/spacestorage"
	"github.com/anyproto/any-sync/commonspace/spacesyncproto"
	"github.com/anyproto/any-sync/commonspace/sync/objectsync/objectmessages"
	"github.com/anyproto/any-sync/commonspace/sync/syncdeps"
	"github.com/anyproto/any-sync/commonspace/syncstatus"
	"github.com/anyproto/any-sync/consensus/consensusproto"
	"github.com/anyproto/any-sync/net/peer"
	"github.com/anyproto/any-sync/protobuf"

	"verif/harness/internal/aclgen"
	"verif/harness/internal/dbutil"
)

// MsgKind of an in-flight message.
type MsgKind int

const (
	HeadUpdate MsgKind = iota
	Request
	ResponseStream
)

func (k MsgKind) String() string { return [...]string{"head-update", "request", "response-stream"}[k] }

// Msg is one in-flight message: the bytes the real code marshalled.
type Msg struct {
	Kind     MsgKind
	From, To int
	ObjectId string
	Payload  []byte   // marshalled spacesyncproto.ObjectSyncMessage (head update, request)
	Stream   [][]byte // marshalled ObjectSyncMessages of a response stream, in order
	Seq      int
}

// Replica is one participant.
type Replica struct {
	Idx   int
	Keys  *accountdata.AccountKeys
	DB    anystore.DB
	Space spacestorage.SpaceStorage
	Acl   list.AclList
	Tree  synctree.SyncTree // nil until created / fetched
	sim   *Sim
}

// Sim is the whole simulated world for one tree.
type Sim struct {
	T          *testing.T
	Scratch    *dbutil.Scratch
	SpaceId    string
	AclRecords []*consensusproto.RawRecordWithId
	ExtraAcl   []*consensusproto.RawRecordWithId
	Settings   *treechangeproto.RawTreeChangeWithId
	Root       *treechangeproto.RawTreeChangeWithId
	Replicas   []*Replica
	InFlight   []*Msg
	seq        int
	Encrypted  bool
	clock      int64
	// FetchTruncate > 0 cuts the streams of synchronous fetches after that many batches.
	FetchTruncate int

	// statistics / history for the oracles
	Log         []string
	HandlerErrs []string
	Counters    map[string]int
	// Produced[id] = true for every change id a replica created locally
	Produced map[string]bool
	// Advertised heads seen in outgoing messages per replica since the last check
	advertised map[int][][]string
}

type protoSettable interface {
	SetProtoMessage(protobuf.Message) error
}

type noopUpdater struct{}

func (noopUpdater) UpdateQueueSize(size uint64, msgType int, add bool) {}

type fakePeer struct {
	peer.Peer
	id string
}

func (f fakePeer) Id() string { return f.id }

func peerName(i int) string { return fmt.Sprintf("peer-%d", i) }

func peerIdx(name string) int {
	var i int
	if _, err := fmt.Sscanf(name, "peer-%d", &i); err != nil {
		return -1
	}
	return i
}

// Options of New.
type Options struct {
	N         int    // replicas; account i belongs to replica i; account 0 owns the space
	Seed      uint64 // detrand seed
	Encrypted bool   // tree content encrypted under the ACL read key
	Holders   int    // the first Holders replicas start with the tree (root only); the rest join late
	Perms     []int  // permission of accounts 1..N-1 (default Writer)
	// ExtraAclOps are applied to the ACL world after the set-up; the records they produce
	// are NOT fed to the replicas but kept in Sim.ExtraAcl (inputs for later ACL additions).
	ExtraAclOps []aclgen.Op
}

// New builds the ACL (inside a synctest bubble, fixed clock), the tree root, and the replicas.
func New(t *testing.T, o Options) (s *Sim, err error) {
	s = &Sim{T: t, SpaceId: "spaceid.verif", Counters: map[string]int{}, Produced: map[string]bool{}, advertised: map[int][][]string{}, Encrypted: o.Encrypted, clock: 1_700_000_000}
	var w *aclgen.World
	base := 0
	err = aclgen.Bubble(t, func() error {
		var err error
		w, err = aclgen.NewWorld(o.N, o.Seed, false)
		if err != nil {
			return err
		}
		for i := 1; i < o.N; i++ {
			p := aclgen.Writer
			if len(o.Perms) >= i {
				p = o.Perms[i-1]
			}
			if p == aclgen.None {
				continue
			}
			st, err := w.Apply(aclgen.Op{Kind: "add", Actor: 0, Target: i, Perm: p})
			if err != nil {
				return err
			}
			if !st.Accepted {
				return fmt.Errorf("treesim: could not add account %d: %s", i, st.BuildErr)
			}
		}
		base = len(w.Records)
		for _, op := range o.ExtraAclOps {
			if _, err := w.Apply(op); err != nil {
				return err
			}
		}
		return nil
	})
	if err != nil {
		return nil, err
	}
	s.AclRecords = w.Records[:base]
	s.ExtraAcl = w.Records[base:]
	s.Scratch, err = dbutil.New("treesim-")
	if err != nil {
		return nil, err
	}
	sim := s
	defer func() {
		if err != nil {
			sim.Close()
		}
	}()
	// the roots cite the head of the ACL the replicas start with (not the extra records)
	baseAcl, err := aclgen.NewList(w.Keys[0], s.AclRecords, recordverifier.NewValidateFull())
	if err != nil {
		return nil, err
	}
	seedBytes := []byte(fmt.Sprintf("seed-%d", o.Seed))
	s.Settings, err = objecttree.CreateObjectTreeRoot(objecttree.ObjectTreeCreatePayload{
		PrivKey: w.Keys[0].SignKey, ChangeType: "settings", SpaceId: s.SpaceId, Seed: seedBytes, Timestamp: s.clock,
	}, baseAcl)
	if err != nil {
		return nil, err
	}
	s.Root, err = objecttree.CreateObjectTreeRoot(objecttree.ObjectTreeCreatePayload{
		PrivKey: w.Keys[0].SignKey, ChangeType: "verif.object", ChangePayload: []byte("payload"), SpaceId: s.SpaceId,
		IsEncrypted: o.Encrypted, Seed: append(seedBytes, 'o'), Timestamp: s.clock,
	}, baseAcl)
	if err != nil {
		return nil, err
	}
	holders := o.Holders
	if holders <= 0 || holders > o.N {
		holders = o.N
	}
	for i := 0; i < o.N; i++ {
		r, err := s.newReplica(i, w.Keys[i])
		if err != nil {
			return nil, err
		}
		s.Replicas = append(s.Replicas, r)
		if i < holders {
			if err := r.putTree(); err != nil {
				return nil, fmt.Errorf("replica %d: put tree: %w", i, err)
			}
		}
	}
	s.InFlight = nil // the "broadcast after build" of root-only trees carries nothing of interest
	return s, nil
}

// Close releases databases and the scratch directory.
func (s *Sim) Close() {
	for _, r := range s.Replicas {
		if r.Tree != nil {
			r.Tree.Close()
		}
		if r.DB != nil {
			r.DB.Close()
		}
	}
	if s.Scratch != nil {
		s.Scratch.Remove()
	}
}

func (s *Sim) newReplica(i int, keys *accountdata.AccountKeys) (*Replica, error) {
	ctx := context.Background()
	db, err := s.Scratch.Open(fmt.Sprintf("replica-%d.db", i))
	if err != nil {
		return nil, err
	}
	ss, err := spacestorage.Create(ctx, db, spacestorage.SpaceStorageCreatePayload{
		AclWithId:           aclgen.CloneRec(s.AclRecords[0]),
		SpaceHeaderWithId:   &spacesyncproto.RawSpaceHeaderWithId{RawHeader: []byte("header"), Id: s.SpaceId},
		SpaceSettingsWithId: &treechangeproto.RawTreeChangeWithId{RawChange: s.Settings.RawChange, Id: s.Settings.Id},
	})
	if err != nil {
		db.Close()
		return nil, err
	}
	aclSt, err := ss.AclStorage()
	if err != nil {
		return nil, err
	}
	acl, err := list.BuildAclListWithIdentity(keys, aclSt, recordverifier.NewValidateFull())
	if err != nil {
		return nil, err
	}
	for _, rec := range s.AclRecords[1:] {
		if err := acl.AddRawRecord(aclgen.CloneRec(rec)); err != nil {
			return nil, err
		}
	}
	return &Replica{Idx: i, Keys: keys, DB: db, Space: ss, Acl: acl, sim: s}, nil
}

func (r *Replica) deps() synctree.BuildDeps {
	return synctree.BuildDeps{
		SpaceId:         r.sim.SpaceId,
		SyncClient:      &simClient{RequestFactory: synctree.NewRequestFactory(r.sim.SpaceId), sim: r.sim, me: r.Idx},
		AclList:         r.Acl,
		SpaceStorage:    r.Space,
		OnClose:         func(string) {},
		SyncStatus:      syncstatus.NewNoOpSyncStatus(),
		BuildObjectTree: objecttree.BuildObjectTree,
	}
}

func (r *Replica) putTree() error {
	t, err := synctree.PutSyncTree(context.Background(), treestorage.TreeStorageCreatePayload{
		RootRawChange: &treechangeproto.RawTreeChangeWithId{RawChange: r.sim.Root.RawChange, Id: r.sim.Root.Id},
		Heads:         []string{r.sim.Root.Id},
	}, r.deps())
	if err != nil {
		return err
	}
	r.Tree = t
	return nil
}

// Reopen closes the replica's tree object and builds it again from its storage
// (the verifying builder), as a process restart would.
func (r *Replica) Reopen() error {
	if r.Tree == nil {
		return nil
	}
	r.Tree.Close()
	r.Tree = nil
	t, err := synctree.BuildSyncTreeOrGetRemote(context.Background(), r.sim.Root.Id, r.deps())
	if err != nil {
		return err
	}
	r.Tree = t
	return nil
}

// ---- SyncClient -----------------------------------------------------------------------

type simClient struct {
	synctree.RequestFactory
	sim *Sim
	me  int
}

func (c *simClient) Broadcast(ctx context.Context, hu *objectmessages.HeadUpdate) error {
	s := c.sim
	s.advertised[c.me] = append(s.advertised[c.me], append([]string(nil), hu.Update.Heads()...))
	carried := false
	for p := range s.Replicas {
		if p == c.me {
			continue
		}
		cp := hu.Copy().(*objectmessages.HeadUpdate)
		cp.SetPeerId(peerName(p))
		pm, err := cp.ProtoMessage()
		if err != nil {
			return err
		}
		osm := pm.(*spacesyncproto.ObjectSyncMessage)
		b, err := osm.MarshalVT()
		if err != nil {
			return err
		}
		if !carried {
			// the changes the head update carries are advertised too: the sender vouches for them
			carried = true
			tsm := &treechangeproto.TreeSyncMessage{}
			if tsm.UnmarshalVT(osm.Payload) == nil {
				if up := tsm.GetContent().GetHeadUpdate(); up != nil && len(up.Changes) > 0 {
					ids := make([]string, 0, len(up.Changes))
					for _, ch := range up.Changes {
						ids = append(ids, ch.Id)
					}
					s.advertised[c.me] = append(s.advertised[c.me], ids)
					s.Counters["advertised-carried-changes"] += len(ids)
				}
			}
		}
		s.push(&Msg{Kind: HeadUpdate, From: c.me, To: p, ObjectId: hu.ObjectId(), Payload: b})
	}
	return nil
}

func (c *simClient) QueueRequest(ctx context.Context, req syncdeps.Request) error {
	m, err := c.sim.requestMsg(c.me, req)
	if err != nil {
		return err
	}
	c.sim.push(m)
	return nil
}

// SendTreeRequest is the synchronous fetch of a tree this replica does not have.
func (c *simClient) SendTreeRequest(ctx context.Context, req syncdeps.Request, collector syncdeps.ResponseCollector) error {
	s := c.sim
	m, err := s.requestMsg(c.me, req)
	if err != nil {
		return err
	}
	stream, err := s.serveRequest(m)
	if err != nil {
		return err
	}
	if s.FetchTruncate > 0 && s.FetchTruncate < len(stream) {
		stream = stream[:s.FetchTruncate]
		s.Counters["fetch-truncated"]++
	}
	called := false
	for _, b := range stream {
		resp := collector.NewResponse()
		msg := &spacesyncproto.ObjectSyncMessage{}
		if err := msg.UnmarshalVT(b); err != nil {
			return err
		}
		if err := resp.(protoSettable).SetProtoMessage(msg); err != nil {
			return err
		}
		if err := collector.CollectResponse(ctx, peerName(m.To), m.ObjectId, resp); err != nil {
			return err
		}
		called = true
	}
	if !called {
		return errors.New("empty response stream")
	}
	return nil
}

func (s *Sim) requestMsg(from int, req syncdeps.Request) (*Msg, error) {
	or, ok := req.(*objectmessages.Request)
	if !ok {
		return nil, fmt.Errorf("unexpected request type %T", req)
	}
	pm, err := or.Proto()
	if err != nil {
		return nil, err
	}
	b, err := pm.(*spacesyncproto.ObjectSyncMessage).MarshalVT()
	if err != nil {
		return nil, err
	}
	to := peerIdx(req.PeerId())
	if to < 0 || to >= len(s.Replicas) {
		return nil, fmt.Errorf("request addressed to unknown peer %q", req.PeerId())
	}
	// what the request advertises
	tsm := &treechangeproto.TreeSyncMessage{}
	osm := pm.(*spacesyncproto.ObjectSyncMessage)
	if tsm.UnmarshalVT(osm.Payload) == nil {
		if fr := tsm.GetContent().GetFullSyncRequest(); fr != nil {
			s.advertised[from] = append(s.advertised[from], append([]string(nil), fr.Heads...))
		}
	}
	return &Msg{Kind: Request, From: from, To: to, ObjectId: req.ObjectId(), Payload: b}, nil
}

func (s *Sim) push(m *Msg) {
	s.seq++
	m.Seq = s.seq
	s.InFlight = append(s.InFlight, m)
	s.Counters["sent-"+m.Kind.String()]++
}

func (s *Sim) logf(f string, a ...any) {
	if len(s.Log) < 4000 {
		s.Log = append(s.Log, fmt.Sprintf(f, a...))
	}
}

func (s *Sim) handlerErr(where string, err error) {
	s.Counters["handler-error"]++
	msg := fmt.Sprintf("%s: %v", where, err)
	s.logf("ERR %s", msg)
	if len(s.HandlerErrs) < 200 {
		s.HandlerErrs = append(s.HandlerErrs, msg)
	}
}

// ---- operations ------------------------------------------------------------------------

// Edit makes replica r add a local change on top of its current heads.
func (s *Sim) Edit(r int, snapshot bool, size int) (objecttree.AddResult, error) {
	rep := s.Replicas[r]
	if rep.Tree == nil {
		return objecttree.AddResult{}, nil
	}
	s.clock++
	data := []byte(fmt.Sprintf("r%d-c%d-", r, s.clock))
	for len(data) < size {
		data = append(data, byte('a'+len(data)%26))
	}
	rep.Tree.Lock()
	res, err := rep.Tree.AddContent(context.Background(), objecttree.SignableChangeContent{
		Data: data, Key: rep.Keys.SignKey, IsSnapshot: snapshot, ShouldBeEncrypted: s.Encrypted, Timestamp: s.clock, DataType: "t",
	})
	rep.Tree.Unlock()
	if err != nil {
		return res, err
	}
	for _, a := range res.Added {
		s.Produced[a.Id] = true
	}
	s.logf("edit r%d snapshot=%v -> %v", r, snapshot, short(res.Heads))
	return res, nil
}

// Fate of a delivered message.
type Fate int

const (
	Deliver   Fate = iota // deliver and remove
	Drop                  // remove without delivering
	Duplicate             // deliver, keep a copy in flight
)

// Step delivers in-flight message number i (any index: out-of-order delivery) with the
// given fate. For response streams truncate>0 delivers only the first truncate batches.
func (s *Sim) Step(i int, fate Fate, truncate int) error {
	if len(s.InFlight) == 0 {
		return nil
	}
	i = ((i % len(s.InFlight)) + len(s.InFlight)) % len(s.InFlight)
	m := s.InFlight[i]
	if fate != Duplicate {
		s.InFlight = append(s.InFlight[:i:i], s.InFlight[i+1:]...)
	}
	if fate == Drop {
		s.Counters["dropped-"+m.Kind.String()]++
		s.logf("drop %s %d->%d", m.Kind, m.From, m.To)
		return nil
	}
	if fate == Duplicate {
		s.Counters["duplicated-"+m.Kind.String()]++
	}
	if i != 0 {
		s.Counters["out-of-order"]++
	}
	return s.deliver(m, truncate)
}

func (s *Sim) deliver(m *Msg, truncate int) error {
	s.Counters["delivered-"+m.Kind.String()]++
	switch m.Kind {
	case HeadUpdate:
		return s.deliverHeadUpdate(m)
	case Request:
		stream, err := s.serveRequest(m)
		if err != nil {
			s.handlerErr(fmt.Sprintf("request %d->%d", m.From, m.To), err)
		}
		if len(stream) > 0 {
			s.push(&Msg{Kind: ResponseStream, From: m.To, To: m.From, ObjectId: m.ObjectId, Stream: stream})
		}
		return nil
	case ResponseStream:
		return s.deliverStream(m, truncate)
	}
	return nil
}

func (s *Sim) deliverHeadUpdate(m *Msg) error {
	rep := s.Replicas[m.To]
	msg := &spacesyncproto.ObjectSyncMessage{}
	if err := msg.UnmarshalVT(m.Payload); err != nil {
		return err
	}
	ctx := peer.CtxWithPeerId(context.Background(), peerName(m.From))
	if rep.Tree == nil {
		// commonspace/sync/objectsync: object not found locally -> new-tree request, which
		// the request queue turns into a fetch of the tree from that peer
		s.logf("head update %d->%d: no tree, fetching", m.From, m.To)
		return s.Fetch(m.To, m.From, 0)
	}
	hu := &objectmessages.HeadUpdate{}
	if err := hu.SetProtoMessage(msg); err != nil {
		return err
	}
	req, err := rep.Tree.HandleHeadUpdate(ctx, syncstatus.NewNoOpSyncStatus(), hu)
	if err != nil {
		s.handlerErr(fmt.Sprintf("head update %d->%d", m.From, m.To), err)
	}
	s.logf("head update %d->%d heads now %v req=%v", m.From, m.To, short(rep.Tree.Heads()), req != nil)
	if req != nil {
		rm, err := s.requestMsg(m.To, req)
		if err != nil {
			return err
		}
		s.push(rm)
	}
	return nil
}

// serveRequest runs the responder side of a full-sync request and returns the
// marshalled response stream; a counter-request is pushed in flight.
func (s *Sim) serveRequest(m *Msg) (stream [][]byte, err error) {
	rep := s.Replicas[m.To]
	msg := &spacesyncproto.ObjectSyncMessage{}
	if err := msg.UnmarshalVT(m.Payload); err != nil {
		return nil, err
	}
	if rep.Tree == nil {
		// objectsync.HandleStreamRequest without the object: error, and a new-tree
		// counter-request when the requester announced heads
		tsm := &treechangeproto.TreeSyncMessage{}
		if tsm.UnmarshalVT(msg.Payload) == nil {
			if fr := tsm.GetContent().GetFullSyncRequest(); fr != nil && len(fr.Heads) != 0 {
				s.logf("request %d->%d: responder has no tree, fetching from requester", m.From, m.To)
				if err := s.Fetch(m.To, m.From, 0); err != nil {
					s.handlerErr("fetch on counter-request", err)
				}
			}
		}
		return nil, treechangeproto.ErrGetTree
	}
	rq := objectmessages.NewByteRequest(peerName(m.From), msg.SpaceId, msg.ObjectId, msg.Payload)
	ctx := peer.CtxWithPeerId(context.Background(), peerName(m.From))
	send := func(resp proto.Message) error {
		osm, ok := resp.(*spacesyncproto.ObjectSyncMessage)
		if !ok {
			return fmt.Errorf("unexpected response type %T", resp)
		}
		b, err := osm.MarshalVT()
		if err != nil {
			return err
		}
		stream = append(stream, b)
		// what a response batch names (heads) and carries (changes) is advertised by the responder
		tsm := &treechangeproto.TreeSyncMessage{}
		if tsm.UnmarshalVT(osm.Payload) == nil {
			if fr := tsm.GetContent().GetFullSyncResponse(); fr != nil {
				ids := append([]string(nil), fr.Heads...)
				for _, ch := range fr.Changes {
					ids = append(ids, ch.Id)
				}
				if len(ids) > 0 {
					s.advertised[m.To] = append(s.advertised[m.To], ids)
					s.Counters["advertised-in-responses"] += len(ids)
				}
			}
		}
		return nil
	}
	counter, err := rep.Tree.HandleStreamRequest(ctx, rq, noopUpdater{}, send)
	if counter != nil {
		cm, cerr := s.requestMsg(m.To, counter)
		if cerr != nil {
			return stream, cerr
		}
		s.push(cm)
	}
	s.logf("request %d->%d served: %d batches counter=%v err=%v", m.From, m.To, len(stream), counter != nil, err)
	return stream, err
}

func (s *Sim) deliverStream(m *Msg, truncate int) error {
	rep := s.Replicas[m.To]
	if rep.Tree == nil {
		return nil
	}
	stream := m.Stream
	if truncate > 0 && truncate < len(stream) {
		stream = stream[:truncate]
		s.Counters["stream-truncated"]++
	}
	if len(m.Stream) > 1 {
		s.Counters["multi-batch-stream"]++
	}
	collector := rep.Tree.ResponseCollector()
	ctx := peer.CtxWithPeerId(context.Background(), peerName(m.From))
	for _, b := range stream {
		resp := collector.NewResponse()
		msg := &spacesyncproto.ObjectSyncMessage{}
		if err := msg.UnmarshalVT(b); err != nil {
			return err
		}
		if err := resp.(protoSettable).SetProtoMessage(msg); err != nil {
			return err
		}
		if err := collector.CollectResponse(ctx, peerName(m.From), m.ObjectId, resp); err != nil {
			s.handlerErr(fmt.Sprintf("response %d->%d", m.From, m.To), err)
			break // requestmanager stops reading the stream on a collector error
		}
	}
	s.logf("stream %d->%d (%d/%d batches) heads now %v", m.From, m.To, len(stream), len(m.Stream), short(rep.Tree.Heads()))
	return nil
}

// Fetch makes replica r (which lacks the tree) build it from peer p, as the tree manager does.
func (s *Sim) Fetch(r, p int, truncate int) error {
	rep := s.Replicas[r]
	if rep.Tree != nil {
		return nil
	}
	s.FetchTruncate = truncate
	defer func() { s.FetchTruncate = 0 }()
	ctx := peer.CtxWithPeerId(context.Background(), peerName(p))
	t, err := synctree.BuildSyncTreeOrGetRemote(ctx, s.Root.Id, rep.deps())
	if err != nil {
		s.Counters["fetch-failed"]++
		s.logf("fetch r%d from %d failed: %v", r, p, err)
		return nil
	}
	rep.Tree = t
	s.Counters["late-join"]++
	s.logf("fetch r%d from %d ok heads %v", r, p, short(t.Heads()))
	return nil
}

// SyncWithPeer is the anti-entropy entry point: replica r queues a full-sync request to p.
func (s *Sim) SyncWithPeer(r, p int) error {
	rep := s.Replicas[r]
	if r == p {
		return nil
	}
	if rep.Tree == nil {
		return s.Fetch(r, p, 0)
	}
	return rep.Tree.SyncWithPeer(context.Background(), fakePeer{id: peerName(p)})
}

// Drain delivers everything in flight reliably, oldest first, until nothing is left.
func (s *Sim) Drain(maxSteps int) error {
	for n := 0; len(s.InFlight) > 0; n++ {
		if n > maxSteps {
			return fmt.Errorf("network did not drain within %d deliveries (%d still in flight)", maxSteps, len(s.InFlight))
		}
		if err := s.Step(0, Deliver, 0); err != nil {
			return err
		}
	}
	return nil
}

// ---- observers -------------------------------------------------------------------------

// Stored returns id -> StorageChange of everything replica r has stored for the tree, and the ids in storage order.
func (r *Replica) Stored() (map[string]objecttree.StorageChange, []string, error) {
	if r.Tree == nil {
		return nil, nil, nil
	}
	out := map[string]objecttree.StorageChange{}
	var order []string
	err := r.Tree.Storage().GetAfterOrder(context.Background(), "", func(ctx context.Context, c objecttree.StorageChange) (bool, error) {
		c.RawChange = append([]byte(nil), c.RawChange...)
		out[c.Id] = c
		order = append(order, c.Id)
		return true, nil
	})
	return out, order, err
}

// TakeAdvertised returns and clears the head sets replica r wrote into outgoing messages.
func (s *Sim) TakeAdvertised(r int) [][]string {
	a := s.advertised[r]
	delete(s.advertised, r)
	return a
}

func short(ids []string) []string {
	out := make([]string, len(ids))
	for i, id := range ids {
		if len(id) > 6 {
			out[i] = id[len(id)-6:]
		} else {
			out[i] = id
		}
	}
	sort.Strings(out)
	return out
}

// Short renders ids compactly for messages.
func Short(ids []string) string { return strings.Join(short(ids), ",") }
