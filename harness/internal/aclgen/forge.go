package aclgen

import (
	"fmt"
	"sort"

	"github.com/anyproto/any-sync/commonspace/object/acl/aclrecordproto"
	"github.com/anyproto/any-sync/commonspace/object/acl/list"
	"github.com/anyproto/any-sync/util/crypto"
)

// FContent describes one forged content value: every choice (author comes from the
// enclosing Forge) is free — kind, target, permission, referenced invite / request —
// and interpreted modulo the current state.
type FContent struct {
	Kind    string `json:"k"`
	Target  int    `json:"t,omitempty"`
	T2      int    `json:"t2,omitempty"`
	Perm    int    `json:"p,omitempty"`
	Ref     int    `json:"r,omitempty"`
	Variant int    `json:"v,omitempty"`
}

// Forge is a record assembled by the harness and signed by Author, skipping the
// client-side builder's checks.
type Forge struct {
	Author   int        `json:"author"`
	Contents []FContent `json:"contents"`
}

// ForgeKinds is the full content alphabet.
var ForgeKinds = []string{
	"perm_change", "perm_changes", "ownership", "accounts_add", "invite", "invite_change", "invite_revoke",
	"request_join", "invite_join", "request_accept", "request_decline", "request_cancel",
	"account_remove", "request_remove", "read_key_change", "options",
}

func pv(p int) aclrecordproto.AclUserPermissions { return aclrecordproto.AclUserPermissions(p) }

// refState returns the state used to construct structurally valid inputs (current read
// key, live invites, pending requests): the view of an account that holds the keys.
func (w *World) refState() *list.AclState {
	for i := 0; i < w.N; i++ {
		if w.Stuck[i] {
			continue
		}
		st := w.Lists[i].AclState()
		if k, err := st.CurrentReadKey(); err == nil && k != nil {
			return st
		}
	}
	return w.Lists[w.Ref()].AclState()
}

// Ref returns the index of the first account whose list still follows the log.
func (w *World) Ref() int {
	for i := 0; i < w.N; i++ {
		if !w.Stuck[i] {
			return i
		}
	}
	return 0
}

func sortedInviteIds(st *list.AclState, anyoneOnly bool) []string {
	var ids []string
	for _, inv := range st.Invites() {
		if anyoneOnly && inv.Type != aclrecordproto.AclInviteType_AnyoneCanJoin {
			continue
		}
		ids = append(ids, inv.Id)
	}
	sort.Strings(ids)
	return ids
}

func pickStr(c []string, ref int, garbage string) string {
	if len(c) == 0 || ref < 0 && (-ref)%5 == 4 {
		return garbage
	}
	return c[((ref%len(c))+len(c))%len(c)]
}

func (w *World) inviteKeyFor(id string) crypto.PrivKey {
	for _, inv := range w.Invites {
		if inv.Id == id {
			return inv.Key
		}
	}
	return nil
}

// BuildContent turns a content spec into a protobuf content value, as structurally
// valid as the harness can make it (valid encryptions of the current read key, valid
// invite signatures when the invite key is known), so that it reaches the rules under test.
func (w *World) BuildContent(author int, fc FContent) (*aclrecordproto.AclContentValue, error) {
	st := w.refState()
	a := w.ResolveAuthor(author)
	t := w.acc(fc.Target)
	t2 := w.acc(fc.T2)
	pubProto := func(i int) []byte {
		b, err := w.Keys[i].SignKey.GetPublic().Marshall()
		if err != nil {
			panic(err)
		}
		return b
	}
	encKeyFor := func(pk crypto.PubKey) []byte {
		rk, err := st.CurrentReadKey()
		if err != nil || rk == nil {
			return []byte("no-key")
		}
		proto, err := rk.Marshall()
		if err != nil {
			panic(err)
		}
		enc, err := pk.Encrypt(proto)
		if err != nil {
			panic(err)
		}
		return enc
	}
	meta := func() []byte {
		mk, err := st.CurrentMetadataKey()
		if err != nil || mk == nil {
			return []byte("m")
		}
		enc, err := mk.Encrypt([]byte("meta"))
		if err != nil {
			return []byte("m")
		}
		return enc
	}
	requestIds := func(kind int) []string { // 0 any, 1 join, 2 remove
		var ids []string
		joins, _ := st.JoinRecords(false)
		if kind != 2 {
			for _, r := range joins {
				ids = append(ids, r.RecordId)
			}
		}
		if kind != 1 {
			for _, r := range st.RemoveRecords() {
				ids = append(ids, r.RecordId)
			}
		}
		sort.Strings(ids)
		return ids
	}
	requester := func(id string) []byte {
		joins, _ := st.JoinRecords(false)
		for _, r := range append(joins, st.RemoveRecords()...) {
			if r.RecordId == id {
				b, _ := r.RequestIdentity.Marshall()
				return b
			}
		}
		if _, who := w.historicRequests(0); who[id] != nil {
			return who[id]
		}
		return pubProto(t)
	}
	// variants >= 14 name any request record the log ever held (settled ones included), in log
	// order, so that ref -1 is the most recent one
	pickRequest := func(kind int) string {
		if fc.Variant >= 14 {
			ids, _ := w.historicRequests(kind)
			return pickStr(ids, fc.Ref, "no-such-request")
		}
		return pickStr(requestIds(kind), fc.Ref, "no-such-request")
	}
	switch fc.Kind {
	case "perm_change":
		return &aclrecordproto.AclContentValue{Value: &aclrecordproto.AclContentValue_PermissionChange{PermissionChange: &aclrecordproto.AclAccountPermissionChange{Identity: pubProto(t), Permissions: pv(fc.Perm)}}}, nil
	case "perm_changes":
		chs := []*aclrecordproto.AclAccountPermissionChange{{Identity: pubProto(t), Permissions: pv(fc.Perm)}}
		if t2 != t {
			chs = append(chs, &aclrecordproto.AclAccountPermissionChange{Identity: pubProto(t2), Permissions: pv((fc.Perm+fc.Variant)%6)})
		}
		return &aclrecordproto.AclContentValue{Value: &aclrecordproto.AclContentValue_PermissionChanges{PermissionChanges: &aclrecordproto.AclAccountPermissionChanges{Changes: chs}}}, nil
	case "ownership":
		return &aclrecordproto.AclContentValue{Value: &aclrecordproto.AclContentValue_OwnershipChange{OwnershipChange: &aclrecordproto.AclOwnershipChange{NewOwnerIdentity: pubProto(t), OldOwnerPermissions: pv(fc.Perm)}}}, nil
	case "accounts_add":
		adds := []*aclrecordproto.AclAccountAdd{{Identity: pubProto(t), Permissions: pv(fc.Perm), Metadata: meta(), EncryptedReadKey: encKeyFor(w.Keys[t].SignKey.GetPublic())}}
		if fc.Variant%3 == 1 && t2 != t {
			adds = append(adds, &aclrecordproto.AclAccountAdd{Identity: pubProto(t2), Permissions: pv(Reader), Metadata: meta(), EncryptedReadKey: encKeyFor(w.Keys[t2].SignKey.GetPublic())})
		}
		return &aclrecordproto.AclContentValue{Value: &aclrecordproto.AclContentValue_AccountsAdd{AccountsAdd: &aclrecordproto.AclAccountsAdd{Additions: adds}}}, nil
	case "invite":
		priv, pub, err := crypto.GenerateRandomEd25519KeyPair()
		if err != nil {
			return nil, err
		}
		pb, _ := pub.Marshall()
		inv := &aclrecordproto.AclAccountInvite{InviteKey: pb, Permissions: pv(fc.Perm)}
		if fc.Variant%2 == 1 {
			inv.InviteType = aclrecordproto.AclInviteType_AnyoneCanJoin
		}
		// every combination of type and key material: an open invite normally carries the read
		// key and a request invite does not, but a hand-made record can do either
		if v := fc.Variant % 4; v == 1 || v == 2 {
			inv.EncryptedReadKey = encKeyFor(pub)
		}
		w.pendingInvite = &InviteInfo{Key: priv, Anyone: fc.Variant%2 == 1, Perm: fc.Perm, Live: true}
		return &aclrecordproto.AclContentValue{Value: &aclrecordproto.AclContentValue_Invite{Invite: inv}}, nil
	case "invite_change":
		id := pickStr(sortedInviteIds(st, false), fc.Ref, "no-such-invite")
		return &aclrecordproto.AclContentValue{Value: &aclrecordproto.AclContentValue_InviteChange{InviteChange: &aclrecordproto.AclAccountInviteChange{InviteRecordId: id, Permissions: pv(fc.Perm)}}}, nil
	case "invite_revoke":
		id := pickStr(sortedInviteIds(st, false), fc.Ref, "no-such-invite")
		return &aclrecordproto.AclContentValue{Value: &aclrecordproto.AclContentValue_InviteRevoke{InviteRevoke: &aclrecordproto.AclAccountInviteRevoke{InviteRecordId: id}}}, nil
	case "request_join", "invite_join":
		anyone := fc.Kind == "invite_join"
		if fc.Variant%5 == 4 {
			anyone = !anyone // name an invite of the other kind
		}
		id := pickStr(sortedInviteIds(st, anyone), fc.Ref, "no-such-invite")
		if fc.Ref >= 1000 && len(w.Invites) > 0 {
			// the invite created most recently (of whatever kind), whose key the harness holds
			id = w.Invites[len(w.Invites)-1].Id
		}
		who := a
		if fc.Variant%7 == 6 {
			who = t // claim somebody else's identity
		}
		rawId, _ := w.Keys[who].SignKey.GetPublic().Raw()
		var sig []byte
		if k := w.inviteKeyFor(id); k != nil && fc.Variant%3 != 2 {
			sig, _ = k.Sign(rawId)
		} else {
			// an outsider without the invite's private key: signs with its own key instead
			sig, _ = w.Keys[a].SignKey.Sign(rawId)
		}
		if fc.Kind == "request_join" {
			return &aclrecordproto.AclContentValue{Value: &aclrecordproto.AclContentValue_RequestJoin{RequestJoin: &aclrecordproto.AclAccountRequestJoin{
				InviteIdentity: pubProto(who), InviteRecordId: id, InviteIdentitySignature: sig, Metadata: meta()}}}, nil
		}
		return &aclrecordproto.AclContentValue{Value: &aclrecordproto.AclContentValue_InviteJoin{InviteJoin: &aclrecordproto.AclAccountInviteJoin{
			Identity: pubProto(who), InviteRecordId: id, InviteIdentitySignature: sig, Metadata: meta(),
			EncryptedReadKey: encKeyFor(w.Keys[who].SignKey.GetPublic()), Permissions: pv(fc.Perm)}}}, nil
	case "request_accept":
		id := pickRequest(fc.Variant % 3)
		ident := requester(id)
		if fc.Variant%7 == 6 {
			ident = pubProto(t)
		}
		var pk crypto.PubKey = w.Keys[t].SignKey.GetPublic()
		if k, err := crypto.UnmarshalEd25519PublicKeyProto(ident); err == nil {
			pk = k
		}
		return &aclrecordproto.AclContentValue{Value: &aclrecordproto.AclContentValue_RequestAccept{RequestAccept: &aclrecordproto.AclAccountRequestAccept{
			Identity: ident, RequestRecordId: id, EncryptedReadKey: encKeyFor(pk), Permissions: pv(fc.Perm)}}}, nil
	case "request_decline":
		id := pickRequest(fc.Variant % 3)
		return &aclrecordproto.AclContentValue{Value: &aclrecordproto.AclContentValue_RequestDecline{RequestDecline: &aclrecordproto.AclAccountRequestDecline{RequestRecordId: id}}}, nil
	case "request_cancel":
		id := pickRequest(0)
		return &aclrecordproto.AclContentValue{Value: &aclrecordproto.AclContentValue_RequestCancel{RequestCancel: &aclrecordproto.AclAccountRequestCancel{RecordId: id}}}, nil
	case "account_remove":
		targets := []int{t}
		if fc.Variant%3 == 1 && t2 != t {
			targets = append(targets, t2)
		}
		var ids [][]byte
		removed := map[string]bool{}
		for _, x := range targets {
			ids = append(ids, pubProto(x))
			removed[string(w.Keys[x].SignKey.GetPublic().Storage())] = true
		}
		rk, err := w.buildReadKeyChange(st, removed, fc.Variant%11 == 10, fc.Variant%5 == 3)
		if err != nil {
			return nil, err
		}
		return &aclrecordproto.AclContentValue{Value: &aclrecordproto.AclContentValue_AccountRemove{AccountRemove: &aclrecordproto.AclAccountRemove{Identities: ids, ReadKeyChange: rk}}}, nil
	case "request_remove":
		return &aclrecordproto.AclContentValue{Value: &aclrecordproto.AclContentValue_AccountRequestRemove{AccountRequestRemove: &aclrecordproto.AclAccountRequestRemove{}}}, nil
	case "read_key_change":
		rk, err := w.buildReadKeyChange(st, nil, fc.Variant%11 == 10, fc.Variant%5 == 3)
		if err != nil {
			return nil, err
		}
		return &aclrecordproto.AclContentValue{Value: &aclrecordproto.AclContentValue_ReadKeyChange{ReadKeyChange: rk}}, nil
	case "options":
		return &aclrecordproto.AclContentValue{Value: &aclrecordproto.AclContentValue_SpaceOptionsChange{SpaceOptionsChange: &aclrecordproto.AclSpaceOptionsChange{Options: &aclrecordproto.AclSpaceOptions{DeleteRestricted: fc.Variant%2 == 0}}}}, nil
	}
	return nil, fmt.Errorf("unknown forged content kind %q", fc.Kind)
}

// buildReadKeyChange wraps a fresh read key for exactly the accounts that hold a
// permission (minus removed) and the live open invites — what a fully validating list
// demands — or, if sloppy, for one account too few.
// altEnc re-encodes an ed25519 public key proto with its default key type written out
// explicitly (08 00 ...): the same key, a different byte string.
func altEnc(id []byte) []byte {
	if len(id) > 0 && id[0] == 0x12 {
		return append([]byte{0x08, 0x00}, id...)
	}
	return id
}

func (w *World) buildReadKeyChange(st *list.AclState, removed map[string]bool, sloppy bool, alt ...bool) (*aclrecordproto.AclReadKeyChange, error) {
	newKey := crypto.NewAES()
	proto, err := newKey.Marshall()
	if err != nil {
		return nil, err
	}
	mkPriv, mkPub, err := crypto.GenerateRandomEd25519KeyPair()
	if err != nil {
		return nil, err
	}
	res := &aclrecordproto.AclReadKeyChange{}
	accs := st.CurrentAccounts()
	sort.Slice(accs, func(i, j int) bool { return string(accs[i].PubKey.Storage()) < string(accs[j].PubKey.Storage()) })
	for _, acc := range accs {
		if acc.Permissions.NoPermissions() || removed[string(acc.PubKey.Storage())] {
			continue
		}
		if sloppy {
			sloppy = false
			continue
		}
		id, _ := acc.PubKey.Marshall()
		if len(alt) > 0 && alt[0] {
			id = altEnc(id)
		}
		enc, err := acc.PubKey.Encrypt(proto)
		if err != nil {
			return nil, err
		}
		res.AccountKeys = append(res.AccountKeys, &aclrecordproto.AclEncryptedReadKey{Identity: id, EncryptedReadKey: enc})
	}
	invs := st.Invites(aclrecordproto.AclInviteType_AnyoneCanJoin)
	sort.Slice(invs, func(i, j int) bool { return invs[i].Id < invs[j].Id })
	for _, inv := range invs {
		id, _ := inv.Key.Marshall()
		enc, err := inv.Key.Encrypt(proto)
		if err != nil {
			return nil, err
		}
		res.InviteKeys = append(res.InviteKeys, &aclrecordproto.AclEncryptedReadKey{Identity: id, EncryptedReadKey: enc})
	}
	res.MetadataPubKey, _ = mkPub.Marshall()
	mkProto, _ := mkPriv.Marshall()
	res.EncryptedMetadataPrivKey, err = newKey.Encrypt(mkProto)
	if err != nil {
		return nil, err
	}
	cur, err := st.CurrentReadKey()
	if err != nil || cur == nil {
		res.EncryptedOldReadKey = []byte("none")
		return res, nil
	}
	curProto, _ := cur.Marshall()
	res.EncryptedOldReadKey, err = newKey.Encrypt(curProto)
	return res, err
}

// ApplyForge builds, signs and submits a forged record on top of the current head.
// It returns whether every list accepted it and the first list's error otherwise.
// Symbolic authors for Forge.Author (resolved against the reference state when the record is
// assembled): the current owner, and the first non-owner admin (the owner if there is none).
const (
	AuthorOwner = -1000
	AuthorAdmin = -1001
)

// ResolveAuthor maps a Forge author (index modulo N, or a symbolic author) to an account index.
func (w *World) ResolveAuthor(author int) int {
	if author != AuthorOwner && author != AuthorAdmin {
		return w.acc(author)
	}
	st := w.refState()
	owner := 0
	if pk, err := st.OwnerPubKey(); err == nil {
		for i := 0; i < w.N; i++ {
			if w.Keys[i].SignKey.GetPublic().Equals(pk) {
				owner = i
			}
		}
	}
	if author == AuthorAdmin {
		for i := 0; i < w.N; i++ {
			if i != owner && st.Permissions(w.Keys[i].SignKey.GetPublic()).CanManageAccounts() {
				return i
			}
		}
	}
	return owner
}

// historicRequests lists every request record the log ever held (pending, settled or
// cancelled), in log order: anybody who reads the log can name them.
func (w *World) historicRequests(kind int) (ids []string, who map[string][]byte) { // 0 any, 1 join, 2 remove
	who = map[string][]byte{}
	for _, rec := range w.Lists[w.Ref()].Records() {
		data, ok := rec.Model.(*aclrecordproto.AclData)
		if !ok || data == nil {
			continue
		}
		for _, c := range data.AclContent {
			if (c.GetRequestJoin() != nil && kind != 2) || (c.GetAccountRequestRemove() != nil && kind != 1) {
				ids = append(ids, rec.Id)
				if b, err := rec.Identity.Marshall(); err == nil {
					who[rec.Id] = b
				}
				break
			}
		}
	}
	return
}

func (w *World) ApplyForge(f Forge) (accepted bool, rejectErr error, err error) {
	f.Author = w.ResolveAuthor(f.Author)
	var contents []*aclrecordproto.AclContentValue
	w.pendingInvite = nil
	var newInvites []*InviteInfo
	for _, fc := range f.Contents {
		c, err := w.BuildContent(f.Author, fc)
		if err != nil {
			return false, nil, err
		}
		if w.pendingInvite != nil {
			newInvites = append(newInvites, w.pendingInvite)
			w.pendingInvite = nil
		}
		contents = append(contents, c)
	}
	rec, err := w.Forge(f.Author, w.Head(), contents)
	if err != nil {
		return false, nil, err
	}
	if w.Stuck[w.acc(f.Author)] {
		return false, fmt.Errorf("author's own view is stuck"), nil
	}
	ok, rejErr, err := w.submit(rec)
	if err != nil {
		return false, nil, err
	}
	if !ok {
		return false, rejErr, nil
	}
	for _, inv := range newInvites {
		inv.Id = rec.Id
		w.Invites = append(w.Invites, inv)
	}
	w.ForgedAccepted++
	return true, nil, nil
}
