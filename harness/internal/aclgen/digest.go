package aclgen

import (
	"context"
	"encoding/hex"
	"fmt"
	"sort"
	"strings"

	"github.com/anyproto/any-sync/commonspace/object/acl/list"
)

// Digest renders everything observable about a list's state through its public API in
// a canonical (sorted) textual form: head, members with permissions / status / permission
// history, invites, pending join and remove requests, key ids, current key id, which key
// generations the list's own identity can read (with the key bytes), options, owner.
func Digest(l list.AclList) string { return digest(l, true) }

// PublicDigest is Digest without what legitimately differs between observers (which key
// generations the list's own identity can read): members, permissions, status, permission
// history, invites, pending requests, key ids, current key id, options and owner must be the
// same for every observer of the same record sequence.
func PublicDigest(l list.AclList) string { return digest(l, false) }

func digest(l list.AclList, private bool) string {
	var b strings.Builder
	st := l.AclState()
	fmt.Fprintf(&b, "head=%s n=%d last=%s\n", l.Head().Id, len(l.Records()), st.LastRecordId())
	accs := st.CurrentAccounts()
	var lines []string
	for _, a := range accs {
		var pc []string
		for _, c := range a.PermissionChanges {
			pc = append(pc, fmt.Sprintf("%s:%d", short(c.RecordId), c.Permission))
		}
		lines = append(lines, fmt.Sprintf("acc %s perm=%d status=%d keyrec=%s meta=%x changes=%v",
			a.PubKey.Account(), a.Permissions, a.Status, short(a.KeyRecordId), a.RequestMetadata, pc))
	}
	sort.Strings(lines)
	b.WriteString(strings.Join(lines, "\n") + "\n")
	lines = lines[:0]
	for _, inv := range st.Invites() {
		lines = append(lines, fmt.Sprintf("invite %s type=%d perm=%d key=%s", short(inv.Id), inv.Type, inv.Permissions, inv.Key.Account()))
	}
	sort.Strings(lines)
	b.WriteString(strings.Join(lines, "\n") + "\n")
	lines = lines[:0]
	joins, _ := st.JoinRecords(false)
	for _, r := range joins {
		lines = append(lines, fmt.Sprintf("join %s by=%s keyrec=%s meta=%x", short(r.RecordId), r.RequestIdentity.Account(), short(r.KeyRecordId), r.RequestMetadata))
	}
	for _, r := range st.RemoveRecords() {
		lines = append(lines, fmt.Sprintf("leave %s by=%s", short(r.RecordId), r.RequestIdentity.Account()))
	}
	ids := st.RequestIds()
	sort.Strings(ids)
	for _, id := range ids {
		lines = append(lines, "req "+short(id))
	}
	sort.Strings(lines)
	b.WriteString(strings.Join(lines, "\n") + "\n")
	lines = lines[:0]
	for id, k := range st.Keys() {
		rk := "-"
		if k.ReadKey != nil {
			raw, _ := k.ReadKey.Raw()
			rk = hex.EncodeToString(raw)
		}
		mk := "-"
		if k.MetadataPubKey != nil {
			mk = k.MetadataPubKey.Account()
		}
		mp := "-"
		if k.MetadataPrivKey != nil {
			mp = "have"
		}
		if !private {
			rk, mp = "*", "*"
		}
		lines = append(lines, fmt.Sprintf("key %s read=%s metapub=%s metapriv=%s", short(id), rk, mk, mp))
	}
	sort.Strings(lines)
	b.WriteString(strings.Join(lines, "\n") + "\n")
	fmt.Fprintf(&b, "curkey=%s\n", short(st.CurrentReadKeyId()))
	if o := st.CurrentOptions(); o != nil {
		fmt.Fprintf(&b, "options=%v\n", o.DeleteRestricted)
	}
	if pk, err := st.OwnerPubKey(); err == nil {
		fmt.Fprintf(&b, "owner=%s\n", pk.Account())
	} else {
		fmt.Fprintf(&b, "owner-err=%v\n", err)
	}
	return b.String()
}

func short(id string) string {
	if len(id) > 8 {
		return id[len(id)-8:]
	}
	return id
}

// StorageScan lists the stored record ids in storage order with their byte hashes.
func StorageScan(st list.Storage) (string, error) {
	var b strings.Builder
	ctx := context.Background()
	head, err := st.Head(ctx)
	if err != nil {
		return "", err
	}
	fmt.Fprintf(&b, "head=%s\n", short(head))
	// walk the chain from the head (GetAfterOrder's bound is unreliable on anystore, see DESIGN §4 row 13)
	var ids []string
	id := head
	for id != "" {
		r, err := st.Get(ctx, id)
		if err != nil {
			return "", err
		}
		ids = append(ids, fmt.Sprintf("%s:%d:%d", short(r.Id), r.Order, len(r.RawRecord)))
		id = r.PrevId
	}
	n := 0
	err = st.GetAfterOrder(ctx, 1, func(ctx context.Context, r list.StorageRecord) (bool, error) {
		n++
		return true, nil
	})
	if err != nil {
		return "", err
	}
	fmt.Fprintf(&b, "count=%d chain=%v\n", n, ids)
	return b.String(), nil
}
