// Package aclgen is engine B of DESIGN.md: it turns a generated, plain-data list of
// ACL operations into a real ACL record log, produced by the acting accounts' own
// record builders (builder route) or assembled and signed by the harness without the
// client-side pre-filter (forger route). Every account keeps its own in-memory list.
// Histories are built inside a testing/synctest bubble so that the time stamps any-sync
// puts into records are fixed and the produced bytes are a function of the ops and of the
// detrand seed only.
package aclgen

import (
	"errors"
	"fmt"
	"runtime/debug"
	"testing"
	"testing/synctest"

	"github.com/anyproto/any-sync/commonspace/object/accountdata"
	"github.com/anyproto/any-sync/commonspace/object/acl/aclrecordproto"
	"github.com/anyproto/any-sync/commonspace/object/acl/list"
	"github.com/anyproto/any-sync/commonspace/object/acl/recordverifier"
	"github.com/anyproto/any-sync/consensus/consensusproto"
	"github.com/anyproto/any-sync/util/cidutil"
	"github.com/anyproto/any-sync/util/crypto"

	"verif/harness/internal/accounts"
	"verif/harness/internal/detrand"
)

// Permission values (aclrecordproto.AclUserPermissions).
const (
	None   = 0
	Owner  = 1
	Admin  = 2
	Writer = 3
	Reader = 4
	Guest  = 5
)

var PermNames = []string{"none", "owner", "admin", "writer", "reader", "guest"}

// Op is one generated ACL operation. Integer arguments are interpreted modulo the
// current state (accounts, invites), so any Op list is executable.
type Op struct {
	Kind   string `json:"k"`
	Actor  int    `json:"a"`
	Target int    `json:"t,omitempty"`
	T2     int    `json:"t2,omitempty"`
	Perm   int    `json:"p,omitempty"`
	Ref    int    `json:"r,omitempty"`
	Flag   bool   `json:"f,omitempty"`
	Sub    []Op   `json:"sub,omitempty"`
}

// BuilderKinds are the operations of the builder route.
var BuilderKinds = []string{
	"invite", "invite_anyone", "invite_change", "invite_revoke", "invite_revoke_rotate",
	"request_join", "accept", "decline", "cancel", "invite_join",
	"add", "add2", "remove", "remove2", "request_remove",
	"perm_change", "perm_changes", "ownership", "read_key_change", "options", "read_key_change_altenc", "batch",
}

// InviteInfo is the harness' own bookkeeping of invites it saw being created.
type InviteInfo struct {
	Id     string
	Key    crypto.PrivKey
	Anyone bool
	Perm   int
	Live   bool
}

// Step records what happened to one op.
type Step struct {
	Op       Op
	Accepted bool
	BuildErr string
	RecordId string
	Index    int // index of the record in World.Records when accepted
}

// Model is the harness' reference view of membership, derived from op semantics only.
type Model struct {
	Perm          []int    // current permission per account
	PendingJoin   []string // request record id per account ("" if none)
	PendingRemove []string
	KeyGen        int // number of read-key generations so far (root = 1)
	// PermAt[i][r] = permission of account i after record r (r indexes World.Records)
	PermAt [][]int
	// GenAt[r] = key generation in force after record r
	GenAt []int
	// HeldGen[i] = set of generations account i is entitled to know
	Options bool
}

// World is one ACL universe: N accounts, each with its own full-validating list.
type World struct {
	N       int
	SpaceId string
	Keys    []*accountdata.AccountKeys
	Lists   []list.AclList
	NetKey  crypto.PrivKey
	Records []*consensusproto.RawRecordWithId
	Invites []*InviteInfo
	Steps   []Step
	M       Model
	// AcceptorSign: records get the network acceptor's identity and signature.
	AcceptorSign   bool
	BuilderPanics  int
	ForgedAccepted int
	pendingInvite  *InviteInfo
	// Stuck[i]: account i's own list rejected a record every validating replica accepted
	// because it could not unpack the key material addressed to it (a forged record can carry
	// a wrong key; only the addressee can notice). Its view no longer follows the log.
	Stuck []bool
}

// Bubble runs f inside a synctest bubble (fixed fake clock) and returns its error.
func Bubble(t *testing.T, f func() error) (err error) {
	synctest.Test(t, func(*testing.T) {
		defer func() {
			if r := recover(); r != nil {
				err = fmt.Errorf("PANIC: %v\n%s", r, debug.Stack())
			}
		}()
		err = f()
	})
	return err
}

// NewWorld creates the space ACL (owner = account 0) and one list per account.
// Must be called inside Bubble for reproducible bytes.
func NewWorld(n int, seed uint64, acceptorSign bool) (*World, error) {
	detrand.Seed(seed)
	w := &World{N: n, SpaceId: "spaceid.verif", NetKey: accounts.Key("network", 0), AcceptorSign: acceptorSign}
	for i := 0; i < n; i++ {
		w.Keys = append(w.Keys, accounts.Get(i))
	}
	owner := w.Keys[0]
	builder := list.NewAclRecordBuilder("", crypto.NewKeyStorage(), owner, recordverifier.NewValidateFull())
	masterKey, _, err := crypto.GenerateRandomEd25519KeyPair()
	if err != nil {
		return nil, err
	}
	metaKey, _, err := crypto.GenerateRandomEd25519KeyPair()
	if err != nil {
		return nil, err
	}
	root, err := builder.BuildRoot(list.RootContent{
		PrivKey:   owner.SignKey,
		SpaceId:   w.SpaceId,
		MasterKey: masterKey,
		Change:    list.ReadKeyChangePayload{MetadataKey: metaKey, ReadKey: crypto.NewAES()},
		Metadata:  []byte("owner"),
	})
	if err != nil {
		return nil, err
	}
	w.Records = append(w.Records, root)
	for i := 0; i < n; i++ {
		l, err := NewList(w.Keys[i], w.Records, recordverifier.NewValidateFull())
		if err != nil {
			return nil, err
		}
		w.Lists = append(w.Lists, l)
	}
	w.M = Model{Perm: make([]int, n), PendingJoin: make([]string, n), PendingRemove: make([]string, n), KeyGen: 1, PermAt: make([][]int, n)}
	w.M.Perm[0] = Owner
	w.Stuck = make([]bool, n)
	w.snapshotModel()
	return w, nil
}

// NewList builds a list for keys over an in-memory storage holding records.
func NewList(keys *accountdata.AccountKeys, records []*consensusproto.RawRecordWithId, v recordverifier.AcceptorVerifier) (list.AclList, error) {
	st, err := list.NewInMemoryStorage(records[0].Id, records)
	if err != nil {
		return nil, err
	}
	return list.BuildAclListWithIdentity(keys, st, v)
}

func (w *World) snapshotModel() {
	for i := 0; i < w.N; i++ {
		w.M.PermAt[i] = append(w.M.PermAt[i], w.M.Perm[i])
	}
	w.M.GenAt = append(w.M.GenAt, w.M.KeyGen)
}

// Wrap acceptor-signs (if configured) and CIDs a raw record, the way the consensus node does.
func (w *World) Wrap(raw *consensusproto.RawRecord) (*consensusproto.RawRecordWithId, error) {
	if w.AcceptorSign {
		id, err := w.NetKey.GetPublic().Marshall()
		if err != nil {
			return nil, err
		}
		sig, err := w.NetKey.Sign(raw.Payload)
		if err != nil {
			return nil, err
		}
		raw.AcceptorIdentity = id
		raw.AcceptorSignature = sig
		raw.AcceptorTimestamp = 946684800 + int64(len(w.Records))
	}
	return WrapRaw(raw)
}

// WrapRaw marshals a RawRecord and attaches its CID.
func WrapRaw(raw *consensusproto.RawRecord) (*consensusproto.RawRecordWithId, error) {
	payload, err := raw.MarshalVT()
	if err != nil {
		return nil, err
	}
	id, err := cidutil.NewCidFromBytes(payload)
	if err != nil {
		return nil, err
	}
	return &consensusproto.RawRecordWithId{Payload: payload, Id: id}, nil
}

// Submit applies an already wrapped record to every account's list. It returns
// accepted=false if the first list rejects it; a record accepted by one full-validating
// list and rejected by another is reported as an error (replicas must agree).
func (w *World) Submit(rec *consensusproto.RawRecordWithId) (accepted bool, err error) {
	accepted, _, err = w.submit(rec)
	return
}

func (w *World) submit(rec *consensusproto.RawRecordWithId) (accepted bool, rejectErr error, err error) {
	type res struct {
		i   int
		err error
	}
	var results []res
	for i, l := range w.Lists {
		if w.Stuck[i] {
			continue
		}
		results = append(results, res{i, l.AddRawRecord(CloneRec(rec))})
	}
	nOK := 0
	var firstErr error
	for _, r := range results {
		if r.err == nil {
			nOK++
		} else if firstErr == nil {
			firstErr = r.err
		}
	}
	if nOK == 0 {
		return false, firstErr, nil
	}
	// some list accepted: the others must have accepted too, except an account that cannot
	// unpack key material addressed to it (only the addressee can notice a wrong key) — its
	// own view no longer follows the log
	for _, r := range results {
		if r.err == nil {
			continue
		}
		if errors.Is(r.err, list.ErrFailedToDecrypt) || errors.Is(r.err, list.ErrIncorrectReadKey) {
			w.Stuck[r.i] = true
			continue
		}
		return false, nil, fmt.Errorf("replicas disagree on record %s: %d accept, account%d err=%v", rec.Id, nOK, r.i, r.err)
	}
	w.Records = append(w.Records, rec)
	return true, nil, nil
}

// CloneRec deep-copies a raw record (lists may keep references to the bytes).
func CloneRec(r *consensusproto.RawRecordWithId) *consensusproto.RawRecordWithId {
	return &consensusproto.RawRecordWithId{Payload: append([]byte(nil), r.Payload...), Id: r.Id}
}

func (w *World) acc(i int) int { return ((i % w.N) + w.N) % w.N }

func (w *World) invite(ref int, pred func(*InviteInfo) bool) *InviteInfo {
	var c []*InviteInfo
	for _, inv := range w.Invites {
		if pred == nil || pred(inv) {
			c = append(c, inv)
		}
	}
	if len(c) == 0 {
		return nil
	}
	return c[((ref%len(c))+len(c))%len(c)]
}

func permOf(p int) list.AclPermissions { return list.AclPermissions(aclrecordproto.AclUserPermissions(p)) }

func (w *World) rotation() list.ReadKeyChangePayload {
	mk, _, err := crypto.GenerateRandomEd25519KeyPair()
	if err != nil {
		panic(err)
	}
	return list.ReadKeyChangePayload{MetadataKey: mk, ReadKey: crypto.NewAES()}
}

type effect func(recId string)

// Apply executes one builder-route op: the acting account's own builder produces the
// record (or refuses), the record is acceptor-signed, CID-ed and submitted to all lists,
// and the reference model is updated from the op's meaning.
func (w *World) Apply(op Op) (st Step, err error) {
	defer func() {
		// The record builders are a local API with preconditions (e.g. the caller holds the
		// current read key); a generated op that violates one makes the builder panic. That is
		// outside every listed property: treat it as "the builder refused".
		if r := recover(); r != nil {
			if st.Accepted {
				panic(r)
			}
			st.BuildErr = fmt.Sprintf("builder panic: %v", r)
			w.BuilderPanics++
			err = nil
		}
	}()
	return w.apply(op)
}

func (w *World) apply(op Op) (Step, error) {
	st := Step{Op: op, Index: -1}
	a := w.acc(op.Actor)
	if w.Stuck[a] {
		st.BuildErr = "actor's own view is stuck"
		return st, nil
	}
	t := w.acc(op.Target)
	t2 := w.acc(op.T2)
	l := w.Lists[a]
	b := l.RecordBuilder()
	pub := func(i int) crypto.PubKey { return w.Keys[i].SignKey.GetPublic() }
	var (
		raw *consensusproto.RawRecord
		err error
		eff effect
	)
	m := &w.M
	switch op.Kind {
	case "invite":
		var res list.InviteResult
		res, err = b.BuildInvite()
		raw = res.InviteRec
		eff = func(id string) { w.Invites = append(w.Invites, &InviteInfo{Id: id, Key: res.InviteKey, Live: true}) }
	case "invite_anyone":
		var res list.InviteResult
		res, err = b.BuildInviteAnyone(permOf(op.Perm))
		raw = res.InviteRec
		eff = func(id string) {
			w.Invites = append(w.Invites, &InviteInfo{Id: id, Key: res.InviteKey, Anyone: true, Perm: op.Perm, Live: true})
		}
	case "invite_change":
		inv := w.invite(op.Ref, func(i *InviteInfo) bool { return i.Live })
		if inv == nil {
			st.BuildErr = "no invite"
			return st, nil
		}
		raw, err = b.BuildInviteChange(list.InviteChangePayload{IniviteRecordId: inv.Id, Permissions: permOf(op.Perm)})
		eff = func(string) { inv.Perm = op.Perm }
	case "invite_revoke":
		inv := w.invite(op.Ref, func(i *InviteInfo) bool { return i.Live })
		if inv == nil {
			st.BuildErr = "no invite"
			return st, nil
		}
		raw, err = b.BuildInviteRevoke(inv.Id)
		eff = func(string) { inv.Live = false }
	case "invite_revoke_rotate":
		inv := w.invite(op.Ref, func(i *InviteInfo) bool { return i.Live })
		if inv == nil {
			st.BuildErr = "no invite"
			return st, nil
		}
		rot := w.rotation()
		var res list.BatchResult
		res, err = b.BuildBatchRequest(list.BatchRequestPayload{InviteRevokes: []string{inv.Id}, ReadKeyChange: &rot})
		raw = res.Rec
		eff = func(string) { inv.Live = false; m.KeyGen++ }
	case "request_join":
		inv := w.invite(op.Ref, nil)
		if inv == nil {
			st.BuildErr = "no invite"
			return st, nil
		}
		raw, err = b.BuildRequestJoin(list.RequestJoinPayload{InviteKey: inv.Key, Metadata: []byte(fmt.Sprintf("meta-%d", a))})
		eff = func(id string) { m.PendingJoin[a] = id }
	case "accept":
		if m.PendingJoin[t] == "" {
			st.BuildErr = "no pending join"
			return st, nil
		}
		raw, err = b.BuildRequestAccept(list.RequestAcceptPayload{RequestRecordId: m.PendingJoin[t], Permissions: permOf(op.Perm)})
		eff = func(string) { m.PendingJoin[t] = ""; m.Perm[t] = op.Perm }
	case "decline":
		if m.PendingJoin[t] == "" {
			st.BuildErr = "no pending join"
			return st, nil
		}
		raw, err = b.BuildRequestDecline(m.PendingJoin[t])
		eff = func(string) { m.PendingJoin[t] = "" }
	case "cancel":
		id := m.PendingJoin[a]
		if id == "" {
			id = m.PendingRemove[a]
		}
		if id == "" {
			st.BuildErr = "no pending request"
			return st, nil
		}
		raw, err = b.BuildRequestCancel(id)
		eff = func(string) { m.PendingJoin[a] = ""; m.PendingRemove[a] = "" }
	case "invite_join":
		inv := w.invite(op.Ref, func(i *InviteInfo) bool { return i.Anyone })
		if inv == nil {
			st.BuildErr = "no invite"
			return st, nil
		}
		raw, err = b.BuildInviteJoinWithoutApprove(list.InviteJoinPayload{InviteKey: inv.Key, Permissions: permOf(op.Perm), Metadata: []byte(fmt.Sprintf("meta-%d", a))})
		eff = func(string) {
			if op.Perm == None {
				m.Perm[a] = inv.Perm
			} else {
				m.Perm[a] = op.Perm
			}
			m.PendingJoin[a] = ""
		}
	case "add", "add2":
		adds := []list.AccountAdd{{Identity: pub(t), Permissions: permOf(op.Perm), Metadata: []byte(fmt.Sprintf("meta-%d", t))}}
		ts := []int{t}
		if op.Kind == "add2" && t2 != t {
			adds = append(adds, list.AccountAdd{Identity: pub(t2), Permissions: permOf(Reader), Metadata: []byte(fmt.Sprintf("meta-%d", t2))})
			ts = append(ts, t2)
		}
		raw, err = b.BuildAccountsAdd(list.AccountsAddPayload{Additions: adds})
		eff = func(string) {
			m.Perm[t] = op.Perm
			if len(ts) > 1 {
				m.Perm[t2] = Reader
			}
			for _, x := range ts {
				m.PendingJoin[x] = ""
			}
		}
	case "remove", "remove2":
		ids := []crypto.PubKey{pub(t)}
		ts := []int{t}
		if op.Kind == "remove2" && t2 != t {
			ids = append(ids, pub(t2))
			ts = append(ts, t2)
		}
		raw, err = b.BuildAccountRemove(list.AccountRemovePayload{Identities: ids, Change: w.rotation()})
		eff = func(string) {
			for _, x := range ts {
				m.Perm[x] = None
				m.PendingRemove[x] = ""
				m.PendingJoin[x] = ""
			}
			m.KeyGen++
		}
	case "request_remove":
		raw, err = b.BuildRequestRemove()
		eff = func(id string) { m.PendingRemove[a] = id }
	case "perm_change":
		raw, err = b.BuildPermissionChange(list.PermissionChangePayload{Identity: pub(t), Permissions: permOf(op.Perm)})
		eff = func(string) { m.Perm[t] = op.Perm }
	case "perm_changes":
		chs := []list.PermissionChangePayload{{Identity: pub(t), Permissions: permOf(op.Perm)}}
		if t2 != t {
			chs = append(chs, list.PermissionChangePayload{Identity: pub(t2), Permissions: permOf(Reader)})
		}
		raw, err = b.BuildPermissionChanges(list.PermissionChangesPayload{Changes: chs})
		eff = func(string) {
			m.Perm[t] = op.Perm
			if t2 != t {
				m.Perm[t2] = Reader
			}
		}
	case "ownership":
		raw, err = b.BuildOwnershipChange(list.OwnershipChangePayload{NewOwner: pub(t), OldOwnerPermissions: permOf(op.Perm)})
		eff = func(string) { m.Perm[t] = Owner; m.Perm[a] = op.Perm }
	case "read_key_change":
		raw, err = b.BuildReadKeyChange(w.rotation())
		eff = func(string) { m.KeyGen++ }
	case "read_key_change_altenc":
		// a rotation assembled by hand whose recipients' identities are valid but non-minimal
		// protobuf encodings of their keys (explicit default key type)
		var rk *aclrecordproto.AclReadKeyChange
		rk, err = w.buildReadKeyChange(l.AclState(), nil, false, true)
		if err == nil {
			raw, err = w.forgeRaw(w.Keys[a].SignKey, l.Head().Id, []*aclrecordproto.AclContentValue{{Value: &aclrecordproto.AclContentValue_ReadKeyChange{ReadKeyChange: rk}}})
		}
		eff = func(string) { m.KeyGen++ }
	case "options":
		raw, err = b.BuildSpaceOptionsChange(&aclrecordproto.AclSpaceOptions{DeleteRestricted: op.Flag})
		eff = func(string) { m.Options = op.Flag }
	case "batch":
		raw, eff, err = w.buildBatch(a, op.Sub)
		if raw == nil && err == nil {
			st.BuildErr = "empty batch"
			return st, nil
		}
	default:
		return st, fmt.Errorf("unknown op kind %q", op.Kind)
	}
	if err != nil {
		st.BuildErr = err.Error()
		return st, nil
	}
	rec, err := w.Wrap(raw)
	if err != nil {
		return st, err
	}
	ok, err := w.Submit(rec)
	if err != nil {
		return st, err
	}
	if !ok && op.Kind == "read_key_change_altenc" {
		// assembled by hand, no builder preflight: a refusal by the lists is an ordinary outcome
		st.BuildErr = "hand-made rotation refused by the lists"
		return st, nil
	}
	if !ok {
		return st, fmt.Errorf("record produced by the builder of account %d (op %+v) passed its preflight check but was rejected by the lists", a, op)
	}
	st.Accepted = true
	st.RecordId = rec.Id
	st.Index = len(w.Records) - 1
	if eff != nil {
		eff(rec.Id)
	}
	w.snapshotModel()
	w.Steps = append(w.Steps, st)
	return st, nil
}

// buildBatch composes a multi-content record from sub-ops (a subset of kinds).
func (w *World) buildBatch(a int, sub []Op) (*consensusproto.RawRecord, effect, error) {
	m := &w.M
	var p list.BatchRequestPayload
	var effs []func(id string)
	pub := func(i int) crypto.PubKey { return w.Keys[i].SignKey.GetPublic() }
	// one account appears in at most one list of a batch, so the order in which the
	// builder lays the contents out does not matter for the reference model
	seen := map[int]bool{}
	seenAdd, seenChange, seenRemove := seen, seen, seen
	var newInvite *InviteInfo
	for _, s := range sub {
		s := s
		t := w.acc(s.Target)
		switch s.Kind {
		case "add":
			if seenAdd[t] {
				continue
			}
			seenAdd[t] = true
			p.Additions = append(p.Additions, list.AccountAdd{Identity: pub(t), Permissions: permOf(s.Perm), Metadata: []byte(fmt.Sprintf("meta-%d", t))})
			effs = append(effs, func(string) { m.Perm[t] = s.Perm; m.PendingJoin[t] = "" })
		case "remove":
			if seenRemove[t] {
				continue
			}
			seenRemove[t] = true
			p.Removals.Identities = append(p.Removals.Identities, pub(t))
			effs = append(effs, func(string) { m.Perm[t] = None; m.PendingRemove[t] = ""; m.PendingJoin[t] = "" })
		case "perm_change":
			if seenChange[t] {
				continue
			}
			seenChange[t] = true
			p.Changes = append(p.Changes, list.PermissionChangePayload{Identity: pub(t), Permissions: permOf(s.Perm)})
			effs = append(effs, func(string) { m.Perm[t] = s.Perm })
		case "accept":
			if m.PendingJoin[t] == "" || seen[t] {
				continue
			}
			seen[t] = true
			id := m.PendingJoin[t]
			dup := false
			for _, ap := range p.Approvals {
				if ap.RequestRecordId == id {
					dup = true
				}
			}
			for _, d := range p.Declines {
				if d == id {
					dup = true
				}
			}
			if dup {
				continue
			}
			p.Approvals = append(p.Approvals, list.RequestAcceptPayload{RequestRecordId: id, Permissions: permOf(s.Perm)})
			effs = append(effs, func(string) { m.PendingJoin[t] = ""; m.Perm[t] = s.Perm })
		case "decline":
			if m.PendingJoin[t] == "" || seen[t] {
				continue
			}
			seen[t] = true
			id := m.PendingJoin[t]
			dup := false
			for _, ap := range p.Approvals {
				if ap.RequestRecordId == id {
					dup = true
				}
			}
			for _, d := range p.Declines {
				if d == id {
					dup = true
				}
			}
			if dup {
				continue
			}
			p.Declines = append(p.Declines, id)
			effs = append(effs, func(string) { m.PendingJoin[t] = "" })
		case "invite_revoke":
			inv := w.invite(s.Ref, func(i *InviteInfo) bool { return i.Live })
			if inv == nil {
				continue
			}
			dup := false
			for _, r := range p.InviteRevokes {
				if r == inv.Id {
					dup = true
				}
			}
			if dup {
				continue
			}
			p.InviteRevokes = append(p.InviteRevokes, inv.Id)
			effs = append(effs, func(string) { inv.Live = false })
		case "new_invite":
			// a new invite created by the batch record itself: Perm None => request-to-join
			// invite, else anyone-can-join with that permission. The list keys invites by
			// record id, so a batch carries at most one.
			if newInvite != nil {
				continue
			}
			newInvite = &InviteInfo{Anyone: s.Perm != None, Perm: s.Perm, Live: true}
			p.NewInvites = append(p.NewInvites, permOf(s.Perm))
		}
	}
	if len(p.Removals.Identities) == 0 && len(p.Additions) > 0 {
		// BuildBatchRequest dereferences Removals.Change.MetadataKey whenever Additions are
		// present (a local API precondition: additions ride on a removal's rotation), so a
		// batch without removals carries no additions
		return nil, nil, nil
	}
	if len(p.Removals.Identities) > 0 {
		p.Removals.Change = w.rotation()
		effs = append(effs, func(string) { m.KeyGen++ })
	}
	if len(effs) == 0 && newInvite == nil {
		return nil, nil, nil
	}
	res, err := w.Lists[a].RecordBuilder().BuildBatchRequest(p)
	if err != nil {
		return nil, nil, err
	}
	if newInvite != nil && len(res.Invites) == 1 {
		inv := newInvite
		inv.Key = res.Invites[0]
		effs = append(effs, func(id string) {
			inv.Id = id
			w.Invites = append(w.Invites, inv)
		})
	}
	return res.Rec, func(id string) {
		for _, e := range effs {
			e(id)
		}
	}, nil
}

// Forge assembles a record from arbitrary contents, signed by account author, with the
// given previous id — bypassing every client-side builder check.
func (w *World) Forge(author int, prevId string, contents []*aclrecordproto.AclContentValue) (*consensusproto.RawRecordWithId, error) {
	return w.ForgeWithKey(w.Keys[w.acc(author)].SignKey, prevId, contents)
}

// ForgeWithKey is Forge with an explicit signing key.
func (w *World) ForgeWithKey(key crypto.PrivKey, prevId string, contents []*aclrecordproto.AclContentValue) (*consensusproto.RawRecordWithId, error) {
	data, err := (&aclrecordproto.AclData{AclContent: contents}).MarshalVT()
	if err != nil {
		return nil, err
	}
	identity, err := key.GetPublic().Marshall()
	if err != nil {
		return nil, err
	}
	rec := &consensusproto.Record{PrevId: prevId, Identity: identity, Data: data, Timestamp: 946684800}
	payload, err := rec.MarshalVT()
	if err != nil {
		return nil, err
	}
	sig, err := key.Sign(payload)
	if err != nil {
		return nil, err
	}
	return w.Wrap(&consensusproto.RawRecord{Payload: payload, Signature: sig})
}

// forgeRaw is ForgeWithKey without the acceptor's wrapping (for ops that go through submit
// like builder-made records).
func (w *World) forgeRaw(key crypto.PrivKey, prevId string, contents []*aclrecordproto.AclContentValue) (*consensusproto.RawRecord, error) {
	data, err := (&aclrecordproto.AclData{AclContent: contents}).MarshalVT()
	if err != nil {
		return nil, err
	}
	identity, err := key.GetPublic().Marshall()
	if err != nil {
		return nil, err
	}
	payload, err := (&consensusproto.Record{PrevId: prevId, Identity: identity, Data: data, Timestamp: 946684800}).MarshalVT()
	if err != nil {
		return nil, err
	}
	sig, err := key.Sign(payload)
	if err != nil {
		return nil, err
	}
	return &consensusproto.RawRecord{Payload: payload, Signature: sig}, nil
}

// Head returns the id of the last accepted record.
func (w *World) Head() string { return w.Records[len(w.Records)-1].Id }
