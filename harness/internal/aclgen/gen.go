package aclgen

import (
	"pgregory.net/rapid"
)

// GenOps draws a list of builder-route ops for n accounts.
//
// Construction over rejection: the generator keeps a rough guess of who is a member
// (assuming every plausible op succeeds) and mostly draws actors and targets that make
// the op legal, so that histories actually grow; a fixed share of ops is drawn blindly
// (any actor, any target, any permission) so illegal attempts occur too and are refused
// by the builders. Short consistent flows (invite -> request -> accept ...) reach rich
// states: pending requests, live invites of both kinds, several admins, removed and
// re-added members, several read-key generations, multi-content batch records.
func GenOps(rt *rapid.T, n, minLen, maxLen int) []Op {
	var ops []Op
	target := rapid.IntRange(minLen, maxLen).Draw(rt, "len")
	acct := rapid.IntRange(0, n-1)
	perm := rapid.SampledFrom([]int{Reader, Writer, Writer, Admin, Guest, Reader, None, Owner})
	goodPerm := rapid.SampledFrom([]int{Reader, Writer, Writer, Admin})

	guess := make([]int, n) // guessed permission
	guess[0] = Owner
	owner := 0
	pick := func(label string, pred func(i int) bool) int {
		var c []int
		for i := 0; i < n; i++ {
			if pred(i) {
				c = append(c, i)
			}
		}
		if len(c) == 0 || rapid.IntRange(0, 9).Draw(rt, label+"-blind") == 0 {
			return acct.Draw(rt, label)
		}
		return c[rapid.IntRange(0, len(c)-1).Draw(rt, label)]
	}
	manager := func(label string) int {
		return pick(label, func(i int) bool { return guess[i] == Owner || (guess[i] == Admin && i%2 == 1) })
	}
	nonMember := func(label string) int { return pick(label, func(i int) bool { return guess[i] == None }) }
	member := func(label string) int {
		return pick(label, func(i int) bool { return guess[i] != None && guess[i] != Owner })
	}
	for len(ops) < target {
		switch rapid.IntRange(0, 22).Draw(rt, "shape") {
		case 0: // request-to-join flow
			x := nonMember("x")
			ops = append(ops, Op{Kind: "invite", Actor: manager("a")}, Op{Kind: "request_join", Actor: x, Ref: -1})
			switch rapid.IntRange(0, 4).Draw(rt, "end") {
			case 0, 1, 2:
				p := goodPerm.Draw(rt, "p")
				ops = append(ops, Op{Kind: "accept", Actor: owner, Target: x, Perm: p})
				guess[x] = p
			case 3:
				ops = append(ops, Op{Kind: "decline", Actor: manager("a2"), Target: x})
			case 4:
				ops = append(ops, Op{Kind: "cancel", Actor: x})
			}
		case 1: // open-invite flow
			x := nonMember("x")
			p := goodPerm.Draw(rt, "p")
			ops = append(ops, Op{Kind: "invite_anyone", Actor: owner, Perm: p})
			if rapid.Bool().Draw(rt, "rot") {
				ops = append(ops, Op{Kind: "read_key_change", Actor: owner})
			}
			ops = append(ops, Op{Kind: "invite_join", Actor: x, Ref: -1, Perm: rapid.SampledFrom([]int{None, None, None, Reader, Writer, Admin}).Draw(rt, "jp")})
			guess[x] = p
		case 2, 3, 4: // direct add
			x := nonMember("t")
			p := perm.Draw(rt, "p")
			k := rapid.SampledFrom([]string{"add", "add", "add2"}).Draw(rt, "k")
			x2 := nonMember("t2")
			ops = append(ops, Op{Kind: k, Actor: manager("a"), Target: x, T2: x2, Perm: p})
			if p != None && p != Owner {
				guess[x] = p
				if k == "add2" && x2 != x {
					guess[x2] = Reader
				}
			}
		case 5, 6: // remove
			x := member("t")
			k := rapid.SampledFrom([]string{"remove", "remove", "remove2"}).Draw(rt, "k")
			x2 := member("t2")
			ops = append(ops, Op{Kind: k, Actor: owner, Target: x, T2: x2})
			guess[x] = None
			if k == "remove2" {
				guess[x2] = None
			}
		case 7: // leave flow
			x := member("x")
			ops = append(ops, Op{Kind: "request_remove", Actor: x})
			switch rapid.IntRange(0, 2).Draw(rt, "end") {
			case 0:
				ops = append(ops, Op{Kind: "remove", Actor: owner, Target: x})
				guess[x] = None
			case 1:
				ops = append(ops, Op{Kind: "cancel", Actor: x})
			}
		case 8:
			x := member("t")
			p := perm.Draw(rt, "p")
			ops = append(ops, Op{Kind: "perm_change", Actor: manager("a"), Target: x, Perm: p})
			if p != None && p != Owner && p != Guest && guess[x] != Guest {
				guess[x] = p
			}
		case 9:
			x, x2 := member("t"), member("t2")
			p := goodPerm.Draw(rt, "p")
			ops = append(ops, Op{Kind: "perm_changes", Actor: owner, Target: x, T2: x2, Perm: p})
			if guess[x] != Guest {
				guess[x] = p
			}
		case 10:
			ops = append(ops, Op{Kind: rapid.SampledFrom([]string{"read_key_change", "read_key_change", "read_key_change_altenc"}).Draw(rt, "rk"), Actor: manager("a")})
		case 11:
			ops = append(ops, Op{Kind: rapid.SampledFrom([]string{"invite_revoke", "invite_revoke_rotate", "invite_change"}).Draw(rt, "k"), Actor: manager("a"), Ref: rapid.IntRange(-2, 3).Draw(rt, "r"), Perm: goodPerm.Draw(rt, "p")})
		case 12:
			ops = append(ops, Op{Kind: "options", Actor: owner, Flag: rapid.Bool().Draw(rt, "f")})
		case 13:
			x := member("t")
			p := rapid.SampledFrom([]int{Admin, Writer, Reader}).Draw(rt, "p")
			ops = append(ops, Op{Kind: "ownership", Actor: owner, Target: x, Perm: p})
			if guess[x] != None {
				guess[owner] = p
				guess[x] = Owner
				owner = x
			}
		case 14, 15, 16: // multi-content batch record: removal(s) + addition(s) + changes ...
			var sub []Op
			r := member("br")
			sub = append(sub, Op{Kind: "remove", Target: r})
			if rapid.Bool().Draw(rt, "badd") {
				x := nonMember("ba")
				if x != r {
					p := goodPerm.Draw(rt, "bp")
					sub = append(sub, Op{Kind: "add", Target: x, Perm: p})
					guess[x] = p
				}
			}
			if rapid.Bool().Draw(rt, "bchg") {
				x := member("bc")
				if x != r {
					sub = append(sub, Op{Kind: "perm_change", Target: x, Perm: rapid.SampledFrom([]int{Reader, Writer}).Draw(rt, "bcp")})
				}
			}
			if rapid.IntRange(0, 2).Draw(rt, "brev") == 0 {
				sub = append(sub, Op{Kind: "invite_revoke", Ref: rapid.IntRange(-1, 2).Draw(rt, "brr")})
			}
			if rapid.IntRange(0, 3).Draw(rt, "bblind") == 0 {
				sub = append(sub, Op{Kind: rapid.SampledFrom([]string{"add", "accept", "decline", "perm_change"}).Draw(rt, "sk"), Target: acct.Draw(rt, "st"), Perm: perm.Draw(rt, "sp")})
			}
			ops = append(ops, Op{Kind: "batch", Actor: owner, Sub: sub})
			guess[r] = None
		case 17: // batch without removal: approvals / declines / revokes
			x := nonMember("x")
			ops = append(ops, Op{Kind: "invite", Actor: owner}, Op{Kind: "request_join", Actor: x, Ref: -1})
			p := goodPerm.Draw(rt, "p")
			ops = append(ops, Op{Kind: "batch", Actor: owner, Sub: []Op{{Kind: "accept", Target: x, Perm: p}, {Kind: "invite_revoke", Ref: -1}}})
			guess[x] = p
		case 19: // an account with a pending join request enters through an open invite instead
			x := nonMember("x")
			p := goodPerm.Draw(rt, "p")
			ops = append(ops, Op{Kind: "invite", Actor: owner}, Op{Kind: "request_join", Actor: x, Ref: -1},
				Op{Kind: "invite_anyone", Actor: owner, Perm: p}, Op{Kind: "invite_join", Actor: x, Ref: -1})
			guess[x] = p
		case 18: // re-add a removed member
			x := member("x")
			p := goodPerm.Draw(rt, "p")
			ops = append(ops, Op{Kind: "remove", Actor: owner, Target: x}, Op{Kind: "add", Actor: owner, Target: x, Perm: p})
			guess[x] = p
		default: // a blind op of any kind
			ops = append(ops, Op{
				Kind:  rapid.SampledFrom(BuilderKinds[:len(BuilderKinds)-1]).Draw(rt, "k"),
				Actor: acct.Draw(rt, "a"), Target: acct.Draw(rt, "t"), T2: acct.Draw(rt, "t2"),
				Perm: perm.Draw(rt, "p"), Ref: rapid.IntRange(-2, 3).Draw(rt, "r"), Flag: rapid.Bool().Draw(rt, "f"),
			})
		}
	}
	return ops
}
