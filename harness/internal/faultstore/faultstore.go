// Package faultstore is engine C of DESIGN.md: an anystore.DB wrapper that turns every
// mutating storage call any-sync makes — WriteTx begin, each Insert / UpsertId / UpsertOne
// / UpdateId / UpdateOne / DeleteId / Query.Delete / Query.Update / EnsureIndex /
// CreateCollection, Commit — into a numbered boundary. At a chosen boundary the harness
// can (a) inject an error (for Commit: the real transaction is rolled back first, then the
// error is returned, as a failed commit does) or (b) take a crash image: the database
// files exactly as the kernel sees them at that moment are copied aside, to be reopened
// later with the real constructors.
//
// The wrapper embeds the any-store interfaces, so their unexported methods are promoted
// and any-store itself is unaware: the real transaction travels in the context.
package faultstore

import (
	"context"
	"errors"
	"fmt"
	"io"
	"os"

	anystore "github.com/anyproto/any-store"
	"github.com/anyproto/any-store/anyenc"
	"github.com/anyproto/any-store/query"
)

// ErrInjected is the error returned at an armed boundary.
var ErrInjected = errors.New("faultstore: injected storage error")

// Boundary describes one mutating call.
type Boundary struct {
	N    int    `json:"n"`    // ordinal since the last Reset (1-based)
	Kind string `json:"kind"` // begin, insert, upsertId, upsertOne, updateId, updateOne, deleteId, queryDelete, queryUpdate, ensureIndex, createCollection, commit, rollback
	Coll string `json:"coll,omitempty"`
	InTx bool   `json:"in_tx"` // inside an explicit write transaction
	Docs int    `json:"docs"`  // documents written so far in the current transaction
}

// DB wraps an anystore.DB.
type DB struct {
	anystore.DB
	path string

	n          int
	log        []Boundary
	failAt     int            // inject ErrInjected at this boundary (0 = never)
	imageAt    int            // take a crash image at this boundary (0 = never)
	imageDst   string         // directory the image is written to
	imageErr   error          // error of the image copy, if any
	imaged     bool           // an image was taken
	inTx       int            // open explicit write transactions
	docs       int            // documents written in the current transaction
	observer   func(Boundary) // optional, called at every boundary
	imageEvery string         // directory: a crash image is taken at every boundary into <dir>/<n>
}

// Wrap wraps db, whose files live at path (needed for crash images).
func Wrap(db anystore.DB, path string) *DB { return &DB{DB: db, path: path} }

// Reset clears counters and disarms faults.
func (d *DB) Reset() {
	d.n, d.log, d.failAt, d.imageAt, d.imageDst, d.imageErr, d.imaged, d.imageEvery = 0, nil, 0, 0, "", nil, false, ""
}

// FailAt arms an injected error at boundary k (counted from the last Reset).
func (d *DB) FailAt(k int) { d.failAt = k }

// ImageAt arms a crash image at boundary k; files are copied into dir.
func (d *DB) ImageAt(k int, dir string) { d.imageAt, d.imageDst = k, dir }

// ImageEvery takes a crash image at every boundary into dir/<n>.
func (d *DB) ImageEvery(dir string) { d.imageEvery = dir }

// Observe registers a callback invoked at every boundary.
func (d *DB) Observe(f func(Boundary)) { d.observer = f }

// Log returns the boundaries crossed since the last Reset.
func (d *DB) Log() []Boundary { return append([]Boundary(nil), d.log...) }

// Imaged reports whether the armed image was taken, and the copy error if any.
func (d *DB) Imaged() (bool, error) { return d.imaged, d.imageErr }

// boundary registers a mutating call; a non-nil result must be returned by the caller
// instead of performing the call.
func (d *DB) boundary(kind, coll string) error {
	d.n++
	b := Boundary{N: d.n, Kind: kind, Coll: coll, InTx: d.inTx > 0, Docs: d.docs}
	d.log = append(d.log, b)
	if d.observer != nil {
		d.observer(b)
	}
	if d.imageEvery != "" {
		if err := CopyDB(d.path, fmt.Sprintf("%s/%d", d.imageEvery, d.n)); err != nil && d.imageErr == nil {
			d.imageErr = err
		}
		d.imaged = true
	}
	if d.imageAt == d.n && d.imageDst != "" {
		d.imageErr = CopyDB(d.path, d.imageDst)
		d.imaged = true
	}
	if d.failAt == d.n {
		return fmt.Errorf("%w (boundary %d: %s %s)", ErrInjected, d.n, kind, coll)
	}
	return nil
}

// CopyDB copies the database file and its -wal / -shm companions into dstDir (same base names).
func CopyDB(path, dstDir string) error {
	if err := os.MkdirAll(dstDir, 0o755); err != nil {
		return err
	}
	base := baseName(path)
	for _, suf := range []string{"", "-wal", "-shm"} {
		src := path + suf
		in, err := os.Open(src)
		if err != nil {
			if os.IsNotExist(err) {
				continue
			}
			return err
		}
		out, err := os.Create(dstDir + "/" + base + suf)
		if err != nil {
			in.Close()
			return err
		}
		_, err = io.Copy(out, in)
		in.Close()
		out.Close()
		if err != nil {
			return err
		}
	}
	return nil
}

func baseName(p string) string {
	for i := len(p) - 1; i >= 0; i-- {
		if p[i] == '/' {
			return p[i+1:]
		}
	}
	return p
}

// ---- DB --------------------------------------------------------------------------------

func (d *DB) CreateCollection(ctx context.Context, name string) (anystore.Collection, error) {
	if err := d.boundary("createCollection", name); err != nil {
		return nil, err
	}
	c, err := d.DB.CreateCollection(ctx, name)
	if err != nil {
		return nil, err
	}
	return &coll{Collection: c, d: d}, nil
}

func (d *DB) OpenCollection(ctx context.Context, name string) (anystore.Collection, error) {
	c, err := d.DB.OpenCollection(ctx, name)
	if err != nil {
		return nil, err
	}
	return &coll{Collection: c, d: d}, nil
}

func (d *DB) Collection(ctx context.Context, name string) (anystore.Collection, error) {
	c, err := d.DB.OpenCollection(ctx, name)
	if err == nil {
		return &coll{Collection: c, d: d}, nil
	}
	if !errors.Is(err, anystore.ErrCollectionNotFound) {
		return nil, err
	}
	return d.CreateCollection(ctx, name)
}

func (d *DB) WriteTx(ctx context.Context) (anystore.WriteTx, error) {
	if err := d.boundary("begin", ""); err != nil {
		return nil, err
	}
	tx, err := d.DB.WriteTx(ctx)
	if err != nil {
		return nil, err
	}
	d.inTx++
	d.docs = 0
	return &wtx{WriteTx: tx, d: d}, nil
}

type wtx struct {
	anystore.WriteTx
	d    *DB
	done bool
}

func (t *wtx) Commit() error {
	if t.done {
		return t.WriteTx.Commit()
	}
	t.done = true
	err := t.d.boundary("commit", "")
	t.d.inTx--
	if err != nil {
		_ = t.WriteTx.Rollback()
		return err
	}
	return t.WriteTx.Commit()
}

func (t *wtx) Rollback() error {
	if !t.done {
		t.done = true
		t.d.inTx--
		t.d.n++
		t.d.log = append(t.d.log, Boundary{N: t.d.n, Kind: "rollback", InTx: true, Docs: t.d.docs})
	}
	return t.WriteTx.Rollback()
}

// ---- Collection ----------------------------------------------------------------------

type coll struct {
	anystore.Collection
	d *DB
}

func (c *coll) Insert(ctx context.Context, docs ...*anyenc.Value) error {
	if err := c.d.boundary("insert", c.Name()); err != nil {
		return err
	}
	err := c.Collection.Insert(ctx, docs...)
	if err == nil {
		c.d.docs += len(docs)
	}
	return err
}

func (c *coll) UpdateOne(ctx context.Context, doc *anyenc.Value) error {
	if err := c.d.boundary("updateOne", c.Name()); err != nil {
		return err
	}
	err := c.Collection.UpdateOne(ctx, doc)
	if err == nil {
		c.d.docs++
	}
	return err
}

func (c *coll) UpdateId(ctx context.Context, id any, mod query.Modifier) (anystore.ModifyResult, error) {
	if err := c.d.boundary("updateId", c.Name()); err != nil {
		return anystore.ModifyResult{}, err
	}
	r, err := c.Collection.UpdateId(ctx, id, mod)
	if err == nil {
		c.d.docs++
	}
	return r, err
}

func (c *coll) UpsertOne(ctx context.Context, doc *anyenc.Value) error {
	if err := c.d.boundary("upsertOne", c.Name()); err != nil {
		return err
	}
	err := c.Collection.UpsertOne(ctx, doc)
	if err == nil {
		c.d.docs++
	}
	return err
}

func (c *coll) UpsertId(ctx context.Context, id any, mod query.Modifier) (anystore.ModifyResult, error) {
	if err := c.d.boundary("upsertId", c.Name()); err != nil {
		return anystore.ModifyResult{}, err
	}
	r, err := c.Collection.UpsertId(ctx, id, mod)
	if err == nil {
		c.d.docs++
	}
	return r, err
}

func (c *coll) DeleteId(ctx context.Context, id any) error {
	if err := c.d.boundary("deleteId", c.Name()); err != nil {
		return err
	}
	err := c.Collection.DeleteId(ctx, id)
	if err == nil {
		c.d.docs++
	}
	return err
}

func (c *coll) EnsureIndex(ctx context.Context, info ...anystore.IndexInfo) error {
	// EnsureIndex on an existing index is a no-op read; it is a boundary all the same
	// because the first call creates the index.
	if err := c.d.boundary("ensureIndex", c.Name()); err != nil {
		return err
	}
	return c.Collection.EnsureIndex(ctx, info...)
}

func (c *coll) CreateIndex(ctx context.Context, info ...anystore.IndexInfo) error {
	if err := c.d.boundary("createIndex", c.Name()); err != nil {
		return err
	}
	return c.Collection.CreateIndex(ctx, info...)
}

func (c *coll) Find(filter any) anystore.Query {
	// any-sync's ACL storage passes a Query object as the filter of a second Find
	// (DESIGN section 4 row 13); hand any-store its own object so behaviour is unchanged
	if q, ok := filter.(*qry); ok {
		filter = q.Query
	}
	return &qry{Query: c.Collection.Find(filter), c: c}
}

func (c *coll) WriteTx(ctx context.Context) (anystore.WriteTx, error) { return c.d.WriteTx(ctx) }

type qry struct {
	anystore.Query
	c *coll
}

func (q *qry) Limit(l uint) anystore.Query  { return &qry{Query: q.Query.Limit(l), c: q.c} }
func (q *qry) Offset(o uint) anystore.Query { return &qry{Query: q.Query.Offset(o), c: q.c} }
func (q *qry) Sort(s ...any) anystore.Query { return &qry{Query: q.Query.Sort(s...), c: q.c} }
func (q *qry) IndexHint(h ...anystore.IndexHint) anystore.Query {
	return &qry{Query: q.Query.IndexHint(h...), c: q.c}
}

func (q *qry) Delete(ctx context.Context) (anystore.ModifyResult, error) {
	if err := q.c.d.boundary("queryDelete", q.c.Name()); err != nil {
		return anystore.ModifyResult{}, err
	}
	r, err := q.Query.Delete(ctx)
	if err == nil {
		q.c.d.docs += r.Modified
	}
	return r, err
}

func (q *qry) Update(ctx context.Context, modifier any) (anystore.ModifyResult, error) {
	if err := q.c.d.boundary("queryUpdate", q.c.Name()); err != nil {
		return anystore.ModifyResult{}, err
	}
	r, err := q.Query.Update(ctx, modifier)
	if err == nil {
		q.c.d.docs += r.Modified
	}
	return r, err
}
