// Package sched is the deterministic schedule driver ("engine E" of DESIGN.md).
//
// A case runs inside one testing/synctest bubble. Every operation of the system under
// test runs in its own goroutine (Ctl.Go); harness-owned callbacks that the property
// names as blocking points call Ctl.Park and stay parked until the controller releases
// them. The controller loop (Ctl.Run) is
//
//	synctest.Wait()            // everything is durably blocked: the state is stable
//	observe                    // the sorted list of choices: start next op | parked gates | pending events
//	act on schedule[k] mod n   // exactly one choice per step
//
// so a schedule is a plain list of integers and a run is a function of (case, schedule)
// up to the interleavings inside the system's own critical sections, which no gate can
// see. Run returns the trace (width and chosen key of every step) so that a caller can
// enumerate all schedules by DFS over schedule prefixes (Explore).
//
// Time: the controller never sleeps while it is stepping, therefore the bubble's fake
// clock stands still during a schedule; Advance moves it explicitly.
//
// History: Ctl.Log appends an event stamped with a logical time (a counter, not the
// clock) and with the operation whose goroutine produced it (goroutine id -> op).
package sched

import (
	"context"
	"fmt"
	"runtime"
	"runtime/debug"
	"sort"
	"strconv"
	"sync"
	"testing/synctest"
	"time"
)

// Event is one entry of the logical-time history.
type Event struct {
	T    int    `json:"t"`    // logical time, strictly increasing
	Op   int    `json:"op"`   // operation whose goroutine produced the event, -1 = controller / unknown
	Kind string `json:"kind"` // free-form, owned by the property package
	Key  string `json:"key,omitempty"`
	N    int    `json:"n,omitempty"`
	Note string `json:"note,omitempty"`
}

func (e Event) String() string {
	return fmt.Sprintf("t%d op%d %s %s n=%d %s", e.T, e.Op, e.Kind, e.Key, e.N, e.Note)
}

// Step is what the controller saw and did at one step.
type Step struct {
	Width  int      `json:"w"`           // number of choices
	Chosen int      `json:"c"`           // index taken
	Key    string   `json:"k"`           // key of the choice taken
	Keys   []string `json:"-"`           // all choices, sorted
	Forced bool     `json:"f,omitempty"` // taken by the drain (schedule exhausted), not by the schedule
}

type gate struct {
	key   string
	seq   int
	op    int
	ch    chan struct{} // closed on release (nil for an event)
	fire  func()        // event action (nil for a gate)
	event bool
}

// OpState is the life cycle of one operation.
type OpState struct {
	Started  bool
	Done     bool
	StartT   int
	DoneT    int
	Panic    any
	PanicStk string
}

// Ctl is the controller of one case. Create it inside the bubble.
type Ctl struct {
	mu     sync.Mutex
	clock  int
	hist   []Event
	parked []*gate
	seq    int
	ops    []OpState
	gids   map[uint64]int
	// FreeRun: gates do not park (stress mode, real goroutines, no bubble needed).
	FreeRun bool
	// Yield is called at gates in FreeRun mode (e.g. runtime.Gosched or a tiny sleep).
	Yield func(key string)
	// Offer (optional) decides at every step whether a pending event is offered as a choice,
	// given the gates parked at that step (e.g. "advance the clock" only while a load is in flight).
	Offer func(event Parked, gates []Parked) bool
}

// New creates a controller for nOps operations.
func New(nOps int) *Ctl {
	return &Ctl{ops: make([]OpState, nOps), gids: map[uint64]int{}}
}

// goid returns the current goroutine's id (test-only attribution of callbacks that carry
// no context, e.g. Object.Close).
func goid() uint64 {
	var buf [64]byte
	n := runtime.Stack(buf[:], false)
	// "goroutine 123 ["
	b := buf[:n]
	const p = len("goroutine ")
	i := p
	for i < len(b) && b[i] >= '0' && b[i] <= '9' {
		i++
	}
	id, _ := strconv.ParseUint(string(b[p:i]), 10, 64)
	return id
}

// CurOp is the operation the calling goroutine belongs to, -1 if none.
func (c *Ctl) CurOp() int {
	g := goid()
	c.mu.Lock()
	defer c.mu.Unlock()
	if op, ok := c.gids[g]; ok {
		return op
	}
	return -1
}

// Log appends an event and returns its logical time.
func (c *Ctl) Log(kind, key string, n int, note string) int {
	g := goid()
	c.mu.Lock()
	defer c.mu.Unlock()
	op, ok := c.gids[g]
	if !ok {
		op = -1
	}
	c.clock++
	c.hist = append(c.hist, Event{T: c.clock, Op: op, Kind: kind, Key: key, N: n, Note: note})
	return c.clock
}

// Now is the current logical time.
func (c *Ctl) Now() int {
	c.mu.Lock()
	defer c.mu.Unlock()
	return c.clock
}

// History returns a copy of the history so far.
func (c *Ctl) History() []Event {
	c.mu.Lock()
	defer c.mu.Unlock()
	return append([]Event(nil), c.hist...)
}

// Ops returns a copy of the operation states.
func (c *Ctl) Ops() []OpState {
	c.mu.Lock()
	defer c.mu.Unlock()
	return append([]OpState(nil), c.ops...)
}

// Go starts operation i in its own goroutine. A panic inside fn is recorded, not propagated.
func (c *Ctl) Go(i int, fn func()) {
	c.markStart(i)
	go c.do(i, fn)
}

// Do runs operation i in the calling goroutine (stress workers running several
// operations one after the other). A panic inside fn is recorded, not propagated.
func (c *Ctl) Do(i int, fn func()) {
	c.markStart(i)
	c.do(i, fn)
}

func (c *Ctl) markStart(i int) {
	c.mu.Lock()
	c.clock++
	c.ops[i].Started = true
	c.ops[i].StartT = c.clock
	c.hist = append(c.hist, Event{T: c.clock, Op: i, Kind: "op-start"})
	c.mu.Unlock()
}

func (c *Ctl) do(i int, fn func()) {
	g := goid()
	c.mu.Lock()
	c.gids[g] = i
	c.mu.Unlock()
	defer func() {
		r := recover()
		c.mu.Lock()
		defer c.mu.Unlock()
		delete(c.gids, g)
		c.clock++
		c.ops[i].Done = true
		c.ops[i].DoneT = c.clock
		if r != nil {
			c.ops[i].Panic = r
			c.ops[i].PanicStk = string(debug.Stack())
			c.hist = append(c.hist, Event{T: c.clock, Op: i, Kind: "op-panic", Note: fmt.Sprint(r)})
		} else {
			c.hist = append(c.hist, Event{T: c.clock, Op: i, Kind: "op-return"})
		}
	}()
	fn()
}

// Park blocks the calling goroutine at a gate until the controller releases it.
// ctx may be nil; with a ctx the gate also opens when ctx is done, and Park reports false.
func (c *Ctl) Park(ctx context.Context, key string) (released bool) {
	if c.FreeRun {
		if c.Yield != nil {
			c.Yield(key)
		}
		if ctx != nil && ctx.Err() != nil {
			return false
		}
		return true
	}
	g := &gate{key: key, ch: make(chan struct{})}
	gid := goid()
	c.mu.Lock()
	g.seq = c.seq
	c.seq++
	if op, ok := c.gids[gid]; ok {
		g.op = op
	} else {
		g.op = -1
	}
	c.parked = append(c.parked, g)
	c.mu.Unlock()
	if ctx == nil {
		<-g.ch
		return true
	}
	select {
	case <-g.ch:
		return true
	case <-ctx.Done():
		c.mu.Lock()
		c.remove(g)
		c.mu.Unlock()
		return false
	}
}

func (c *Ctl) remove(g *gate) {
	for i, p := range c.parked {
		if p == g {
			c.parked = append(c.parked[:i], c.parked[i+1:]...)
			return
		}
	}
}

// Event registers a pending controller-fired action (for instance "cancel the context of
// op 2"). It is offered as a choice until it is fired or withdrawn with the returned func.
func (c *Ctl) Event(key string, op int, fire func()) (withdraw func()) {
	if c.FreeRun {
		return func() {}
	}
	g := &gate{key: key, op: op, fire: fire, event: true}
	c.mu.Lock()
	g.seq = c.seq
	c.seq++
	c.parked = append(c.parked, g)
	c.mu.Unlock()
	return func() {
		c.mu.Lock()
		c.remove(g)
		c.mu.Unlock()
	}
}

// Parked describes one parked gate / pending event.
type Parked struct {
	Key   string
	Op    int
	Event bool
}

// View is what an Observer sees at a step, before the choice is taken.
type View struct {
	Step      int
	Parked    []Parked // sorted as offered
	NextStart int      // index of the op "start next op" would start, -1 if none left
	ChosenKey string
	Ops       []OpState
}

const startKey = "start"

// Run drives the case: nOps operations started in index order by start(i) (which must call
// Ctl.Go), choices taken from schedule (each modulo the number of choices). When the
// schedule is exhausted the drain takes choice 0 (start next op, else the first parked
// gate) until only events remain or nothing is left. observe (may be nil) is called at
// every step with the stable state. maxSteps bounds the run.
func (c *Ctl) Run(start func(i int), schedule []int, observe func(View), maxSteps int) (trace []Step) {
	next := 0
	for step := 0; step < maxSteps; step++ {
		synctest.Wait()
		c.mu.Lock()
		gates := append([]*gate(nil), c.parked...)
		ops := append([]OpState(nil), c.ops...)
		c.mu.Unlock()
		// order: start | gates by key | events by key  (ties by arrival)
		sort.SliceStable(gates, func(i, j int) bool {
			if gates[i].event != gates[j].event {
				return !gates[i].event
			}
			if gates[i].key != gates[j].key {
				return gates[i].key < gates[j].key
			}
			return gates[i].seq < gates[j].seq
		})
		if c.Offer != nil {
			var real []Parked
			for _, g := range gates {
				if !g.event {
					real = append(real, Parked{Key: g.key, Op: g.op})
				}
			}
			kept := gates[:0:0]
			for _, g := range gates {
				if !g.event || c.Offer(Parked{Key: g.key, Op: g.op, Event: true}, real) {
					kept = append(kept, g)
				}
			}
			gates = kept
		}
		var keys []string
		hasStart := next < len(c.ops)
		if hasStart {
			keys = append(keys, startKey)
		}
		nReal := len(keys)
		for _, g := range gates {
			keys = append(keys, g.key)
			if !g.event {
				nReal++
			}
		}
		if len(keys) == 0 {
			return trace
		}
		var pick int
		forced := step >= len(schedule)
		if forced {
			if nReal == 0 {
				return trace // only events left: nothing the drain may do
			}
			pick = 0
		} else {
			pick = schedule[step] % len(keys)
			if pick < 0 {
				pick += len(keys)
			}
		}
		st := Step{Width: len(keys), Chosen: pick, Key: keys[pick], Keys: keys, Forced: forced}
		if observe != nil {
			v := View{Step: step, NextStart: -1, ChosenKey: keys[pick], Ops: ops}
			if hasStart {
				v.NextStart = next
			}
			for _, g := range gates {
				v.Parked = append(v.Parked, Parked{Key: g.key, Op: g.op, Event: g.event})
			}
			observe(v)
		}
		trace = append(trace, st)
		if hasStart && pick == 0 {
			i := next
			next++
			start(i)
			continue
		}
		gi := pick
		if hasStart {
			gi--
		}
		g := gates[gi]
		c.mu.Lock()
		c.remove(g)
		c.clock++
		c.hist = append(c.hist, Event{T: c.clock, Op: -1, Kind: "release", Key: g.key, N: g.op})
		c.mu.Unlock()
		if g.event {
			g.fire()
		} else {
			close(g.ch)
		}
	}
	return trace
}

// ReleaseAll opens every parked gate (not events), repeatedly, until none is parked.
// Used after a run to let everything finish.
func (c *Ctl) ReleaseAll(maxRounds int) {
	for r := 0; r < maxRounds; r++ {
		synctest.Wait()
		c.mu.Lock()
		var open []*gate
		rest := c.parked[:0:0]
		for _, g := range c.parked {
			if g.event {
				rest = append(rest, g)
			} else {
				open = append(open, g)
			}
		}
		c.parked = rest
		c.mu.Unlock()
		if len(open) == 0 {
			return
		}
		for _, g := range open {
			close(g.ch)
		}
	}
}

// Advance moves the bubble's fake clock by d and waits for the consequences to settle.
func (c *Ctl) Advance(d time.Duration) {
	time.Sleep(d)
	synctest.Wait()
}

// Unfinished lists started operations that have not returned.
func (c *Ctl) Unfinished() (out []int) {
	c.mu.Lock()
	defer c.mu.Unlock()
	for i, o := range c.ops {
		if o.Started && !o.Done {
			out = append(out, i)
		}
	}
	return out
}

// Explore enumerates every complete schedule of a case by DFS over schedule prefixes,
// replaying from scratch per schedule: exec(prefix) must run the case with that prefix
// (drain after it) and return the widths of all steps actually taken and whether to go
// on. Each complete schedule is executed exactly once. limit (0 = none) caps the number
// of executions; Explore reports whether the enumeration was complete.
func Explore(exec func(prefix []int) (widths []int, chosen []int, goOn bool), limit int) (runs int, complete bool) {
	type node struct{ prefix []int }
	stack := []node{{nil}}
	for len(stack) > 0 {
		n := stack[len(stack)-1]
		stack = stack[:len(stack)-1]
		if limit > 0 && runs >= limit {
			return runs, false
		}
		widths, chosen, goOn := exec(n.prefix)
		runs++
		if !goOn {
			return runs, false
		}
		// alternatives at every position at or beyond the prefix; pushed in reverse so
		// that shallow deviations are explored last (DFS order) and the stack stays small
		for pos := len(widths) - 1; pos >= len(n.prefix); pos-- {
			for alt := widths[pos] - 1; alt >= 1; alt-- {
				if alt == chosen[pos] {
					continue
				}
				p := make([]int, pos+1)
				copy(p, chosen[:pos])
				p[pos] = alt
				stack = append(stack, node{p})
			}
		}
	}
	return runs, true
}
