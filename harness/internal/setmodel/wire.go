package setmodel

import (
	"context"

	"github.com/anyproto/any-sync/app/ldiff"
	"github.com/anyproto/any-sync/commonspace/headsync"
	"github.com/anyproto/any-sync/commonspace/object/keyvalue"
	"github.com/anyproto/any-sync/commonspace/spacesyncproto"
)

// Wire adapters: the requesting side is the library's own ldiff.Remote implementation
// (headsync.NewRemoteDiff / keyvalue.NewRemoteDiff), the responding side the library's
// own handler (HandleRangeRequest); in between every request and every response is
// really marshalled to protobuf bytes and unmarshalled into a new message.

// HeadSyncWire serves HeadSync requests from index D.
type HeadSyncWire struct{ D ldiff.Diff }

func (w HeadSyncWire) HeadSync(ctx context.Context, in *spacesyncproto.HeadSyncRequest) (*spacesyncproto.HeadSyncResponse, error) {
	raw, err := in.MarshalVT()
	if err != nil {
		return nil, err
	}
	req := &spacesyncproto.HeadSyncRequest{}
	if err = req.UnmarshalVT(raw); err != nil {
		return nil, err
	}
	if req.DiffType != spacesyncproto.DiffType_V3 { // what DiffManager.HandleRangeRequest insists on
		return nil, spacesyncproto.ErrUnexpected
	}
	resp, err := headsync.HandleRangeRequest(ctx, w.D, req)
	if err != nil {
		return nil, err
	}
	if raw, err = resp.MarshalVT(); err != nil {
		return nil, err
	}
	out := &spacesyncproto.HeadSyncResponse{}
	if err = out.UnmarshalVT(raw); err != nil {
		return nil, err
	}
	return out, nil
}

// StoreDiffWire serves key-value StoreDiff requests from index D.
type StoreDiffWire struct{ D ldiff.Diff }

func (w StoreDiffWire) StoreDiff(ctx context.Context, in *spacesyncproto.StoreDiffRequest) (*spacesyncproto.StoreDiffResponse, error) {
	raw, err := in.MarshalVT()
	if err != nil {
		return nil, err
	}
	req := &spacesyncproto.StoreDiffRequest{}
	if err = req.UnmarshalVT(raw); err != nil {
		return nil, err
	}
	resp, err := keyvalue.HandleRangeRequest(ctx, w.D, req)
	if err != nil {
		return nil, err
	}
	if raw, err = resp.MarshalVT(); err != nil {
		return nil, err
	}
	out := &spacesyncproto.StoreDiffResponse{}
	if err = out.UnmarshalVT(raw); err != nil {
		return nil, err
	}
	return out, nil
}

// Transports names the ways one index can reach another.
var Transports = []string{"in-process", "headsync-wire", "keyvalue-wire"}

// RemoteFor returns index d as seen through transport tr (index into Transports).
func RemoteFor(tr int, d ldiff.Diff) ldiff.Remote {
	switch tr {
	case 0:
		return d
	case 1:
		return headsync.NewRemoteDiff("space", HeadSyncWire{d})
	default:
		return keyvalue.NewRemoteDiff("space", StoreDiffWire{d})
	}
}

// HeadSyncRemote is the head-sync requester including its "do we need to sync at all"
// gate (DiffTypeCheck).
func HeadSyncRemote(d ldiff.Diff) headsync.RemoteDiff {
	return headsync.NewRemoteDiff("space", HeadSyncWire{d})
}
