// Package setmodel is the reference model for range-hash head indexes (app/ldiff and the
// key-value index built on it): a plain map id->head, the diff of two such maps as set
// comprehensions, the "fresh index" (a new ldiff filled with the contents in ONE Set
// call), the subdivision of a hash range as both peers must compute it, and an id
// factory that places ids at chosen positions of the hash ring (ids.go, xxh64.go).
//
// Nothing here is derived from the implementation's bookkeeping (counts, dirty sets,
// range tree): only from the statements of C07/C08.
package setmodel

import (
	"math"
	"sort"

	"github.com/anyproto/any-sync/app/ldiff"
)

// Set is the model of an index: id -> head.
type Set map[string]string

func (s Set) Clone() Set {
	c := make(Set, len(s))
	for k, v := range s {
		c[k] = v
	}
	return c
}

func sorted(x []string) []string {
	sort.Strings(x)
	return x
}

// Diff is what local.Diff(remote) must report (each list sorted by id):
// newIds = only remote, changed = both with different heads, removed = only local.
func Diff(local, remote Set) (newIds, changed, removed []string) {
	for id, rh := range remote {
		lh, ok := local[id]
		switch {
		case !ok:
			newIds = append(newIds, id)
		case lh != rh:
			changed = append(changed, id)
		}
	}
	for id := range local {
		if _, ok := remote[id]; !ok {
			removed = append(removed, id)
		}
	}
	return sorted(newIds), sorted(changed), sorted(removed)
}

// CompareDiff is what local.CompareDiff(remote) must report: changed ids split by which
// head is greater (string order): ours = local head greater, theirs = remote head greater.
func CompareDiff(local, remote Set) (newIds, ourChanged, theirChanged, removed []string) {
	newIds, changed, removed := Diff(local, remote)
	for _, id := range changed {
		if remote[id] > local[id] {
			theirChanged = append(theirChanged, id)
		} else {
			ourChanged = append(ourChanged, id)
		}
	}
	return newIds, ourChanged, theirChanged, removed
}

// Elements lists the contents ordered by (hash, id) — the order of the hash ring.
func (s Set) Elements() []ldiff.Element {
	type he struct {
		h uint64
		e ldiff.Element
	}
	tmp := make([]he, 0, len(s))
	for id, head := range s {
		tmp = append(tmp, he{HashOf(id), ldiff.Element{Id: id, Head: head}})
	}
	sort.Slice(tmp, func(i, j int) bool {
		if tmp[i].h != tmp[j].h {
			return tmp[i].h < tmp[j].h
		}
		return tmp[i].e.Id < tmp[j].e.Id
	})
	out := make([]ldiff.Element, len(tmp))
	for i := range tmp {
		out[i] = tmp[i].e
	}
	return out
}

// ElementsByID lists the contents ordered by id (a deterministic order unrelated to the
// ring, used to fill fresh indexes).
func (s Set) ElementsByID() []ldiff.Element {
	ids := make([]string, 0, len(s))
	for id := range s {
		ids = append(ids, id)
	}
	sort.Strings(ids)
	out := make([]ldiff.Element, len(ids))
	for i, id := range ids {
		out[i] = ldiff.Element{Id: id, Head: s[id]}
	}
	return out
}

// Fresh builds the reference index: a new ldiff filled with the contents in one call
// (what DiffManager.FillDiff does at start-up). An empty set makes no call at all.
func Fresh(divideFactor, threshold int, s Set) ldiff.Diff {
	d := ldiff.New(divideFactor, threshold)
	if len(s) > 0 {
		d.Set(s.ElementsByID()...)
	}
	return d
}

// Hashes returns the sorted positions of the ids of s.
func (s Set) Hashes() []uint64 {
	hs := make([]uint64, 0, len(s))
	for id := range s {
		hs = append(hs, HashOf(id))
	}
	sort.Slice(hs, func(i, j int) bool { return hs[i] < hs[j] })
	return hs
}

// CountIn counts the sorted positions lying in [from,to].
func CountIn(sortedHashes []uint64, from, to uint64) int {
	lo := sort.Search(len(sortedHashes), func(i int) bool { return sortedHashes[i] >= from })
	hi := sort.Search(len(sortedHashes), func(i int) bool { return sortedHashes[i] > to })
	return hi - lo
}

// Rng is a closed range of the hash ring.
type Rng struct{ From, To uint64 }

// Top is the whole ring.
var Top = Rng{0, math.MaxUint64}

// Sub splits r into df consecutive closed sub-ranges covering r exactly: the first df-1
// have floor(size/df) positions, the last takes the remainder as well. This is the
// subdivision both peers have to agree on; it is stated here from scratch (size = To-From+1
// may be 2^64, hence the arithmetic on To-From). ok=false if r has fewer than df
// positions (cannot be subdivided into df non-empty parts).
func Sub(r Rng, df int) (subs []Rng, ok bool) {
	d := uint64(df)
	w := r.To - r.From // size-1
	q, rem := w/d, w%d // size = q*d + rem + 1
	per, extra := q, rem+1
	if extra == d {
		per, extra = q+1, 0
	}
	if per == 0 {
		return nil, false
	}
	from := r.From
	for i := 0; i < df; i++ {
		n := per
		if i == df-1 {
			n += extra
		}
		subs = append(subs, Rng{from, from + n - 1})
		from += n
	}
	return subs, true
}

// SubContaining returns the sub-range of r (see Sub) that contains position h.
func SubContaining(r Rng, df int, h uint64) (Rng, bool) {
	subs, ok := Sub(r, df)
	if !ok {
		return Rng{}, false
	}
	for _, s := range subs {
		if h >= s.From && h <= s.To {
			return s, true
		}
	}
	return Rng{}, false
}

// MaxDepth bounds the depth of any subdivision chain starting at Top: every level
// shrinks the size at least by the factor df (up to the remainder), and a range smaller
// than df positions cannot be subdivided.
func MaxDepth(df int) int {
	depth := 0
	r := Top
	for {
		subs, ok := Sub(r, df)
		if !ok {
			return depth
		}
		depth++
		r = subs[len(subs)-1] // the largest part
	}
}

// SplitDepth is the number of ranges on the path of position h that hold more than
// threshold elements of the sorted positions, not counting Top: the depth to which an
// index containing exactly those elements is subdivided around h. leaf is the number of
// elements in the first range on the path holding <= threshold elements.
func SplitDepth(sortedHashes []uint64, df, threshold int, h uint64) (depth, leaf int) {
	r := Top
	for {
		s, ok := SubContaining(r, df, h)
		if !ok {
			return depth, CountIn(sortedHashes, r.From, r.To)
		}
		n := CountIn(sortedHashes, s.From, s.To)
		if n <= threshold {
			return depth, n
		}
		depth++
		r = s
	}
}

// InRemainder reports whether position h lies, at some level of the subdivision by df, in
// the surplus positions that the last sub-range holds beyond the regular part size (the
// "alignment remainder" of a range whose size is not a multiple of df).
func InRemainder(h uint64, df int) bool {
	r := Top
	for {
		subs, ok := Sub(r, df)
		if !ok {
			return false
		}
		last := subs[df-1]
		regular := subs[0].To - subs[0].From // size-1 of a regular part
		if h >= last.From && h-last.From > regular {
			return true
		}
		r, _ = SubContaining(r, df, h)
	}
}

// MinGapDomain is the smallest distance between two positions that the generated domain
// of C07/C08 allows: closer positions (xxhash near-collisions) cannot be separated by a
// subdivision once the enclosing range is narrower than the divide factor.
const MinGapDomain = 1 << 12

// TooClose reports whether two of the sorted positions are closer than MinGapDomain.
func TooClose(sortedHashes []uint64) bool {
	for i := 1; i < len(sortedHashes); i++ {
		if sortedHashes[i]-sortedHashes[i-1] < MinGapDomain {
			return true
		}
	}
	return false
}

// SpacedOut drops every exact-position id of specs that is closer than MinGapDomain to
// an id kept before it, and repeated pool ids (generators call it so that drawn universes
// stay in the domain).
func SpacedOut(specs []IDSpec) []IDSpec {
	var kept []IDSpec
	for _, i := range SpacedOutIdx(specs) {
		kept = append(kept, specs[i])
	}
	return kept
}

// SpacedOutIdx is SpacedOut returning the indexes of the ids kept.
func SpacedOutIdx(specs []IDSpec) []int {
	var kept []int
	var pos []uint64 // sorted positions of kept ids
	for k, sp := range specs {
		h := sp.H
		if !sp.IsExact() {
			h = RankHash(sp.R)
		}
		i := sort.Search(len(pos), func(i int) bool { return pos[i] >= h })
		if i < len(pos) && pos[i] == h && !sp.IsExact() {
			continue // same pool id again
		}
		if sp.IsExact() {
			if i < len(pos) && pos[i]-h < MinGapDomain || i > 0 && h-pos[i-1] < MinGapDomain {
				continue
			}
		}
		pos = append(pos, 0)
		copy(pos[i+1:], pos[i:])
		pos[i] = h
		kept = append(kept, k)
	}
	return kept
}
