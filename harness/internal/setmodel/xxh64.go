package setmodel

import (
	"encoding/binary"
	"math/bits"
)

// Independent implementation of XXH64 (seed 0) — the hash app/ldiff uses to place an
// element (xxhash.Sum64([]byte(id))) — plus its inversion for short inputs: every step of
// the short-input path is a bijection on uint64, so an 8-byte tail can be solved for any
// wanted hash value. The implementation is cross-checked against ldiff itself in the
// package tests (a range [h,h] must return exactly the id whose model hash is h).

const (
	p1 uint64 = 11400714785074694791
	p2 uint64 = 14029467366897019727
	p3 uint64 = 1609587929392839161
	p4 uint64 = 9650029242287828579
	p5 uint64 = 2870177450012600261
)

func xround(acc, in uint64) uint64 {
	acc += in * p2
	acc = bits.RotateLeft64(acc, 31)
	return acc * p1
}

func xmerge(acc, v uint64) uint64 {
	acc ^= xround(0, v)
	return acc*p1 + p4
}

func avalanche(h uint64) uint64 {
	h ^= h >> 33
	h *= p2
	h ^= h >> 29
	h *= p3
	h ^= h >> 32
	return h
}

// XXH64 returns the 64-bit xxHash (seed 0) of b.
func XXH64(b []byte) uint64 {
	n := len(b)
	var h uint64
	if n >= 32 {
		pp1 := p1 // variable: the sums below wrap
		v1, v2, v3, v4 := pp1+p2, p2, uint64(0), -pp1
		for len(b) >= 32 {
			v1 = xround(v1, binary.LittleEndian.Uint64(b[0:8]))
			v2 = xround(v2, binary.LittleEndian.Uint64(b[8:16]))
			v3 = xround(v3, binary.LittleEndian.Uint64(b[16:24]))
			v4 = xround(v4, binary.LittleEndian.Uint64(b[24:32]))
			b = b[32:]
		}
		h = bits.RotateLeft64(v1, 1) + bits.RotateLeft64(v2, 7) + bits.RotateLeft64(v3, 12) + bits.RotateLeft64(v4, 18)
		h = xmerge(h, v1)
		h = xmerge(h, v2)
		h = xmerge(h, v3)
		h = xmerge(h, v4)
	} else {
		h = p5
	}
	h += uint64(n)
	for len(b) >= 8 {
		h ^= xround(0, binary.LittleEndian.Uint64(b))
		h = bits.RotateLeft64(h, 27)*p1 + p4
		b = b[8:]
	}
	if len(b) >= 4 {
		h ^= uint64(binary.LittleEndian.Uint32(b)) * p1
		h = bits.RotateLeft64(h, 23)*p2 + p3
		b = b[4:]
	}
	for _, c := range b {
		h ^= uint64(c) * p5
		h = bits.RotateLeft64(h, 11) * p1
	}
	return avalanche(h)
}

// HashOf is the position ldiff gives to an id.
func HashOf(id string) uint64 { return XXH64([]byte(id)) }

func modInv(a uint64) uint64 { // a odd; Newton iteration mod 2^64
	x := a
	for i := 0; i < 6; i++ {
		x *= 2 - a*x
	}
	return x
}

func unxorshift(y uint64, s uint) uint64 {
	x := y
	for i := 0; i < 64/int(s)+1; i++ {
		x = y ^ (x >> s)
	}
	return x
}

var inv1, inv2, inv3 = modInv(p1), modInv(p2), modInv(p3)

func unavalanche(h uint64) uint64 {
	h = unxorshift(h, 32)
	h *= inv3
	h = unxorshift(h, 29)
	h *= inv2
	h = unxorshift(h, 33)
	return h
}

// solveTail returns the 8-byte lane u such that an input of total length n whose
// accumulator before the last 8-byte lane is acc hashes to want.
func solveTail(acc, want uint64) uint64 {
	x := unavalanche(want)
	x = bits.RotateLeft64((x-p4)*inv1, -27) // = acc ^ round(0,u)
	k := x ^ acc
	return bits.RotateLeft64(k*inv1, -31) * inv2
}

// ExactID returns an id whose XXH64 is exactly hash. pre==0 gives an 8-byte id; pre>0
// gives a 16-byte id that starts with the 8 ASCII bytes "x%07d" of pre, so several
// distinct ids with the same or neighbouring hashes can be made.
func ExactID(hash uint64, pre int) string {
	var buf [16]byte
	if pre <= 0 {
		u := solveTail(p5+8, hash)
		binary.LittleEndian.PutUint64(buf[:8], u)
		return string(buf[:8])
	}
	pfx := []byte("x0000000")
	for i, v := 7, pre; i >= 1 && v > 0; i, v = i-1, v/10 {
		pfx[i] = byte('0' + v%10)
	}
	copy(buf[:8], pfx)
	acc := p5 + 16
	acc ^= xround(0, binary.LittleEndian.Uint64(buf[:8]))
	acc = bits.RotateLeft64(acc, 27)*p1 + p4
	u := solveTail(acc, hash)
	binary.LittleEndian.PutUint64(buf[8:], u)
	return string(buf[:])
}
