package setmodel

import (
	"cmp"
	"slices"
	"sort"
	"strconv"
	"sync"
)

// Id factory.
//
// (1) A brute-forced pool of PoolSize short ASCII ids ("o<n>"), sorted by XXH64. Picking
// ids by *rank* in the sorted pool gives any wanted distribution: neighbouring ranks
// share about log2(PoolSize) leading hash bits, so a handful of them sit in the same
// bucket for many levels of range subdivision (log2(PoolSize)/log2(divideFactor)
// levels), while ranks spread over the pool give the uniform case. The pool is a pure
// function of the code, so a rank is a stable, plain-data name for an id.
//
// (2) Exact ids (xxh64.go): ids solved for a chosen hash value — range borders, the
// extreme values 0 and MaxUint64, the alignment remainder of a subdivision, paths of
// arbitrary depth.

const PoolBits = 19
const PoolSize = 1 << PoolBits

type poolT struct {
	hash []uint64 // sorted
	n    []uint32 // id number for the rank
}

var (
	poolOnce sync.Once
	pool     poolT
)

func poolID(n uint32) string { return "o" + strconv.FormatUint(uint64(n), 36) }

func getPool() *poolT {
	poolOnce.Do(func() {
		type hn struct {
			h uint64
			n uint32
		}
		all := make([]hn, PoolSize)
		buf := make([]byte, 0, 16)
		for i := range all {
			buf = append(buf[:0], 'o')
			buf = strconv.AppendUint(buf, uint64(i), 36)
			all[i] = hn{XXH64(buf), uint32(i)}
		}
		slices.SortFunc(all, func(a, b hn) int {
			if c := cmp.Compare(a.h, b.h); c != 0 {
				return c
			}
			return cmp.Compare(a.n, b.n)
		})
		pool.hash = make([]uint64, PoolSize)
		pool.n = make([]uint32, PoolSize)
		for i, e := range all {
			pool.hash[i], pool.n[i] = e.h, e.n
		}
	})
	return &pool
}

// RankID returns the pool id with the rank-th smallest hash (rank taken mod PoolSize).
func RankID(rank int) string {
	p := getPool()
	return poolID(p.n[mod(rank, PoolSize)])
}

// RankHash returns the hash of RankID(rank).
func RankHash(rank int) uint64 { return getPool().hash[mod(rank, PoolSize)] }

// RanksIn returns the half-open rank interval [lo,hi) of pool ids whose hash lies in
// [from,to] — the brute-force answer to "give me ids in this sub-range".
func RanksIn(from, to uint64) (lo, hi int) {
	p := getPool()
	lo = sort.Search(PoolSize, func(i int) bool { return p.hash[i] >= from })
	hi = sort.Search(PoolSize, func(i int) bool { return p.hash[i] > to })
	return
}

func mod(a, n int) int {
	a %= n
	if a < 0 {
		a += n
	}
	return a
}

// IDSpec names an id as plain data: a pool rank (R>=0) or, for R<0, an exact hash H with
// prefix variant P (see ExactID).
type IDSpec struct {
	R int    `json:"r"`
	H uint64 `json:"h,omitempty"`
	P int    `json:"p,omitempty"`
}

func Rank(r int) IDSpec              { return IDSpec{R: mod(r, PoolSize)} }
func Exact(h uint64, pre int) IDSpec { return IDSpec{R: -1, H: h, P: pre} }
func (s IDSpec) IsExact() bool       { return s.R < 0 }

// ID materialises the id.
func (s IDSpec) ID() string {
	if s.R >= 0 {
		return RankID(s.R)
	}
	return ExactID(s.H, s.P)
}

// Hash is the position of the id (computed, not trusted from the spec).
func (s IDSpec) Hash() uint64 { return HashOf(s.ID()) }
