package setmodel

import (
	"context"
	"math"
	"sort"
	"testing"

	"github.com/anyproto/any-sync/app/ldiff"
)

// Published XXH64 (seed 0) vectors.
func TestXXH64Vectors(t *testing.T) {
	for in, want := range map[string]uint64{
		"":    0xef46db3751d8e999,
		"a":   0xd24ec4f1a98c6e5b,
		"abc": 0x44bc2cf5ad770999,
		"Nobody inspects the spammish repetition": 0xfbcea83c8a378bf1,
	} {
		if got := XXH64([]byte(in)); got != want {
			t.Errorf("XXH64(%q) = %x, want %x", in, got, want)
		}
	}
}

func TestExactID(t *testing.T) {
	for _, h := range []uint64{0, 1, math.MaxUint64, math.MaxUint64 - 1, 1 << 63, 0x123456789abcdef0, 6148914691236517205} {
		for pre := 0; pre < 4; pre++ {
			id := ExactID(h, pre)
			if got := HashOf(id); got != h {
				t.Fatalf("ExactID(%x,%d) hashes to %x", h, pre, got)
			}
		}
	}
	if ExactID(7, 1) == ExactID(7, 2) {
		t.Fatal("prefix variants must differ")
	}
}

// The model hash must be the one ldiff uses: a range [h,h] returns exactly the id.
func TestHashAgreesWithLdiff(t *testing.T) {
	d := ldiff.New(16, 8)
	var ids []string
	for i := 0; i < 300; i++ {
		ids = append(ids, RankID(i*1747))
	}
	ids = append(ids, ExactID(0, 0), ExactID(math.MaxUint64, 0), ExactID(12345, 3), "a-long-identifier-of-more-than-thirty-two-bytes-bafyreib")
	for _, id := range ids {
		d.Set(ldiff.Element{Id: id, Head: "h"})
	}
	for _, id := range ids {
		h := HashOf(id)
		res, err := d.Ranges(context.Background(), []ldiff.Range{{From: h, To: h, Elements: true}}, nil)
		if err != nil || len(res) != 1 || len(res[0].Elements) != 1 || res[0].Elements[0].Id != id {
			t.Fatalf("ldiff does not place %q at %x: %+v %v", id, h, res, err)
		}
	}
}

func TestPoolSortedAndSkewed(t *testing.T) {
	for r := 1; r < PoolSize; r += 997 {
		if RankHash(r-1) > RankHash(r) {
			t.Fatal("pool not sorted")
		}
		if HashOf(RankID(r)) != RankHash(r) {
			t.Fatal("pool hash mismatch")
		}
	}
	lo, hi := RanksIn(1<<62, 1<<63)
	if hi-lo < PoolSize/8 {
		t.Fatalf("RanksIn too small: %d", hi-lo)
	}
	if RankHash(lo) < 1<<62 || RankHash(hi-1) > 1<<63 {
		t.Fatal("RanksIn bounds")
	}
}

func TestSubCoversExactly(t *testing.T) {
	for _, df := range []int{2, 3, 4, 7, 16} {
		r := Top
		for depth := 0; ; depth++ {
			subs, ok := Sub(r, df)
			if !ok {
				if r.To-r.From >= uint64(df)-1 {
					t.Fatalf("df=%d: range of size>=df not subdivided: %+v", df, r)
				}
				break
			}
			if len(subs) != df || subs[0].From != r.From || subs[df-1].To != r.To {
				t.Fatalf("df=%d: bad cover of %+v: %+v", df, r, subs)
			}
			for i := 1; i < df; i++ {
				if subs[i].From != subs[i-1].To+1 || subs[i-1].To < subs[i-1].From {
					t.Fatalf("df=%d: gap/overlap in %+v", df, subs)
				}
			}
			r = subs[(depth*5+1)%df]
		}
		if MaxDepth(df) < 64/8 || MaxDepth(df) > 64 {
			t.Fatalf("MaxDepth(%d) = %d", df, MaxDepth(df))
		}
	}
}

func TestDiffModel(t *testing.T) {
	a := Set{"x": "1", "y": "1", "z": "2"}
	b := Set{"y": "2", "z": "1", "w": "1"}
	n, o, th, r := CompareDiff(a, b)
	if len(n) != 1 || n[0] != "w" || len(o) != 1 || o[0] != "z" || len(th) != 1 || th[0] != "y" || len(r) != 1 || r[0] != "x" {
		t.Fatalf("%v %v %v %v", n, o, th, r)
	}
}

func TestSpacedOut(t *testing.T) {
	in := []IDSpec{Exact(1000, 0), Exact(1001, 0), Exact(1000+MinGapDomain, 0), Rank(5), Rank(5), Exact(RankHash(5)+7, 0), Exact(^uint64(0), 0)}
	out := SpacedOut(in)
	if len(out) != 4 {
		t.Fatalf("kept %v", out)
	}
	var hs []uint64
	for _, sp := range out {
		hs = append(hs, sp.Hash())
	}
	sort.Slice(hs, func(i, j int) bool { return hs[i] < hs[j] })
	if TooClose(hs) {
		t.Fatal("still too close")
	}
	if !InRemainder(^uint64(0), 3) || InRemainder(^uint64(0), 2) || InRemainder(^uint64(0), 16) || !InRemainder(^uint64(0)-1, 7) {
		t.Fatal("InRemainder")
	}
}
